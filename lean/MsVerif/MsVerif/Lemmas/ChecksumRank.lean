/-
GF(2) linear independence of a few `Nat` bit vectors, with a checker that the kernel can run
(`Nat.log2`, `Nat.xor`, `Nat.testBit` are GMP-accelerated) and its soundness proof.
Used by the table of C10 (two-character substitutions).
-/
namespace MsVerif.Checksum.Rank

/-- XOR-combination of the vectors selected by `cs` -/
def comb : List Bool → List Nat → Nat
  | c :: cs, v :: vs => (if c then v else 0) ^^^ comb cs vs
  | _, _ => 0

/-- force `x` to a literal before continuing (the kernel evaluates lazily without sharing) -/
@[inline] def seqNat {α : Sort _} (x : Nat) (k : Nat → α) : α :=
  match x with
  | 0 => k 0
  | n + 1 => k (n + 1)

theorem seqNat_eq {α : Sort _} (x : Nat) (k : Nat → α) : seqNat x k = k x := by
  cases x <;> rfl

/-- clear bit `p` of every vector by adding `v` (which has bit `p` set) -/
def reduce (p v : Nat) : List Nat → List Nat
  | [] => []
  | w :: ws => seqNat (if w.testBit p then w ^^^ v else w) fun w' => w' :: reduce p v ws

theorem reduce_eq (p v : Nat) (ws : List Nat) :
    reduce p v ws = ws.map (fun w => if w.testBit p then w ^^^ v else w) := by
  induction ws with
  | nil => rfl
  | cons w ws ih => simp only [reduce, seqNat_eq, ih, List.map]

/-- Gaussian elimination with the highest set bit as pivot; `fuel` ≥ length -/
def indep : Nat → List Nat → Bool
  | _, [] => true
  | 0, _ :: _ => false
  | fuel + 1, v :: vs => v != 0 && indep fuel (reduce v.log2 v vs)

theorem xor_cancel_left (v x : Nat) : v ^^^ (v ^^^ x) = x := by
  rw [← Nat.xor_assoc, Nat.xor_self, Nat.zero_xor]

theorem xor_cancel_right (v x : Nat) : v ^^^ (x ^^^ v) = x := by
  rw [Nat.xor_comm x v, xor_cancel_left]

theorem xor_pair (w v x : Nat) : (w ^^^ v) ^^^ (x ^^^ v) = w ^^^ x := by
  rw [Nat.xor_assoc, Nat.xor_comm x v, xor_cancel_left]

theorem comb_nil_right (cs : List Bool) : comb cs [] = 0 := by cases cs <;> rfl

/-- the parity with which `v` was added while reducing -/
def parity (p : Nat) : List Bool → List Nat → Bool
  | c :: cs, w :: ws => ((c && w.testBit p) ^^ parity p cs ws)
  | _, _ => false

theorem comb_reduce (p v : Nat) (cs : List Bool) (ws : List Nat) :
    comb cs (ws.map (fun w => if w.testBit p then w ^^^ v else w))
      = comb cs ws ^^^ (if parity p cs ws then v else 0) := by
  induction ws generalizing cs with
  | nil => cases cs <;> simp [comb, parity]
  | cons w ws ih =>
    cases cs with
    | nil => simp [comb, parity]
    | cons c cs =>
      simp only [List.map, comb, parity, ih]
      by_cases hw : w.testBit p = true <;> by_cases hq : parity p cs ws = true <;> cases c <;>
        simp [hw, hq, Nat.xor_assoc, xor_cancel_right] <;> rw [Nat.xor_comm v]

theorem testBit_comb_false (p : Nat) (cs : List Bool) (ws : List Nat)
    (h : ∀ w ∈ ws, w.testBit p = false) : (comb cs ws).testBit p = false := by
  induction ws generalizing cs with
  | nil => cases cs <;> simp [comb]
  | cons w ws ih =>
    cases cs with
    | nil => simp [comb]
    | cons c cs =>
      simp only [comb, Nat.testBit_xor]
      rw [ih cs (fun x hx => h x (List.mem_cons_of_mem _ hx))]
      cases c
      · simp
      · simp [h w List.mem_cons_self]

theorem indep_sound : ∀ (fuel : Nat) (vs : List Nat), indep fuel vs = true →
    ∀ cs : List Bool, cs.length = vs.length → comb cs vs = 0 → ∀ c ∈ cs, c = false := by
  intro fuel
  induction fuel with
  | zero =>
    intro vs h cs hl _ c hc
    cases vs with
    | nil => cases cs with
      | nil => cases hc
      | cons _ _ => simp at hl
    | cons _ _ => simp [indep] at h
  | succ fuel ih =>
    intro vs h cs hl hz c hc
    cases vs with
    | nil => cases cs with
      | nil => cases hc
      | cons _ _ => simp at hl
    | cons v vs =>
      cases cs with
      | nil => cases hc
      | cons c0 cs =>
        simp only [indep, Bool.and_eq_true, bne_iff_ne, ne_eq] at h
        obtain ⟨hv, hi⟩ := h
        rw [reduce_eq] at hi
        have hl' : cs.length = (vs.map (fun w => if w.testBit v.log2 then w ^^^ v else w)).length := by
          simp only [List.length_cons] at hl; simp; omega
        have hp : v.testBit v.log2 = true := Nat.testBit_log2 hv
        -- rewrite the combination over the reduced vectors
        have key : comb (c0 :: cs) (v :: vs)
            = (if (c0 ^^ parity v.log2 cs vs) then v else 0)
              ^^^ comb cs (vs.map (fun w => if w.testBit v.log2 then w ^^^ v else w)) := by
          rw [comb_reduce]
          simp only [comb]
          by_cases hq : parity v.log2 cs vs = true <;> cases c0 <;> simp [hq, xor_cancel_right] <;>
            exact Nat.xor_comm _ _
        rw [key] at hz
        have hred : ∀ w ∈ vs.map (fun w => if w.testBit v.log2 then w ^^^ v else w),
            w.testBit v.log2 = false := by
          intro w hw
          obtain ⟨w0, _, rfl⟩ := List.mem_map.mp hw
          cases h0 : w0.testBit v.log2
          · simp [h0]
          · simp [h0, Nat.testBit_xor, hp]
        have hbit := congrArg (fun x => x.testBit v.log2) hz
        simp only [Nat.testBit_xor, testBit_comb_false _ _ _ hred, Nat.zero_testBit,
          Bool.xor_false] at hbit
        have hc0 : (c0 ^^ parity v.log2 cs vs) = false := by
          cases hh : (c0 ^^ parity v.log2 cs vs)
          · rfl
          · rw [hh] at hbit; simp [hp] at hbit
        rw [hc0] at hz
        simp only [Bool.false_eq_true, if_false, Nat.zero_xor] at hz
        have hcs := ih _ hi cs hl' hz
        have hpar : parity v.log2 cs vs = false := by
          clear hz hi key hred hbit hc0 hl' hl
          have gen : ∀ (ds : List Bool) (ws : List Nat), (∀ d ∈ ds, d = false) →
              parity v.log2 ds ws = false := by
            intro ds
            induction ds with
            | nil => intro ws _; cases ws <;> rfl
            | cons d ds ihd =>
              intro ws hd
              cases ws with
              | nil => rfl
              | cons w ws =>
                simp only [parity]
                rw [hd d List.mem_cons_self, ihd ws (fun x hx => hd x (List.mem_cons_of_mem _ hx))]
                rfl
          exact gen cs vs hcs
        rcases List.mem_cons.mp hc with e | e
        · rw [e]; rw [hpar] at hc0; simpa using hc0
        · exact hcs c e

end MsVerif.Checksum.Rank

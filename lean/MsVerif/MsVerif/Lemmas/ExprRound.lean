/-
Bounded-exhaustive instances of the expression-grammar round trip, for `decide +kernel`.
-/
import MsVerif.Model.Expr

namespace MsVerif.Expr

/-- all child lists of length 1..2 over `ts` -/
def childLists (ts : List Tree) : List (List Tree) :=
  ts.map (fun t => [t]) ++ ts.flatMap (fun a => ts.map (fun b => [a, b]))

/-- all trees of depth ≤ d with leaves "" / "a:b", inner nodes `(…)` (empty name) / `a{…}`,
1–2 children -/
def smallTrees : Nat → List Tree
  | 0 => [.node [] .none [], .node ['a', ':', 'b'] .none []]
  | d + 1 =>
    let sub := smallTrees d
    smallTrees 0 ++
      (childLists sub).flatMap fun cs => [.node [] .round cs, .node ['a'] .curly cs]

def leaf (s : String) : Tree := .node s.toList .none []
def rnd (s : String) (cs : List Tree) : Tree := .node s.toList .round cs
def crl (s : String) (cs : List Tree) : Tree := .node s.toList .curly cs

/-- descriptor-shaped samples (nested round and curly children, wrappers, empty names) -/
def sampleTrees : List Tree := smallTrees 1 ++ [
  rnd "wsh" [rnd "or_d" [rnd "pk" [leaf "A"], rnd "and_v" [rnd "v:pkh" [leaf "B"], rnd "older" [leaf "144"]]]],
  rnd "tr" [leaf "K", crl "" [rnd "pk" [leaf "A"], crl "" [rnd "pk" [leaf "B"], rnd "multi_a" [leaf "2", leaf "C", leaf "D"]]]],
  rnd "sh" [rnd "multi" [leaf "2", leaf "[00000000/111'/222]xpub/0", leaf "xpub/<0;1>/*"]],
  rnd "thresh" [leaf "3", rnd "" [leaf ""], rnd "s:pk" [leaf ""], crl "a" [crl "" [leaf "", leaf ""]]],
  rnd "a" [rnd "b" [rnd "c" [rnd "d" [rnd "e" [crl "f" [leaf "g", leaf "h", leaf "i", leaf "j"]]]]]]]

/-- `Tree::from_str (print t)` succeeds and decodes to `t` again -/
def roundtripOk (t : Tree) : Bool :=
  match fromStrInner t.print with
  | .ok nodes =>
    match toTree nodes with
    | some t' => Tree.beq t t'
    | none => false
  | .error _ => false

end MsVerif.Expr

/-
Lemmas about pass 2 of the expression parser (the builder of `from_str_inner`): the joint
invariant with pass 1 under which no panic site is reachable.
-/
import MsVerif.Lemmas.ExprPre

namespace MsVerif.Expr

def curN (st : BSt) : Nat := if st.current.isSome then 1 else 0

theorem growCap_lt {cap len : Nat} (h : len < cap) : growCap cap len = cap := by
  simp [growCap, h]

/-- every stacked parent exists, and its `last_child_idx` points below `bound` -/
def StackOk (nodes : Array Node) (stack : List Nat) (bound : Nat) : Prop :=
  ∀ p ∈ stack, ∃ nd, nodes[p]? = some nd ∧ ∀ l, nd.lastChildIdx = some l → l < bound

theorem StackOk.lt {nodes : Array Node} {stack : List Nat} {b : Nat} (h : StackOk nodes stack b)
    {p : Nat} (hp : p ∈ stack) : p < nodes.size := by
  obtain ⟨nd, hnd, _⟩ := h p hp
  exact (Array.getElem?_eq_some_iff.mp hnd).1

theorem StackOk.mono {nodes : Array Node} {stack : List Nat} {b b' : Nat}
    (h : StackOk nodes stack b) (hb : b ≤ b') : StackOk nodes stack b' := by
  intro p hp
  obtain ⟨nd, hnd, hl⟩ := h p hp
  exact ⟨nd, hnd, fun l e => Nat.lt_of_lt_of_le (hl l e) hb⟩

theorem StackOk.push {nodes : Array Node} {stack : List Nat} {b : Nat}
    (h : StackOk nodes stack b) (n : Node) : StackOk (nodes.push n) stack b := by
  intro p hp
  obtain ⟨nd, hnd, hl⟩ := h p hp
  have : p < nodes.size := h.lt hp
  refine ⟨nd, ?_, hl⟩
  rw [Array.getElem?_push]
  have : p ≠ nodes.size := by omega
  simp [this, hnd]

theorem StackOk.tail {nodes : Array Node} {stack : List Nat} {b : Nat}
    (h : StackOk nodes stack b) : StackOk nodes stack.tail b :=
  fun p hp => h p (List.mem_of_mem_tail hp)

/-! ## depth of a node in the flat table (number of `parent_idx` links up to the root) -/

inductive HasDepth (nodes : Array Node) : Nat → Nat → Prop
  | root {i : Nat} {nd : Node} : nodes[i]? = some nd → nd.parentIdx = none → HasDepth nodes i 0
  | child {i p d : Nat} {nd : Node} : nodes[i]? = some nd → nd.parentIdx = some p →
      HasDepth nodes p d → HasDepth nodes i (d + 1)

/-- `b` keeps every node of `a` at its index with the same parent link -/
def Ext (a b : Array Node) : Prop :=
  ∀ (i : Nat) (nd : Node), a[i]? = some nd → ∃ nd' : Node, b[i]? = some nd' ∧ nd'.parentIdx = nd.parentIdx

theorem Ext.refl (a : Array Node) : Ext a a := fun _ nd h => ⟨nd, h, rfl⟩

theorem Ext.trans {a b c : Array Node} (h1 : Ext a b) (h2 : Ext b c) : Ext a c := by
  intro i nd h
  obtain ⟨nd', h', e'⟩ := h1 i nd h
  obtain ⟨nd'', h'', e''⟩ := h2 i nd' h'
  exact ⟨nd'', h'', e''.trans e'⟩

theorem Ext.push (a : Array Node) (n : Node) : Ext a (a.push n) := by
  intro i nd h
  have hi : i < a.size := (Array.getElem?_eq_some_iff.mp h).1
  refine ⟨nd, ?_, rfl⟩
  rw [Array.getElem?_push]
  have : i ≠ a.size := by omega
  simp [this, h]

theorem Ext.modify (a : Array Node) (j : Nat) (f : Node → Node)
    (hf : ∀ n, (f n).parentIdx = n.parentIdx) : Ext a (a.modify j f) := by
  intro i nd h
  rw [Array.getElem?_modify]
  by_cases e : j = i
  · simp only [e, if_true, h, Option.map]; exact ⟨_, rfl, hf nd⟩
  · simp only [e, if_false]; exact ⟨nd, h, rfl⟩

theorem HasDepth.ext {a b : Array Node} (h : Ext a b) {i d : Nat} (hd : HasDepth a i d) :
    HasDepth b i d := by
  induction hd with
  | root hn hp =>
    obtain ⟨nd', h', e'⟩ := h _ _ hn
    exact .root h' (e'.trans hp)
  | child hn hp _ ih =>
    obtain ⟨nd', h', e'⟩ := h _ _ hn
    exact .child h' (e'.trans hp) ih

/-- the parent stack is a chain of ancestors: its top has depth `length - 1`, … -/
def Chain (nodes : Array Node) : List Nat → Prop
  | [] => True
  | p :: rest => HasDepth nodes p rest.length ∧ Chain nodes rest

theorem Chain.ext {a b : Array Node} (h : Ext a b) : ∀ {stack : List Nat}, Chain a stack → Chain b stack
  | [], _ => trivial
  | _ :: _, ⟨h1, h2⟩ => ⟨h1.ext h, Chain.ext h h2⟩

theorem Chain.tail {a : Array Node} {stack : List Nat} (h : Chain a stack) : Chain a stack.tail := by
  cases stack with
  | nil => trivial
  | cons p rest => exact h.2

/-- a node whose parent link is the top of the stack, pushed at the end, has depth = stack height -/
theorem pushed_depth {nodes : Array Node} {stack : List Nat} (hc : Chain nodes stack) (n : Node)
    (hp : n.parentIdx = stack.head?) : HasDepth (nodes.push n) nodes.size stack.length := by
  have hget : (nodes.push n)[nodes.size]? = some n := by simp
  cases stack with
  | nil => exact .root hget hp
  | cons p rest => exact .child hget hp (hc.1.ext (Ext.push _ _))

structure DepthInv (D : Nat) (bst : BSt) : Prop where
  chain : Chain bst.nodes bst.stack
  curpar : ∀ c, bst.current = some c → c.parentIdx = bst.stack.head?
  alld : ∀ i, i < bst.nodes.size → ∃ d, d ≤ D ∧ HasDepth bst.nodes i d
  sdepth : bst.stack.length ≤ D

theorem alld_ext {D : Nat} {a b : Array Node} (h : Ext a b) (hs : b.size = a.size)
    (ha : ∀ i, i < a.size → ∃ d, d ≤ D ∧ HasDepth a i d) :
    ∀ i, i < b.size → ∃ d, d ≤ D ∧ HasDepth b i d := by
  intro i hi
  obtain ⟨d, hd, hh⟩ := ha i (by omega)
  exact ⟨d, hd, hh.ext h⟩

theorem alld_push {D : Nat} {nodes : Array Node} {stack : List Nat} (n : Node)
    (hc : Chain nodes stack) (hp : n.parentIdx = stack.head?) (hs : stack.length ≤ D)
    (ha : ∀ i, i < nodes.size → ∃ d, d ≤ D ∧ HasDepth nodes i d) :
    ∀ i, i < (nodes.push n).size → ∃ d, d ≤ D ∧ HasDepth (nodes.push n) i d := by
  intro i hi
  rw [Array.size_push] at hi
  by_cases e : i = nodes.size
  · subst e; exact ⟨_, hs, pushed_depth hc n hp⟩
  · obtain ⟨d, hd, hh⟩ := ha i (by omega)
    exact ⟨d, hd, hh.ext (Ext.push _ _)⟩

/-- `flushCurrent` cannot panic when the pending name starts at or before `pos` -/
theorem flushCurrent_ok {s : Array Char} {pos : Nat} {st : BSt}
    (hpos : pos ≤ s.size) (hname : ∀ c, st.current = some c → c.namePos ≤ pos)
    (hcap : curN st = 1 → st.nodes.size < st.nodesCap) :
    ∃ st1, flushCurrent s pos st = .ok st1 ∧ st1.nodes.size = st.nodes.size + curN st ∧
      st1.nodesCap = st.nodesCap ∧ st1.stack = st.stack ∧ st1.stackCap = st.stackCap ∧
      (∀ b, StackOk st.nodes st.stack b → StackOk st1.nodes st.stack b) ∧
      (∀ D, DepthInv D st → Chain st1.nodes st.stack ∧
        ∀ i, i < st1.nodes.size → ∃ d, d ≤ D ∧ HasDepth st1.nodes i d) := by
  unfold flushCurrent
  cases hc : st.current with
  | none =>
    refine ⟨st, rfl, ?_, rfl, rfl, rfl, fun _ h => h, fun D h => ⟨h.chain, h.alld⟩⟩
    simp [curN, hc]
  | some cur =>
    have h1 := hname cur hc
    have hs : slice s cur.namePos pos = some (s.extract cur.namePos pos).toList := by
      simp [slice, h1, hpos]
    simp only [hs]
    have hcn : curN st = 1 := by simp [curN, hc]
    refine ⟨_, rfl, ?_, ?_, rfl, rfl, ?_, ?_⟩
    · simp [BSt.pushNode, hcn]
    · simp [BSt.pushNode, growCap_lt (hcap hcn)]
    · intro b h; exact h.push _
    · intro D h
      have hp : ({ cur with name := (s.extract cur.namePos pos).toList } : Node).parentIdx
          = st.stack.head? := h.curpar cur hc
      exact ⟨h.chain.ext (Ext.push _ _), alld_push _ h.chain hp h.sdepth h.alld⟩

/-- `new_node` cannot panic when the top of the parent stack is a valid index -/
theorem newNode_ok {nodes : Array Node} {stack : List Nat} {pos b : Nat}
    (h : StackOk nodes stack b) :
    ∃ nodes' nn, newNode nodes stack pos = .ok (nodes', nn) ∧ nodes'.size = nodes.size ∧
      nn.namePos = pos ∧ nn.lastChildIdx = none ∧
      StackOk nodes' stack (max b (nodes.size + 1)) ∧ Ext nodes nodes' ∧
      nn.parentIdx = stack.head? := by
  unfold newNode
  cases hh : stack.head? with
  | none =>
    refine ⟨nodes, _, rfl, rfl, rfl, rfl, h.mono (Nat.le_max_left _ _), Ext.refl _, ?_⟩
    simp [Node.null]
  | some idx =>
    have hmem : idx ∈ stack := List.mem_of_head? hh
    have hlt : idx < nodes.size := h.lt hmem
    simp only [hlt, if_true]
    refine ⟨_, _, rfl, Array.size_modify, rfl, rfl, ?_, Ext.modify _ _ _ (fun _ => rfl), by simp⟩
    intro p hp
    obtain ⟨nd, hnd, hl⟩ := h p hp
    rw [Array.getElem?_modify]
    by_cases e : idx = p
    · simp only [e, if_true, hnd, Option.map]
      refine ⟨_, rfl, ?_⟩
      intro l hl'
      simp only [Option.some.injEq] at hl'
      omega
    · simp only [e, if_false]
      exact ⟨nd, hnd, fun l e' => Nat.lt_of_lt_of_le (hl l e') (Nat.le_max_left _ _)⟩

/-- the joint invariant of the two passes at the same string position -/
structure Rel (N D : Nat) (pst : PreSt) (bst : BSt) (pos : Nat) (rest : List Char) : Prop where
  depth : bst.stack.length = pst.stack.length
  count : bst.nodes.size + curN bst = pst.nNodes + pst.stack.length
  name : ∀ c, bst.current = some c → c.namePos ≤ pos
  fresh : ∀ c, bst.current = some c → c.lastChildIdx = none
  look : bst.current = none → ∀ ch, rest.head? = some ch → isSep ch
  stack : StackOk bst.nodes bst.stack (bst.nodes.size + curN bst)
  dmax : pst.stack.length ≤ pst.maxDepth
  ncap : bst.nodesCap = N
  scap : bst.stackCap = D
  dle : pst.maxDepth ≤ D
  dinv : DepthInv D bst

theorem buildStep_open {N D len : Nat} {s : Array Char} {pst pst' : PreSt} {bst : BSt} {pos : Nat}
    {ch : Char} {tail : List Char} (hs : s.size = len) (hlen : len = pos + (ch :: tail).length)
    (r : Rel N D pst bst pos (ch :: tail)) (hp : preStep len pst pos ch tail = .ok pst')
    (hN : pst'.phi ≤ N) (hD : pst'.maxDepth ≤ D) (ho : isOpen ch) :
    ∃ bst', buildStep s bst pos ch = .ok bst' ∧ Rel N D pst' bst' (pos + 1) tail := by
  have hpos : pos ≤ s.size := by rw [hs, hlen]; simp
  have hmono := preStep_mono hp r.dmax
  have hp' := preStep_open ho hp
  cases hc : bst.current with
  | none =>
    have := r.look hc ch rfl
    exact absurd ho (isSep_not_open this)
  | some cur =>
    have hcn : curN bst = 1 := by simp [curN, hc]
    have h1 := r.name cur hc
    have hsl : slice s cur.namePos pos = some (s.extract cur.namePos pos).toList := by
      simp [slice, h1, hpos]
    have hcount := r.count
    have hphi : pst'.phi = pst.nNodes + pst.stack.length + 1 := by
      rw [hp']; simp [PreSt.phi]; omega
    have hsz : bst.nodes.size + 1 < N := by rw [hcn] at hcount; omega
    have hdep : bst.stack.length < D := by
      have : pst'.stack.length = pst.stack.length + 1 := by rw [hp']; simp
      have := hmono.2.2
      have := r.depth
      omega
    obtain ⟨cur', hcur'⟩ : ∃ c : Node, c = { cur with
        name := (s.extract cur.namePos pos).toList,
        parens := (if ch = '(' then Parens.round else Parens.curly) } := ⟨_, rfl⟩
    have hfr : cur'.lastChildIdx = none := by rw [hcur']; exact r.fresh cur hc
    have hso : StackOk (bst.nodes.push cur') (bst.nodes.size :: bst.stack) (bst.nodes.size + 1) := by
      intro p hp
      rcases List.mem_cons.mp hp with e | hm
      · subst e
        refine ⟨cur', by simp, ?_⟩
        intro l hl; rw [hfr] at hl; cases hl
      · have := (r.stack.push cur') p hm
        rw [hcn] at this
        exact this
    obtain ⟨nodes', nn, hnn, hsz', hnp, hfresh, hso', hext, hpar⟩ := newNode_ok (pos := pos + 1) hso
    refine ⟨{ nodes := nodes', nodesCap := bst.nodesCap, stack := bst.nodes.size :: bst.stack,
              stackCap := bst.stackCap, current := some nn }, ?_, ?_⟩
    · unfold buildStep
      unfold isOpen at ho
      simp only [ho, if_true, hc, hsl, ← hcur', BSt.pushNode, hnn,
        growCap_lt (show bst.nodes.size < bst.nodesCap by rw [r.ncap]; omega),
        growCap_lt (show bst.stack.length < bst.stackCap by rw [r.scap]; exact hdep)]
      rfl
    · have hsize : nodes'.size = bst.nodes.size + 1 := by rw [hsz']; simp
      constructor
      · show (bst.nodes.size :: bst.stack).length = pst'.stack.length
        rw [hp']; simp [r.depth]
      · show nodes'.size + 1 = _
        rw [hp', hsize]; simp only [List.length_cons]; rw [hcn] at hcount; omega
      · intro c e; simp only [Option.some.injEq] at e; rw [← e, hnp]; exact Nat.le_refl _
      · intro c e; simp only [Option.some.injEq] at e; rw [← e]; exact hfresh
      · intro e; simp at e
      · show StackOk nodes' (bst.nodes.size :: bst.stack) (nodes'.size + 1)
        rw [hsize]
        apply hso'.mono
        simp
      · exact hmono.2.2
      · exact r.ncap
      · exact r.scap
      · exact hD
      · have hcp : cur'.parentIdx = bst.stack.head? := by rw [hcur']; exact r.dinv.curpar cur hc
        have hdep' : bst.stack.length + 1 ≤ D := by omega
        have hch1 : Chain (bst.nodes.push cur') (bst.nodes.size :: bst.stack) :=
          ⟨pushed_depth r.dinv.chain cur' hcp, r.dinv.chain.ext (Ext.push _ _)⟩
        have hall1 := alld_push cur' r.dinv.chain hcp r.dinv.sdepth r.dinv.alld
        exact { chain := hch1.ext hext
                curpar := fun c e => by
                  simp only [Option.some.injEq] at e; rw [← e, hpar]
                alld := alld_ext hext hsz' hall1
                sdepth := by simp only [List.length_cons]; exact hdep' }

theorem StackOk.linkSib {nodes : Array Node} {stack : List Nat} {b : Nat}
    (h : StackOk nodes stack b) (i v : Nat) :
    StackOk (nodes.modify i (fun p => { p with rightSiblingIdx := some v })) stack b := by
  intro p hp
  obtain ⟨nd, hnd, hl⟩ := h p hp
  rw [Array.getElem?_modify]
  by_cases e : i = p
  · simp only [e, if_true, hnd, Option.map]
    exact ⟨_, rfl, hl⟩
  · simp only [e, if_false]; exact ⟨nd, hnd, hl⟩

theorem buildStep_comma {N D len : Nat} {s : Array Char} {pst pst' : PreSt} {bst : BSt} {pos : Nat}
    {tail : List Char} (hs : s.size = len) (hlen : len = pos + (',' :: tail).length)
    (r : Rel N D pst bst pos (',' :: tail)) (hp : preStep len pst pos ',' tail = .ok pst')
    (hN : pst'.phi ≤ N) :
    ∃ bst', buildStep s bst pos ',' = .ok bst' ∧ Rel N D pst' bst' (pos + 1) tail := by
  have hpos : pos ≤ s.size := by rw [hs, hlen]; simp
  obtain ⟨hne, hp'⟩ := preStep_comma hp
  have hcount := r.count
  have hphi : pst'.phi = pst.nNodes + pst.stack.length + 1 := by
    rw [hp']; simp [PreSt.phi]; omega
  obtain ⟨st1, hf, hsz1, hcap1, hst1, hscap1, hso1, hdep1⟩ := flushCurrent_ok (s := s) (st := bst) hpos r.name
    (by intro h1; rw [r.ncap]; omega)
  have hso : StackOk st1.nodes st1.stack st1.nodes.size := by
    rw [hst1, hsz1]; exact hso1 _ r.stack
  -- the parent stack is not empty
  have hlen' : bst.stack.length ≠ 0 := by
    rw [r.depth]; intro e; exact hne (List.eq_nil_of_length_eq_zero e)
  obtain ⟨top, rest, hstk⟩ : ∃ t r, st1.stack = t :: r := by
    rw [hst1]; cases hb : bst.stack with
    | nil => rw [hb] at hlen'; exact absurd rfl hlen'
    | cons t r => exact ⟨t, r, rfl⟩
  obtain ⟨nd, hnd, hl⟩ := hso top (by rw [hstk]; exact List.mem_cons_self)
  have hls : lastSibOf st1.nodes st1.stack = .ok nd.lastChildIdx := by
    simp [lastSibOf, hstk, hnd, pure, Except.pure]
  obtain ⟨nodes1, hlk, hsz2, hso2, hext1⟩ : ∃ nodes1, linkSibling st1.nodes nd.lastChildIdx = .ok nodes1 ∧
      nodes1.size = st1.nodes.size ∧ StackOk nodes1 st1.stack st1.nodes.size ∧
      Ext st1.nodes nodes1 := by
    unfold linkSibling
    cases hlc : nd.lastChildIdx with
    | none => exact ⟨st1.nodes, rfl, rfl, hso, Ext.refl _⟩
    | some i =>
      have := hl i hlc
      simp only [this, if_true]
      exact ⟨_, rfl, Array.size_modify, hso.linkSib _ _, Ext.modify _ _ _ (fun _ => rfl)⟩
  obtain ⟨nodes', nn, hnn, hsz', hnp, hfresh, hso', hext2, hpar⟩ := newNode_ok (pos := pos + 1) hso2
  refine ⟨{ st1 with nodes := nodes', current := some nn }, ?_, ?_⟩
  · unfold buildStep
    have h1 : ¬ (',' = '(' ∨ ',' = '{') := by decide
    simp only [h1, if_false, if_true, hf, hls, hlk, hnn]
    rfl
  · have hsize : nodes'.size = bst.nodes.size + curN bst := by rw [hsz', hsz2, hsz1]
    constructor
    · show st1.stack.length = pst'.stack.length
      rw [hst1, hp']; exact r.depth
    · show nodes'.size + 1 = _
      rw [hp', hsize]; simp only; omega
    · intro c e; simp only [Option.some.injEq] at e; rw [← e, hnp]; exact Nat.le_refl _
    · intro c e; simp only [Option.some.injEq] at e; rw [← e]; exact hfresh
    · intro e; simp at e
    · show StackOk nodes' st1.stack (nodes'.size + 1)
      apply hso'.mono
      rw [hsz2, hsz', hsz2]; simp
    · rw [hp']; exact r.dmax
    · show st1.nodesCap = N; rw [hcap1]; exact r.ncap
    · show st1.stackCap = D; rw [hscap1]; exact r.scap
    · rw [hp']; exact r.dle
    · obtain ⟨hch, hall⟩ := hdep1 D r.dinv
      have hext := hext1.trans hext2
      exact { chain := by show Chain nodes' st1.stack; rw [hst1]; exact hch.ext hext
              curpar := fun c e => by
                simp only [Option.some.injEq] at e; rw [← e, hpar]
              alld := alld_ext hext (by rw [hsz', hsz2]) hall
              sdepth := by show st1.stack.length ≤ D; rw [hst1]; exact r.dinv.sdepth }

theorem buildStep_close {N D len : Nat} {s : Array Char} {pst pst' : PreSt} {bst : BSt} {pos : Nat}
    {ch : Char} {tail : List Char} (hs : s.size = len) (hlen : len = pos + (ch :: tail).length)
    (r : Rel N D pst bst pos (ch :: tail)) (hp : preStep len pst pos ch tail = .ok pst')
    (hN : pst'.phi ≤ N) (hcl : isClose ch) :
    ∃ bst', buildStep s bst pos ch = .ok bst' ∧ Rel N D pst' bst' (pos + 1) tail := by
  have hpos : pos ≤ s.size := by rw [hs, hlen]; simp
  obtain ⟨o, rest, hstk, hp', hlook, hlast⟩ := preStep_close hcl hp
  have hcount := r.count
  have hphi : pst'.phi = pst.nNodes + pst.stack.length := by
    rw [hp']; simp only [PreSt.phi]; rw [hstk]; simp only [List.length_cons]; omega
  obtain ⟨st1, hf, hsz1, hcap1, hst1, hscap1, hso1, hdep1⟩ := flushCurrent_ok (s := s) (st := bst) hpos r.name
    (by intro h1; rw [r.ncap]; omega)
  refine ⟨{ st1 with current := none, stack := st1.stack.tail }, ?_, ?_⟩
  · unfold buildStep
    have h1 : ¬ (ch = '(' ∨ ch = '{') := fun h => open_not_close h hcl
    have h2 : ch ≠ ',' := by
      unfold isClose at hcl; rcases hcl with h | h <;> rw [h] <;> decide
    unfold isClose at hcl
    simp only [h1, h2, hcl, if_false, if_true, hf]
    rfl
  · have hd := r.depth
    rw [hstk] at hd hcount
    simp only [List.length_cons] at hd hcount
    constructor
    · show st1.stack.tail.length = pst'.stack.length
      rw [hst1, hp']; simp only [List.length_tail]; omega
    · show st1.nodes.size + 0 = _
      rw [hp', hsz1]; simp only; omega
    · intro c e; cases e
    · intro c e; cases e
    · intro _ c hc
      by_cases hr : rest = []
      · -- last paren: this was the last character
        have := hlast hr
        simp only [List.length_cons] at hlen
        have : tail.length = 0 := by omega
        have : tail = [] := List.eq_nil_of_length_eq_zero this
        rw [this] at hc; cases hc
      · obtain ⟨nb, hnb, hsep⟩ := hlook hr
        rw [hnb] at hc; cases hc; exact hsep
    · show StackOk st1.nodes st1.stack.tail (st1.nodes.size + 0)
      rw [hst1, hsz1]; exact (hso1 _ r.stack).tail
    · have := r.dmax; rw [hstk] at this; rw [hp']; simp only [List.length_cons] at this ⊢; omega
    · show st1.nodesCap = N; rw [hcap1]; exact r.ncap
    · show st1.stackCap = D; rw [hscap1]; exact r.scap
    · rw [hp']; exact r.dle
    · obtain ⟨hch, hall⟩ := hdep1 D r.dinv
      exact { chain := by show Chain st1.nodes st1.stack.tail; rw [hst1]; exact hch.tail
              curpar := fun c e => by cases e
              alld := hall
              sdepth := by
                show st1.stack.tail.length ≤ D
                rw [hst1, List.length_tail]; have := r.dinv.sdepth; omega }

theorem buildStep_other {N D len : Nat} {s : Array Char} {pst pst' : PreSt} {bst : BSt} {pos : Nat}
    {ch : Char} {tail : List Char}
    (r : Rel N D pst bst pos (ch :: tail)) (hp : preStep len pst pos ch tail = .ok pst')
    (h1 : ¬ isOpen ch) (h2 : ¬ isClose ch) (h3 : ch ≠ ',') :
    ∃ bst', buildStep s bst pos ch = .ok bst' ∧ Rel N D pst' bst' (pos + 1) tail := by
  have hp' := preStep_other h1 h2 h3 hp
  refine ⟨bst, ?_, ?_⟩
  · unfold buildStep
    unfold isOpen at h1; unfold isClose at h2
    simp only [h1, h2, h3, if_false]; rfl
  · subst hp'
    have hcur : bst.current ≠ none := by
      intro e
      have := r.look e ch rfl
      unfold isSep at this; unfold isClose at h2
      rcases this with h | h | h
      · exact h3 h
      · exact h2 (Or.inl h)
      · exact h2 (Or.inr h)
    exact { depth := r.depth, count := r.count,
            name := fun c e => Nat.le_succ_of_le (r.name c e), fresh := r.fresh,
            look := fun e => absurd e hcur, stack := r.stack, dmax := r.dmax,
            ncap := r.ncap, scap := r.scap, dle := r.dle, dinv := r.dinv }

theorem buildStep_ok {N D len : Nat} {s : Array Char} {pst pst' : PreSt} {bst : BSt} {pos : Nat}
    {ch : Char} {tail : List Char} (hs : s.size = len) (hlen : len = pos + (ch :: tail).length)
    (r : Rel N D pst bst pos (ch :: tail)) (hp : preStep len pst pos ch tail = .ok pst')
    (hN : pst'.phi ≤ N) (hD : pst'.maxDepth ≤ D) :
    ∃ bst', buildStep s bst pos ch = .ok bst' ∧ Rel N D pst' bst' (pos + 1) tail := by
  by_cases ho : isOpen ch
  · exact buildStep_open hs hlen r hp hN hD ho
  · by_cases hc : isClose ch
    · exact buildStep_close hs hlen r hp hN hc
    · by_cases hcm : ch = ','
      · subst hcm; exact buildStep_comma hs hlen r hp hN
      · exact buildStep_other r hp ho hc hcm

/-- the two passes in lock-step over the rest of the string -/
theorem buildLoop_ok {N D len : Nat} {s : Array Char} (hs : s.size = len) :
    ∀ (rest : List Char) (pos : Nat) (pst pstF : PreSt) (bst : BSt),
      len = pos + rest.length → Rel N D pst bst pos rest →
      preLoop len pos rest pst = .ok pstF → pstF.phi ≤ N → pstF.maxDepth ≤ D →
      ∃ bstF, buildLoop s pos rest bst = .ok bstF ∧ Rel N D pstF bstF len [] := by
  intro rest
  induction rest with
  | nil =>
    intro pos pst pstF bst hlen r hp _ _
    simp only [preLoop, pure, Except.pure] at hp
    cases hp
    simp only [List.length_nil, Nat.add_zero] at hlen
    subst hlen
    exact ⟨bst, rfl, r⟩
  | cons ch tail ih =>
    intro pos pst pstF bst hlen r hp hN hD
    unfold preLoop at hp
    cases hst : preStep len pst pos ch tail with
    | error e => rw [hst] at hp; simp [throw, throwThe, MonadExceptOf.throw] at hp
    | ok pst' =>
      rw [hst] at hp
      simp only at hp
      have hmono := preStep_mono hst r.dmax
      have hfut := preLoop_mono hp hmono.2.2
      obtain ⟨bst', hb, r'⟩ := buildStep_ok hs hlen r hst (Nat.le_trans hfut.1 hN)
        (Nat.le_trans hfut.2.1 hD)
      have hlen' : len = pos + 1 + tail.length := by simp only [List.length_cons] at hlen; omega
      obtain ⟨bstF, hbF, rF⟩ := ih (pos + 1) pst' pstF bst' hlen' r' hp hN hD
      refine ⟨bstF, ?_, rF⟩
      unfold buildLoop
      rw [hb]; exact hbF

end MsVerif.Expr

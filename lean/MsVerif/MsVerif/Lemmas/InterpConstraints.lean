/-
Every constraint the interpreter reports was checked successfully on the way (all fragments,
including `multi`, `multi_a` and `thresh`): by mutual recursion over the AST.
-/
import MsVerif.Lemmas.InterpBasic

namespace MsVerif.InterpSound
open MsVerif Script Interp

/-- what a reported constraint claims, in terms of the interpreter's own oracles -/
def CValid (ie : IEnv) : Constraint → Prop
  | .pk pk sg => ie.verifySig pk sg = true
  | .pkh hh pk sg => ie.verifySig pk sg = true ∧ ie.hash160 pk = hh ∧ ie.keyParse pk = true
  | .hashLock k hh pre => ie.hash k pre = hh ∧ pre.length = 32
  | .after n =>
    ie.sequence ≠ Interp.SEQ_FINAL ∧
    ((n < Interp.LOCKTIME_THRESHOLD ∧ ie.lockTime < Interp.LOCKTIME_THRESHOLD)
      ∨ (n ≥ Interp.LOCKTIME_THRESHOLD ∧ ie.lockTime ≥ Interp.LOCKTIME_THRESHOLD)) ∧ n ≤ ie.lockTime
  | .older n =>
    (ie.sequence / Interp.SEQ_DISABLE) % 2 = 0
      ∧ ((ie.sequence / Interp.SEQ_TYPE) % 2 = 1 ↔ (n / Interp.SEQ_TYPE) % 2 = 1)
      ∧ n % 65536 ≤ ie.sequence % 65536

def AllValid (ie : IEnv) (cs : List Constraint) : Prop := ∀ c ∈ cs, CValid ie c

variable {ie : IEnv} {ke : KeyEnv}

theorem AllValid.nil : AllValid ie [] := fun _ h => by simp at h

theorem AllValid.append {a b : List Constraint} (ha : AllValid ie a) (hb : AllValid ie b) :
    AllValid ie (a ++ b) := fun c hc => by
  rcases List.mem_append.mp hc with h | h
  · exact ha c h
  · exact hb c h

theorem AllValid.cons {c : Constraint} {b : List Constraint} (ha : CValid ie c) (hb : AllValid ie b) :
    AllValid ie (c :: b) := fun x hx => by
  rcases List.mem_cons.mp hx with h | h
  · subst h; exact ha
  · exact hb x h

theorem evalSig_valid {pk : Bytes} {mk : Bytes → Constraint} {st a' : AStack} {cs : List Constraint}
    (hmk : ∀ sg, ie.verifySig pk sg = true → CValid ie (mk sg))
    (h : evalSig ie pk mk st = .ok (a', cs)) : AllValid ie cs := by
  unfold evalSig at h
  split at h
  · simp at h; obtain ⟨_, h2⟩ := h; subst h2; exact AllValid.nil
  · split at h
    · rename_i hv; simp at h; obtain ⟨_, h2⟩ := h; subst h2; exact AllValid.cons (hmk _ hv) AllValid.nil
    · simp at h
  · simp at h
  · simp at h

theorem evaluatePk_valid {pk : Bytes} {st a' : AStack} {cs : List Constraint}
    (h : evaluatePk ie pk st = .ok (a', cs)) : AllValid ie cs := by
  unfold evaluatePk at h
  exact evalSig_valid (fun sg hv => (show CValid ie (.pk pk sg) from hv)) h

theorem evaluatePkh_valid {hh : Bytes} {st a' : AStack} {cs : List Constraint}
    (h : evaluatePkh ie hh st = .ok (a', cs)) : AllValid ie cs := by
  unfold evaluatePkh at h
  split at h
  · split at h
    · simp at h
    · rename_i hne
      split at h
      · simp at h
      · rename_i hkp
        rename_i pk st'
        have e1 : ie.hash160 pk = hh := by simpa using hne
        have e2 : ie.keyParse pk = true := by simpa using hkp
        exact evalSig_valid (fun sg hv => (show CValid ie (.pkh hh pk sg) from ⟨hv, e1, e2⟩)) h
  · simp at h

theorem evaluateAfter_valid {n : Nat} {st a' : AStack} {cs : List Constraint}
    (h : evaluateAfter ie n st = .ok (a', cs)) : AllValid ie cs := by
  unfold evaluateAfter at h
  split at h
  · simp at h
  · rename_i h0
    split at h
    · rename_i h1
      split at h
      · rename_i h2
        simp at h; obtain ⟨_, h2'⟩ := h; subst h2'
        refine AllValid.cons ⟨by simpa using h0, ?_, h2⟩ AllValid.nil
        simpa only [Bool.and_eq_true, Bool.or_eq_true, decide_eq_true_eq] using h1
      · simp at h
    · simp at h

theorem evaluateOlder_valid {n : Nat} {st a' : AStack} {cs : List Constraint}
    (h : evaluateOlder ie n st = .ok (a', cs)) : AllValid ie cs := by
  unfold evaluateOlder at h
  split at h
  · simp at h
  · rename_i h0
    dsimp only at h
    split at h
    · rename_i h1
      simp at h; obtain ⟨_, h2⟩ := h; subst h2
      simp only [Bool.and_eq_true, decide_eq_true_eq, beq_iff_eq] at h1
      have h0' : (ie.sequence / Interp.SEQ_DISABLE) % 2 = 0 := by
        have : (ie.sequence / Interp.SEQ_DISABLE) % 2 ≠ 1 := by simpa using h0
        omega
      refine AllValid.cons ⟨h0', ?_, h1.2⟩ AllValid.nil
      have := h1.1
      constructor
      · intro hh; simpa [hh] using this
      · intro hh; simpa [hh] using this
    · simp at h

theorem evaluateHash_valid {k : HashKind} {hh : Bytes} {st a' : AStack} {cs : List Constraint}
    (h : evaluateHash ie k hh st = .ok (a', cs)) : AllValid ie cs := by
  unfold evaluateHash at h
  split at h
  · split at h
    · simp at h
    · rename_i hl
      split at h
      · rename_i he
        simp at h; obtain ⟨_, h2⟩ := h; subst h2
        exact AllValid.cons ⟨by simpa using he, by simpa using hl⟩ AllValid.nil
      · simp at h; obtain ⟨_, h2⟩ := h; subst h2; exact AllValid.nil
  · simp at h

theorem multiLoop_valid {k : Nat} : ∀ (keys : List Bytes) (nSat : Nat) (st a' : AStack) (cs : List Constraint),
    multiLoop ie k keys nSat st = .ok (a', cs) → AllValid ie cs
  | keys, nSat, st, a', cs, h => by
    unfold multiLoop at h
    split at h
    · split at h
      · simp at h; obtain ⟨_, h2⟩ := h; subst h2; exact AllValid.nil
      · simp at h
    · cases keys with
      | nil => simp at h
      | cons pk rest =>
        simp only at h
        unfold evaluateMulti at h
        cases st with
        | nil => simp at h
        | cons e st' =>
          cases e with
          | sat => simp at h
          | dissat => simp at h
          | push sg =>
            simp only at h
            by_cases hv : ie.verifySig pk sg = true
            · simp only [hv, if_true] at h
              cases hr : multiLoop ie k rest (nSat + 1) st' with
              | error e => simp [hr] at h
              | ok p =>
                obtain ⟨a2, cs2⟩ := p
                simp [hr] at h
                obtain ⟨_, h2⟩ := h; subst h2
                exact AllValid.cons hv (multiLoop_valid rest (nSat + 1) st' a2 cs2 hr)
            · simp only [hv] at h
              exact multiLoop_valid rest nSat (.push sg :: st') a' cs (by simpa using h)
termination_by keys => keys.length

theorem evalMulti_valid {k : Nat} {keys : List Bytes} {st a' : AStack} {cs : List Constraint}
    (h : evalMulti ie k keys st = .ok (a', cs)) : AllValid ie cs := by
  unfold evalMulti at h
  split at h
  · simp at h
  · split at h
    · split at h
      · simp at h; obtain ⟨_, h2⟩ := h; subst h2; exact AllValid.nil
      · simp at h
    · simp at h
    · exact multiLoop_valid _ _ _ _ _ h

theorem multiALoop_valid {k : Nat} : ∀ (keys : List Bytes) (nSat : Nat) (st a' : AStack) (cs : List Constraint),
    multiALoop ie k keys nSat st = .ok (a', cs) → AllValid ie cs
  | [], nSat, st, a', cs, h => by
    simp [multiALoop] at h; obtain ⟨_, h2⟩ := h; subst h2; exact AllValid.nil
  | pk :: rest, nSat, st, a', cs, h => by
    unfold multiALoop at h
    cases hp : evaluatePk ie pk st with
    | error e => simp [hp] at h
    | ok p =>
      obtain ⟨st1, cs1⟩ := p
      have v1 := evaluatePk_valid hp
      cases cs1 with
      | nil =>
        simp only [hp] at h
        cases st1 with
        | nil => simp at h
        | cons _ st2 => exact multiALoop_valid rest nSat st2 a' cs (by simpa using h)
      | cons c1 cr =>
        simp only [hp] at h
        cases st1 with
        | nil => simp at h
        | cons _ st2 =>
          simp only at h
          cases hr : multiALoop ie k rest (nSat + 1) st2 with
          | error e => simp [hr] at h
          | ok q =>
            obtain ⟨a2, cs2⟩ := q
            simp [hr] at h
            obtain ⟨_, h2⟩ := h; subst h2
            exact AllValid.cons (v1 c1 (by simp)) (multiALoop_valid rest (nSat + 1) st2 a2 cs2 hr)

mutual
theorem interp_valid : (ms : Ms) → ∀ (st a' : AStack) (cs : List Constraint),
    interp ke ie ms st = .ok (a', cs) → AllValid ie cs
  | .tru, st, a', cs, h => by simp [interp] at h; obtain ⟨_, h2⟩ := h; subst h2; exact AllValid.nil
  | .fls, st, a', cs, h => by simp [interp] at h; obtain ⟨_, h2⟩ := h; subst h2; exact AllValid.nil
  | .pkK k, st, a', cs, h => evaluatePk_valid (by simpa [interp] using h)
  | .pkH k, st, a', cs, h => evaluatePkh_valid (by simpa [interp] using h)
  | .rawPkH k, st, a', cs, h => evaluatePkh_valid (by simpa [interp] using h)
  | .after n, st, a', cs, h => evaluateAfter_valid (by simpa [interp] using h)
  | .older n, st, a', cs, h => evaluateOlder_valid (by simpa [interp] using h)
  | .hash k n, st, a', cs, h => evaluateHash_valid (by simpa [interp] using h)
  | .alt x, st, a', cs, h => interp_valid x st a' cs (by simpa [interp] using h)
  | .swap x, st, a', cs, h => interp_valid x st a' cs (by simpa [interp] using h)
  | .check x, st, a', cs, h => interp_valid x st a' cs (by simpa [interp] using h)
  | .dupIf x, st, a', cs, h => by
    simp only [interp] at h
    split at h
    · simp at h; obtain ⟨_, h2⟩ := h; subst h2; exact AllValid.nil
    · rename_i st'
      cases hx : interp ke ie x st' with
      | error e => simp [hx] at h
      | ok p => obtain ⟨a2, cs2⟩ := p; simp [hx] at h; obtain ⟨_, h2⟩ := h; subst h2; exact interp_valid x st' a2 cs2 hx
    · simp at h
    · simp at h
  | .verify x, st, a', cs, h => by
    simp only [interp] at h
    cases hx : interp ke ie x st with
    | error e => simp [hx] at h
    | ok p =>
      obtain ⟨a2, cs2⟩ := p
      have v := interp_valid x st a2 cs2 hx
      simp only [hx] at h
      split at h <;> simp_all
  | .zeroNotEqual x, st, a', cs, h => by
    simp only [interp] at h
    cases hx : interp ke ie x st with
    | error e => simp [hx] at h
    | ok p =>
      obtain ⟨a2, cs2⟩ := p
      have v := interp_valid x st a2 cs2 hx
      simp only [hx] at h
      split at h <;> simp_all
  | .nonZero x, st, a', cs, h => by
    simp only [interp] at h
    split at h
    · simp at h; obtain ⟨_, h2⟩ := h; subst h2; exact AllValid.nil
    · exact interp_valid x _ a' cs h
    · simp at h
  | .andV l r, st, a', cs, h => by
    simp only [interp] at h
    cases hl : interp ke ie l st with
    | error e => simp [hl] at h
    | ok p =>
      obtain ⟨a1, cs1⟩ := p
      cases hr : interp ke ie r a1 with
      | error e => simp [hl, hr] at h
      | ok q =>
        obtain ⟨a2, cs2⟩ := q
        simp [hl, hr] at h
        obtain ⟨_, h2⟩ := h; subst h2
        exact (interp_valid l st a1 cs1 hl).append (interp_valid r a1 a2 cs2 hr)
  | .andB l r, st, a', cs, h => by
    simp only [interp] at h
    cases hl : interp ke ie l st with
    | error e => simp [hl] at h
    | ok p =>
      obtain ⟨a1, cs1⟩ := p
      have v1 := interp_valid l st a1 cs1 hl
      simp only [hl] at h
      cases a1 with
      | nil => simp at h
      | cons a st1 =>
        cases hr : interp ke ie r st1 with
        | error e => cases a <;> simp [hr] at h
        | ok q =>
          obtain ⟨a2, cs2⟩ := q
          have v2 := interp_valid r st1 a2 cs2 hr
          cases a2 with
          | nil => cases a <;> simp [hr] at h
          | cons b st2 =>
            cases a with
            | push x => simp at h
            | sat => simp [hr] at h; obtain ⟨_, h2⟩ := h; subst h2; exact v1.append v2
            | dissat => simp [hr] at h; obtain ⟨_, h2⟩ := h; subst h2; exact v1.append v2
  | .orB l r, st, a', cs, h => by
    simp only [interp] at h
    cases hl : interp ke ie l st with
    | error e => simp [hl] at h
    | ok p =>
      obtain ⟨a1, cs1⟩ := p
      have v1 := interp_valid l st a1 cs1 hl
      simp only [hl] at h
      cases a1 with
      | nil => simp at h
      | cons a st1 =>
        cases hr : interp ke ie r st1 with
        | error e => cases a <;> simp [hr] at h
        | ok q =>
          obtain ⟨a2, cs2⟩ := q
          have v2 := interp_valid r st1 a2 cs2 hr
          cases a2 with
          | nil => cases a <;> simp [hr] at h
          | cons b st2 =>
            cases a with
            | push x => simp at h
            | sat => simp [hr] at h; obtain ⟨_, h2⟩ := h; subst h2; exact v1.append v2
            | dissat => simp [hr] at h; obtain ⟨_, h2⟩ := h; subst h2; exact v1.append v2
  | .andOr x y z, st, a', cs, h => by
    simp only [interp] at h
    cases hx : interp ke ie x st with
    | error e => simp [hx] at h
    | ok p =>
      obtain ⟨a1, cs1⟩ := p
      have v1 := interp_valid x st a1 cs1 hx
      simp only [hx] at h
      split at h
      · rename_i st1 _ heq
        simp at heq
        cases hy : interp ke ie y st1 with
        | error e => simp [hy] at h
        | ok q =>
          obtain ⟨a2, cs2⟩ := q
          simp [hy] at h; obtain ⟨_, h2⟩ := h; subst h2; obtain ⟨_, h3⟩ := heq; subst h3
          exact v1.append (interp_valid y st1 a2 cs2 hy)
      · rename_i st1 _ heq
        simp at heq
        cases hz : interp ke ie z st1 with
        | error e => simp [hz] at h
        | ok q =>
          obtain ⟨a2, cs2⟩ := q
          simp [hz] at h; obtain ⟨_, h2⟩ := h; subst h2; obtain ⟨_, h3⟩ := heq; subst h3
          exact v1.append (interp_valid z st1 a2 cs2 hz)
      · simp at h
      · simp at h
      · simp at h
  | .orC l r, st, a', cs, h => by
    simp only [interp] at h
    cases hl : interp ke ie l st with
    | error e => simp [hl] at h
    | ok p =>
      obtain ⟨a1, cs1⟩ := p
      have v1 := interp_valid l st a1 cs1 hl
      simp only [hl] at h
      split at h
      · rename_i st1 _ heq
        simp at heq h; obtain ⟨_, h2⟩ := h; subst h2; obtain ⟨_, h3⟩ := heq; subst h3; exact v1
      · rename_i st1 _ heq
        simp at heq
        cases hr : interp ke ie r st1 with
        | error e => simp [hr] at h
        | ok q =>
          obtain ⟨a2, cs2⟩ := q
          simp [hr] at h; obtain ⟨_, h2⟩ := h; subst h2; obtain ⟨_, h3⟩ := heq; subst h3
          exact v1.append (interp_valid r st1 a2 cs2 hr)
      · simp at h
      · simp at h
      · simp at h
  | .orD l r, st, a', cs, h => by
    simp only [interp] at h
    cases hl : interp ke ie l st with
    | error e => simp [hl] at h
    | ok p =>
      obtain ⟨a1, cs1⟩ := p
      have v1 := interp_valid l st a1 cs1 hl
      simp only [hl] at h
      split at h
      · rename_i st1 _ heq
        simp at heq h; obtain ⟨_, h2⟩ := h; subst h2; obtain ⟨_, h3⟩ := heq; subst h3; exact v1
      · rename_i st1 _ heq
        simp at heq
        cases hr : interp ke ie r st1 with
        | error e => simp [hr] at h
        | ok q =>
          obtain ⟨a2, cs2⟩ := q
          simp [hr] at h; obtain ⟨_, h2⟩ := h; subst h2; obtain ⟨_, h3⟩ := heq; subst h3
          exact v1.append (interp_valid r st1 a2 cs2 hr)
      · simp at h
      · simp at h
      · simp at h
  | .orI l r, st, a', cs, h => by
    simp only [interp] at h
    split at h
    · exact interp_valid l _ a' cs h
    · exact interp_valid r _ a' cs h
    · simp at h
    · simp at h
  | .thresh k xs, st, a', cs, h => by
    cases xs with
    | nil => simp [interp] at h
    | cons x xs =>
      simp only [interp] at h
      cases hx : interp ke ie x st with
      | error e => simp [hx] at h
      | ok p =>
        obtain ⟨a1, cs1⟩ := p
        have v1 := interp_valid x st a1 cs1 hx
        simp only [hx] at h
        cases hr : interpRest ke ie xs 0 a1 with
        | error e => simp [hr] at h
        | ok q =>
          obtain ⟨a2, n2, cs2⟩ := q
          have v2 := interpRest_valid xs 0 a1 a2 n2 cs2 hr
          simp only [hr] at h
          cases a2 with
          | nil => simp at h
          | cons b st2 =>
            cases b with
            | push x => simp at h
            | sat => simp at h; obtain ⟨_, h2⟩ := h; subst h2; exact v1.append v2
            | dissat => simp at h; obtain ⟨_, h2⟩ := h; subst h2; exact v1.append v2
  | .multi k ks, st, a', cs, h => evalMulti_valid (by simpa [interp] using h)
  | .sortedMulti k ks, st, a', cs, h => evalMulti_valid (by simpa [interp] using h)
  | .multiA k ks, st, a', cs, h => multiALoop_valid _ _ _ _ _ (by simpa [interp] using h)
  | .sortedMultiA k ks, st, a', cs, h => multiALoop_valid _ _ _ _ _ (by simpa [interp] using h)
theorem interpRest_valid : (xs : MsList) → ∀ (n : Nat) (st a' : AStack) (n' : Nat) (cs : List Constraint),
    interpRest ke ie xs n st = .ok (a', n', cs) → AllValid ie cs
  | .nil, n, st, a', n', cs, h => by simp [interpRest] at h; obtain ⟨_, _, h2⟩ := h; subst h2; exact AllValid.nil
  | .cons x xs, n, st, a', n', cs, h => by
    simp only [interpRest] at h
    cases st with
    | nil => simp at h
    | cons r st1 =>
      cases r with
      | push b => simp at h
      | sat =>
        cases hx : interp ke ie x st1 with
        | error e => simp [hx] at h
        | ok p =>
          obtain ⟨a1, cs1⟩ := p
          have v1 := interp_valid x st1 a1 cs1 hx
          cases hr : interpRest ke ie xs (n + 1) a1 with
          | error e => simp [hx, hr] at h
          | ok q =>
            obtain ⟨a2, n2, cs2⟩ := q
            simp [hx, hr] at h
            obtain ⟨_, _, h2⟩ := h; subst h2
            exact v1.append (interpRest_valid xs _ a1 a2 n2 cs2 hr)
      | dissat =>
        cases hx : interp ke ie x st1 with
        | error e => simp [hx] at h
        | ok p =>
          obtain ⟨a1, cs1⟩ := p
          have v1 := interp_valid x st1 a1 cs1 hx
          cases hr : interpRest ke ie xs (n) a1 with
          | error e => simp [hx, hr] at h
          | ok q =>
            obtain ⟨a2, n2, cs2⟩ := q
            simp [hx, hr] at h
            obtain ⟨_, _, h2⟩ := h; subst h2
            exact v1.append (interpRest_valid xs _ a1 a2 n2 cs2 hr)
end

end MsVerif.InterpSound

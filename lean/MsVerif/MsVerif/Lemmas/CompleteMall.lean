/-
C02 T1: the malleable-mode satisfier (`satDissatG nz`, `mall = true`) finds a satisfaction /
dissatisfaction whenever the specification's table has one — induction over the AST.
-/
import MsVerif.Lemmas.CompleteFixed
import MsVerif.Lemmas.CompleteThresh

set_option linter.unusedSimpArgs false
set_option linter.unusedVariables false

namespace MsVerif.Complete
open MsVerif Sat SatTable

/-- node predicate of the malleable-mode theorem: available locks have the units `ua`/`ur`, and
a `j:` node is only allowed when its dissatisfaction is the specification's -/
def mallP (nz : Sat) (a : Assets) (ua ur : Bool) (m : Ms) : Bool :=
  lockUnit a ua ur m && (isNotNonZero m || decide (nz = Sat.push0))

structure MallInv (ua ur : Bool) (av : Avail) (ms : Ms) (r : SatDissat) : Prop where
  lockS : LockOK ua ur r.sat
  lockD : LockOK ua ur r.dissat
  szS : wsz r.sat.stack ≤ 73 * itemBound ms
  szD : wsz r.dissat.stack ≤ 73 * itemBound ms
  sat : satEx av ms = true → isStk r.sat.stack = true
  dsat : dsatEx av ms = true → isStk r.dissat.stack = true

theorem MallInv.of_eq {ua ur : Bool} {av : Avail} {x y : Ms} {r : SatDissat}
    (h : MallInv ua ur av x r) (hB : itemBound y = itemBound x) (hs : satEx av y = satEx av x)
    (hd : dsatEx av y = dsatEx av x) : MallInv ua ur av y r :=
  ⟨h.lockS, h.lockD, hB ▸ h.szS, hB ▸ h.szD, hs ▸ h.sat, hd ▸ h.dsat⟩

theorem sum_map_mul (l : List Ms) (g : Ms → Nat) (c : Nat) :
    (l.map (fun x => c * g x)).sum = c * (l.map g).sum := by
  induction l with
  | nil => simp
  | cons a t ih => simp [ih, Nat.mul_add]

/-- a leaf described by `LeafFacts` satisfies the invariant -/
theorem leaf_mallInv {ua ur : Bool} {av : Avail} {ms : Ms} {a : Assets} {B : Nat} {can : Bool}
    {r : SatDissat} (hf : LeafFacts a B can r) (hs : SigSizesOK a) (hB : B = itemBound ms)
    (hsat : satEx av ms = can) : MallInv ua ur av ms r :=
  ⟨lockOK_none hf.sAbs hf.sRel, lockOK_none hf.dAbs hf.dRel, hB ▸ hf.sSz hs, hB ▸ hf.dSz hs,
    fun h => by rw [hf.sStk, ← hsat, h], fun _ => hf.dStk⟩

section
variable {ua ur : Bool} {av : Avail}

theorem thresh_sum_le (xs : MsList) (f : Ms → SatDissat)
    (h : ∀ x ∈ xs.toList, MallInv ua ur av x (f x)) :
    ((xs.toList.map f).map (fun sd => max (wsz sd.sat.stack) (wsz sd.dissat.stack))).sum
      ≤ 73 * itemBounds xs := by
  rw [List.map_map, itemBounds_eq, ← sum_map_mul]
  apply sum_map_le
  intro x hx
  have := (h x hx).szS
  have := (h x hx).szD
  simp only [Function.comp]
  omega

theorem sum_le_of_pointwise (l : List SatDissat) (g g' : SatDissat → Nat) (h : ∀ sd, g sd ≤ g' sd) :
    (l.map g).sum ≤ (l.map g').sum := sum_map_le l g g' (fun x _ => h x)

theorem thresh_mall_inv (k : Nat) (xs : MsList) (f : Ms → SatDissat)
    (h : ∀ x ∈ xs.toList, MallInv ua ur av x (f x)) (hsm : 73 * itemBounds xs < SMALL) :
    MallInv ua ur av (.thresh k xs)
      ⟨foldConcat ((xs.toList.map f).map (·.dissat)),
       if k = (xs.toList.map f).length then foldConcat ((xs.toList.map f).map (·.sat))
       else threshMall k ((xs.toList.map f).map (·.dissat)) ((xs.toList.map f).map (·.sat))⟩ := by
  have hlock : ∀ sd ∈ xs.toList.map f, LockOK ua ur sd.sat ∧ LockOK ua ur sd.dissat := by
    intro sd hsd
    obtain ⟨x, hx, rfl⟩ := List.mem_map.mp hsd
    exact ⟨(h x hx).lockS, (h x hx).lockD⟩
  have hlockD : ∀ s ∈ (xs.toList.map f).map (·.dissat), LockOK ua ur s := by
    intro s hs
    obtain ⟨sd, hsd, rfl⟩ := List.mem_map.mp hs
    exact (hlock sd hsd).2
  have hlockS : ∀ s ∈ (xs.toList.map f).map (·.sat), LockOK ua ur s := by
    intro s hs
    obtain ⟨sd, hsd, rfl⟩ := List.mem_map.mp hs
    exact (hlock sd hsd).1
  have hsum := thresh_sum_le xs f h
  have hsumD : (((xs.toList.map f).map (·.dissat)).map (fun s => wsz s.stack)).sum
      ≤ 73 * itemBounds xs := by
    refine Nat.le_trans ?_ hsum
    rw [List.map_map]
    exact sum_map_le _ _ _ (fun sd _ => by simp only [Function.comp]; omega)
  have hsumS : (((xs.toList.map f).map (·.sat)).map (fun s => wsz s.stack)).sum
      ≤ 73 * itemBounds xs := by
    refine Nat.le_trans ?_ hsum
    rw [List.map_map]
    exact sum_map_le _ _ _ (fun sd _ => by simp only [Function.comp]; omega)
  refine ⟨?_, foldConcat_lockOK _ hlockD, ?_, ?_, ?_, ?_⟩
  · show LockOK ua ur (if _ then _ else _)
    split
    · exact foldConcat_lockOK _ hlockS
    · exact threshMall_lockOK k _ hlock
  · show wsz (if _ then _ else _ : Sat).stack ≤ _
    simp only [itemBound]
    split
    · exact Nat.le_trans (foldConcat_wsz _ hlockS) hsumS
    · exact Nat.le_trans (threshMall_wsz k _ hlock) hsum
  · simp only [itemBound]
    exact Nat.le_trans (foldConcat_wsz _ hlockD) hsumD
  · intro hex
    simp only [satEx, threshEx, Bool.and_eq_true, beq_iff_eq, decide_eq_true_eq,
      countOnlySat_eq, countCanSat_eq, countDead_eq] at hex
    obtain ⟨⟨hdead, hlo⟩, hhi⟩ := hex
    have hcs : xs.toList.countP (fun x => satEx av x)
        ≤ (xs.toList.map f).countP (fun sd => isStk sd.sat.stack) := by
      rw [List.countP_map]
      apply List.countP_mono_left
      intro x hx hsx
      exact (h x hx).sat hsx
    show isStk (if _ then _ else _ : Sat).stack = true
    split
    next hk =>
      rw [foldConcat_isStk _ hlockS, List.all_map]
      have hle := List.countP_le_length (p := fun sd : SatDissat => isStk sd.sat.stack)
        (l := xs.toList.map f)
      have : (xs.toList.map f).countP (fun sd => isStk sd.sat.stack) = (xs.toList.map f).length := by
        omega
      rw [List.countP_eq_length] at this
      rw [List.all_eq_true]
      intro sd hsd
      exact this sd hsd
    next hk =>
      apply threshMall_isStk k _ hlock
      · intro sd hsd
        obtain ⟨x, hx, rfl⟩ := List.mem_map.mp hsd
        have := (h x hx).szS
        have := (h x hx).szD
        have := itemBound_le_of_mem xs hx
        have : 73 * itemBound x ≤ 73 * itemBounds xs := Nat.mul_le_mul_left _ this
        constructor <;> omega
      · intro sd hsd
        obtain ⟨x, hx, rfl⟩ := List.mem_map.mp hsd
        rw [List.countP_eq_zero] at hdead
        have hnd := hdead x hx
        cases hsx : satEx av x with
        | true => left; exact (h x hx).sat hsx
        | false =>
          cases hdx : dsatEx av x with
          | true => right; exact (h x hx).dsat hdx
          | false => simp [hsx, hdx] at hnd
      · refine Nat.le_trans ?_ hlo
        rw [List.countP_map]
        apply List.countP_mono_left
        intro x hx hnst
        simp only [Function.comp, Bool.not_eq_true'] at hnst
        rw [List.countP_eq_zero] at hdead
        have hnd := hdead x hx
        cases hdx : dsatEx av x with
        | true => rw [(h x hx).dsat hdx] at hnst; cases hnst
        | false =>
          cases hsx : satEx av x with
          | true => rfl
          | false => simp [hsx, hdx] at hnd
      · exact Nat.le_trans hhi hcs
  · intro hex
    simp only [dsatEx, allDsatEx_eq, List.all_eq_true] at hex
    rw [foldConcat_isStk _ hlockD, List.all_map, List.all_map, List.all_eq_true]
    intro x hx
    exact (h x hx).dsat (hex x hx)

end

/-! ### binary combinators -/

section
variable {ua ur : Bool}

theorem wsz_combine_one {w : Wit} {B : Nat} (p : Ph) (hp : p.size ≤ 73) (h : wsz w ≤ 73 * B) :
    wsz (Wit.combine w (.stack [p])) ≤ 73 * (B + 1) := by
  have := combine_wsz_le w (.stack [p])
  simp only [wsz_stack, sumSize_cons, sumSize_nil] at this
  omega

theorem minFn_mall {c : SatCfg} (hm : c.mall = true) : c.minFn = minimumMall := by
  simp [SatCfg.minFn, hm]

end

/-! ### the induction -/

section
variable (nz : Sat) (c : SatCfg) (ua ur : Bool)

mutual
theorem mall_inv (hm : c.mall = true) (hs : SigSizesOK c.assets) :
    (ms : Ms) → allNodes (mallP nz c.assets ua ur) ms = true → 73 * itemBound ms < SMALL →
      MallInv ua ur (availOf c.assets c.ctx) ms (satDissatG nz c ms)
  | .fls, _, _ => by
    simp only [satDissatG]
    exact ⟨lockOK_IMPOSSIBLE _ _, lockOK_TRIVIAL _ _, by simp [wsz, IMPOSSIBLE], by simp [wsz, TRIVIAL],
      by simp [satEx], fun _ => rfl⟩
  | .tru, _, _ => by
    simp only [satDissatG]
    exact ⟨lockOK_TRIVIAL _ _, lockOK_IMPOSSIBLE _ _, by simp [wsz, TRIVIAL], by simp [wsz, IMPOSSIBLE],
      fun _ => rfl, by simp [dsatEx]⟩
  | .pkK k, _, _ => by
    simp only [satDissatG]
    refine ⟨lockOK_none rfl rfl, lockOK_push0 _ _, ?_, by simp [wsz, push0, itemBound, Ph.size], ?_,
      fun _ => rfl⟩
    · simpa [itemBound] using sigWit_wsz c.ctx c.assets k hs
    · intro h; simpa [satEx, availOf, sigWit_isStk] using h
  | .pkH k, _, _ => by
    simp only [satDissatG]
    have hpk := pkLen_le c.env c.ctx k
    refine ⟨lockOK_none rfl rfl, lockOK_none rfl rfl, ?_, ?_, ?_, fun _ => rfl⟩
    · have := sigWit_wsz c.ctx c.assets k hs
      have := combine_wsz_le (sigWit c.ctx c.assets k) (.stack [.pubkey k (pkLen c.env c.ctx k)])
      simp only [wsz, sumSize_cons, sumSize_nil, Ph.size, itemBound] at *
      omega
    · simp only [Wit.combine, wsz, sumSize_append, sumSize_cons, sumSize_nil, Ph.size, itemBound]
      omega
    · intro h
      simpa [satEx, availOf, sigWit_isStk] using h
  | .rawPkH h, _, _ => by
    simp only [satDissatG]
    refine ⟨lockOK_none rfl rfl, lockOK_none rfl rfl, ?_, ?_, ?_, ?_⟩
    · simp only [itemBound]
      cases hst : c.ctx.sigType with
      | schnorr =>
        cases hr : c.assets.rawPkhSchnorr h with
        | none => simp [wsz]
        | some p =>
          obtain ⟨pk, sz⟩ := p
          have := hs.2 h _ hr
          have := pkLen_le c.env c.ctx pk
          simp only [wsz, sumSize_cons, sumSize_nil, Ph.size] at *
          omega
      | ecdsa =>
        cases hr : c.assets.rawPkhEcdsa h with
        | none => simp [wsz]
        | some pk =>
          have := pkLen_le c.env c.ctx pk
          simp only [wsz, sumSize_cons, sumSize_nil, Ph.size]
          omega
    · simp only [itemBound]
      cases hr : c.assets.rawPkhPk h with
      | none => simp [Wit.combine, wsz]
      | some pk =>
        have := pkLen_le c.env c.ctx pk
        simp only [Wit.combine, wsz, sumSize_append, sumSize_cons, sumSize_nil, Ph.size]
        omega
    · intro hex
      simp only [satEx, availOf] at hex
      cases hst : c.ctx.sigType with
      | schnorr =>
        rw [hst] at hex
        cases hr : c.assets.rawPkhSchnorr h with
        | none => simp [hr] at hex
        | some p => obtain ⟨pk, sz⟩ := p; simp [isStk]
      | ecdsa =>
        rw [hst] at hex
        cases hr : c.assets.rawPkhEcdsa h with
        | none => simp [hr] at hex
        | some pk => simp [isStk]
    · intro hex
      simp only [dsatEx, availOf] at hex
      cases hr : c.assets.rawPkhPk h with
      | none => simp [hr] at hex
      | some pk => simp [Wit.combine, isStk]
  | .multi k ks, _, _ => by
    simp only [satDissatG]
    exact leaf_mallInv (multiSD_facts c.ctx c.assets k ks) hs (by simp [itemBound])
      (by simp [satEx, availOf])
  | .sortedMulti k ks, _, _ => by
    simp only [satDissatG]
    exact leaf_mallInv (multiSD_facts c.ctx c.assets k (sortKeys' c.env ks)) hs
      (by simp [itemBound, sortKeys'_length])
      (by simp [satEx, availOf, sortKeys'_filter])
  | .multiA k ks, _, _ => by
    simp only [satDissatG]
    exact leaf_mallInv (multiASD_facts c.ctx c.assets k ks) hs (by simp [itemBound])
      (by simp [satEx, availOf])
  | .sortedMultiA k ks, _, _ => by
    simp only [satDissatG]
    exact leaf_mallInv (multiASD_facts c.ctx c.assets k (sortKeys' c.env ks)) hs
      (by simp [itemBound, sortKeys'_length])
      (by simp [satEx, availOf, sortKeys'_filter])
  | .after n, hP, _ => by
    simp only [allNodes, subterms, List.all_cons, List.all_nil, mallP, lockUnit, Bool.and_eq_true] at hP
    cases hc : c.assets.checkAfter n with
    | true =>
      simp only [satDissatG, hc, if_true]
      refine ⟨⟨?_, by simp⟩, lockOK_IMPOSSIBLE _ _, by simp [wsz], by simp [wsz, IMPOSSIBLE],
        fun _ => rfl, by simp [dsatEx]⟩
      intro m hm'
      simp only [Option.some.injEq] at hm'
      subst hm'
      simpa [hc] using hP.1.1
    | false =>
      have hsat : satEx (availOf c.assets c.ctx) (.after n) = false := by simp [satEx, availOf, hc]
      simp only [satDissatG, hc]
      cases c.rootHasSig <;>
        exact ⟨lockOK_none rfl rfl, lockOK_IMPOSSIBLE _ _, by simp [wsz], by simp [wsz, IMPOSSIBLE],
          by simp [hsat], by simp [dsatEx]⟩
  | .older n, hP, _ => by
    simp only [allNodes, subterms, List.all_cons, List.all_nil, mallP, lockUnit, Bool.and_eq_true] at hP
    cases hc : c.assets.checkOlder (relCanon n) with
    | true =>
      simp only [satDissatG, hc, if_true]
      refine ⟨⟨by simp, ?_⟩, lockOK_IMPOSSIBLE _ _, by simp [wsz], by simp [wsz, IMPOSSIBLE],
        fun _ => rfl, by simp [dsatEx]⟩
      intro m hm'
      simp only [Option.some.injEq] at hm'
      subst hm'
      simpa [hc] using hP.1.1
    | false =>
      have hsat : satEx (availOf c.assets c.ctx) (.older n) = false := by simp [satEx, availOf, hc]
      simp only [satDissatG, hc]
      cases c.rootHasSig <;>
        exact ⟨lockOK_none rfl rfl, lockOK_IMPOSSIBLE _ _, by simp [wsz], by simp [wsz, IMPOSSIBLE],
          by simp [hsat], by simp [dsatEx]⟩
  | .hash kind h, _, _ => by
    simp only [satDissatG]
    refine ⟨lockOK_none rfl rfl, lockOK_none rfl rfl, ?_, by simp [wsz, itemBound, Ph.size], ?_,
      fun _ => rfl⟩
    · cases c.assets.preimage kind h <;> simp [wsz, itemBound, Ph.size]
    · intro hex
      simp only [satEx, availOf] at hex
      simp [hex, isStk]
  | .alt x, hP, hsm => by
    simp only [allNodes, subterms, List.all_cons, Bool.and_eq_true] at hP
    have ih := mall_inv hm hs x hP.2 (by simpa [itemBound] using hsm)
    simp only [satDissatG]
    exact ih.of_eq (by simp only [itemBound]) (by simp only [satEx]) (by simp only [dsatEx])
  | .swap x, hP, hsm => by
    simp only [allNodes, subterms, List.all_cons, Bool.and_eq_true] at hP
    have ih := mall_inv hm hs x hP.2 (by simpa [itemBound] using hsm)
    simp only [satDissatG]
    exact ih.of_eq (by simp only [itemBound]) (by simp only [satEx]) (by simp only [dsatEx])
  | .check x, hP, hsm => by
    simp only [allNodes, subterms, List.all_cons, Bool.and_eq_true] at hP
    have ih := mall_inv hm hs x hP.2 (by simpa [itemBound] using hsm)
    simp only [satDissatG]
    exact ih.of_eq (by simp only [itemBound]) (by simp only [satEx]) (by simp only [dsatEx])
  | .zeroNotEqual x, hP, hsm => by
    simp only [allNodes, subterms, List.all_cons, Bool.and_eq_true] at hP
    have ih := mall_inv hm hs x hP.2 (by simpa [itemBound] using hsm)
    simp only [satDissatG]
    exact ih.of_eq (by simp only [itemBound]) (by simp only [satEx]) (by simp only [dsatEx])
  | .dupIf x, hP, hsm => by
    simp only [allNodes, subterms, List.all_cons, Bool.and_eq_true] at hP
    have ih := mall_inv hm hs x hP.2 (by simp only [itemBound] at hsm; omega)
    simp only [satDissatG]
    refine ⟨lockOK_congr ih.lockS rfl rfl, lockOK_push0 _ _, ?_, ?_, ?_, fun _ => rfl⟩
    · simp only [itemBound]
      exact wsz_combine_one .pushOne (by simp [Ph.size]) ih.szS
    · simp [wsz, push0, itemBound, Ph.size]; omega
    · intro hex
      simp only [satEx] at hex
      simp [ih.sat hex]
  | .verify x, hP, hsm => by
    simp only [allNodes, subterms, List.all_cons, Bool.and_eq_true] at hP
    have ih := mall_inv hm hs x hP.2 (by simpa [itemBound] using hsm)
    simp only [satDissatG]
    exact ⟨ih.lockS, lockOK_IMPOSSIBLE _ _, by simpa only [itemBound] using ih.szS,
      by simp [wsz, IMPOSSIBLE], by simpa only [satEx] using ih.sat, by simp [dsatEx]⟩
  | .nonZero x, hP, hsm => by
    simp only [allNodes, subterms, List.all_cons, Bool.and_eq_true, mallP, isNotNonZero,
      Bool.false_or, decide_eq_true_eq] at hP
    have ih := mall_inv hm hs x hP.2 (by simp only [itemBound] at hsm; omega)
    obtain ⟨⟨_, hnz⟩, _⟩ := hP
    subst hnz
    simp only [satDissatG]
    refine ⟨ih.lockS, lockOK_push0 _ _, ?_, ?_, by simpa only [satEx] using ih.sat, fun _ => rfl⟩
    · have := ih.szS; simp only [itemBound]; omega
    · simp [wsz, push0, itemBound, Ph.size]; omega
  | .andB l r, hP, hsm => by
    simp only [allNodes, subterms, List.all_cons, List.all_append, Bool.and_eq_true] at hP
    simp only [itemBound] at hsm
    have hl := mall_inv hm hs l hP.2.1 (by omega)
    have hr := mall_inv hm hs r hP.2.2 (by omega)
    simp only [satDissatG]
    refine ⟨concat_lockOK hl.lockS hr.lockS, concat_lockOK hl.lockD hr.lockD, ?_, ?_, ?_, ?_⟩
    · have := concat_wsz hl.lockS hr.lockS; have := hl.szS; have := hr.szS
      simp only [itemBound]; omega
    · have := concat_wsz hl.lockD hr.lockD; have := hl.szD; have := hr.szD
      simp only [itemBound]; omega
    · intro hex
      simp only [satEx, Bool.and_eq_true] at hex
      rw [concat_isStk hl.lockS hr.lockS, hl.sat hex.1, hr.sat hex.2]; rfl
    · intro hex
      simp only [dsatEx, Bool.and_eq_true] at hex
      rw [concat_isStk hl.lockD hr.lockD, hl.dsat hex.1, hr.dsat hex.2]; rfl
  | .andV l r, hP, hsm => by
    simp only [allNodes, subterms, List.all_cons, List.all_append, Bool.and_eq_true] at hP
    simp only [itemBound] at hsm
    have hl := mall_inv hm hs l hP.2.1 (by omega)
    have hr := mall_inv hm hs r hP.2.2 (by omega)
    simp only [satDissatG]
    refine ⟨concat_lockOK hl.lockS hr.lockS, concat_lockOK hl.lockS hr.lockD, ?_, ?_, ?_, by simp [dsatEx]⟩
    · have := concat_wsz hl.lockS hr.lockS; have := hl.szS; have := hr.szS
      simp only [itemBound]; omega
    · have := concat_wsz hl.lockS hr.lockD; have := hl.szS; have := hr.szD
      simp only [itemBound]; omega
    · intro hex
      simp only [satEx, Bool.and_eq_true] at hex
      rw [concat_isStk hl.lockS hr.lockS, hl.sat hex.1, hr.sat hex.2]; rfl
  | .andOr x y z, hP, hsm => by
    simp only [allNodes, subterms, List.all_cons, List.all_append, Bool.and_eq_true] at hP
    simp only [itemBound] at hsm
    have hx := mall_inv hm hs x hP.2.1.1 (by omega)
    have hy := mall_inv hm hs y hP.2.1.2 (by omega)
    have hz := mall_inv hm hs z hP.2.2 (by omega)
    simp only [satDissatG, minFn_mall hm]
    refine ⟨minMall_lockOK (concat_lockOK hx.lockS hy.lockS) (concat_lockOK hx.lockD hz.lockS),
      concat_lockOK hx.lockD hz.lockD, ?_, ?_, ?_, ?_⟩
    · have := concat_wsz hx.lockS hy.lockS; have := concat_wsz hx.lockD hz.lockS
      have := hx.szS; have := hy.szS; have := hx.szD; have := hz.szS
      simp only [itemBound]
      apply minMall_wsz <;> omega
    · have := concat_wsz hx.lockD hz.lockD; have := hx.szD; have := hz.szD
      simp only [itemBound]; omega
    · intro hex
      simp only [satEx, Bool.or_eq_true, Bool.and_eq_true] at hex
      rw [minMall_isStk, concat_isStk hx.lockS hy.lockS, concat_isStk hx.lockD hz.lockS]
      rcases hex with h | h
      · rw [hx.sat h.1, hy.sat h.2]; rfl
      · rw [hx.dsat h.1, hz.sat h.2]; simp
    · intro hex
      simp only [dsatEx, Bool.and_eq_true] at hex
      rw [concat_isStk hx.lockD hz.lockD, hx.dsat hex.1, hz.dsat hex.2]; rfl
  | .orB l r, hP, hsm => by
    simp only [allNodes, subterms, List.all_cons, List.all_append, Bool.and_eq_true] at hP
    simp only [itemBound] at hsm
    have hl := mall_inv hm hs l hP.2.1 (by omega)
    have hr := mall_inv hm hs r hP.2.2 (by omega)
    simp only [satDissatG, minFn_mall hm]
    refine ⟨minMall_lockOK (concat_lockOK hl.lockD hr.lockS) (concat_lockOK hl.lockS hr.lockD),
      concat_lockOK hl.lockD hr.lockD, ?_, ?_, ?_, ?_⟩
    · have := concat_wsz hl.lockD hr.lockS; have := concat_wsz hl.lockS hr.lockD
      have := hl.szS; have := hr.szS; have := hl.szD; have := hr.szD
      simp only [itemBound]
      apply minMall_wsz <;> omega
    · have := concat_wsz hl.lockD hr.lockD; have := hl.szD; have := hr.szD
      simp only [itemBound]; omega
    · intro hex
      simp only [satEx, Bool.or_eq_true, Bool.and_eq_true] at hex
      rw [minMall_isStk, concat_isStk hl.lockD hr.lockS, concat_isStk hl.lockS hr.lockD]
      rcases hex with h | h
      · rw [hl.sat h.1, hr.dsat h.2]; simp
      · rw [hl.dsat h.1, hr.sat h.2]; rfl
    · intro hex
      simp only [dsatEx, Bool.and_eq_true] at hex
      rw [concat_isStk hl.lockD hr.lockD, hl.dsat hex.1, hr.dsat hex.2]; rfl
  | .orC l r, hP, hsm => by
    simp only [allNodes, subterms, List.all_cons, List.all_append, Bool.and_eq_true] at hP
    simp only [itemBound] at hsm
    have hl := mall_inv hm hs l hP.2.1 (by omega)
    have hr := mall_inv hm hs r hP.2.2 (by omega)
    simp only [satDissatG, minFn_mall hm]
    refine ⟨minMall_lockOK hl.lockS (concat_lockOK hl.lockD hr.lockS),
      lockOK_IMPOSSIBLE _ _, ?_, by simp [wsz, IMPOSSIBLE], ?_, by simp [dsatEx]⟩
    · have := concat_wsz hl.lockD hr.lockS
      have := hl.szS; have := hr.szS; have := hl.szD
      simp only [itemBound]
      apply minMall_wsz <;> omega
    · intro hex
      simp only [satEx, Bool.or_eq_true, Bool.and_eq_true] at hex
      rw [minMall_isStk, concat_isStk hl.lockD hr.lockS]
      rcases hex with h | h
      · rw [hl.sat h]; rfl
      · rw [hl.dsat h.1, hr.sat h.2]; simp
  | .orD l r, hP, hsm => by
    simp only [allNodes, subterms, List.all_cons, List.all_append, Bool.and_eq_true] at hP
    simp only [itemBound] at hsm
    have hl := mall_inv hm hs l hP.2.1 (by omega)
    have hr := mall_inv hm hs r hP.2.2 (by omega)
    simp only [satDissatG, minFn_mall hm]
    refine ⟨minMall_lockOK hl.lockS (concat_lockOK hl.lockD hr.lockS),
      concat_lockOK hl.lockD hr.lockD, ?_, ?_, ?_, ?_⟩
    · have := concat_wsz hl.lockD hr.lockS
      have := hl.szS; have := hr.szS; have := hl.szD
      simp only [itemBound]
      apply minMall_wsz <;> omega
    · have := concat_wsz hl.lockD hr.lockD; have := hl.szD; have := hr.szD
      simp only [itemBound]; omega
    · intro hex
      simp only [satEx, Bool.or_eq_true, Bool.and_eq_true] at hex
      rw [minMall_isStk, concat_isStk hl.lockD hr.lockS]
      rcases hex with h | h
      · rw [hl.sat h]; rfl
      · rw [hl.dsat h.1, hr.sat h.2]; simp
    · intro hex
      simp only [dsatEx, Bool.and_eq_true] at hex
      rw [concat_isStk hl.lockD hr.lockD, hl.dsat hex.1, hr.dsat hex.2]; rfl
  | .orI l r, hP, hsm => by
    simp only [allNodes, subterms, List.all_cons, List.all_append, Bool.and_eq_true] at hP
    simp only [itemBound] at hsm
    have hl := mall_inv hm hs l hP.2.1 (by omega)
    have hr := mall_inv hm hs r hP.2.2 (by omega)
    simp only [satDissatG, minFn_mall hm]
    refine ⟨minMall_lockOK (lockOK_congr hl.lockS rfl rfl) (lockOK_congr hr.lockS rfl rfl),
      minMall_lockOK (lockOK_congr hl.lockD rfl rfl) (lockOK_congr hr.lockD rfl rfl), ?_, ?_, ?_, ?_⟩
    · have h1 := wsz_combine_one (w := (satDissatG nz c l).sat.stack) .pushOne (by simp [Ph.size]) hl.szS
      have h2 := wsz_combine_one (w := (satDissatG nz c r).sat.stack) .pushZero (by simp [Ph.size]) hr.szS
      simp only [itemBound]
      apply minMall_wsz <;> simp only <;> omega
    · have h1 := wsz_combine_one (w := (satDissatG nz c l).dissat.stack) .pushOne (by simp [Ph.size]) hl.szD
      have h2 := wsz_combine_one (w := (satDissatG nz c r).dissat.stack) .pushZero (by simp [Ph.size]) hr.szD
      simp only [itemBound]
      apply minMall_wsz <;> simp only <;> omega
    · intro hex
      simp only [satEx, Bool.or_eq_true] at hex
      rw [minMall_isStk]
      simp only [combine_isStk, isStk_stack, Bool.and_true]
      rcases hex with h | h
      · rw [hl.sat h]; rfl
      · rw [hr.sat h]; simp
    · intro hex
      simp only [dsatEx, Bool.or_eq_true] at hex
      rw [minMall_isStk]
      simp only [combine_isStk, isStk_stack, Bool.and_true]
      rcases hex with h | h
      · rw [hl.dsat h]; rfl
      · rw [hr.dsat h]; simp
  | .thresh k xs, hP, hsm => by
    simp only [allNodes, subterms, List.all_cons, Bool.and_eq_true] at hP
    have ih := mall_invs hm hs xs hP.2 (by simpa [itemBound] using hsm)
    have := thresh_mall_inv k xs (satDissatG nz c) ih (by simpa [itemBound] using hsm)
    simp only [satDissatG, hm, if_true, satDissatsG_eq_map]
    exact this
theorem mall_invs (hm : c.mall = true) (hs : SigSizesOK c.assets) :
    (xs : MsList) → allNodesL (mallP nz c.assets ua ur) xs = true → 73 * itemBounds xs < SMALL →
      ∀ x ∈ xs.toList, MallInv ua ur (availOf c.assets c.ctx) x (satDissatG nz c x)
  | .nil, _, _ => by simp [MsList.toList]
  | .cons y ys, hP, hsm => by
    rw [allNodesL_cons, Bool.and_eq_true] at hP
    simp only [itemBounds] at hsm
    intro x hx
    simp only [MsList.toList, List.mem_cons] at hx
    rcases hx with h | hx
    · rw [h]; exact mall_inv hm hs y hP.1 (by omega)
    · exact mall_invs hm hs ys hP.2 (by omega) x hx
end

end

end MsVerif.Complete

/-
C09 helper lemmas, part 7: `Miniscript::script_size` equals the length of the encoded script.
-/
import MsVerif.Model.Ext
import MsVerif.Model.Encode
import MsVerif.Spec.Frag

namespace MsVerif.C09
open MsVerif Script

/-- length in bytes of a script -/
def slen (s : List Op) : Nat := (serialize s).length

@[simp] theorem slen_nil : slen [] = 0 := rfl
@[simp] theorem slen_append (a b : List Op) : slen (a ++ b) = slen a + slen b := by
  simp [slen, serialize, List.flatMap_append]
@[simp] theorem slen_cons (o : Op) (s : List Op) : slen (o :: s) = o.bytes.length + slen s := by
  simp [slen, serialize, List.flatMap_cons]

@[simp] theorem code_len (o : Opc) : (Op.code o).bytes.length = 1 := rfl

theorem small_len (n : Nat) : (Op.small n).bytes.length = 1 := by
  cases n <;> rfl

theorem push_len (bs : Bytes) (h : bs.length < 0x4c) : (Op.push bs).bytes.length = bs.length + 1 := by
  simp [Op.bytes, pushPrefix, h]

/-! ### script numbers -/

theorem le1 (n : Nat) (h1 : 0 < n) (h2 : n < 256) : leBytes 9 n = [UInt8.ofNat (n % 256)] := by
  have : n ≠ 0 := by omega
  have : n / 256 = 0 := by omega
  simp [leBytes, *]

theorem le2 (n : Nat) (h1 : 256 ≤ n) (h2 : n < 65536) :
    leBytes 9 n = [UInt8.ofNat (n % 256), UInt8.ofNat (n / 256 % 256)] := by
  have : n ≠ 0 := by omega
  have : n / 256 ≠ 0 := by omega
  have : n / 256 / 256 = 0 := by omega
  simp [leBytes, *]

theorem le3 (n : Nat) (h1 : 65536 ≤ n) (h2 : n < 16777216) :
    leBytes 9 n = [UInt8.ofNat (n % 256), UInt8.ofNat (n / 256 % 256), UInt8.ofNat (n / 256 / 256 % 256)] := by
  have : n ≠ 0 := by omega
  have : n / 256 ≠ 0 := by omega
  have : n / 256 / 256 ≠ 0 := by omega
  have : n / 256 / 256 / 256 = 0 := by omega
  simp [leBytes, *]

theorem le4 (n : Nat) (h1 : 16777216 ≤ n) (h2 : n < 4294967296) :
    leBytes 9 n = [UInt8.ofNat (n % 256), UInt8.ofNat (n / 256 % 256), UInt8.ofNat (n / 256 / 256 % 256),
      UInt8.ofNat (n / 256 / 256 / 256 % 256)] := by
  have : n ≠ 0 := by omega
  have : n / 256 ≠ 0 := by omega
  have : n / 256 / 256 ≠ 0 := by omega
  have : n / 256 / 256 / 256 ≠ 0 := by omega
  have : n / 256 / 256 / 256 / 256 = 0 := by omega
  simp [leBytes, *]

/-- length of the minimal script-number encoding of a `u32` above 16 -/
theorem numEncode_len (n : Nat) (h1 : 17 ≤ n) (h2 : n < 4294967296) :
    (numEncode (Int.ofNat n)).length =
      (if n < 0x80 then 1 else if n < 0x8000 then 2 else if n < 0x800000 then 3
       else if n < 0x80000000 then 4 else 5) := by
  have hv : ¬ ((n : Int) = 0) := by omega
  have hneg : ¬ ((n : Int) < 0) := by omega
  simp only [numEncode, Int.ofNat_eq_natCast, hv, if_false, Int.natAbs_natCast, hneg]
  rcases Nat.lt_or_ge n 256 with a | a
  · rw [le1 n (by omega) a]
    simp only [List.getLast?_singleton, UInt8.toNat_ofNat']
    split <;> split <;> simp <;> omega
  · rcases Nat.lt_or_ge n 65536 with b | b
    · rw [le2 n a b]
      simp only [List.getLast?_cons_cons, List.getLast?_singleton, UInt8.toNat_ofNat']
      split <;> (repeat' split) <;> simp <;> omega
    · rcases Nat.lt_or_ge n 16777216 with c | c
      · rw [le3 n b c]
        simp only [List.getLast?_cons_cons, List.getLast?_singleton, UInt8.toNat_ofNat']
        split <;> (repeat' split) <;> simp <;> omega
      · rw [le4 n c h2]
        simp only [List.getLast?_cons_cons, List.getLast?_singleton, UInt8.toNat_ofNat']
        split <;> (repeat' split) <;> simp <;> omega

/-- `script_num_size` is the size of `Builder::push_int` for every `u32` -/
theorem pushInt_len (n : Nat) (h : n < 4294967296) : (pushInt n).bytes.length = scriptNumSize n := by
  unfold pushInt
  split
  · rename_i h16
    rw [small_len]
    simp [scriptNumSize, h16]
  · rename_i h16
    have hl := numEncode_len n (by omega) h
    have hlt : (numEncode (Int.ofNat n)).length < 0x4c := by rw [hl]; (repeat' split) <;> omega
    rw [push_len _ hlt, hl]
    have h16' : ¬ n ≤ 0x10 := by omega
    simp only [scriptNumSize, h16', if_false]
    (repeat' split) <;> omega

/-! ### `has_free_verify` is "the encoding ends in a fusable opcode" -/

mutual
theorem encode_ne_nil (ke : KeyEnv) (ctx : Ctx) : (ms : Ms) → encode ke ctx ms ≠ []
  | .tru | .fls | .pkK _ | .pkH _ | .rawPkH _ | .after _ | .older _ | .hash _ _ => by simp [encode]
  | .alt _ | .swap _ | .dupIf _ | .nonZero _ | .orI _ _ => by simp [encode]
  | .check _ | .zeroNotEqual _ | .andB _ _ | .orB _ _ | .orD _ _ | .orC _ _ | .andOr _ _ _
  | .thresh _ _ | .multi _ _ | .sortedMulti _ _ | .multiA _ _ | .sortedMultiA _ _ => by simp [encode]
  | .verify x => by
    simp only [encode, pushVerify]
    split <;> simp
  | .andV l _ => by
    have := encode_ne_nil ke ctx l
    simp [encode, this]
end

theorem getLast?_append_ne (a b : List Op) (hb : b ≠ []) : (a ++ b).getLast? = b.getLast? := by
  rw [List.getLast?_append]
  cases h : b.getLast? with
  | none => exact absurd (List.getLast?_eq_none_iff.1 h) hb
  | some x => rfl

theorem endsFusable_append_ne (a b : List Op) (hb : b ≠ []) : endsFusable (a ++ b) = endsFusable b := by
  simp only [endsFusable, getLast?_append_ne a b hb]

theorem endsFusable_concat (a : List Op) (o : Op) :
    endsFusable (a ++ [o]) = (o == .code .equal || o == .code .numequal || o == .code .checksig
      || o == .code .checkmultisig) := by
  simp only [endsFusable, List.getLast?_concat]
  cases o with
  | code c => cases c <;> rfl
  | _ => rfl

theorem pushVerify_not_fusable (s : List Op) : endsFusable (pushVerify s) = false := by
  unfold pushVerify
  split <;> simp [endsFusable_concat]

mutual
theorem hfv_eq (ke : KeyEnv) (ctx : Ctx) : (ms : Ms) →
    (extOf ke ctx ms).hasFreeVerify = endsFusable (encode ke ctx ms)
  | .tru | .fls | .pkK _ | .pkH _ | .rawPkH _ => by cases ctx <;> rfl
  | .after _ | .older _ => rfl
  | .hash kind _ => by cases kind <;> rfl
  | .alt x => by
    simp only [extOf, ExtData.castAlt, encode]
    rw [endsFusable_concat]; rfl
  | .swap x => by
    simp only [extOf, ExtData.castSwap, encode]
    rw [endsFusable_append_ne _ _ (encode_ne_nil ke ctx x)]; exact hfv_eq ke ctx x
  | .check x => by simp only [extOf, ExtData.castCheck, encode]; rw [endsFusable_concat]; rfl
  | .dupIf x => by simp only [extOf, ExtData.castDupIf, encode]; rw [endsFusable_concat]; rfl
  | .verify x => by simp only [extOf, ExtData.castVerify, encode, pushVerify_not_fusable]
  | .nonZero x => by simp only [extOf, ExtData.castNonZero, encode]; rw [endsFusable_concat]; rfl
  | .zeroNotEqual x => by
    simp only [extOf, ExtData.castZeroNotEqual, encode]; rw [endsFusable_concat]; rfl
  | .andV l r => by
    simp only [extOf, ExtData.andV, encode]
    rw [endsFusable_append_ne _ _ (encode_ne_nil ke ctx r)]; exact hfv_eq ke ctx r
  | .andB l r => by simp only [extOf, ExtData.andB, encode]; rw [endsFusable_concat]; rfl
  | .andOr a b c => by simp only [extOf, ExtData.andOr, encode]; rw [endsFusable_concat]; rfl
  | .orB l r => by simp only [extOf, ExtData.orB, encode]; rw [endsFusable_concat]; rfl
  | .orD l r => by simp only [extOf, ExtData.orD, encode]; rw [endsFusable_concat]; rfl
  | .orC l r => by simp only [extOf, ExtData.orC, encode]; rw [endsFusable_concat]; rfl
  | .orI l r => by simp only [extOf, ExtData.orI, encode]; rw [endsFusable_concat]; rfl
  | .thresh k xs => by
    simp only [extOf, ExtData.threshold, encode]
    rw [show encodeThresh ke ctx true xs ++ [pushInt k, Op.code .equal]
        = (encodeThresh ke ctx true xs ++ [pushInt k]) ++ [Op.code .equal] by simp, endsFusable_concat]
    rfl
  | .multi k ks => by
    simp only [extOf, ExtData.multi, encode]
    rw [show [pushInt k] ++ ks.map (fun pk => Op.push (ke.ser pk)) ++ [pushInt ks.length, Op.code .checkmultisig]
        = ([pushInt k] ++ ks.map (fun pk => Op.push (ke.ser pk)) ++ [pushInt ks.length]) ++ [Op.code .checkmultisig] by simp,
      endsFusable_concat]
    rfl
  | .sortedMulti k ks => by
    simp only [extOf, ExtData.multi, encode]
    rw [show [pushInt k] ++ (sortKeys ke ks).map (fun pk => Op.push (ke.ser pk)) ++ [pushInt ks.length, Op.code .checkmultisig]
        = ([pushInt k] ++ (sortKeys ke ks).map (fun pk => Op.push (ke.ser pk)) ++ [pushInt ks.length]) ++ [Op.code .checkmultisig] by simp,
      endsFusable_concat]
    rfl
  | .multiA k ks => by
    simp only [extOf, ExtData.multiA, encode]
    rw [show encodeMultiA ke ks ++ [pushInt k, Op.code .numequal]
        = (encodeMultiA ke ks ++ [pushInt k]) ++ [Op.code .numequal] by simp, endsFusable_concat]
    rfl
  | .sortedMultiA k ks => by
    simp only [extOf, ExtData.multiA, encode]
    rw [show encodeMultiA ke (sortKeys ke ks) ++ [pushInt k, Op.code .numequal]
        = (encodeMultiA ke (sortKeys ke ks) ++ [pushInt k]) ++ [Op.code .numequal] by simp, endsFusable_concat]
    rfl
end

theorem dropLast_concat_getLast {s : List Op} {a : Op} (h : s.getLast? = some a) :
    s.dropLast ++ [a] = s := by
  induction s with
  | nil => simp at h
  | cons x xs ih =>
    cases xs with
    | nil => simp at h; simp [h]
    | cons y ys =>
      rw [List.getLast?_cons_cons] at h
      simp only [List.dropLast_cons₂, List.cons_append, ih h]

theorem slen_pushVerify (s : List Op) :
    slen (pushVerify s) = slen s + (if endsFusable s then 0 else 1) := by
  unfold pushVerify endsFusable
  cases h : s.getLast? with
  | none => simp
  | some op =>
    have hs := dropLast_concat_getLast h
    have hl : slen s = slen s.dropLast + op.bytes.length :=
      calc slen s = slen (s.dropLast ++ [op]) := by rw [hs]
        _ = slen s.dropLast + op.bytes.length := by simp
    cases op with
    | code o => cases o <;> simp [hl]
    | small n => simp
    | push bs => simp
    | bad b => simp

/-! ### the size theorem -/

/-- key serialisation has the length the context prescribes -/
def keyOk (ke : KeyEnv) (ctx : Ctx) (k : Key) : Bool :=
  match ctx with
  | .tap => (ke.ser k).length == 32
  | .segwitv0 => (ke.ser k).length == 33
  | _ => (ke.ser k).length == 33 || (ke.ser k).length == 65

def hashLen : HashKind → Nat
  | .sha256 | .hash256 => 32
  | .ripemd160 | .hash160 => 20

mutual
/-- in-range numbers (`u32`), at least one child in `thresh`, byte strings of the right length -/
def sizeOk (ke : KeyEnv) (ctx : Ctx) : Ms → Bool
  | .pkK k => keyOk ke ctx k
  | .pkH k => (ke.pkh k).length == 20
  | .rawPkH h => (ke.rawPkh h).length == 20
  | .after n | .older n => decide (n < 4294967296)
  | .hash kind h => (ke.hashVal kind h).length == hashLen kind
  | .alt x | .swap x | .check x | .dupIf x | .verify x | .nonZero x | .zeroNotEqual x => sizeOk ke ctx x
  | .andV l r | .andB l r | .orB l r | .orD l r | .orC l r | .orI l r => sizeOk ke ctx l && sizeOk ke ctx r
  | .andOr a b c => sizeOk ke ctx a && sizeOk ke ctx b && sizeOk ke ctx c
  | .thresh k xs => decide (k < 4294967296) && decide (0 < xs.length) && sizeOks ke ctx xs
  | .multi k ks | .sortedMulti k ks =>
    decide (k < 4294967296) && decide (ks.length < 4294967296) && ks.all (keyOk ke ctx)
  | .multiA k ks | .sortedMultiA k ks => decide (k < 4294967296) && ks.all (keyOk ke ctx)
  | .tru | .fls => true
def sizeOks (ke : KeyEnv) (ctx : Ctx) : MsList → Bool
  | .nil => true
  | .cons x xs => sizeOk ke ctx x && sizeOks ke ctx xs
end

theorem key_push_len {ke : KeyEnv} {ctx : Ctx} {k : Key} (h : keyOk ke ctx k = true) :
    (Op.push (ke.ser k)).bytes.length = pkLen ke ctx k := by
  cases ctx <;> simp only [keyOk, Bool.or_eq_true, beq_iff_eq] at h
  · rcases h with h | h <;> rw [push_len _ (by omega)] <;> simp [pkLen, h]
  · rcases h with h | h <;> rw [push_len _ (by omega)] <;> simp [pkLen, h]
  · rw [push_len _ (by omega)]; simp [pkLen, h]
  · rw [push_len _ (by omega)]; simp [pkLen, h]

theorem keys_push_len {ke : KeyEnv} {ctx : Ctx} : ∀ (ks : List Key), ks.all (keyOk ke ctx) = true →
    slen (ks.map (fun pk => Op.push (ke.ser pk))) = (ks.map (pkLen ke ctx)).sum := by
  intro ks
  induction ks with
  | nil => intro _; rfl
  | cons k ks ih =>
    intro h
    simp only [List.all_cons, Bool.and_eq_true] at h
    simp only [List.map_cons, slen_cons, List.sum_cons, key_push_len h.1, ih h.2]

theorem multiA_len {ke : KeyEnv} {ctx : Ctx} : ∀ (ks : List Key), ks.all (keyOk ke ctx) = true →
    slen (encodeMultiA ke ks) = (ks.map (pkLen ke ctx)).sum + ks.length := by
  intro ks h
  cases ks with
  | nil => rfl
  | cons k ks =>
    simp only [List.all_cons, Bool.and_eq_true] at h
    have : ∀ l : List Key, l.all (keyOk ke ctx) = true →
        slen (l.flatMap (fun pk => [Op.push (ke.ser pk), Op.code .checksigadd]))
          = (l.map (pkLen ke ctx)).sum + l.length := by
      intro l
      induction l with
      | nil => intro _; rfl
      | cons x xs ih =>
        intro hx
        simp only [List.all_cons, Bool.and_eq_true] at hx
        simp only [List.flatMap_cons, slen_append, slen_cons, slen_nil, key_push_len hx.1, code_len,
          ih hx.2, List.map_cons, List.sum_cons, List.length_cons]
        omega
    simp only [encodeMultiA, slen_append, slen_cons, slen_nil, key_push_len h.1, code_len, this ks h.2,
      List.map_cons, List.sum_cons, List.length_cons]
    omega

theorem insertByKey_perm (env : KeyEnv) (k : Key) (l : List Key) : (insertByKey env k l).Perm (k :: l) := by
  induction l with
  | nil => exact List.Perm.refl _
  | cons y ys ih =>
    simp only [insertByKey]
    split
    · exact ((List.perm_cons y).2 ih).trans (List.Perm.swap k y ys)
    · exact List.Perm.refl _

theorem sortKeys_perm (env : KeyEnv) (ks : List Key) : (sortKeys env ks).Perm ks := by
  have : ∀ (v acc : List Key), (v.foldl (fun acc k => insertByKey env k acc) acc).Perm (v ++ acc) := by
    intro v
    induction v with
    | nil => intro acc; exact List.Perm.refl _
    | cons x xs ih =>
      intro acc
      simp only [List.foldl_cons]
      refine (ih _).trans ?_
      refine (List.Perm.append_left xs (insertByKey_perm env x acc)).trans ?_
      simpa using (List.perm_middle (a := x) (l₁ := xs) (l₂ := acc))
  simpa [sortKeys] using this ks []

theorem all_perm {l₁ l₂ : List Key} (p : Key → Bool) (h : l₁.Perm l₂) : l₁.all p = l₂.all p := by
  rw [Bool.eq_iff_iff]
  simp only [List.all_eq_true]
  exact ⟨fun h1 x hx => h1 x (h.mem_iff.2 hx), fun h1 x hx => h1 x (h.mem_iff.1 hx)⟩

mutual
theorem scriptSize_eq (ke : KeyEnv) (ctx : Ctx) : (ms : Ms) → sizeOk ke ctx ms = true →
    scriptSize ke ctx ms = slen (encode ke ctx ms)
  | .tru, _ | .fls, _ => rfl
  | .pkK k, h => by
    simp only [sizeOk] at h
    simp only [scriptSize, encode, slen_cons, slen_nil, key_push_len h, Nat.add_zero]
  | .pkH k, h => by
    simp only [sizeOk, beq_iff_eq] at h
    simp only [scriptSize, encode, slen_cons, slen_nil, code_len, push_len _ (by omega : (ke.pkh k).length < 0x4c), h]
  | .rawPkH k, h => by
    simp only [sizeOk, beq_iff_eq] at h
    simp only [scriptSize, encode, slen_cons, slen_nil, code_len, push_len _ (by omega : (ke.rawPkh k).length < 0x4c), h]
  | .after n, h => by
    simp only [sizeOk, decide_eq_true_eq] at h
    simp only [scriptSize, encode, slen_cons, slen_nil, code_len, pushInt_len n h]
  | .older n, h => by
    simp only [sizeOk, decide_eq_true_eq] at h
    simp only [scriptSize, encode, slen_cons, slen_nil, code_len, pushInt_len n h]
  | .hash kind x, h => by
    simp only [sizeOk, beq_iff_eq] at h
    have h32 : (pushInt 32).bytes.length = 2 := by rw [pushInt_len 32 (by omega)]; rfl
    have hl : (ke.hashVal kind x).length < 0x4c := by rw [h]; cases kind <;> simp [hashLen]
    cases kind <;>
      simp only [scriptSize, encode, slen_cons, slen_nil, code_len, h32, push_len _ hl, h, hashLen]
  | .alt x, h => by
    simp only [sizeOk] at h
    simp only [scriptSize, encode, slen_append, slen_cons, slen_nil, code_len, scriptSize_eq ke ctx x h]; omega
  | .swap x, h => by
    simp only [sizeOk] at h
    simp only [scriptSize, encode, slen_append, slen_cons, slen_nil, code_len, scriptSize_eq ke ctx x h]
  | .check x, h => by
    simp only [sizeOk] at h
    simp only [scriptSize, encode, slen_append, slen_cons, slen_nil, code_len, scriptSize_eq ke ctx x h]; omega
  | .zeroNotEqual x, h => by
    simp only [sizeOk] at h
    simp only [scriptSize, encode, slen_append, slen_cons, slen_nil, code_len, scriptSize_eq ke ctx x h]; omega
  | .dupIf x, h => by
    simp only [sizeOk] at h
    simp only [scriptSize, encode, slen_append, slen_cons, slen_nil, code_len, scriptSize_eq ke ctx x h]; omega
  | .nonZero x, h => by
    simp only [sizeOk] at h
    simp only [scriptSize, encode, slen_append, slen_cons, slen_nil, code_len, scriptSize_eq ke ctx x h]; omega
  | .verify x, h => by
    simp only [sizeOk] at h
    simp only [scriptSize, encode, slen_pushVerify, hfv_eq ke ctx x, scriptSize_eq ke ctx x h]; omega
  | .andV l r, h => by
    simp only [sizeOk, Bool.and_eq_true] at h
    simp only [scriptSize, encode, slen_append, scriptSize_eq ke ctx l h.1, scriptSize_eq ke ctx r h.2]
  | .andB l r, h => by
    simp only [sizeOk, Bool.and_eq_true] at h
    simp only [scriptSize, encode, slen_append, slen_cons, slen_nil, code_len,
      scriptSize_eq ke ctx l h.1, scriptSize_eq ke ctx r h.2]; omega
  | .orB l r, h => by
    simp only [sizeOk, Bool.and_eq_true] at h
    simp only [scriptSize, encode, slen_append, slen_cons, slen_nil, code_len,
      scriptSize_eq ke ctx l h.1, scriptSize_eq ke ctx r h.2]; omega
  | .orD l r, h => by
    simp only [sizeOk, Bool.and_eq_true] at h
    simp only [scriptSize, encode, slen_append, slen_cons, slen_nil, code_len,
      scriptSize_eq ke ctx l h.1, scriptSize_eq ke ctx r h.2]; omega
  | .orC l r, h => by
    simp only [sizeOk, Bool.and_eq_true] at h
    simp only [scriptSize, encode, slen_append, slen_cons, slen_nil, code_len,
      scriptSize_eq ke ctx l h.1, scriptSize_eq ke ctx r h.2]; omega
  | .orI l r, h => by
    simp only [sizeOk, Bool.and_eq_true] at h
    simp only [scriptSize, encode, slen_append, slen_cons, slen_nil, code_len,
      scriptSize_eq ke ctx l h.1, scriptSize_eq ke ctx r h.2]; omega
  | .andOr a b c, h => by
    simp only [sizeOk, Bool.and_eq_true] at h
    simp only [scriptSize, encode, slen_append, slen_cons, slen_nil, code_len,
      scriptSize_eq ke ctx a h.1.1, scriptSize_eq ke ctx b h.1.2, scriptSize_eq ke ctx c h.2]; omega
  | .thresh k xs, h => by
    simp only [sizeOk, Bool.and_eq_true, decide_eq_true_eq] at h
    have := encodeThresh_len ke ctx xs h.2 true
    simp only [scriptSize, encode, slen_append, slen_cons, slen_nil, code_len, pushInt_len k h.1.1]
    have hp := h.1.2
    simp only [hp, decide_true, Bool.and_true, if_true] at this
    omega
  | .multi k ks, h => by
    simp only [sizeOk, Bool.and_eq_true, decide_eq_true_eq] at h
    simp only [scriptSize, encode, slen_append, slen_cons, slen_nil, code_len, pushInt_len k h.1.1,
      pushInt_len ks.length h.1.2, keys_push_len ks h.2]; omega
  | .sortedMulti k ks, h => by
    simp only [sizeOk, Bool.and_eq_true, decide_eq_true_eq] at h
    have hp := sortKeys_perm ke ks
    have hall : (sortKeys ke ks).all (keyOk ke ctx) = true := by rw [all_perm _ hp]; exact h.2
    simp only [scriptSize, encode, slen_append, slen_cons, slen_nil, code_len, pushInt_len k h.1.1,
      pushInt_len ks.length h.1.2, keys_push_len _ hall, (hp.map (pkLen ke ctx)).sum_nat]; omega
  | .multiA k ks, h => by
    simp only [sizeOk, Bool.and_eq_true, decide_eq_true_eq] at h
    simp only [scriptSize, encode, slen_append, slen_cons, slen_nil, code_len, pushInt_len k h.1,
      multiA_len ks h.2]; omega
  | .sortedMultiA k ks, h => by
    simp only [sizeOk, Bool.and_eq_true, decide_eq_true_eq] at h
    have hp := sortKeys_perm ke ks
    have hall : (sortKeys ke ks).all (keyOk ke ctx) = true := by rw [all_perm _ hp]; exact h.2
    simp only [scriptSize, encode, slen_append, slen_cons, slen_nil, code_len, pushInt_len k h.1,
      multiA_len _ hall, (hp.map (pkLen ke ctx)).sum_nat, hp.length_eq]; omega
theorem encodeThresh_len (ke : KeyEnv) (ctx : Ctx) : (xs : MsList) → sizeOks ke ctx xs = true →
    ∀ first : Bool, slen (encodeThresh ke ctx first xs) + (if (first && decide (0 < xs.length)) = true then 1 else 0)
      = scriptSizes ke ctx xs + xs.length
  | .nil, _ => by intro first; cases first <;> simp [encodeThresh, scriptSizes, MsList.length]
  | .cons x xs, h => by
    intro first
    simp only [sizeOks, Bool.and_eq_true] at h
    have ih := encodeThresh_len ke ctx xs h.2 false
    simp only [Bool.false_and, Bool.false_eq_true, if_false, Nat.add_zero] at ih
    cases first <;>
      simp [encodeThresh, scriptSizes, MsList.length, ih, scriptSize_eq ke ctx x h.1] <;> omega
end

/-! ### `pk_cost` versus the script size -/

mutual
/-- by how much `pk_cost` over-estimates: only `multi_a`, whose `num_cost` table charges one byte
too many when `n > 16 ≥ k` or `16 < k ≤ 127` -/
def costSlack : Ms → Nat
  | .multiA k ks | .sortedMultiA k ks => ExtData.numCost k ks.length - (scriptNumSize k + 1)
  | .alt x | .swap x | .check x | .dupIf x | .verify x | .nonZero x | .zeroNotEqual x => costSlack x
  | .andV l r | .andB l r | .orB l r | .orD l r | .orC l r | .orI l r => costSlack l + costSlack r
  | .andOr a b c => costSlack a + costSlack b + costSlack c
  | .thresh _ xs => costSlacks xs
  | _ => 0
def costSlacks : MsList → Nat
  | .nil => 0
  | .cons x xs => costSlack x + costSlacks xs
end

mutual
/-- keys of the length the context prescribes; `multi` outside tapscript with `k, n ≤ 127`
(`Threshold` caps them at 20); `multi_a` in tapscript with `n ≥ 1` and `k ≤ n`-style sizes for
which `num_cost` is not too small; `thresh` non-empty -/
def costOk (ke : KeyEnv) (ctx : Ctx) : Ms → Bool
  | .pkK k => keyOk ke ctx k
  | .multi k ks | .sortedMulti k ks =>
    decide (ctx ≠ .tap) && decide (k ≤ 127) && decide (ks.length ≤ 127) && ks.all (keyOk ke ctx)
  | .multiA k ks | .sortedMultiA k ks =>
    decide (ctx = .tap) && decide (1 ≤ ks.length) && decide (scriptNumSize k + 1 ≤ ExtData.numCost k ks.length)
  | .alt x | .swap x | .check x | .dupIf x | .verify x | .nonZero x | .zeroNotEqual x => costOk ke ctx x
  | .andV l r | .andB l r | .orB l r | .orD l r | .orC l r | .orI l r => costOk ke ctx l && costOk ke ctx r
  | .andOr a b c => costOk ke ctx a && costOk ke ctx b && costOk ke ctx c
  | .thresh _ xs => decide (0 < xs.length) && costOks ke ctx xs
  | _ => true
def costOks (ke : KeyEnv) (ctx : Ctx) : MsList → Bool
  | .nil => true
  | .cons x xs => costOk ke ctx x && costOks ke ctx xs
end

theorem pkLen_eq_keySig {ke : KeyEnv} {ctx : Ctx} {k : Key} (h : keyOk ke ctx k = true) :
    pkLen ke ctx k = (ExtData.keySig ctx (isUnc ke k)).1 := by
  cases ctx <;> simp only [keyOk, Bool.or_eq_true, beq_iff_eq] at h <;>
    simp only [pkLen, ExtData.keySig, Ctx.sigType, isUnc, beq_iff_eq] <;> (try split) <;> simp_all

theorem multi_keys_cost {ke : KeyEnv} {ctx : Ctx} (hc : ctx ≠ .tap) : ∀ ks : List Key,
    ks.all (keyOk ke ctx) = true →
    ((ks.map (isUnc ke)).map (fun u => if u then 66 else 34)).sum = (ks.map (pkLen ke ctx)).sum := by
  intro ks
  induction ks with
  | nil => intro _; rfl
  | cons k ks ih =>
    intro h
    simp only [List.all_cons, Bool.and_eq_true] at h
    simp only [List.map_cons, List.sum_cons, ih h.2]
    have := pkLen_eq_keySig h.1
    cases ctx <;> simp_all [ExtData.keySig, Ctx.sigType] <;> split <;> simp_all

theorem tap_keys_len (ke : KeyEnv) (ks : List Key) : (ks.map (pkLen ke .tap)).sum = 33 * ks.length := by
  induction ks with
  | nil => rfl
  | cons a as ih => simp [pkLen] at ih ⊢; omega

theorem numCost_eq (k n : Nat) (hk : k ≤ 127) (hn : n ≤ 127) :
    ExtData.numCost k n = scriptNumSize k + scriptNumSize n := by
  simp only [ExtData.numCost, scriptNumSize]
  by_cases h1 : k > 16 <;> by_cases h2 : n > 16 <;> simp [h1, h2] <;> (repeat' split) <;> omega

mutual
theorem pkCost_eq (ke : KeyEnv) (ctx : Ctx) : (ms : Ms) → costOk ke ctx ms = true →
    (extOf ke ctx ms).pkCost = scriptSize ke ctx ms + costSlack ms
  | .tru, _ | .fls, _ => rfl
  | .pkK k, h => by
    simp only [costOk] at h
    have := pkLen_eq_keySig h
    simp only [extOf, scriptSize, costSlack, this]
    cases ctx <;> cases isUnc ke k <;> rfl
  | .pkH _, _ | .rawPkH _, _ => by cases ctx <;> simp [extOf, ExtData.pkH, scriptSize, costSlack, ExtData.keySig, Ctx.sigType] <;> split <;> rfl
  | .after _, _ | .older _, _ => rfl
  | .hash kind _, _ => by cases kind <;> rfl
  | .alt x, h => by
    simp only [costOk] at h
    simp only [extOf, ExtData.castAlt, scriptSize, costSlack, pkCost_eq ke ctx x h]; omega
  | .swap x, h => by
    simp only [costOk] at h
    simp only [extOf, ExtData.castSwap, scriptSize, costSlack, pkCost_eq ke ctx x h]; omega
  | .check x, h => by
    simp only [costOk] at h
    simp only [extOf, ExtData.castCheck, scriptSize, costSlack, pkCost_eq ke ctx x h]; omega
  | .zeroNotEqual x, h => by
    simp only [costOk] at h
    simp only [extOf, ExtData.castZeroNotEqual, scriptSize, costSlack, pkCost_eq ke ctx x h]; omega
  | .dupIf x, h => by
    simp only [costOk] at h
    simp only [extOf, ExtData.castDupIf, scriptSize, costSlack, pkCost_eq ke ctx x h]; omega
  | .nonZero x, h => by
    simp only [costOk] at h
    simp only [extOf, ExtData.castNonZero, scriptSize, costSlack, pkCost_eq ke ctx x h]; omega
  | .verify x, h => by
    simp only [costOk] at h
    simp only [extOf, ExtData.castVerify, scriptSize, costSlack, pkCost_eq ke ctx x h]; omega
  | .andV l r, h => by
    simp only [costOk, Bool.and_eq_true] at h
    simp only [extOf, ExtData.andV, scriptSize, costSlack, pkCost_eq ke ctx l h.1, pkCost_eq ke ctx r h.2]; omega
  | .andB l r, h => by
    simp only [costOk, Bool.and_eq_true] at h
    simp only [extOf, ExtData.andB, scriptSize, costSlack, pkCost_eq ke ctx l h.1, pkCost_eq ke ctx r h.2]; omega
  | .orB l r, h => by
    simp only [costOk, Bool.and_eq_true] at h
    simp only [extOf, ExtData.orB, scriptSize, costSlack, pkCost_eq ke ctx l h.1, pkCost_eq ke ctx r h.2]; omega
  | .orD l r, h => by
    simp only [costOk, Bool.and_eq_true] at h
    simp only [extOf, ExtData.orD, scriptSize, costSlack, pkCost_eq ke ctx l h.1, pkCost_eq ke ctx r h.2]; omega
  | .orC l r, h => by
    simp only [costOk, Bool.and_eq_true] at h
    simp only [extOf, ExtData.orC, scriptSize, costSlack, pkCost_eq ke ctx l h.1, pkCost_eq ke ctx r h.2]; omega
  | .orI l r, h => by
    simp only [costOk, Bool.and_eq_true] at h
    simp only [extOf, ExtData.orI, scriptSize, costSlack, pkCost_eq ke ctx l h.1, pkCost_eq ke ctx r h.2]; omega
  | .andOr a b c, h => by
    simp only [costOk, Bool.and_eq_true] at h
    simp only [extOf, ExtData.andOr, scriptSize, costSlack, pkCost_eq ke ctx a h.1.1,
      pkCost_eq ke ctx b h.1.2, pkCost_eq ke ctx c h.2]; omega
  | .thresh k xs, h => by
    simp only [costOk, Bool.and_eq_true, decide_eq_true_eq] at h
    have hl := pkCosts_eq ke ctx xs h.2
    have hn := extsOf_length' ke ctx xs
    simp only [extOf, ExtData.threshold, scriptSize, costSlack, hl, hn]
    omega
  | .multi k ks, h => by
    simp only [costOk, Bool.and_eq_true, decide_eq_true_eq] at h
    obtain ⟨⟨⟨hc, hk⟩, hn⟩, hks⟩ := h
    simp only [extOf, ExtData.multi, scriptSize, costSlack, List.length_map, numCost_eq k ks.length hk hn,
      multi_keys_cost hc ks hks]; omega
  | .sortedMulti k ks, h => by
    simp only [costOk, Bool.and_eq_true, decide_eq_true_eq] at h
    obtain ⟨⟨⟨hc, hk⟩, hn⟩, hks⟩ := h
    simp only [extOf, ExtData.multi, scriptSize, costSlack, List.length_map, numCost_eq k ks.length hk hn,
      multi_keys_cost hc ks hks]; omega
  | .multiA k ks, h => by
    simp only [costOk, Bool.and_eq_true, decide_eq_true_eq] at h
    obtain ⟨⟨rfl, hn⟩, hc⟩ := h
    have := tap_keys_len ke ks
    simp only [extOf, ExtData.multiA, scriptSize, costSlack, this]; omega
  | .sortedMultiA k ks, h => by
    simp only [costOk, Bool.and_eq_true, decide_eq_true_eq] at h
    obtain ⟨⟨rfl, hn⟩, hc⟩ := h
    have := tap_keys_len ke ks
    simp only [extOf, ExtData.multiA, scriptSize, costSlack, this]; omega
theorem pkCosts_eq (ke : KeyEnv) (ctx : Ctx) : (xs : MsList) → costOks ke ctx xs = true →
    ((extsOf ke ctx xs).map (·.pkCost)).sum = scriptSizes ke ctx xs + costSlacks xs
  | .nil, _ => rfl
  | .cons x xs, h => by
    simp only [costOks, Bool.and_eq_true] at h
    simp only [extsOf, List.map_cons, List.sum_cons, scriptSizes, costSlacks, pkCost_eq ke ctx x h.1,
      pkCosts_eq ke ctx xs h.2]; omega
theorem extsOf_length' (ke : KeyEnv) (ctx : Ctx) : (xs : MsList) → (extsOf ke ctx xs).length = xs.length
  | .nil => rfl
  | .cons _ xs => by simp [extsOf, MsList.length, extsOf_length' ke ctx xs]
end

end MsVerif.C09

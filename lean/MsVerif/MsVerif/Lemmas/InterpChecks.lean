/-
"The reported constraints are EXACTLY the checks the executed path performed": an instrumented
reading of the structured Script semantics (`checksOf`: which signature checks succeed with a
non-empty signature, which hash locks are opened, which lock values CLTV / CSV see — the Lean
mirror of the harness's instrumented executor behind `J constraints`), and the theorem that the
model interpreter's constraint list equals it, as LISTS (same order), up to `norm` (a key-hash
constraint is the signature check of `pk_h`; the `DUP HASH160 <h> EQUALVERIFY` in front of it is a
key-hash check, not a hash lock).

Proved for the fragments whose children run on a stack of the form `consumed ++ rest` (no element
inserted below the consumed part): everything except `s:`, `d:` (they need a frame lemma for
`checksOf`), `thresh`, `multi` (key walk under a one-directional oracle) and `c:` over a compound
`K` fragment (`c:and_v(..)`, `c:or_i(..)`, `c:andor(..)`; `c:pk_k` / `c:pk_h` are covered).
-/
import MsVerif.Lemmas.InterpSound

namespace MsVerif.InterpChecks
open MsVerif Script Interp InterpSound

/-- the stack a step leaves (alt stack empty, counter 0: neither influences the checks) -/
def after (f : Core → Except Err Core) (st : List Bytes) : Option (List Bytes) :=
  match f ⟨st, [], 0⟩ with
  | .ok c => some c.stack
  | .error _ => none

/-- a successful CHECKSIG on (key, signature) on top of the stack -/
def sigCheck (env : Env) : Option (List Bytes) → List Constraint
  | some (pk :: sg :: _) => match checkSig env sg pk with | .ok true => [.pk pk sg] | _ => []
  | _ => []

/-- `multi_a`: key `i` is checked against stack element `i` -/
def maChecks (env : Env) : List Bytes → List Bytes → List Constraint
  | [], _ => []
  | _ :: _, [] => []
  | key :: keys, sg :: st =>
    (match checkSig env sg key with | .ok true => [Constraint.pk key sg] | _ => []) ++ maChecks env keys st

/-- the successful checks of running `ms` on `st` (meaningful when the run succeeds) -/
def checksOf (env : Env) (ke : KeyEnv) (ctx : Ctx) : Ms → List Bytes → List Constraint
  | .tru, _ | .fls, _ | .pkK _, _ | .pkH _, _ | .rawPkH _, _ => []
  | .after n, _ => [.after n]
  | .older n, _ => [.older n]
  | .hash kind h, st =>
    match st with
    | pre :: _ =>
      if env.hash (hkOp kind) pre = ke.hashVal kind h then [.hashLock kind (ke.hashVal kind h) pre] else []
    | [] => []
  | .check x, st => checksOf env ke ctx x st ++ sigCheck env (after (frag env ke ctx x) st)
  | .alt x, st => match st with | _ :: st' => checksOf env ke ctx x st' | [] => []
  | .verify x, st | .zeroNotEqual x, st => checksOf env ke ctx x st
  | .nonZero x, st => match st with | top :: _ => if top = [] then [] else checksOf env ke ctx x st | [] => []
  | .andV l r, st | .andB l r, st | .orB l r, st =>
    checksOf env ke ctx l st ++
      (match after (frag env ke ctx l) st with | some st1 => checksOf env ke ctx r st1 | none => [])
  | .andOr a b z, st =>
    checksOf env ke ctx a st ++
      (match after (frag env ke ctx a) st with
       | some (v :: st1) => if castToBool v then checksOf env ke ctx b st1 else checksOf env ke ctx z st1
       | _ => [])
  | .orC l r, st | .orD l r, st =>
    checksOf env ke ctx l st ++
      (match after (frag env ke ctx l) st with
       | some (v :: st1) => if castToBool v then [] else checksOf env ke ctx r st1
       | _ => [])
  | .orI l r, st =>
    match st with
    | v :: st1 => if castToBool v then checksOf env ke ctx l st1 else checksOf env ke ctx r st1
    | [] => []
  | .multiA _ ks, st => maChecks env (ks.map ke.ser) st
  -- outside the proved fragment set (see the header)
  | .swap _, _ | .dupIf _, _ | .thresh _ _, _ | .multi _ _, _ | .sortedMulti _ _, _ | .sortedMultiA _ _, _ => []

/-- a key-hash constraint is the signature check of `pk_h` -/
def norm : Constraint → Constraint
  | .pkh _ pk sg => .pk pk sg
  | c => c

/-- the fragment set of the completeness theorem -/
def CSup : Ms → Prop
  | .swap _ | .dupIf _ | .thresh _ _ | .multi _ _ | .sortedMulti _ _ | .sortedMultiA _ _ => False
  | .check (.pkK _) | .check (.pkH _) => True
  | .check _ => False
  | .alt x | .verify x | .nonZero x | .zeroNotEqual x => CSup x
  | .andV l r | .andB l r | .orB l r | .orC l r | .orD l r | .orI l r => CSup l ∧ CSup r
  | .andOr a b c => CSup a ∧ CSup b ∧ CSup c
  | _ => True

variable {env : Env} {ke : KeyEnv} {ie : IEnv} {ctx : Ctx}

/-- what completeness means per base type -/
def CPost (env : Env) (ke : KeyEnv) (ctx : Ctx) (ms : Ms) (b : Base) (c : List Bytes)
    (cs : List Constraint) : Prop :=
  match b with
  | .B | .V => ∀ rest, checksOf env ke ctx ms (c ++ rest) = cs.map norm
  | .K => True
  | .W => ∀ t rest, checksOf env ke ctx ms (t :: (c ++ rest)) = cs.map norm

theorem after_eq {f : Core → Except Err Core} {st st' alt : List Bytes} {o : Nat}
    (h : f ⟨st, [], 0⟩ = .ok ⟨st', alt, o⟩) : after f st = some st' := by
  simp [after, h]

theorem after_B {ms : Ms} {u : Bool} {c : List Bytes} {a' : AStack} (P : Post env ke ctx ms .B u c a') :
    ∃ r c0, a' = r :: absS c0 ∧
      ∀ rest, ∃ v, after (frag env ke ctx ms) (c ++ rest) = some (v :: (c0 ++ rest)) ∧ Res env u r v := by
  obtain ⟨r, c0, ha, F⟩ := P
  refine ⟨r, c0, ha, fun rest => ?_⟩
  obtain ⟨v, o, hf, hr⟩ := F rest [] 0
  exact ⟨v, after_eq hf, hr⟩

theorem after_V {ms : Ms} {u : Bool} {c : List Bytes} {a' : AStack} (P : Post env ke ctx ms .V u c a') :
    ∃ c0, a' = absS c0 ∧ ∀ rest, after (frag env ke ctx ms) (c ++ rest) = some (c0 ++ rest) := by
  obtain ⟨c0, ha, F⟩ := P
  refine ⟨c0, ha, fun rest => ?_⟩
  obtain ⟨o, hf⟩ := F rest [] 0
  exact after_eq hf

/-! ### leaves -/

theorem complete_sig (h : NoLimits env) (ag : Agree env ie) {pk : Bytes} (hk : pubkeyOk env pk = true)
    {mk : Bytes → Constraint} (hmk : ∀ sg, norm (mk sg) = .pk pk sg)
    {c : List Bytes} {a' : AStack} {cs : List Constraint}
    (hi : evalSig ie pk mk (absS c) = .ok (a', cs)) :
    ∃ sg c0, c = sg :: c0 ∧ sigCheck env (some (pk :: sg :: c0)) = cs.map norm
      ∧ ∀ rest, sigCheck env (some (pk :: sg :: (c0 ++ rest))) = cs.map norm := by
  cases c with
  | nil => simp [evalSig] at hi
  | cons sg c0 =>
    simp only [absS_cons] at hi
    cases he : Elem.ofBytes sg with
    | sat => simp [he, evalSig] at hi
    | dissat =>
      simp [he, evalSig] at hi
      have := ofBytes_dissat he
      subst this
      obtain ⟨_, h2⟩ := hi; subst h2
      exact ⟨[], c0, rfl, by simp [sigCheck, checkSig_empty hk], fun _ => by simp [sigCheck, checkSig_empty hk]⟩
    | push b =>
      obtain ⟨e1, e2, _⟩ := ofBytes_push he
      subst e1
      simp only [he, evalSig] at hi
      split at hi
      · rename_i hv
        simp at hi
        obtain ⟨_, h2⟩ := hi; subst h2
        have := checkSig_valid ag hk hv e2
        exact ⟨sg, c0, rfl, by simp [sigCheck, this, hmk], fun _ => by simp [sigCheck, this, hmk]⟩
      · simp at hi

theorem complete_check_pkK (h : NoLimits env) (ag : Agree env ie) {k : Key}
    (hk : pubkeyOk env (ke.ser k) = true) {c : List Bytes} {a' : AStack} {cs : List Constraint}
    (hi : interp ke ie (.check (.pkK k)) (absS c) = .ok (a', cs)) :
    CPost env ke ctx (.check (.pkK k)) .B c cs := by
  simp only [interp, evaluatePk] at hi
  obtain ⟨sg, c0, hc, _, hs⟩ := complete_sig h ag hk (mk := .pk (ke.ser k)) (fun _ => rfl) hi
  subst hc
  intro rest
  have ha : after (frag env ke ctx (.pkK k)) (sg :: c0 ++ rest) = some (ke.ser k :: sg :: (c0 ++ rest)) := by
    simp [after, frag, psh_nl h]
  simp only [checksOf, List.nil_append, ha]
  exact hs rest

theorem complete_check_pkH (h : NoLimits env) (ag : Agree env ie) {k : Key}
    {c : List Bytes} {a' : AStack} {cs : List Constraint}
    (hi : interp ke ie (.check (.pkH k)) (absS c) = .ok (a', cs)) :
    CPost env ke ctx (.check (.pkH k)) .B c cs := by
  simp only [interp] at hi
  cases c with
  | nil => simp [evaluatePkh] at hi
  | cons v c1 =>
    simp only [absS_cons] at hi
    cases he : Elem.ofBytes v with
    | sat => simp [he, evaluatePkh] at hi
    | dissat => simp [he, evaluatePkh] at hi
    | push pk =>
      obtain ⟨e1, _, _⟩ := ofBytes_push he
      subst e1
      simp only [he, evaluatePkh] at hi
      split at hi
      · simp at hi
      · rename_i hh
        split at hi
        · simp at hi
        · rename_i hkp
          have hk : pubkeyOk env v = true := ag.key v (by simpa using hkp)
          obtain ⟨sg, c0, hc, _, hs⟩ := complete_sig h ag hk (mk := .pkh (ke.pkh k) v) (fun _ => rfl) hi
          subst hc
          intro rest
          have heq : (env.hash .hash160 v == ke.pkh k) = true := by rw [← ag.h160]; simpa using hh
          have ha : after (frag env ke ctx (.pkH k)) (v :: sg :: c0 ++ rest) = some (v :: sg :: (c0 ++ rest)) := by
            have := pkh_ops h (ke.pkh k) v (sg :: (c0 ++ rest)) [] 0 heq
            simp [after, frag, this]
          simp only [checksOf, List.nil_append, ha]
          exact hs rest

/-! ### multi_a -/

theorem complete_multiA (h : NoLimits env) (ag : Agree env ie) {k : Nat} :
    ∀ (ks : List Key) (nSat : Nat) (c : List Bytes) (a' : AStack) (cs : List Constraint),
      (∀ key ∈ ks, pubkeyOk env (ke.ser key) = true) →
      Interp.multiALoop ie k (ks.map ke.ser) nSat (absS c) = .ok (a', cs) →
      ∀ rest, maChecks env (ks.map ke.ser) (c ++ rest) = cs.map norm
  | [], nSat, c, a', cs, _, hi => by
    simp [Interp.multiALoop] at hi
    obtain ⟨_, h2⟩ := hi; subst h2
    intro rest; simp [maChecks]
  | key :: ks, nSat, c, a', cs, hkeys, hi => by
    simp only [List.map_cons] at hi
    unfold Interp.multiALoop at hi
    have hk0 := hkeys key (by simp)
    have hkeys' : ∀ q ∈ ks, pubkeyOk env (ke.ser q) = true := fun q hq => hkeys q (by simp [hq])
    cases hp : evaluatePk ie (ke.ser key) (absS c) with
    | error er => simp [hp] at hi
    | ok p =>
      obtain ⟨st1, cs1⟩ := p
      have hp' := hp
      unfold evaluatePk at hp'
      obtain ⟨sg, c0, hc, _, hs⟩ := complete_sig h ag hk0 (mk := .pk (ke.ser key)) (fun _ => rfl) hp'
      subst hc
      obtain ⟨sg', c1, b, hc', hst1, _, _⟩ := evaluatePk_step ag hk0 hp
      simp at hc'
      obtain ⟨e1, e2⟩ := hc'; subst e1; subst e2
      subst hst1
      intro rest
      have hhead : (match checkSig env sg (ke.ser key) with | .ok true => [Constraint.pk (ke.ser key) sg] | _ => [])
          = cs1.map norm := by
        have := hs rest
        simpa [sigCheck] using this
      cases cs1 with
      | nil =>
        simp only [hp] at hi
        have ih := complete_multiA h ag ks nSat c0 a' cs hkeys' (by simpa using hi) rest
        simp only [List.map_cons, List.cons_append, maChecks, hhead, ih]
        simp
      | cons c1' cr =>
        simp only [hp] at hi
        cases hr : Interp.multiALoop ie k (ks.map ke.ser) (nSat + 1) (absS c0) with
        | error er => simp [hr] at hi
        | ok q =>
          obtain ⟨a2, cs2⟩ := q
          simp [hr] at hi
          have ih := complete_multiA h ag ks (nSat + 1) c0 a2 cs2 hkeys' hr rest
          obtain ⟨_, h2⟩ := hi; subst h2
          -- exactly one constraint is reported per key
          have hone : cr = [] := by
            unfold evalSig at hp'
            split at hp'
            · simp at hp'
            · split at hp'
              · simp at hp'; exact hp'.2.2
              · simp at hp'
            · simp at hp'
            · simp at hp'
          subst hone
          simp only [List.map_cons, List.cons_append, maChecks, hhead, ih]
          simp

/-! ### the induction -/

theorem truthy_of_res {u : Bool} {r : Elem} {v : Bytes} (hr : Res env true r v) :
    castToBool v = (decide (r = .sat)) := by
  rcases hr.minimal with ⟨e1, e2⟩ | ⟨e1, e2⟩ <;> subst e1 <;> subst e2 <;> decide

theorem complete (h : NoLimits env) (ag : Agree env ie) :
    (ms : Ms) → (ty : Ty) → typeOf ms = some ty → Sup env ke ms → CSup ms →
    ∀ (c : List Bytes) (a' : AStack) (cs : List Constraint), SmallA (absS c) →
      interp ke ie ms (absS c) = .ok (a', cs) → CPost env ke ctx ms ty.corr.base c cs
  | .tru, ty, hty, _, _, c, a', cs, _, hi => by
    rw [(typeOf_tru hty).1]; simp [interp] at hi; obtain ⟨_, h2⟩ := hi; subst h2; intro rest; simp [checksOf]
  | .fls, ty, hty, _, _, c, a', cs, _, hi => by
    rw [(typeOf_fls hty).1]; simp [interp] at hi; obtain ⟨_, h2⟩ := hi; subst h2; intro rest; simp [checksOf]
  | .pkK k, ty, hty, _, _, _, _, _, _, _ => by rw [typeOf_pkK hty]; trivial
  | .pkH k, ty, hty, _, _, _, _, _, _, _ => by rw [typeOf_pkH hty]; trivial
  | .rawPkH k, ty, hty, _, _, _, _, _, _, _ => by rw [typeOf_rawPkH hty]; trivial
  | .after n, ty, hty, _, _, c, a', cs, _, hi => by
    rw [(typeOf_after hty).1]
    simp only [interp, evaluateAfter] at hi
    intro rest
    split at hi
    · simp at hi
    · split at hi
      · split at hi
        · simp at hi; simp [checksOf, ← hi.2, norm]
        · simp at hi
      · simp at hi
  | .older n, ty, hty, _, _, c, a', cs, _, hi => by
    rw [(typeOf_older hty).1]
    simp only [interp, evaluateOlder] at hi
    intro rest
    split at hi
    · simp at hi
    · split at hi
      · simp at hi; simp [checksOf, ← hi.2, norm]
      · simp at hi
  | .hash kind n, ty, hty, _, _, c, a', cs, _, hi => by
    rw [(typeOf_hash hty).1]
    simp only [interp] at hi
    intro rest
    cases c with
    | nil => simp [evaluateHash] at hi
    | cons v c1 =>
      simp only [absS_cons] at hi
      cases he : Elem.ofBytes v with
      | sat => simp [he, evaluateHash] at hi
      | dissat => simp [he, evaluateHash] at hi
      | push pre =>
        obtain ⟨e1, _, _⟩ := ofBytes_push he
        subst e1
        simp only [he, evaluateHash] at hi
        split at hi
        · simp at hi
        · rw [ag.hash] at hi
          by_cases heq : env.hash (hkOp kind) v = ke.hashVal kind n
          · simp [heq] at hi; simp [checksOf, heq, ← hi.2, norm]
          · have hne : (env.hash (hkOp kind) v == ke.hashVal kind n) = false := by simpa using heq
            simp [hne] at hi; obtain ⟨_, h2⟩ := hi; subst h2; simp [checksOf, heq]
  | .check x, ty, hty, hs, hcs, c, a', cs, _, hi => by
    obtain ⟨tx, htx, hbx, hb, _⟩ := typeOf_check hty
    rw [hb]
    cases x with
    | pkK k => exact complete_check_pkK h ag hs hi
    | pkH k => exact complete_check_pkH h ag hi
    | _ => exact hcs.elim
  | .alt x, ty, hty, hs, hcs, c, a', cs, hA, hi => by
    obtain ⟨tx, htx, hbx, hb, _⟩ := typeOf_alt hty
    have P := complete h ag x tx htx hs hcs c a' cs hA (by simpa [interp] using hi)
    rw [hbx] at P; rw [hb]
    intro t rest
    simpa [checksOf] using P rest
  | .verify x, ty, hty, hs, hcs, c, a', cs, hA, hi => by
    obtain ⟨tx, htx, hbx, hb⟩ := typeOf_verify hty
    rw [hb]
    simp only [interp] at hi
    cases hx : interp ke ie x (absS c) with
    | error e => simp [hx] at hi
    | ok p =>
      obtain ⟨a2, cs2⟩ := p
      have P := complete h ag x tx htx hs hcs c a2 cs2 hA hx
      rw [hbx] at P
      simp only [hx] at hi
      have hcs2 : cs2 = cs := by
        cases a2 with
        | nil => simp at hi
        | cons e t => cases e <;> simp at hi; exact hi.2
      subst hcs2
      intro rest
      simpa [checksOf] using P rest
  | .zeroNotEqual x, ty, hty, hs, hcs, c, a', cs, hA, hi => by
    obtain ⟨tx, htx, hbx, hb, _⟩ := typeOf_zeroNotEqual hty
    rw [hb]
    simp only [interp] at hi
    cases hx : interp ke ie x (absS c) with
    | error e => simp [hx] at hi
    | ok p =>
      obtain ⟨a2, cs2⟩ := p
      have P := complete h ag x tx htx hs hcs c a2 cs2 hA hx
      rw [hbx] at P
      simp only [hx] at hi
      have hcs2 : cs2 = cs := by
        cases a2 with
        | nil => simp at hi
        | cons e t => cases e <;> simp at hi <;> exact hi.2
      subst hcs2
      intro rest
      simpa [checksOf] using P rest
  | .nonZero x, ty, hty, hs, hcs, c, a', cs, hA, hi => by
    obtain ⟨tx, htx, hbx, hb, _⟩ := typeOf_nonZero hty
    rw [hb]
    cases c with
    | nil => simp [interp] at hi
    | cons e c1 =>
      simp only [interp, absS_cons] at hi
      intro rest
      cases he : Elem.ofBytes e with
      | dissat =>
        have := ofBytes_dissat he
        subst this
        simp [he] at hi
        obtain ⟨_, h2⟩ := hi; subst h2
        simp [checksOf]
      | sat =>
        have e1 := ofBytes_sat he
        subst e1
        have hx : interp ke ie x (absS ([1] :: c1)) = .ok (a', cs) := by simpa [he] using hi
        have P := complete h ag x tx htx hs hcs ([1] :: c1) a' cs hA hx
        rw [hbx] at P
        simpa [checksOf] using P rest
      | push b =>
        obtain ⟨e1, e2, _⟩ := ofBytes_push he
        subst e1
        have hx : interp ke ie x (absS (e :: c1)) = .ok (a', cs) := by simpa [he] using hi
        have P := complete h ag x tx htx hs hcs (e :: c1) a' cs hA hx
        rw [hbx] at P
        simpa [checksOf, e2] using P rest
  | .andV l r, ty, hty, hs, hcs, c, a', cs, hA, hi => by
    obtain ⟨tl, tr, htl, htr, hbl, hb, hnw, _⟩ := typeOf_andV hty
    simp only [interp] at hi
    cases hl : interp ke ie l (absS c) with
    | error e => simp [hl] at hi
    | ok p =>
      obtain ⟨a1, cs1⟩ := p
      have Sl := sound (ctx := ctx) h ag l tl htl hs.1 c a1 cs1 hA hl
      rw [hbl] at Sl
      obtain ⟨c1, ha1, Al⟩ := after_V Sl
      subst ha1
      cases hr : interp ke ie r (absS c1) with
      | error e => simp [hl, hr] at hi
      | ok q =>
        obtain ⟨a2, cs2⟩ := q
        simp [hl, hr] at hi
        obtain ⟨_, h2⟩ := hi; subst h2
        have Pl := complete h ag l tl htl hs.1 hcs.1 c _ cs1 hA hl
        rw [hbl] at Pl
        have Pr := complete h ag r tr htr hs.2 hcs.2 c1 a2 cs2 (hA.interp hl) hr
        rw [hb]
        cases hbr : tr.corr.base with
        | K => trivial
        | W => exact absurd hbr hnw
        | B =>
          rw [hbr] at Pr
          intro rest
          simp [checksOf, Pl rest, Al rest, Pr rest]
        | V =>
          rw [hbr] at Pr
          intro rest
          simp [checksOf, Pl rest, Al rest, Pr rest]
  | .andB l r, ty, hty, hs, hcs, c, a', cs, hA, hi => by
    obtain ⟨tl, tr, htl, htr, hbl, hbr, hb, _⟩ := typeOf_andB hty
    rw [hb]
    simp only [interp] at hi
    cases hl : interp ke ie l (absS c) with
    | error e => simp [hl] at hi
    | ok p =>
      obtain ⟨a1, cs1⟩ := p
      have Sl := sound (ctx := ctx) h ag l tl htl hs.1 c a1 cs1 hA hl
      rw [hbl] at Sl
      obtain ⟨rl, c1, ha1, Al⟩ := after_B Sl
      subst ha1
      have hbl' : rl = .sat ∨ rl = .dissat := by obtain ⟨_, _, hr⟩ := Al []; exact hr.bool
      simp only [hl] at hi
      cases hr : interp ke ie r (absS c1) with
      | error e => rcases hbl' with e1 | e1 <;> subst e1 <;> simp [hr] at hi
      | ok q =>
        obtain ⟨a2, cs2⟩ := q
        have hcs' : cs = cs1 ++ cs2 := by
          cases a2 with
          | nil => rcases hbl' with e1 | e1 <;> subst e1 <;> simp [hr] at hi
          | cons b t => rcases hbl' with e1 | e1 <;> subst e1 <;> simp [hr] at hi <;> exact hi.2.symm
        subst hcs'
        have Pl := complete h ag l tl htl hs.1 hcs.1 c _ cs1 hA hl
        rw [hbl] at Pl
        have Pr := complete h ag r tr htr hs.2 hcs.2 c1 a2 cs2 ((hA.interp hl).tail) hr
        rw [hbr] at Pr
        intro rest
        obtain ⟨vl, hal, _⟩ := Al rest
        simp [checksOf, Pl rest, hal, Pr vl rest]
  | .orB l r, ty, hty, hs, hcs, c, a', cs, hA, hi => by
    obtain ⟨tl, tr, htl, htr, hbl, hbr, hb, _⟩ := typeOf_orB hty
    rw [hb]
    simp only [interp] at hi
    cases hl : interp ke ie l (absS c) with
    | error e => simp [hl] at hi
    | ok p =>
      obtain ⟨a1, cs1⟩ := p
      have Sl := sound (ctx := ctx) h ag l tl htl hs.1 c a1 cs1 hA hl
      rw [hbl] at Sl
      obtain ⟨rl, c1, ha1, Al⟩ := after_B Sl
      subst ha1
      have hbl' : rl = .sat ∨ rl = .dissat := by obtain ⟨_, _, hr⟩ := Al []; exact hr.bool
      simp only [hl] at hi
      cases hr : interp ke ie r (absS c1) with
      | error e => rcases hbl' with e1 | e1 <;> subst e1 <;> simp [hr] at hi
      | ok q =>
        obtain ⟨a2, cs2⟩ := q
        have hcs' : cs = cs1 ++ cs2 := by
          cases a2 with
          | nil => rcases hbl' with e1 | e1 <;> subst e1 <;> simp [hr] at hi
          | cons b t => rcases hbl' with e1 | e1 <;> subst e1 <;> simp [hr] at hi <;> exact hi.2.symm
        subst hcs'
        have Pl := complete h ag l tl htl hs.1 hcs.1 c _ cs1 hA hl
        rw [hbl] at Pl
        have Pr := complete h ag r tr htr hs.2 hcs.2 c1 a2 cs2 ((hA.interp hl).tail) hr
        rw [hbr] at Pr
        intro rest
        obtain ⟨vl, hal, _⟩ := Al rest
        simp [checksOf, Pl rest, hal, Pr vl rest]
  | .andOr x y z, ty, hty, hs, hcs, c, a', cs, hA, hi => by
    obtain ⟨tx, ty', tz, htx, hty', htz, hbx, hux, hby, hbz, hnw, _⟩ := typeOf_andOr hty
    simp only [interp] at hi
    cases hx : interp ke ie x (absS c) with
    | error e => simp [hx] at hi
    | ok p =>
      obtain ⟨a1, cs1⟩ := p
      have Sx := sound (ctx := ctx) h ag x tx htx hs.1 c a1 cs1 hA hx
      rw [hbx, hux] at Sx
      obtain ⟨rx, c1, ha1, Ax⟩ := after_B Sx
      subst ha1
      have Px := complete h ag x tx htx hs.1 hcs.1 c _ cs1 hA hx
      rw [hbx] at Px
      have hA1 : SmallA (absS c1) := (hA.interp hx).tail
      simp only [hx] at hi
      cases hbase : ty.corr.base with
      | K => trivial
      | W => exact absurd hbase hnw
      | B | V =>
        all_goals
          cases rx with
          | push q => simp at hi
          | sat =>
            cases hy : interp ke ie y (absS c1) with
            | error e => simp [hy] at hi
            | ok q =>
              obtain ⟨a2, cs2⟩ := q
              simp [hy] at hi
              obtain ⟨_, h2⟩ := hi; subst h2
              have Py := complete h ag y ty' hty' hs.2.1 hcs.2.1 c1 a2 cs2 hA1 hy
              rw [hby, hbase] at Py
              intro rest
              obtain ⟨vx, hax, hrx⟩ := Ax rest
              have hv : castToBool vx = true := by rw [truthy_of_res (u := true) hrx]; simp
              simp [checksOf, Px rest, hax, hv, Py rest]
          | dissat =>
            cases hz : interp ke ie z (absS c1) with
            | error e => simp [hz] at hi
            | ok q =>
              obtain ⟨a2, cs2⟩ := q
              simp [hz] at hi
              obtain ⟨_, h2⟩ := hi; subst h2
              have Pz := complete h ag z tz htz hs.2.2 hcs.2.2 c1 a2 cs2 hA1 hz
              rw [hbz, hbase] at Pz
              intro rest
              obtain ⟨vx, hax, hrx⟩ := Ax rest
              have hv : castToBool vx = false := by rw [truthy_of_res (u := true) hrx]; simp
              simp [checksOf, Px rest, hax, hv, Pz rest]
  | .orC l r, ty, hty, hs, hcs, c, a', cs, hA, hi => by
    obtain ⟨tl, tr, htl, htr, hbl, hul, hbr, hb⟩ := typeOf_orC hty
    rw [hb]
    simp only [interp] at hi
    cases hl : interp ke ie l (absS c) with
    | error e => simp [hl] at hi
    | ok p =>
      obtain ⟨a1, cs1⟩ := p
      have Sl := sound (ctx := ctx) h ag l tl htl hs.1 c a1 cs1 hA hl
      rw [hbl, hul] at Sl
      obtain ⟨rl, c1, ha1, Al⟩ := after_B Sl
      subst ha1
      have Pl := complete h ag l tl htl hs.1 hcs.1 c _ cs1 hA hl
      rw [hbl] at Pl
      simp only [hl] at hi
      cases rl with
      | push q => simp at hi
      | sat =>
        simp at hi
        obtain ⟨_, h2⟩ := hi; subst h2
        intro rest
        obtain ⟨vl, hal, hrl⟩ := Al rest
        have hv : castToBool vl = true := by rw [truthy_of_res (u := true) hrl]; simp
        simp [checksOf, Pl rest, hal, hv]
      | dissat =>
        cases hr : interp ke ie r (absS c1) with
        | error e => simp [hr] at hi
        | ok q =>
          obtain ⟨a2, cs2⟩ := q
          simp [hr] at hi
          obtain ⟨_, h2⟩ := hi; subst h2
          have Pr := complete h ag r tr htr hs.2 hcs.2 c1 a2 cs2 ((hA.interp hl).tail) hr
          rw [hbr] at Pr
          intro rest
          obtain ⟨vl, hal, hrl⟩ := Al rest
          have hv : castToBool vl = false := by rw [truthy_of_res (u := true) hrl]; simp
          simp [checksOf, Pl rest, hal, hv, Pr rest]
  | .orD l r, ty, hty, hs, hcs, c, a', cs, hA, hi => by
    obtain ⟨tl, tr, htl, htr, hbl, hul, hbr, hb, _⟩ := typeOf_orD hty
    rw [hb]
    simp only [interp] at hi
    cases hl : interp ke ie l (absS c) with
    | error e => simp [hl] at hi
    | ok p =>
      obtain ⟨a1, cs1⟩ := p
      have Sl := sound (ctx := ctx) h ag l tl htl hs.1 c a1 cs1 hA hl
      rw [hbl, hul] at Sl
      obtain ⟨rl, c1, ha1, Al⟩ := after_B Sl
      subst ha1
      have Pl := complete h ag l tl htl hs.1 hcs.1 c _ cs1 hA hl
      rw [hbl] at Pl
      simp only [hl] at hi
      cases rl with
      | push q => simp at hi
      | sat =>
        simp at hi
        obtain ⟨_, h2⟩ := hi; subst h2
        intro rest
        obtain ⟨vl, hal, hrl⟩ := Al rest
        have hv : castToBool vl = true := by rw [truthy_of_res (u := true) hrl]; simp
        simp [checksOf, Pl rest, hal, hv]
      | dissat =>
        cases hr : interp ke ie r (absS c1) with
        | error e => simp [hr] at hi
        | ok q =>
          obtain ⟨a2, cs2⟩ := q
          simp [hr] at hi
          obtain ⟨_, h2⟩ := hi; subst h2
          have Pr := complete h ag r tr htr hs.2 hcs.2 c1 a2 cs2 ((hA.interp hl).tail) hr
          rw [hbr] at Pr
          intro rest
          obtain ⟨vl, hal, hrl⟩ := Al rest
          have hv : castToBool vl = false := by rw [truthy_of_res (u := true) hrl]; simp
          simp [checksOf, Pl rest, hal, hv, Pr rest]
  | .orI l r, ty, hty, hs, hcs, c, a', cs, hA, hi => by
    obtain ⟨tl, tr, htl, htr, hbl, hbr, hnw, _⟩ := typeOf_orI hty
    cases c with
    | nil => simp [interp] at hi
    | cons e c1 =>
      simp only [interp, absS_cons] at hi
      cases hbase : ty.corr.base with
      | K => trivial
      | W => exact absurd hbase hnw
      | B | V =>
        all_goals
          cases he : Elem.ofBytes e with
          | push x => simp [he] at hi
          | sat =>
            have := ofBytes_sat he
            subst this
            simp only [he] at hi
            have P := complete h ag l tl htl hs.1 hcs.1 c1 a' cs hA.tail hi
            rw [hbl, hbase] at P
            intro rest
            simpa [checksOf, castToBool] using P rest
          | dissat =>
            have := ofBytes_dissat he
            subst this
            simp only [he] at hi
            have P := complete h ag r tr htr hs.2 hcs.2 c1 a' cs hA.tail hi
            rw [hbr, hbase] at P
            intro rest
            simpa [checksOf, castToBool] using P rest
  | .multiA k ks, ty, hty, hs, _, c, a', cs, _, hi => by
    rw [(typeOf_multiA hty).1]
    simp only [interp] at hi
    intro rest
    simpa [checksOf] using complete_multiA h ag ks 0 c a' cs hs.2.2.2.2 hi rest
  | .swap _, _, _, _, hcs, _, _, _, _, _ => hcs.elim
  | .dupIf _, _, _, _, hcs, _, _, _, _, _ => hcs.elim
  | .thresh _ _, _, _, _, hcs, _, _, _, _, _ => hcs.elim
  | .multi _ _, _, _, _, hcs, _, _, _, _, _ => hcs.elim
  | .sortedMulti _ _, _, _, _, hcs, _, _, _, _, _ => hcs.elim
  | .sortedMultiA _ _, _, _, _, hcs, _, _, _, _, _ => hcs.elim

end MsVerif.InterpChecks

/-
C06 helper lemmas: script-number facts needed for `j:` (`OP_SIZE OP_0NOTEQUAL OP_IF`): the
size of a non-empty element never decodes to zero, so when the IF is skipped the element on
the stack is the empty vector; and a value that `CastToBool` maps to false decodes to the
number 0 (so BOOLAND/BOOLOR/0NOTEQUAL/ADD treat it as false).  Core Lean only.
-/
import MsVerif.Spec.Script

namespace MsVerif.TypeSound
open MsVerif MsVerif.Script

theorem leValue_append_zero (l : Bytes) : leValue (l ++ [0]) = leValue l := by
  induction l with
  | nil => rfl
  | cons b bs ih => simp only [List.cons_append, leValue, ih]

/-- when `leBytes` did not run out of fuel it is the exact little-endian representation -/
theorem leValue_leBytes : ∀ (f n : Nat), (leBytes f n).length < f → leValue (leBytes f n) = n
  | 0, n, h => by simp at h
  | f + 1, n, h => by
    unfold leBytes at h ⊢
    split
    · rename_i hn; simp [leValue, hn]
    · rename_i hn
      simp only [hn, if_false, List.length_cons] at h
      have ih := leValue_leBytes f (n / 256) (by omega)
      simp only [leValue, ih, UInt8.toNat_ofNat']
      omega

theorem numEncode_pos {n : Nat} (hn : n ≠ 0) :
    ∃ last, (leBytes 9 n).getLast? = some last ∧
      numEncode (n : Int) = if last.toNat ≥ 0x80 then leBytes 9 n ++ [0x00] else leBytes 9 n := by
  have hv : ¬ ((n : Int) = 0) := by omega
  have hneg : ¬ ((n : Int) < 0) := by omega
  have hmag : leBytes 9 n ≠ [] := by unfold leBytes; simp [hn]
  cases hl : (leBytes 9 n).getLast? with
  | none => rw [List.getLast?_eq_none_iff] at hl; exact absurd hl hmag
  | some last =>
    refine ⟨last, rfl, ?_⟩
    unfold numEncode
    simp only [hv, if_false, Int.natAbs_natCast, hl, hneg]

/-- the encoded size of a non-empty element never decodes (within 4 bytes) to zero -/
theorem decode_size_ne_zero {flag : Bool} {n : Nat} (h : numDecode flag 4 (numEncode (n : Int)) = some 0) :
    n = 0 := by
  apply Classical.byContradiction
  intro hn
  obtain ⟨last, hl, henc⟩ := numEncode_pos hn
  by_cases hge : last.toNat ≥ 0x80
  · simp only [hge, if_true] at henc
    rw [henc] at h
    unfold numDecode at h
    split at h
    · cases h
    · rename_i hlen
      split at h
      · cases h
      · simp only [Option.some.injEq] at h
        simp only [List.length_append, List.length_singleton] at hlen
        have hval := leValue_leBytes 9 n (by omega)
        unfold numDecodeRaw at h
        simp only [List.getLast?_append, List.getLast?_singleton, Option.some_or] at h
        simp only [show ¬ ((0 : UInt8).toNat ≥ 0x80) by decide, if_false, leValue_append_zero, hval] at h
        exact hn (Int.ofNat.inj h)
  · simp only [hge, if_false] at henc
    rw [henc] at h
    unfold numDecode at h
    split at h
    · cases h
    · rename_i hlen
      split at h
      · cases h
      · simp only [Option.some.injEq] at h
        have hval := leValue_leBytes 9 n (by omega)
        unfold numDecodeRaw at h
        simp only [hl, hge, if_false, hval] at h
        exact hn (Int.ofNat.inj h)

/-- the byte strings `CastToBool` maps to false: zeros, optionally ending in the sign byte -/
theorem falsy_shape : ∀ (bs : Bytes), castToBool bs = false →
    ∃ k, bs = List.replicate k 0 ∨ bs = List.replicate k 0 ++ [0x80]
  | [], _ => ⟨0, Or.inl rfl⟩
  | [b], h => by
    simp only [castToBool, Bool.and_eq_false_iff, bne_eq_false_iff_eq] at h
    rcases h with h | h
    · exact ⟨1, Or.inl (by rw [h]; rfl)⟩
    · exact ⟨0, Or.inr (by rw [h]; rfl)⟩
  | b :: b' :: rest, h => by
    simp only [castToBool, Bool.or_eq_false_iff, bne_eq_false_iff_eq] at h
    obtain ⟨hb, hr⟩ := h
    obtain ⟨k, hk⟩ := falsy_shape (b' :: rest) hr
    subst hb
    rcases hk with hk | hk
    · exact ⟨k + 1, Or.inl (by rw [hk]; rfl)⟩
    · exact ⟨k + 1, Or.inr (by rw [hk]; rfl)⟩

theorem leValue_zeros (k : Nat) : leValue (List.replicate k 0) = 0 := by
  induction k with
  | zero => rfl
  | succ k ih => simp [List.replicate_succ, leValue, ih]

theorem falsy_raw_zero {bs : Bytes} (h : castToBool bs = false) : numDecodeRaw bs = 0 := by
  obtain ⟨k, hk | hk⟩ := falsy_shape bs h
  · subst hk
    unfold numDecodeRaw
    cases k with
    | zero => rfl
    | succ k =>
      have : (List.replicate (k + 1) (0 : UInt8)).getLast? = some 0 := by
        rw [List.getLast?_replicate]; simp
      simp only [this, show ¬ ((0 : UInt8).toNat ≥ 0x80) by decide, if_false, leValue_zeros]
      rfl
  · subst hk
    unfold numDecodeRaw
    simp only [List.getLast?_append, List.getLast?_singleton, Option.some_or, List.dropLast_concat,
      show ((0x80 : UInt8).toNat ≥ 0x80) by decide, if_true, show (0x80 : UInt8) &&& 0x7f = 0 by decide,
      leValue_append_zero, leValue_zeros]
    rfl

theorem falsy_decodes_zero {flag : Bool} {mx : Nat} {bs : Bytes} {x : Int} (h : castToBool bs = false)
    (hd : numDecode flag mx bs = some x) : x = 0 := by
  unfold numDecode at hd
  split at hd
  · cases hd
  · split at hd
    · cases hd
    · cases hd; exact falsy_raw_zero h

theorem numEncode_zero : numEncode ((0 : Nat) : Int) = [] := by decide

/-- length of the little-endian representation -/
theorem leBytes_length_le : ∀ (f n m : Nat), n < 256 ^ m → (leBytes f n).length ≤ m
  | 0, n, m, _ => by simp [leBytes]
  | f + 1, n, 0, h => by
    have : n = 0 := by simpa using h
    subst this
    simp [leBytes]
  | f + 1, n, m + 1, h => by
    unfold leBytes
    split
    · simp
    · simp only [List.length_cons]
      have : n / 256 < 256 ^ m := by
        rw [Nat.div_lt_iff_lt_mul (by decide)]
        rw [Nat.pow_succ] at h
        exact h
      have := leBytes_length_le f (n / 256) m this
      omega

/-- decoding the minimal encoding of a natural number that fits in 8 bytes gives it back -/
theorem raw_roundtrip {n : Nat} (h : (leBytes 9 n).length < 9) : numDecodeRaw (numEncode (n : Int)) = (n : Int) := by
  by_cases hn : n = 0
  · subst hn; decide
  · obtain ⟨last, hl, henc⟩ := numEncode_pos hn
    have hval := leValue_leBytes 9 n h
    rw [henc]
    by_cases hge : last.toNat ≥ 0x80
    · simp only [hge, if_true]
      unfold numDecodeRaw
      simp only [List.getLast?_append, List.getLast?_singleton, Option.some_or]
      simp only [show ¬ ((0 : UInt8).toNat ≥ 0x80) by decide, if_false, leValue_append_zero, hval]
      rfl
    · simp only [hge, if_false]
      unfold numDecodeRaw
      simp only [hl, hge, if_false, hval]
      rfl

theorem decode_encode_nat {flag : Bool} {n : Nat} {z : Int}
    (h : numDecode flag 4 (numEncode (n : Int)) = some z) : z = n := by
  by_cases hn : n = 0
  · subst hn
    rw [numEncode_zero] at h
    unfold numDecode at h
    simp at h
    rw [← h.2]; rfl
  · obtain ⟨last, hl, henc⟩ := numEncode_pos hn
    unfold numDecode at h
    split at h
    · cases h
    · rename_i hlen
      split at h
      · cases h
      · simp only [Option.some.injEq] at h
        rw [← h]
        apply raw_roundtrip
        rw [henc] at hlen
        by_cases hge : last.toNat ≥ 0x80
        · simp only [hge, if_true, List.length_append, List.length_singleton] at hlen; omega
        · simp only [hge, if_false] at hlen; omega

/-- magnitude of a script number: little-endian value with the sign bit of the last byte masked -/
def absVal : Bytes → Nat
  | [] => 0
  | [b] => (b &&& 0x7f).toNat
  | b :: b' :: rest => b.toNat + 256 * absVal (b' :: rest)

theorem and_7f (b : UInt8) : (b &&& 0x7f).toNat = b.toNat % 128 := by
  rw [UInt8.toNat_and]
  exact Nat.and_two_pow_sub_one_eq_mod b.toNat 7

theorem truthy_absVal : ∀ (bs : Bytes), castToBool bs = true → absVal bs ≠ 0
  | [], h => by simp [castToBool] at h
  | [b], h => by
    simp only [castToBool, Bool.and_eq_true, bne_iff_ne, ne_eq] at h
    simp only [absVal, and_7f]
    have h1 : b.toNat ≠ 0 := fun h0 => h.1 (UInt8.toNat_inj.mp (by simpa using h0))
    have h2 : b.toNat ≠ 128 := fun h0 => h.2 (UInt8.toNat_inj.mp (by simpa using h0))
    have := b.toNat_lt
    omega
  | b :: b' :: rest, h => by
    simp only [castToBool, Bool.or_eq_true, bne_iff_ne, ne_eq] at h
    simp only [absVal]
    rcases h with h | h
    · have : b.toNat ≠ 0 := fun h0 => h (UInt8.toNat_inj.mp (by simpa using h0))
      omega
    · have := truthy_absVal (b' :: rest) h
      omega

theorem raw_natAbs : ∀ (bs : Bytes), (numDecodeRaw bs).natAbs = absVal bs
  | [] => rfl
  | [b] => by
    unfold numDecodeRaw
    simp only [List.getLast?_singleton, List.dropLast_singleton, List.nil_append, leValue, Nat.mul_zero, Nat.add_zero,
      absVal]
    simp only [and_7f]
    split
    · simp only [Int.natAbs_neg, Int.ofNat_eq_natCast, Int.natAbs_natCast]
    · rename_i hlt
      simp only [Int.ofNat_eq_natCast, Int.natAbs_natCast]
      omega
  | b :: b' :: rest => by
    have ih := raw_natAbs (b' :: rest)
    unfold numDecodeRaw at ih ⊢
    have hl : (b :: b' :: rest).getLast? = (b' :: rest).getLast? := by simp [List.getLast?_cons_cons]
    rw [hl]
    cases hlast : (b' :: rest).getLast? with
    | none => simp at hlast
    | some last =>
      simp only [hlast] at ih ⊢
      simp only [absVal]
      by_cases hge : last.toNat ≥ 0x80
      · simp only [hge, if_true] at ih ⊢
        simp only [Int.natAbs_neg, Int.natAbs_natCast, Int.ofNat_eq_natCast] at ih ⊢
        rw [List.dropLast_cons_cons, List.cons_append, leValue, ih]
      · simp only [hge, if_false] at ih ⊢
        simp only [Int.natAbs_natCast, Int.ofNat_eq_natCast] at ih ⊢
        rw [leValue, ih]

theorem truthy_raw_ne_zero {bs : Bytes} (h : castToBool bs = true) : numDecodeRaw bs ≠ 0 := by
  intro h0
  have := raw_natAbs bs
  rw [h0] at this
  exact truthy_absVal bs h this.symm

theorem truthy_decodes_nonzero {flag : Bool} {mx : Nat} {bs : Bytes} {x : Int} (h : castToBool bs = true)
    (hd : numDecode flag mx bs = some x) : x ≠ 0 := by
  unfold numDecode at hd
  split at hd
  · cases hd
  · split at hd
    · cases hd
    · cases hd; exact truthy_raw_ne_zero h

end MsVerif.TypeSound

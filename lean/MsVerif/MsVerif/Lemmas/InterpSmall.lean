/-
The interpreter never invents a `Push` element: every `Push b` on its result stack was on its
input stack (all fragments, by mutual recursion).  Hence a size bound on the witness elements is
preserved along the evaluation — what `j:` (`SIZE 0NOTEQUAL`) needs in the soundness proof.
-/
import MsVerif.Model.Interp

namespace MsVerif.InterpSound
open MsVerif Interp

/-- every `Push` of `a` is a `Push` of `st` -/
def PushSub (a st : AStack) : Prop := ∀ b, Elem.push b ∈ a → Elem.push b ∈ st

theorem PushSub.refl (st : AStack) : PushSub st st := fun _ h => h

theorem PushSub.trans {a b c : AStack} (h1 : PushSub a b) (h2 : PushSub b c) : PushSub a c :=
  fun x hx => h2 x (h1 x hx)

theorem PushSub.tail {e : Elem} {a st : AStack} (h : PushSub (e :: a) st) : PushSub a st :=
  fun x hx => h x (List.mem_cons_of_mem _ hx)

theorem PushSub.ofTail {e : Elem} {st : AStack} : PushSub st (e :: st) :=
  fun _ hx => List.mem_cons_of_mem _ hx

theorem PushSub.sat {a st : AStack} (h : PushSub a st) : PushSub (.sat :: a) st := fun x hx => by
  rcases List.mem_cons.mp hx with e | e
  · cases e
  · exact h x e

theorem PushSub.dissat {a st : AStack} (h : PushSub a st) : PushSub (.dissat :: a) st := fun x hx => by
  rcases List.mem_cons.mp hx with e | e
  · cases e
  · exact h x e

theorem PushSub.bool {a st : AStack} {c : Prop} [Decidable c] (h : PushSub a st) :
    PushSub ((if c then Elem.sat else Elem.dissat) :: a) st := by
  split
  · exact h.sat
  · exact h.dissat

theorem PushSub.consB {e : Elem} {a st : AStack} (he : ∀ b, e ≠ .push b) (h : PushSub a st) :
    PushSub (e :: a) st := fun x hx => by
  rcases List.mem_cons.mp hx with e1 | e1
  · exact absurd e1.symm (he x)
  · exact h x e1

theorem PushSub.drop (n : Nat) (st : AStack) : PushSub (st.drop n) st :=
  fun _ hx => List.mem_of_mem_drop hx

variable {ke : KeyEnv} {ie : IEnv}

theorem evalSig_sub {pk : Bytes} {mk : Bytes → Constraint} {st a' : AStack} {cs : List Constraint}
    (h : evalSig ie pk mk st = .ok (a', cs)) : PushSub a' st := by
  unfold evalSig at h
  split at h
  · simp at h; obtain ⟨h1, _⟩ := h; subst h1; exact (PushSub.refl _)
  · split at h
    · simp at h; obtain ⟨h1, _⟩ := h; subst h1; exact PushSub.ofTail.sat
    · simp at h
  · simp at h
  · simp at h

theorem evaluatePkh_sub {hh : Bytes} {st a' : AStack} {cs : List Constraint}
    (h : evaluatePkh ie hh st = .ok (a', cs)) : PushSub a' st := by
  unfold evaluatePkh at h
  split at h
  · split at h
    · simp at h
    · split at h
      · simp at h
      · exact (evalSig_sub h).trans PushSub.ofTail
  · simp at h

theorem evaluateHash_sub {k : HashKind} {hh : Bytes} {st a' : AStack} {cs : List Constraint}
    (h : evaluateHash ie k hh st = .ok (a', cs)) : PushSub a' st := by
  unfold evaluateHash at h
  split at h
  · split at h
    · simp at h
    · split at h
      · simp at h; obtain ⟨h1, _⟩ := h; subst h1; exact PushSub.ofTail.sat
      · simp at h; obtain ⟨h1, _⟩ := h; subst h1; exact PushSub.ofTail.dissat
  · simp at h

theorem evaluateAfter_sub {n : Nat} {st a' : AStack} {cs : List Constraint}
    (h : evaluateAfter ie n st = .ok (a', cs)) : PushSub a' st := by
  unfold evaluateAfter at h
  split at h
  · simp at h
  · split at h
    · split at h
      · simp at h; obtain ⟨h1, _⟩ := h; subst h1; exact (PushSub.refl _).sat
      · simp at h
    · simp at h

theorem evaluateOlder_sub {n : Nat} {st a' : AStack} {cs : List Constraint}
    (h : evaluateOlder ie n st = .ok (a', cs)) : PushSub a' st := by
  unfold evaluateOlder at h
  split at h
  · simp at h
  · dsimp only at h
    split at h
    · simp at h; obtain ⟨h1, _⟩ := h; subst h1; exact (PushSub.refl _).sat
    · simp at h

theorem multiLoop_sub {k : Nat} : ∀ (keys : List Bytes) (nSat : Nat) (st a' : AStack) (cs : List Constraint),
    multiLoop ie k keys nSat st = .ok (a', cs) → PushSub a' st
  | keys, nSat, st, a', cs, h => by
    unfold multiLoop at h
    split at h
    · split at h
      · simp at h; obtain ⟨h1, _⟩ := h; subst h1; exact PushSub.ofTail.sat
      · simp at h
    · cases keys with
      | nil => simp at h
      | cons pk rest =>
        simp only at h
        unfold evaluateMulti at h
        cases st with
        | nil => simp at h
        | cons e st' =>
          cases e with
          | sat => simp at h
          | dissat => simp at h
          | push sg =>
            simp only at h
            by_cases hv : ie.verifySig pk sg = true
            · simp only [hv, if_true] at h
              cases hr : multiLoop ie k rest (nSat + 1) st' with
              | error e => simp [hr] at h
              | ok p =>
                obtain ⟨a2, cs2⟩ := p
                simp [hr] at h
                obtain ⟨h1, _⟩ := h; subst h1
                exact (multiLoop_sub rest (nSat + 1) st' a2 cs2 hr).trans PushSub.ofTail
            · simp only [hv] at h
              exact multiLoop_sub rest nSat (.push sg :: st') a' cs (by simpa using h)
termination_by keys => keys.length

theorem evalMulti_sub {k : Nat} {keys : List Bytes} {st a' : AStack} {cs : List Constraint}
    (h : evalMulti ie k keys st = .ok (a', cs)) : PushSub a' st := by
  unfold evalMulti at h
  split at h
  · simp at h
  · split at h
    · split at h
      · simp at h; obtain ⟨h1, _⟩ := h; subst h1
        exact ((PushSub.drop _ _).trans PushSub.ofTail).dissat
      · simp at h
    · simp at h
    · exact multiLoop_sub _ _ _ _ _ h

theorem multiALoop_sub {k : Nat} : ∀ (keys : List Bytes) (nSat : Nat) (st a' : AStack) (cs : List Constraint),
    multiALoop ie k keys nSat st = .ok (a', cs) → PushSub a' st
  | [], nSat, st, a', cs, h => by
    simp [multiALoop] at h; obtain ⟨h1, _⟩ := h; subst h1; exact PushSub.consB (by intro b; split <;> simp) (PushSub.refl _)
  | pk :: rest, nSat, st, a', cs, h => by
    unfold multiALoop at h
    cases hp : evaluatePk ie pk st with
    | error e => simp [hp] at h
    | ok p =>
      obtain ⟨st1, cs1⟩ := p
      have s1 : PushSub st1 st := evalSig_sub (by unfold evaluatePk at hp; exact hp)
      cases cs1 with
      | nil =>
        simp only [hp] at h
        cases st1 with
        | nil => simp at h
        | cons _ st2 => exact (multiALoop_sub rest nSat st2 a' cs (by simpa using h)).trans s1.tail
      | cons c1 cr =>
        simp only [hp] at h
        cases st1 with
        | nil => simp at h
        | cons _ st2 =>
          simp only at h
          cases hr : multiALoop ie k rest (nSat + 1) st2 with
          | error e => simp [hr] at h
          | ok q =>
            obtain ⟨a2, cs2⟩ := q
            simp [hr] at h
            obtain ⟨h1, _⟩ := h; subst h1
            exact (multiALoop_sub rest (nSat + 1) st2 a2 cs2 hr).trans s1.tail

mutual
theorem interp_sub : (ms : Ms) → ∀ (st a' : AStack) (cs : List Constraint),
    interp ke ie ms st = .ok (a', cs) → PushSub a' st
  | .tru, st, a', cs, h => by simp [interp] at h; obtain ⟨h1, _⟩ := h; subst h1; exact (PushSub.refl _).sat
  | .fls, st, a', cs, h => by simp [interp] at h; obtain ⟨h1, _⟩ := h; subst h1; exact (PushSub.refl _).dissat
  | .pkK k, st, a', cs, h => evalSig_sub (by simpa [interp, evaluatePk] using h)
  | .pkH k, st, a', cs, h => evaluatePkh_sub (by simpa [interp] using h)
  | .rawPkH k, st, a', cs, h => evaluatePkh_sub (by simpa [interp] using h)
  | .after n, st, a', cs, h => evaluateAfter_sub (by simpa [interp] using h)
  | .older n, st, a', cs, h => evaluateOlder_sub (by simpa [interp] using h)
  | .hash k n, st, a', cs, h => evaluateHash_sub (by simpa [interp] using h)
  | .alt x, st, a', cs, h => interp_sub x st a' cs (by simpa [interp] using h)
  | .swap x, st, a', cs, h => interp_sub x st a' cs (by simpa [interp] using h)
  | .check x, st, a', cs, h => interp_sub x st a' cs (by simpa [interp] using h)
  | .dupIf x, st, a', cs, h => by
    simp only [interp] at h
    split at h
    · simp at h; obtain ⟨h1, _⟩ := h; subst h1; exact PushSub.refl _
    · rename_i st'
      cases hx : interp ke ie x st' with
      | error e => simp [hx] at h
      | ok p =>
        obtain ⟨a2, cs2⟩ := p; simp [hx] at h; obtain ⟨h1, _⟩ := h; subst h1
        exact ((interp_sub x st' a2 cs2 hx).trans PushSub.ofTail).sat
    · simp at h
    · simp at h
  | .verify x, st, a', cs, h => by
    simp only [interp] at h
    cases hx : interp ke ie x st with
    | error e => simp [hx] at h
    | ok p =>
      obtain ⟨a2, cs2⟩ := p
      have v := interp_sub x st a2 cs2 hx
      simp only [hx] at h
      cases a2 with
      | nil => simp at h
      | cons e t => cases e <;> simp at h; obtain ⟨h1, _⟩ := h; subst h1; exact v.tail
  | .zeroNotEqual x, st, a', cs, h => by
    simp only [interp] at h
    cases hx : interp ke ie x st with
    | error e => simp [hx] at h
    | ok p =>
      obtain ⟨a2, cs2⟩ := p
      have v := interp_sub x st a2 cs2 hx
      simp only [hx] at h
      cases a2 with
      | nil => simp at h
      | cons e t =>
        cases e <;> simp at h <;> (obtain ⟨h1, _⟩ := h; subst h1)
        · exact v.tail.sat
        · exact v.tail.dissat
        · exact v.tail.sat
  | .nonZero x, st, a', cs, h => by
    simp only [interp] at h
    split at h
    · simp at h; obtain ⟨h1, _⟩ := h; subst h1; exact PushSub.refl _
    · exact interp_sub x _ a' cs h
    · simp at h
  | .andV l r, st, a', cs, h => by
    simp only [interp] at h
    cases hl : interp ke ie l st with
    | error e => simp [hl] at h
    | ok p =>
      obtain ⟨a1, cs1⟩ := p
      cases hr : interp ke ie r a1 with
      | error e => simp [hl, hr] at h
      | ok q =>
        obtain ⟨a2, cs2⟩ := q
        simp [hl, hr] at h
        obtain ⟨h1, _⟩ := h; subst h1
        exact (interp_sub r a1 a2 cs2 hr).trans (interp_sub l st a1 cs1 hl)
  | .andB l r, st, a', cs, h => by
    simp only [interp] at h
    cases hl : interp ke ie l st with
    | error e => simp [hl] at h
    | ok p =>
      obtain ⟨a1, cs1⟩ := p
      have v1 := interp_sub l st a1 cs1 hl
      simp only [hl] at h
      cases a1 with
      | nil => simp at h
      | cons a st1 =>
        cases hr : interp ke ie r st1 with
        | error e => cases a <;> simp [hr] at h
        | ok q =>
          obtain ⟨a2, cs2⟩ := q
          have v2 := interp_sub r st1 a2 cs2 hr
          cases a2 with
          | nil => cases a <;> simp [hr] at h
          | cons b st2 =>
            cases a with
            | push x => simp at h
            | sat => simp [hr] at h; obtain ⟨h1, _⟩ := h; subst h1; exact PushSub.consB (by intro b; split <;> simp) (v2.tail.trans v1.tail)
            | dissat => simp [hr] at h; obtain ⟨h1, _⟩ := h; subst h1; exact (v2.tail.trans v1.tail).dissat
  | .orB l r, st, a', cs, h => by
    simp only [interp] at h
    cases hl : interp ke ie l st with
    | error e => simp [hl] at h
    | ok p =>
      obtain ⟨a1, cs1⟩ := p
      have v1 := interp_sub l st a1 cs1 hl
      simp only [hl] at h
      cases a1 with
      | nil => simp at h
      | cons a st1 =>
        cases hr : interp ke ie r st1 with
        | error e => cases a <;> simp [hr] at h
        | ok q =>
          obtain ⟨a2, cs2⟩ := q
          have v2 := interp_sub r st1 a2 cs2 hr
          cases a2 with
          | nil => cases a <;> simp [hr] at h
          | cons b st2 =>
            cases a with
            | push x => simp at h
            | sat => simp [hr] at h; obtain ⟨h1, _⟩ := h; subst h1; exact (v2.tail.trans v1.tail).sat
            | dissat => simp [hr] at h; obtain ⟨h1, _⟩ := h; subst h1; exact PushSub.consB (by intro b; split <;> simp) (v2.tail.trans v1.tail)
  | .andOr x y z, st, a', cs, h => by
    simp only [interp] at h
    cases hx : interp ke ie x st with
    | error e => simp [hx] at h
    | ok p =>
      obtain ⟨a1, cs1⟩ := p
      have v1 := interp_sub x st a1 cs1 hx
      simp only [hx] at h
      cases a1 with
      | nil => simp at h
      | cons a st1 =>
        cases a with
        | push q => simp at h
        | sat =>
          cases hy : interp ke ie y st1 with
          | error e => simp [hy] at h
          | ok q =>
            obtain ⟨a2, cs2⟩ := q
            simp [hy] at h; obtain ⟨h1, _⟩ := h; subst h1
            exact (interp_sub y st1 a2 cs2 hy).trans v1.tail
        | dissat =>
          cases hz : interp ke ie z st1 with
          | error e => simp [hz] at h
          | ok q =>
            obtain ⟨a2, cs2⟩ := q
            simp [hz] at h; obtain ⟨h1, _⟩ := h; subst h1
            exact (interp_sub z st1 a2 cs2 hz).trans v1.tail
  | .orC l r, st, a', cs, h => by
    simp only [interp] at h
    cases hl : interp ke ie l st with
    | error e => simp [hl] at h
    | ok p =>
      obtain ⟨a1, cs1⟩ := p
      have v1 := interp_sub l st a1 cs1 hl
      simp only [hl] at h
      cases a1 with
      | nil => simp at h
      | cons a st1 =>
        cases a with
        | push q => simp at h
        | sat => simp at h; obtain ⟨h1, _⟩ := h; subst h1; exact v1.tail
        | dissat =>
          cases hr : interp ke ie r st1 with
          | error e => simp [hr] at h
          | ok q =>
            obtain ⟨a2, cs2⟩ := q
            simp [hr] at h; obtain ⟨h1, _⟩ := h; subst h1
            exact (interp_sub r st1 a2 cs2 hr).trans v1.tail
  | .orD l r, st, a', cs, h => by
    simp only [interp] at h
    cases hl : interp ke ie l st with
    | error e => simp [hl] at h
    | ok p =>
      obtain ⟨a1, cs1⟩ := p
      have v1 := interp_sub l st a1 cs1 hl
      simp only [hl] at h
      cases a1 with
      | nil => simp at h
      | cons a st1 =>
        cases a with
        | push q => simp at h
        | sat => simp at h; obtain ⟨h1, _⟩ := h; subst h1; exact v1
        | dissat =>
          cases hr : interp ke ie r st1 with
          | error e => simp [hr] at h
          | ok q =>
            obtain ⟨a2, cs2⟩ := q
            simp [hr] at h; obtain ⟨h1, _⟩ := h; subst h1
            exact (interp_sub r st1 a2 cs2 hr).trans v1.tail
  | .orI l r, st, a', cs, h => by
    simp only [interp] at h
    split at h
    · exact (interp_sub l _ a' cs h).trans PushSub.ofTail
    · exact (interp_sub r _ a' cs h).trans PushSub.ofTail
    · simp at h
    · simp at h
  | .thresh k xs, st, a', cs, h => by
    cases xs with
    | nil => simp [interp] at h
    | cons x xs =>
      simp only [interp] at h
      cases hx : interp ke ie x st with
      | error e => simp [hx] at h
      | ok p =>
        obtain ⟨a1, cs1⟩ := p
        have v1 := interp_sub x st a1 cs1 hx
        simp only [hx] at h
        cases hr : interpRest ke ie xs 0 a1 with
        | error e => simp [hr] at h
        | ok q =>
          obtain ⟨a2, n2, cs2⟩ := q
          have v2 := interpRest_sub xs 0 a1 a2 n2 cs2 hr
          simp only [hr] at h
          cases a2 with
          | nil => simp at h
          | cons b st2 =>
            cases b with
            | push x => simp at h
            | sat => simp at h; obtain ⟨h1, _⟩ := h; subst h1; exact PushSub.consB (by intro b; split <;> simp) (v2.tail.trans v1)
            | dissat => simp at h; obtain ⟨h1, _⟩ := h; subst h1; exact PushSub.consB (by intro b; split <;> simp) (v2.tail.trans v1)
  | .multi k ks, st, a', cs, h => evalMulti_sub (by simpa [interp] using h)
  | .sortedMulti k ks, st, a', cs, h => evalMulti_sub (by simpa [interp] using h)
  | .multiA k ks, st, a', cs, h => multiALoop_sub _ _ _ _ _ (by simpa [interp] using h)
  | .sortedMultiA k ks, st, a', cs, h => multiALoop_sub _ _ _ _ _ (by simpa [interp] using h)
theorem interpRest_sub : (xs : MsList) → ∀ (n : Nat) (st a' : AStack) (n' : Nat) (cs : List Constraint),
    interpRest ke ie xs n st = .ok (a', n', cs) → PushSub a' st
  | .nil, n, st, a', n', cs, h => by
    simp [interpRest] at h; obtain ⟨h1, _⟩ := h; subst h1; exact PushSub.refl _
  | .cons x xs, n, st, a', n', cs, h => by
    simp only [interpRest] at h
    cases st with
    | nil => simp at h
    | cons r st1 =>
      cases r with
      | push b => simp at h
      | sat =>
        cases hx : interp ke ie x st1 with
        | error e => simp [hx] at h
        | ok p =>
          obtain ⟨a1, cs1⟩ := p
          cases hr : interpRest ke ie xs (n + 1) a1 with
          | error e => simp [hx, hr] at h
          | ok q =>
            obtain ⟨a2, n2, cs2⟩ := q
            simp [hx, hr] at h
            obtain ⟨h1, _⟩ := h; subst h1
            exact ((interpRest_sub xs _ a1 a2 n2 cs2 hr).trans (interp_sub x st1 a1 cs1 hx)).trans PushSub.ofTail
      | dissat =>
        cases hx : interp ke ie x st1 with
        | error e => simp [hx] at h
        | ok p =>
          obtain ⟨a1, cs1⟩ := p
          cases hr : interpRest ke ie xs n a1 with
          | error e => simp [hx, hr] at h
          | ok q =>
            obtain ⟨a2, n2, cs2⟩ := q
            simp [hx, hr] at h
            obtain ⟨h1, _⟩ := h; subst h1
            exact ((interpRest_sub xs _ a1 a2 n2 cs2 hr).trans (interp_sub x st1 a1 cs1 hx)).trans PushSub.ofTail
end

end MsVerif.InterpSound

/-
Lemma for C16/T2: `encode` is compositional, so replacing a sub-miniscript by one with the same
script (e.g. a `sortedmulti` by the same `sortedmulti` with its keys listed in another order)
anywhere inside a miniscript does not change the script.
-/
import MsVerif.Model.Encode

namespace MsVerif.Sorted
open MsVerif MsVerif.Script

mutual
/-- replace every occurrence of the sub-miniscript `o` by `n` -/
def replaceMs (o n : Ms) (m : Ms) : Ms :=
  if m = o then n else
  match m with
  | .alt x => .alt (replaceMs o n x)
  | .swap x => .swap (replaceMs o n x)
  | .check x => .check (replaceMs o n x)
  | .dupIf x => .dupIf (replaceMs o n x)
  | .verify x => .verify (replaceMs o n x)
  | .nonZero x => .nonZero (replaceMs o n x)
  | .zeroNotEqual x => .zeroNotEqual (replaceMs o n x)
  | .andV l r => .andV (replaceMs o n l) (replaceMs o n r)
  | .andB l r => .andB (replaceMs o n l) (replaceMs o n r)
  | .orB l r => .orB (replaceMs o n l) (replaceMs o n r)
  | .orD l r => .orD (replaceMs o n l) (replaceMs o n r)
  | .orC l r => .orC (replaceMs o n l) (replaceMs o n r)
  | .orI l r => .orI (replaceMs o n l) (replaceMs o n r)
  | .andOr a b c => .andOr (replaceMs o n a) (replaceMs o n b) (replaceMs o n c)
  | .thresh k xs => .thresh k (replaceMsList o n xs)
  | m => m
def replaceMsList (o n : Ms) : MsList → MsList
  | .nil => .nil
  | .cons x xs => .cons (replaceMs o n x) (replaceMsList o n xs)
end

mutual
theorem encode_replaceMs (env : KeyEnv) (ctx : Ctx) (o n : Ms)
    (h : encode env ctx o = encode env ctx n) :
    ∀ m : Ms, encode env ctx (replaceMs o n m) = encode env ctx m
  | .alt x | .swap x | .check x | .dupIf x | .verify x | .nonZero x | .zeroNotEqual x => by
    unfold replaceMs
    split
    · rename_i hm; rw [hm]; exact h.symm
    · simp only [encode, encode_replaceMs env ctx o n h x]
  | .andV l r | .andB l r | .orB l r | .orD l r | .orC l r | .orI l r => by
    unfold replaceMs
    split
    · rename_i hm; rw [hm]; exact h.symm
    · simp only [encode, encode_replaceMs env ctx o n h l, encode_replaceMs env ctx o n h r]
  | .andOr a b c => by
    unfold replaceMs
    split
    · rename_i hm; rw [hm]; exact h.symm
    · simp only [encode, encode_replaceMs env ctx o n h a, encode_replaceMs env ctx o n h b,
        encode_replaceMs env ctx o n h c]
  | .thresh k xs => by
    unfold replaceMs
    split
    · rename_i hm; rw [hm]; exact h.symm
    · simp only [encode, encodeThresh_replaceMsList env ctx o n h xs]
  | .tru | .fls | .pkK _ | .pkH _ | .rawPkH _ | .after _ | .older _ | .hash _ _
  | .multi _ _ | .sortedMulti _ _ | .multiA _ _ | .sortedMultiA _ _ => by
    unfold replaceMs
    split
    · rename_i hm; rw [hm]; exact h.symm
    · rfl
theorem encodeThresh_replaceMsList (env : KeyEnv) (ctx : Ctx) (o n : Ms)
    (h : encode env ctx o = encode env ctx n) :
    ∀ (xs : MsList) (first : Bool),
      encodeThresh env ctx first (replaceMsList o n xs) = encodeThresh env ctx first xs
  | .nil, _ => by simp only [replaceMsList]
  | .cons x xs, first => by
    simp only [replaceMsList, encodeThresh, encode_replaceMs env ctx o n h x,
      encodeThresh_replaceMsList env ctx o n h xs]
end

end MsVerif.Sorted

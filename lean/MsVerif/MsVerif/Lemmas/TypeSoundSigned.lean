/-
C06 helper lemmas, part 11: the `s` letter — when NO signature verifies (`NoSig env`), a
fragment typed `signed` is never satisfied.  This file: the malleability side of the typing
rules read backwards, the signature opcodes under `NoSig`, and the leaves.  Limits off.
Core Lean only.
-/
import MsVerif.Lemmas.TypeSoundNonzero

namespace MsVerif.TypeSound
open MsVerif MsVerif.Script

/-- the spender has no valid signature for anything -/
def NoSig (env : Env) : Prop := ∀ pk sg, env.sigOk pk sg = false

/-! ### malleability component of the rules -/

theorem lift1_mall {fc fm a τ} (h : Ty.lift1 fc fm a = some τ) : τ.mall = fm a.mall := by
  unfold Ty.lift1 at h
  split at h
  · cases h; rfl
  · cases h

theorem lift2_mall {fc fm a b τ} (h : Ty.lift2 fc fm a b = some τ) : τ.mall = fm a.mall b.mall := by
  unfold Ty.lift2 at h
  split at h
  · cases h; rfl
  · cases h

theorem andOr_mall {a b c τ} (h : Ty.andOr a b c = some τ) : τ.mall = Mall.andOr a.mall b.mall c.mall := by
  unfold Ty.andOr at h
  split at h
  · cases h; rfl
  · cases h

theorem threshold_mall {k ts τ} (h : Ty.threshold k ts = some τ) :
    τ.mall = Mall.threshold k (ts.map (·.mall)) := by
  unfold Ty.threshold at h
  split at h
  · cases h; rfl
  · cases h

/-! ### signature opcodes when nothing verifies -/

theorem checkSig_nosig {env : Env} (hns : NoSig env) {sg pk : Bytes} {b : Bool}
    (h : checkSig env sg pk = .ok b) : b = false := by
  unfold checkSig at h
  split at h
  · cases h
  · split at h
    · cases h; rfl
    · simp only [hns pk sg, Bool.false_eq_true, if_false] at h
      split at h
      · cases h
      · cases h; rfl

/-- `OP_CHECKSIG` after ANY K fragment pushes false when nothing verifies -/
theorem checksig_nosig {env : Env} (hns : NoSig env) {c c' : Core} (h : opc env .checksig c = .ok c')
    {v : Bytes} {r : List Bytes} (hs : c'.stack = v :: r) : castToBool v = false := by
  obtain ⟨pk, sg, r', b, _, e2, e3⟩ := checksig_ok' h
  have := checkSig_nosig hns e2
  subst this
  rw [e3] at hs
  simp only [List.cons.injEq] at hs
  rw [← hs.1]; rfl

theorem multisigLoop_nosig {env : Env} (hns : NoSig env) (sg : Bytes) (sigs : List Bytes) :
    ∀ (keys : List Bytes) {b : Bool}, multisigLoop env (sg :: sigs) keys = .ok b → b = false
  | [], b, h => by
    unfold multisigLoop at h
    cases h; rfl
  | key :: keys, b, h => by
    unfold multisigLoop at h
    split at h
    · cases h; rfl
    · split at h
      · cases h
      · simp only [hns key sg, Bool.and_false, Bool.false_eq_true, if_false] at h
        exact multisigLoop_nosig hns sg sigs keys h

theorem checksigadd_ok' {env : Env} {c c' : Core} (h : opc env .checksigadd c = .ok c') :
    ∃ pk n sg r v b, c.stack = pk :: n :: sg :: r ∧ num4 env n = .ok v ∧ checkSig env sg pk = .ok b ∧
      c'.stack = numEncode (v + (if b then 1 else 0)) :: r := by
  obtain ⟨c1, hs, ha, h⟩ := opc_ok h
  obtain ⟨s, al, ops⟩ := c1
  match s, h with
  | [], h => simp [execOpc] at h
  | [_], h => simp [execOpc] at h
  | [_, _], h => simp [execOpc] at h
  | a :: b :: d :: r, h =>
    simp only [execOpc] at h
    split at h
    · cases h
    · obtain ⟨x, hx, h⟩ := bind_ok h
      obtain ⟨y, hy, h⟩ := bind_ok h
      have := pushElem_ok h
      exact ⟨a, b, d, r, x, y, hs.symm, hx, hy, this.1⟩

theorem boolor_ok' {env : Env} {c c' : Core} (h : opc env .boolor c = .ok c') :
    ∃ a b r x y, c.stack = a :: b :: r ∧ num4 env a = .ok x ∧ num4 env b = .ok y ∧
      c'.stack = boolBytes (x != 0 || y != 0) :: r ∧ c'.alt = c.alt := by
  obtain ⟨c1, hs, ha, h⟩ := opc_ok h
  obtain ⟨s, al, ops⟩ := c1
  match s, h with
  | [], h => simp [execOpc] at h
  | [_], h => simp [execOpc] at h
  | a :: b :: r, h =>
    simp only [execOpc] at h
    obtain ⟨x, hx, h⟩ := bind_ok h
    obtain ⟨y, hy, h⟩ := bind_ok h
    have := pushElem_ok h
    exact ⟨a, b, r, x, y, hs.symm, hx, hy, this.1, this.2.trans ha⟩

theorem numequal_ok' {env : Env} {c c' : Core} (h : opc env .numequal c = .ok c') :
    ∃ a b r x y, c.stack = a :: b :: r ∧ num4 env a = .ok x ∧ num4 env b = .ok y ∧
      c'.stack = boolBytes (x == y) :: r := by
  obtain ⟨c1, hs, ha, h⟩ := opc_ok h
  obtain ⟨s, al, ops⟩ := c1
  match s, h with
  | [], h => simp [execOpc] at h
  | [_], h => simp [execOpc] at h
  | a :: b :: r, h =>
    simp only [execOpc] at h
    obtain ⟨x, hx, h⟩ := bind_ok h
    obtain ⟨y, hy, h⟩ := bind_ok h
    have := pushElem_ok h
    exact ⟨a, b, r, x, y, hs.symm, hx, hy, this.1⟩

theorem add_ok' {env : Env} {c c' : Core} (h : opc env .add c = .ok c') :
    ∃ a b r x y, c.stack = a :: b :: r ∧ num4 env a = .ok x ∧ num4 env b = .ok y ∧
      c'.stack = numEncode (y + x) :: r ∧ c'.alt = c.alt := by
  obtain ⟨c1, hs, ha, h⟩ := opc_ok h
  obtain ⟨s, al, ops⟩ := c1
  match s, h with
  | [], h => simp [execOpc] at h
  | [_], h => simp [execOpc] at h
  | a :: b :: r, h =>
    simp only [execOpc] at h
    obtain ⟨x, hx, h⟩ := bind_ok h
    obtain ⟨y, hy, h⟩ := bind_ok h
    have := pushElem_ok h
    exact ⟨a, b, r, x, y, hs.symm, hx, hy, this.1, this.2.trans ha⟩

theorem num4_nil {env : Env} {x : Int} (h : num4 env [] = .ok x) : x = 0 :=
  falsy_decodes_zero (by rfl) (num4_ok h)

/-! ### the multi family under `NoSig` -/

/-- `multi` / `sortedmulti` with threshold ≥ 1 pushes false when nothing verifies -/
theorem multi_nosig {env : Env} (hns : NoSig env) (ke : KeyEnv) (k : Nat) (hk : 1 ≤ k) (kl : List Key)
    (hkl : kl.length ≤ 20) {c c' : Core}
    (h : seqOps env ([pushInt k] ++ kl.map (fun pk => Op.push (ke.ser pk)) ++ [pushInt kl.length, .code .checkmultisig]) c
      = .ok c') :
    ∃ r, c'.stack = [] :: r := by
  obtain ⟨c2, h12, h3⟩ := seqOps_append_ok h
  obtain ⟨c1, h1, h2⟩ := seqOps_cons_ok (show seqOps env (pushInt k :: kl.map (fun pk => Op.push (ke.ser pk)))
    c = .ok c2 from h12)
  obtain ⟨hs1, _⟩ := pushInt_ok h1
  have hmm : kl.map (fun pk => Op.push (ke.ser pk)) = (kl.map ke.ser).map Op.push := by
    rw [List.map_map]; rfl
  rw [hmm] at h2
  obtain ⟨hs2, _⟩ := seqOps_pushes_ok _ h2
  obtain ⟨c3, h4, h5⟩ := seqOps_cons_ok h3
  obtain ⟨hs3, _⟩ := pushInt_ok h4
  obtain ⟨c4, h6, h7⟩ := seqOps_cons_ok h5
  cases seqOps_nil_ok h7
  obtain ⟨c3', hs, _, h6⟩ := opc_ok (show opc env .checkmultisig c3 = .ok c' from h6)
  rw [execOpc_cms] at h6
  obtain ⟨nB, r, nI, mB, r1, mI, r2, b, e1, e2, _, e4, e5, e6, e7, e8, e9⟩ := multisig_ok' h6
  rw [hs, hs3, hs2, hs1] at e1
  simp only [List.cons.injEq] at e1
  obtain ⟨rfl, rfl⟩ := e1
  have hdec := decode_intBytes env.flags.minimalNum ⟨kl.length, by omega⟩
  simp only at hdec
  rw [hdec] at e2
  cases e2
  have hlen : ((kl.map ke.ser).reverse).length = kl.length := by simp
  rw [show (Int.ofNat kl.length).toNat = ((kl.map ke.ser).reverse).length from by rw [hlen]; rfl,
    List.drop_left] at e4
  simp only [List.cons.injEq] at e4
  obtain ⟨rfl, rfl⟩ := e4
  have hm0 : mI ≠ 0 := fun h0 => decode_intBytes_ne_zero (by omega) (h0 ▸ e5)
  have hm1 : mI.toNat = (mI.toNat - 1) + 1 := by omega
  have hne : ∃ s0 r1', c.stack = s0 :: r1' := by
    cases hcs : c.stack with
    | nil => rw [hcs] at e9; simp at e9
    | cons a b => exact ⟨a, b, rfl⟩
  obtain ⟨s0, r1', hcs⟩ := hne
  rw [hcs, hm1, List.take_succ_cons] at e7
  have := multisigLoop_nosig hns _ _ _ e7
  subst this
  exact ⟨r2, e8⟩

/-- the `<pk> OP_CHECKSIGADD` repetitions keep the counter at 0 when nothing verifies -/
theorem csa_loop_nosig {env : Env} (hns : NoSig env) (ke : KeyEnv) (ks : List Key) {c c' : Core}
    (h : seqOps env (ks.flatMap fun pk => [Op.push (ke.ser pk), .code .checksigadd]) c = .ok c')
    {tl : List Bytes} (hs : c.stack = [] :: tl) : ∃ tl', c'.stack = [] :: tl' := by
  induction ks generalizing c tl with
  | nil => rw [List.flatMap_nil] at h; cases seqOps_nil_ok h; exact ⟨tl, hs⟩
  | cons k ks ih =>
    rw [List.flatMap_cons] at h
    obtain ⟨c1, h1, h2⟩ := seqOps_cons_ok (show seqOps env (Op.push (ke.ser k) :: .code .checksigadd ::
      ks.flatMap fun pk => [Op.push (ke.ser pk), .code .checksigadd]) c = .ok c' from h)
    obtain ⟨c2, h3, h4⟩ := seqOps_cons_ok h2
    obtain ⟨hs1, _⟩ := pushData_ok h1
    obtain ⟨pk, n, sg, r, v, b, e1, e2, e3, e4⟩ := checksigadd_ok' h3
    rw [hs1, hs] at e1
    simp only [List.cons.injEq] at e1
    obtain ⟨_, rfl, _⟩ := e1
    have hv := num4_nil e2
    have hb := checkSig_nosig hns e3
    subst hv; subst hb
    exact ih h4 (by rw [e4]; rfl)

/-- `multi_a` / `sortedmulti_a` with at least one key and threshold ≥ 1 pushes false when
nothing verifies -/
theorem multiA_nosig {env : Env} (hns : NoSig env) (ke : KeyEnv) (k : Nat) (hk : 1 ≤ k) (kl : List Key)
    (hkl : 1 ≤ kl.length) {c c' : Core}
    (h : seqOps env (encodeMultiA ke kl ++ [pushInt k, .code .numequal]) c = .ok c') :
    ∃ r, c'.stack = [] :: r := by
  obtain ⟨c2, h1, h2⟩ := seqOps_append_ok h
  obtain ⟨c3, h3, h4⟩ := seqOps_cons_ok h2
  obtain ⟨hs3, _⟩ := pushInt_ok h3
  obtain ⟨c4, h5, h6⟩ := seqOps_cons_ok h4
  cases seqOps_nil_ok h6
  obtain ⟨a, b, r, x, y, e1, hx, hy, e2⟩ := numequal_ok' h5
  rw [hs3] at e1
  simp only [List.cons.injEq] at e1
  obtain ⟨rfl, e1⟩ := e1
  match kl, hkl with
  | k0 :: ks, _ =>
    simp only [encodeMultiA] at h1
    obtain ⟨c5, h7, h8⟩ := seqOps_cons_ok (show seqOps env (Op.push (ke.ser k0) :: .code .checksig ::
      ks.flatMap fun pk => [Op.push (ke.ser pk), .code .checksigadd]) c = .ok c2 from h1)
    obtain ⟨c6, h9, h10⟩ := seqOps_cons_ok h8
    obtain ⟨pk, sg, r', b0, _, f2, f3⟩ := checksig_ok' h9
    have := checkSig_nosig hns f2
    subst this
    obtain ⟨tl', g1⟩ := csa_loop_nosig hns ke ks h10 (by rw [f3]; rfl)
    rw [g1] at e1
    simp only [List.cons.injEq] at e1
    obtain ⟨rfl, _⟩ := e1
    have hy0 := num4_nil hy
    subst hy0
    have hx0 : x ≠ 0 := fun h0 => decode_intBytes_ne_zero (by omega) (h0 ▸ num4_ok hx)
    refine ⟨r, ?_⟩
    rw [e2]
    have : (x == 0) = false := by simpa using hx0
    rw [this]; rfl

/-- minimal encodings of naturals below 2³¹ are distinct -/
theorem numEncode_inj {a b : Nat} (ha : a < 2 ^ 31) (hb : b < 2 ^ 31)
    (h : numEncode (a : Int) = numEncode (b : Int)) : a = b := by
  have la : (leBytes 9 a).length < 9 := by
    have := leBytes_length_le 9 a 4 (by omega)
    omega
  have lb : (leBytes 9 b).length < 9 := by
    have := leBytes_length_le 9 b 4 (by omega)
    omega
  have h1 := raw_roundtrip la
  have h2 := raw_roundtrip lb
  rw [h] at h1
  rw [h1] at h2
  exact Int.ofNat.inj h2

theorem num4_one {env : Env} {x : Int} (h : num4 env [1] = .ok x) : x = 1 := by
  have := num4_ok h
  have h1 : ∀ flag : Bool, numDecode flag 4 [1] = some 1 := by decide
  rw [h1] at this
  cases this; rfl

/-- the number a unit result stands for: 0 or 1 -/
theorem unit_decode {env : Env} {v : Bytes} {y : Int} (hu : castToBool v = true → v = [1])
    (h : num4 env v = .ok y) : (y = 0 ∨ y = 1) ∧ (castToBool v = false → y = 0) := by
  by_cases hv : castToBool v = true
  · have := hu hv
    subst this
    exact ⟨Or.inr (num4_one h), fun hf => by rw [hv] at hf; cases hf⟩
  · have hf : castToBool v = false := by simpa using hv
    have := falsy_decodes_zero hf (num4_ok h)
    exact ⟨Or.inl this, fun _ => this⟩

theorem equal_ok' {env : Env} {c c' : Core} (h : opc env .equal c = .ok c') :
    ∃ a b r, c.stack = a :: b :: r ∧ c'.stack = boolBytes (a == b) :: r := by
  obtain ⟨c1, hs, ha, h⟩ := opc_ok h
  obtain ⟨s, al, ops⟩ := c1
  match s, h with
  | [], h => simp [execOpc] at h
  | [_], h => simp [execOpc] at h
  | a :: b :: r, h =>
    simp only [execOpc] at h
    have := pushElem_ok h
    exact ⟨a, b, r, hs.symm, this.1⟩

/-! ### counting signed children -/

def sgn (l : List Mall) : Nat := (l.filter (·.signed)).length
def unsg (l : List Mall) : Nat := (l.filter (fun m => !m.signed)).length

theorem sgn_add_unsg (l : List Mall) : sgn l + unsg l = l.length := by
  induction l with
  | nil => rfl
  | cons m ms ih =>
    unfold sgn unsg at ih ⊢
    cases hm : m.signed <;> simp [hm] <;> omega

theorem threshFold_fst (l : List Mall) : (Mall.threshFold l).1 = sgn l := by
  unfold Mall.threshFold
  have : ∀ (acc : Nat × Bool × Bool),
      (l.foldl (fun (acc : Nat × Bool × Bool) s =>
        (acc.1 + (if s.signed then 1 else 0), acc.2.1 && (s.dissat == .unique), acc.2.2 && s.nonMall)) acc).1
      = acc.1 + sgn l := by
    induction l with
    | nil => intro acc; simp [sgn]
    | cons m ms ih =>
      intro acc
      rw [List.foldl_cons, ih]
      unfold sgn
      cases hm : m.signed <;> simp [hm] <;> omega
  simpa using this (0, true, true)

theorem threshold_signed (k : Nat) (l : List Mall) :
    (Mall.threshold k l).signed = decide (sgn l > l.length - k) := by
  unfold Mall.threshold
  rw [← threshFold_fst]

theorem unsg_cons (m : Mall) (ms : List Mall) : unsg (m :: ms) = (if m.signed then 0 else 1) + unsg ms := by
  unfold unsg
  cases hm : m.signed <;> simp [hm] <;> omega

end MsVerif.TypeSound

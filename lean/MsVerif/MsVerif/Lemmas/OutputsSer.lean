/-
Lemmas for C16/T1: the opcode lists rust-bitcoin's script constructors build serialise to the
byte templates of Spec/Outputs.lean when the hashes have their standard sizes; `encodeMultiA`
depends on its keys only through their serialisations.
-/
import MsVerif.Model.Descriptor

namespace MsVerif.Desc
open MsVerif MsVerif.Script MsVerif.Outputs

theorem ser_newP2pkh (h : Bytes) (hl : h.length = 20) : serialize (newP2pkh h) = p2pkh h := by
  simp [serialize, newP2pkh, Op.bytes, Opc.byte, pushPrefix, hl, p2pkh]

theorem ser_newP2sh (h : Bytes) (hl : h.length = 20) : serialize (newP2sh h) = p2sh h := by
  simp [serialize, newP2sh, Op.bytes, Opc.byte, pushPrefix, hl, p2sh]

theorem ser_witness0_20 (h : Bytes) (hl : h.length = 20) :
    serialize (newWitnessProgram 0 h) = p2wpkh h := by
  simp [serialize, newWitnessProgram, Op.bytes, pushPrefix, hl, p2wpkh]

theorem ser_witness0_32 (h : Bytes) (hl : h.length = 32) :
    serialize (newWitnessProgram 0 h) = p2wsh h := by
  simp [serialize, newWitnessProgram, Op.bytes, pushPrefix, hl, p2wsh]

theorem ser_witness1_32 (h : Bytes) (hl : h.length = 32) :
    serialize (newWitnessProgram 1 h) = p2tr h := by
  simp [serialize, newWitnessProgram, Op.bytes, pushPrefix, hl, p2tr]

theorem p2wpkh_length (h : Bytes) (hl : h.length = 20) : (p2wpkh h).length = 22 := by
  simp [p2wpkh, hl]

theorem p2wsh_length (h : Bytes) (hl : h.length = 32) : (p2wsh h).length = 34 := by
  simp [p2wsh, hl]

theorem pushSlice_22 (s : Bytes) (hl : s.length = 22) : pushSliceScript s = singlePush s := by
  simp [pushSliceScript, serialize, Op.bytes, pushPrefix, hl, singlePush]

theorem pushSlice_34 (s : Bytes) (hl : s.length = 34) : pushSliceScript s = singlePush s := by
  simp [pushSliceScript, serialize, Op.bytes, pushPrefix, hl, singlePush]

/-- `multi_a` script from the list of serialised keys -/
def encodeMultiABytes : List Bytes → List Op
  | [] => []
  | k :: ks => [.push k, .code .checksig] ++ ks.flatMap (fun pk => [Op.push pk, .code .checksigadd])

theorem encodeMultiA_eq (env : KeyEnv) (l : List Key) :
    encodeMultiA env l = encodeMultiABytes (l.map env.ser) := by
  cases l with
  | nil => rfl
  | cons k ks => simp [encodeMultiA, encodeMultiABytes, List.flatMap_map]

end MsVerif.Desc

/-
Helper lemmas for C15: the well-formedness invariant of a `TapTree` depth list.  The depth
list of a script tree satisfies Kraft's equality (Σ 2^(H - depth) = 2^H for every H ≥ height),
which bounds the number of leaves, rules out a second leaf next to a depth-0 leaf, and shows
that a tree's depth list is never a proper prefix of another tree's depth list (so
`nodes_from_tap_tree`'s single pass consumes exactly one tree).
-/
import MsVerif.Model.TapTree
import MsVerif.Lemmas.TapTreeSpec
import MsVerif.Lemmas.TapTreeCombine

namespace MsVerif.Tap
open MsVerif.Spec MsVerif.Spec.Tree

variable {α β : Type}

/-- the Kraft weight of a depth list relative to the horizon `H` -/
def kraft (H : Nat) (l : List (Nat × α)) : Nat := (l.map (fun p => 2 ^ (H - p.1))).sum

theorem kraft_append (H : Nat) (a b : List (Nat × α)) : kraft H (a ++ b) = kraft H a + kraft H b := by
  simp [kraft, List.map_append, List.sum_append]

/-- Kraft's equality for the subtree rooted at depth `d` -/
theorem kraft_depthsFrom (t : Tree α) : ∀ (d H : Nat), d + height t ≤ H →
    kraft H (depthsFrom d t) = 2 ^ (H - d) := by
  induction t with
  | leaf s => intro d H _; simp [kraft, depthsFrom]
  | node l r ihl ihr =>
    intro d H h
    simp only [height] at h
    have hl : (d + 1) + height l ≤ H := by omega
    have hr : (d + 1) + height r ≤ H := by omega
    simp only [depthsFrom, kraft_append, ihl (d + 1) H hl, ihr (d + 1) H hr]
    have e : H - d = (H - (d + 1)) + 1 := by omega
    rw [e, Nat.pow_succ]; omega

/-- every leaf contributes at least 1 to the Kraft sum at a horizon ≥ its depth -/
theorem length_le_kraft (H : Nat) (l : List (Nat × α)) : l.length ≤ kraft H l := by
  induction l with
  | nil => simp [kraft]
  | cons p l ih =>
    have : 1 ≤ 2 ^ (H - p.1) := Nat.one_le_two_pow
    simp only [kraft, List.map_cons, List.sum_cons, List.length_cons] at *
    omega

/-- a tree of height `h` has at most `2^h` leaves -/
theorem depths_length_le (t : Tree α) : (depths t).length ≤ 2 ^ height t := by
  have h := kraft_depthsFrom t 0 (height t) (by omega)
  have h2 := length_le_kraft (height t) (depthsFrom 0 t)
  simp only [Nat.sub_zero] at h
  unfold depths; omega

/-- the depth list of one tree is never a proper prefix of the depth list of another: if
`depths t₁ ++ rest = depths t₂` then `rest = []` (and `t₁ = t₂`) -/
theorem depths_prefix_free (t₁ t₂ : Tree α) (rest : List (Nat × α))
    (h : depths t₁ ++ rest = depths t₂) : rest = [] ∧ t₁ = t₂ := by
  have hk1 := kraft_depthsFrom t₁ 0 (max (height t₁) (height t₂)) (by omega)
  have hk2 := kraft_depthsFrom t₂ 0 (max (height t₁) (height t₂)) (by omega)
  unfold depths at h
  rw [← h, kraft_append, hk1] at hk2
  have hz : kraft (max (height t₁) (height t₂)) rest = 0 := by omega
  have hl := length_le_kraft (max (height t₁) (height t₂)) rest
  have hr : rest = [] := List.eq_nil_of_length_eq_zero (by omega)
  subst hr
  refine ⟨rfl, depths_inj t₁ t₂ ?_⟩
  simpa [depths] using h

end MsVerif.Tap

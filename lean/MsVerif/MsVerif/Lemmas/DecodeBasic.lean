/-
Basic facts about the decoder state machine (Model/Decode.lean): what an `Expression` arm can
push (`stepExpr_shape`), that it consumes at least one token, and the termination measure.
-/
import MsVerif.Model.Decode

namespace MsVerif
namespace DecodeL

/-! ### sub-parsers only consume tokens -/

theorem expectSeq_len {es ts ts' : List Token} (h : expectSeq es ts = .ok ts') :
    ts'.length ≤ ts.length := by
  induction es generalizing ts with
  | nil => simp [expectSeq] at h; subst h; exact Nat.le_refl _
  | cons e es ih =>
    cases ts with
    | nil => simp [expectSeq] at h
    | cons t ts =>
      simp only [expectSeq] at h
      split at h
      · have := ih h; simp; omega
      · cases h

theorem readMultiKeys_len {dec : AtomDec} {ctx : Ctx} {n : Nat} {ts : List Token} {acc ks : List Key}
    {ts' : List Token} (h : readMultiKeys dec ctx n ts acc = .ok (ks, ts')) :
    ts'.length ≤ ts.length := by
  induction n generalizing ts acc with
  | zero => simp [readMultiKeys] at h; obtain ⟨_, rfl⟩ := h; exact Nat.le_refl _
  | succ n ih =>
    cases ts with
    | nil => simp [readMultiKeys] at h
    | cons t ts =>
      cases t <;> simp only [readMultiKeys] at h <;> try (cases h)
      all_goals
        split at h
        · cases h
        · have := ih h; simp; omega

theorem readCsaKeys_len {dec : AtomDec} {ctx : Ctx} (ts : List Token) (acc : List Key) :
    ∀ (ks : List Key) (ts' : List Token),
      readCsaKeys dec ctx ts acc = .ok (ks, ts') → ts'.length ≤ ts.length := by
  fun_induction readCsaKeys dec ctx ts acc <;> intro ks ts' h
  · cases h
  · rename_i ih; have := ih _ _ h; simp; omega
  · cases h
  · cases h
  · simp at h; obtain ⟨_, rfl⟩ := h; exact Nat.le_refl _

/-! ### what an `Expression` arm pushes -/

/-- `(pushNt, number of terminals pushed)` of an `Expression` arm -/
def exprShapeOk : List NonTerm → Nat → Bool
  | [], 1 => true
  | [.expression, .check], 0 | [.expression, .verify], 0 | [.expression, .zeroNotEqual], 0 => true
  | [.verify], 1 => true
  | [.threshW _ 0, .verify], 0 => true
  | [.threshW _ 0], 0 => true
  | [.expression, .maybeAndV, .endIf], 0 => true
  | [.wExpression, .expression, .andB], 0 | [.wExpression, .expression, .orB], 0 => true
  | _, _ => false

theorem exprAfterEqual_shape {dec : AtomDec} {v : Bool} {ts : List Token} {o : ExprOut}
    (h : exprAfterEqual dec v ts = .ok o) :
    exprShapeOk o.pushNt o.pushTerm.length = true ∧ o.toks.length < ts.length := by
  unfold exprAfterEqual at h
  repeat' split at h
  all_goals (cases h)
  all_goals (refine ⟨by cases v <;> simp_all [exprShapeOk], ?_⟩)
  all_goals first
    | (simp only [List.length_cons]; omega)
    | (rename_i hh _ _ _; have := expectSeq_len hh; simp only [List.length_cons] at this ⊢; omega)

theorem exprMulti_shape {dec : AtomDec} {ctx : Ctx} {ts : List Token} {o : ExprOut}
    (h : exprMulti dec ctx ts = .ok o) :
    exprShapeOk o.pushNt o.pushTerm.length = true ∧ o.toks.length < ts.length := by
  unfold exprMulti at h
  repeat' (first | split at h | (dsimp only at h))
  all_goals (cases h)
  refine ⟨by simp [exprShapeOk], ?_⟩
  have := readMultiKeys_len (by assumption)
  simp only [List.length_cons] at this ⊢; omega

theorem exprMultiA_shape {dec : AtomDec} {ctx : Ctx} {ts : List Token} {o : ExprOut}
    (h : exprMultiA dec ctx ts = .ok o) :
    exprShapeOk o.pushNt o.pushTerm.length = true ∧ o.toks.length < ts.length := by
  unfold exprMultiA at h
  repeat' (first | split at h | (dsimp only at h))
  all_goals (cases h)
  refine ⟨by simp [exprShapeOk], ?_⟩
  have := readCsaKeys_len _ _ _ _ (by assumption)
  simp only [List.length_cons] at this ⊢; omega

theorem stepExpr_shape {dec : AtomDec} {ctx : Ctx} {ts : List Token} {o : ExprOut}
    (h : stepExpr dec ctx ts = .ok o) :
    exprShapeOk o.pushNt o.pushTerm.length = true ∧ o.toks.length < ts.length := by
  unfold stepExpr at h
  split at h
  all_goals first
    | (have := exprAfterEqual_shape h; exact ⟨this.1, by simp only [List.length_cons]; omega⟩)
    | (have := exprMulti_shape h; exact ⟨this.1, by simp only [List.length_cons]; omega⟩)
    | (have := exprMultiA_shape h; exact ⟨this.1, by simp only [List.length_cons]; omega⟩)
    | skip
  all_goals (repeat' split at h)
  all_goals first
    | (cases h; done)
    | (cases h; exact ⟨by simp [exprShapeOk], by simp only [List.length_cons]; omega⟩)
    | (have := exprAfterEqual_shape h; exact ⟨this.1, by simp only [List.length_cons]; omega⟩)

end DecodeL
end MsVerif

/-
`NumOk n` for every `n < 2^31`: the minimal script-number encoding of such `n` is an explicit list of
at most four bytes (magnitude bytes, plus a `0x00` pad when the top magnitude byte is ≥ 0x80), on
which `numDecode` / `castToBool` are evaluated directly.  One lemma per byte-length range.
-/
import MsVerif.Lemmas.SatNumDef
namespace MsVerif.SatSpec
open MsVerif Script

theorem and7f_beq (b : UInt8) : ((b &&& 0x7f) == 0) = (b.toNat % 128 == 0) := by
  have h : (b &&& 0x7f).toNat = b.toNat % 128 := by
    rw [UInt8.toNat_and]; exact Nat.and_two_pow_sub_one_eq_mod _ 7
  rw [Bool.eq_iff_iff]; simp [← UInt8.toNat_inj, h]

theorem bne_zero (b : UInt8) : (b != 0) = (b.toNat != 0) := by
  rw [Bool.eq_iff_iff]; simp [← UInt8.toNat_inj]

theorem bne_80 (b : UInt8) : (b != 0x80) = (b.toNat != 128) := by
  rw [Bool.eq_iff_iff]; simp [← UInt8.toNat_inj]

theorem leBytes_succ {f n : Nat} (h : n ≠ 0) :
    leBytes (f + 1) n = UInt8.ofNat (n % 256) :: leBytes f (n / 256) := by
  simp [leBytes, h]

theorem leBytes_zero (f : Nat) : leBytes f 0 = [] := by
  cases f <;> simp [leBytes]

theorem numEncode_pos {n : Nat} (h : n ≠ 0) :
    numEncode (n : Int) =
      match (leBytes 9 n).getLast? with
      | none => []
      | some last => if last.toNat ≥ 0x80 then leBytes 9 n ++ [0x00] else leBytes 9 n := by
  have h1 : (n : Int) ≠ 0 := by omega
  have h2 : ¬ ((n : Int) < 0) := by omega
  simp only [numEncode, h1, h2, if_false, Int.natAbs_natCast]
  rfl

theorem numOk_range1 (n : Nat) (h0 : n ≠ 0) (h : n < 128) : NumOk n := by
  have e : leBytes 9 n = [UInt8.ofNat (n % 256)] := by
    rw [leBytes_succ (by omega), show n / 256 = 0 by omega, leBytes_zero]
  have e2 : numEncode (n : Int) = [UInt8.ofNat (n % 256)] := by
    rw [numEncode_pos (by omega), e]
    simp [UInt8.toNat_ofNat']
    omega
  refine ⟨fun min => ?_, fun _ => ?_⟩
  · rw [e2]
    simp [numDecode, numMinimal, numDecodeRaw, leValue, and7f_beq, UInt8.toNat_ofNat']
    first
      | omega
      | (refine ⟨by omega, ?_⟩; rw [if_neg (by omega)]; omega)
  · rw [e2]
    simp [castToBool, bne_zero, bne_80, UInt8.toNat_ofNat']
    try omega

theorem numOk_range2 (n : Nat) (h0 : 128 ≤ n) (h : n < 256) : NumOk n := by
  have e : leBytes 9 n = [UInt8.ofNat (n % 256)] := by
    rw [leBytes_succ (by omega), show n / 256 = 0 by omega, leBytes_zero]
  have e2 : numEncode (n : Int) = [UInt8.ofNat (n % 256), 0] := by
    rw [numEncode_pos (by omega), e]
    simp [UInt8.toNat_ofNat']
    omega
  refine ⟨fun min => ?_, fun _ => ?_⟩
  · rw [e2]
    simp [numDecode, numMinimal, numDecodeRaw, leValue, UInt8.toNat_ofNat']
    first
      | omega
      | (refine ⟨by omega, ?_⟩; rw [if_neg (by omega)]; omega)
  · rw [e2]
    simp [castToBool, bne_zero, bne_80, UInt8.toNat_ofNat']
    try omega

theorem numOk_range3 (n : Nat) (h0 : 256 ≤ n) (h : n < 32768) : NumOk n := by
  have e : leBytes 9 n = [UInt8.ofNat (n % 256), UInt8.ofNat (n / 256 % 256)] := by
    rw [leBytes_succ (by omega), leBytes_succ (by omega), show n / 256 / 256 = 0 by omega, leBytes_zero]
  have e2 : numEncode (n : Int) = [UInt8.ofNat (n % 256), UInt8.ofNat (n / 256 % 256)] := by
    rw [numEncode_pos (by omega), e]
    simp [UInt8.toNat_ofNat']
    omega
  refine ⟨fun min => ?_, fun _ => ?_⟩
  · rw [e2]
    simp [numDecode, numMinimal, numDecodeRaw, leValue, and7f_beq, UInt8.toNat_ofNat']
    first
      | omega
      | (refine ⟨by omega, ?_⟩; rw [if_neg (by omega)]; omega)
  · rw [e2]
    simp [castToBool, bne_zero, bne_80, UInt8.toNat_ofNat']
    try omega

theorem numOk_range4 (n : Nat) (h0 : 32768 ≤ n) (h : n < 65536) : NumOk n := by
  have e : leBytes 9 n = [UInt8.ofNat (n % 256), UInt8.ofNat (n / 256 % 256)] := by
    rw [leBytes_succ (by omega), leBytes_succ (by omega), show n / 256 / 256 = 0 by omega, leBytes_zero]
  have e2 : numEncode (n : Int) = [UInt8.ofNat (n % 256), UInt8.ofNat (n / 256 % 256), 0] := by
    rw [numEncode_pos (by omega), e]
    simp [UInt8.toNat_ofNat']
    omega
  refine ⟨fun min => ?_, fun _ => ?_⟩
  · rw [e2]
    simp [numDecode, numMinimal, numDecodeRaw, leValue, UInt8.toNat_ofNat']
    first
      | omega
      | (refine ⟨by omega, ?_⟩; rw [if_neg (by omega)]; omega)
  · rw [e2]
    simp [castToBool, bne_zero, bne_80, UInt8.toNat_ofNat']
    try omega

theorem numOk_range5 (n : Nat) (h0 : 65536 ≤ n) (h : n < 8388608) : NumOk n := by
  have e : leBytes 9 n = [UInt8.ofNat (n % 256), UInt8.ofNat (n / 256 % 256), UInt8.ofNat (n / 256 / 256 % 256)] := by
    rw [leBytes_succ (by omega), leBytes_succ (by omega), leBytes_succ (by omega), show n / 256 / 256 / 256 = 0 by omega, leBytes_zero]
  have e2 : numEncode (n : Int) = [UInt8.ofNat (n % 256), UInt8.ofNat (n / 256 % 256), UInt8.ofNat (n / 256 / 256 % 256)] := by
    rw [numEncode_pos (by omega), e]
    simp [UInt8.toNat_ofNat']
    omega
  refine ⟨fun min => ?_, fun _ => ?_⟩
  · rw [e2]
    simp [numDecode, numMinimal, numDecodeRaw, leValue, and7f_beq, UInt8.toNat_ofNat']
    first
      | omega
      | (refine ⟨by omega, ?_⟩; rw [if_neg (by omega)]; omega)
  · rw [e2]
    simp [castToBool, bne_zero, bne_80, UInt8.toNat_ofNat']
    try omega

theorem numOk_range6 (n : Nat) (h0 : 8388608 ≤ n) (h : n < 16777216) : NumOk n := by
  have e : leBytes 9 n = [UInt8.ofNat (n % 256), UInt8.ofNat (n / 256 % 256), UInt8.ofNat (n / 256 / 256 % 256)] := by
    rw [leBytes_succ (by omega), leBytes_succ (by omega), leBytes_succ (by omega), show n / 256 / 256 / 256 = 0 by omega, leBytes_zero]
  have e2 : numEncode (n : Int) = [UInt8.ofNat (n % 256), UInt8.ofNat (n / 256 % 256), UInt8.ofNat (n / 256 / 256 % 256), 0] := by
    rw [numEncode_pos (by omega), e]
    simp [UInt8.toNat_ofNat']
    omega
  refine ⟨fun min => ?_, fun _ => ?_⟩
  · rw [e2]
    simp [numDecode, numMinimal, numDecodeRaw, leValue, UInt8.toNat_ofNat']
    first
      | omega
      | (refine ⟨by omega, ?_⟩; rw [if_neg (by omega)]; omega)
  · rw [e2]
    simp [castToBool, bne_zero, bne_80, UInt8.toNat_ofNat']
    try omega

theorem numOk_range7 (n : Nat) (h0 : 16777216 ≤ n) (h : n < 2147483648) : NumOk n := by
  have e : leBytes 9 n = [UInt8.ofNat (n % 256), UInt8.ofNat (n / 256 % 256), UInt8.ofNat (n / 256 / 256 % 256), UInt8.ofNat (n / 256 / 256 / 256 % 256)] := by
    rw [leBytes_succ (by omega), leBytes_succ (by omega), leBytes_succ (by omega), leBytes_succ (by omega), show n / 256 / 256 / 256 / 256 = 0 by omega, leBytes_zero]
  have e2 : numEncode (n : Int) = [UInt8.ofNat (n % 256), UInt8.ofNat (n / 256 % 256), UInt8.ofNat (n / 256 / 256 % 256), UInt8.ofNat (n / 256 / 256 / 256 % 256)] := by
    rw [numEncode_pos (by omega), e]
    simp [UInt8.toNat_ofNat']
    omega
  refine ⟨fun min => ?_, fun _ => ?_⟩
  · rw [e2]
    simp [numDecode, numMinimal, numDecodeRaw, leValue, and7f_beq, UInt8.toNat_ofNat']
    first
      | omega
      | (refine ⟨by omega, ?_⟩; rw [if_neg (by omega)]; omega)
  · rw [e2]
    simp [castToBool, bne_zero, bne_80, UInt8.toNat_ofNat']
    try omega

theorem numOk_zero : NumOk 0 := by
  refine ⟨fun min => ?_, fun h => absurd rfl h⟩
  cases min <;> simp [numEncode, numDecode, numMinimal, numDecodeRaw]

/-- every number below 2^31 round-trips through the minimal script-number encoding as a
≤ 4-byte operand (with and without the minimality rule) and is truthy iff non-zero -/
theorem numOk_of_lt (n : Nat) (h : n < 2147483648) : NumOk n := by
  by_cases h0 : n = 0
  · subst h0; exact numOk_zero
  by_cases h1 : n < 128
  · exact numOk_range1 n h0 h1
  by_cases h2 : n < 256
  · exact numOk_range2 n (by omega) h2
  by_cases h3 : n < 32768
  · exact numOk_range3 n (by omega) h3
  by_cases h4 : n < 65536
  · exact numOk_range4 n (by omega) h4
  by_cases h5 : n < 8388608
  · exact numOk_range5 n (by omega) h5
  by_cases h6 : n < 16777216
  · exact numOk_range6 n (by omega) h6
  exact numOk_range7 n (by omega) h

end MsVerif.SatSpec

/-
C02: the satisfier with the `j:` dissatisfaction as a parameter.

`satDissatG nz` is a verbatim copy of `satDissat` (Model/Satisfy.lean) except that the
dissatisfaction of `j:X` is the parameter `nz` instead of the literal of the Rust code.
  * `satDissatG MODEL_NZ = satDissat`               (`satDissatG_model`, MODEL_NZ = push0 since the F3 fix)
  * `satDissatFixed = satDissatG Sat.push0`         (the specification's `dsat(j:X) = 0`)
All completeness proofs are done once, for `satDissatG nz`.

Also: the side conditions of the theorems as predicates over the nodes of a script.
-/
import MsVerif.Model.Satisfy
import MsVerif.Model.TypeCheck
import MsVerif.Spec.SatTable
import MsVerif.Lemmas.CompleteMulti

namespace MsVerif.Complete
open MsVerif Sat SatTable

mutual
def satDissatG (nz : Sat) (c : SatCfg) : Ms → SatDissat
  | .fls => ⟨Sat.TRIVIAL, Sat.IMPOSSIBLE⟩
  | .tru => ⟨Sat.IMPOSSIBLE, Sat.TRIVIAL⟩
  | .pkK k => ⟨Sat.push0, ⟨sigWit c.ctx c.assets k, true, none, none⟩⟩
  | .pkH k =>
    let pkp : Wit := .stack [.pubkey k (pkLen c.env c.ctx k)]
    ⟨⟨Wit.combine (.stack [.pushZero]) pkp, false, none, none⟩,
     ⟨Wit.combine (sigWit c.ctx c.assets k) pkp, true, none, none⟩⟩
  | .rawPkH h =>
    let pkw : Wit := match c.assets.rawPkhPk h with
      | some pk => .stack [.pubkeyHash h (pkLen c.env c.ctx pk)]
      | none => .unavailable
    let sg : Wit := match c.ctx.sigType with
      | .schnorr => match c.assets.rawPkhSchnorr h with
        | some (pk, sz) => .stack [.schnorrSigPkh h sz, .pubkeyHash h (pkLen c.env c.ctx pk)]
        | none => .impossible
      | .ecdsa => match c.assets.rawPkhEcdsa h with
        | some pk => .stack [.ecdsaSigPkh h, .pubkeyHash h (pkLen c.env c.ctx pk)]
        | none => .impossible
    ⟨⟨Wit.combine (.stack [.pushZero]) pkw, false, none, none⟩, ⟨sg, true, none, none⟩⟩
  | .multi k ks => multiSD c.ctx c.assets k ks
  | .sortedMulti k ks => multiSD c.ctx c.assets k (sortKeys' c.env ks)
  | .multiA k ks => multiASD c.ctx c.assets k ks
  | .sortedMultiA k ks => multiASD c.ctx c.assets k (sortKeys' c.env ks)
  | .after n =>
    let (st, abs) : Wit × Option Nat :=
      if c.assets.checkAfter n then (.stack [], some n)
      else if c.rootHasSig then (.impossible, none) else (.unavailable, none)
    ⟨Sat.IMPOSSIBLE, ⟨st, false, abs, none⟩⟩
  | .older n =>
    let (st, rel) : Wit × Option Nat :=
      if c.assets.checkOlder (relCanon n) then (.stack [], some n)
      else if c.rootHasSig then (.impossible, none) else (.unavailable, none)
    ⟨Sat.IMPOSSIBLE, ⟨st, false, none, rel⟩⟩
  | .hash kind h =>
    ⟨⟨.stack [.hashDissat], false, none, none⟩,
     ⟨if c.assets.preimage kind h then .stack [.preimage kind h] else .unavailable, false, none, none⟩⟩
  | .alt x | .swap x | .check x | .zeroNotEqual x => satDissatG nz c x
  | .dupIf x =>
    let sub := (satDissatG nz c x).sat
    ⟨Sat.push0, { sub with stack := Wit.combine sub.stack (.stack [.pushOne]) }⟩
  | .verify x => ⟨Sat.IMPOSSIBLE, (satDissatG nz c x).sat⟩
  | .nonZero x => ⟨nz, (satDissatG nz c x).sat⟩          -- ← the only difference
  | .andB l r =>
    let l := satDissatG nz c l; let r := satDissatG nz c r
    ⟨l.dissat.concatenateRev r.dissat, l.sat.concatenateRev r.sat⟩
  | .andV l r =>
    let l := satDissatG nz c l; let r := satDissatG nz c r
    ⟨l.sat.concatenateRev r.dissat, l.sat.concatenateRev r.sat⟩
  | .andOr a b z =>
    let a := satDissatG nz c a; let b := satDissatG nz c b; let z := satDissatG nz c z
    ⟨a.dissat.concatenateRev z.dissat,
     c.minFn (a.sat.concatenateRev b.sat) (a.dissat.concatenateRev z.sat)⟩
  | .orB l r =>
    let l := satDissatG nz c l; let r := satDissatG nz c r
    ⟨l.dissat.concatenateRev r.dissat,
     c.minFn (l.dissat.concatenateRev r.sat) (l.sat.concatenateRev r.dissat)⟩
  | .orC l r =>
    let l := satDissatG nz c l; let r := satDissatG nz c r
    ⟨Sat.IMPOSSIBLE, c.minFn l.sat (l.dissat.concatenateRev r.sat)⟩
  | .orD l r =>
    let l := satDissatG nz c l; let r := satDissatG nz c r
    ⟨l.dissat.concatenateRev r.dissat, c.minFn l.sat (l.dissat.concatenateRev r.sat)⟩
  | .orI l r =>
    let l := satDissatG nz c l; let r := satDissatG nz c r
    let w1 (s : Sat) : Sat := { s with stack := Wit.combine s.stack (.stack [.pushOne]) }
    let w0 (s : Sat) : Sat := { s with stack := Wit.combine s.stack (.stack [.pushZero]) }
    ⟨c.minFn (w1 l.dissat) (w0 r.dissat), c.minFn (w1 l.sat) (w0 r.sat)⟩
  | .thresh k xs =>
    let sds := satDissatsG nz c xs
    let dissats := sds.map (·.dissat)
    let sats := sds.map (·.sat)
    let dissat := foldConcat dissats
    let sat :=
      if k = sds.length then foldConcat sats
      else if c.mall then threshMall k dissats sats else threshNonMall k dissats sats
    ⟨dissat, sat⟩
def satDissatsG (nz : Sat) (c : SatCfg) : MsList → List SatDissat
  | .nil => []
  | .cons x xs => satDissatG nz c x :: satDissatsG nz c xs
end

/-- the `dissat` literal of the `Terminal::NonZero` arm in `Model/Satisfy.lean`
(= `src/miniscript/satisfy/sat_dissat.rs`): `push_0` since the fix of defect F3 (before: IMPOSSIBLE) -/
def MODEL_NZ : Sat := Sat.push0

/-- the satisfier with the specification's `j:` row (`dsat(j:X) = 0`) -/
def satDissatFixed (c : SatCfg) (ms : Ms) : SatDissat := satDissatG Sat.push0 c ms

mutual
theorem satDissatG_model (c : SatCfg) : (ms : Ms) → satDissatG MODEL_NZ c ms = satDissat c ms
  | .fls | .tru | .pkK _ | .pkH _ | .rawPkH _ | .multi _ _ | .sortedMulti _ _ | .multiA _ _
  | .sortedMultiA _ _ | .after _ | .older _ | .hash _ _ => by
    simp only [satDissatG, satDissat] <;> rfl
  | .alt x | .swap x | .check x | .zeroNotEqual x | .dupIf x | .verify x => by
    simp only [satDissatG, satDissat, satDissatG_model c x]
  | .nonZero x => by
    simp only [satDissatG, satDissat, satDissatG_model c x]; rfl
  | .andB l r | .andV l r | .orB l r | .orC l r | .orD l r | .orI l r => by
    simp only [satDissatG, satDissat, satDissatG_model c l, satDissatG_model c r]
  | .andOr x y z => by
    simp only [satDissatG, satDissat, satDissatG_model c x, satDissatG_model c y,
      satDissatG_model c z]
  | .thresh k xs => by
    simp only [satDissatG, satDissat, satDissatsG_model c xs]
theorem satDissatsG_model (c : SatCfg) : (xs : MsList) → satDissatsG MODEL_NZ c xs = satDissats c xs
  | .nil => by simp only [satDissatsG, satDissats]
  | .cons x xs => by
    simp only [satDissatsG, satDissats, satDissatG_model c x, satDissatsG_model c xs]
end

theorem satDissatsG_eq_map (nz : Sat) (c : SatCfg) :
    (xs : MsList) → satDissatsG nz c xs = xs.toList.map (satDissatG nz c)
  | .nil => by simp [satDissatsG, MsList.toList]
  | .cons x xs => by simp [satDissatsG, MsList.toList, satDissatsG_eq_map nz c xs]

/-! ### node predicates -/

mutual
/-- all sub-fragments, the fragment itself first -/
def subterms : Ms → List Ms
  | .alt x => .alt x :: subterms x
  | .swap x => .swap x :: subterms x
  | .check x => .check x :: subterms x
  | .dupIf x => .dupIf x :: subterms x
  | .verify x => .verify x :: subterms x
  | .nonZero x => .nonZero x :: subterms x
  | .zeroNotEqual x => .zeroNotEqual x :: subterms x
  | .andV l r => .andV l r :: (subterms l ++ subterms r)
  | .andB l r => .andB l r :: (subterms l ++ subterms r)
  | .orB l r => .orB l r :: (subterms l ++ subterms r)
  | .orD l r => .orD l r :: (subterms l ++ subterms r)
  | .orC l r => .orC l r :: (subterms l ++ subterms r)
  | .orI l r => .orI l r :: (subterms l ++ subterms r)
  | .andOr a b c => .andOr a b c :: (subterms a ++ subterms b ++ subterms c)
  | .thresh k xs => .thresh k xs :: subtermsL xs
  | m => [m]
def subtermsL : MsList → List Ms
  | .nil => []
  | .cons x xs => subterms x ++ subtermsL xs
end

/-- `p` holds at every node of `ms` -/
def allNodes (p : Ms → Bool) (ms : Ms) : Bool := (subterms ms).all p
def allNodesL (p : Ms → Bool) (xs : MsList) : Bool := (subtermsL xs).all p

theorem allNodesL_cons (p : Ms → Bool) (x : Ms) (xs : MsList) :
    allNodesL p (.cons x xs) = (allNodes p x && allNodesL p xs) := by
  simp [allNodesL, allNodes, subtermsL, List.all_append]

theorem allNodesL_mem {p : Ms → Bool} :
    (xs : MsList) → (h : allNodesL p xs = true) → ∀ x ∈ xs.toList, allNodes p x = true
  | .nil, _ => by simp [MsList.toList]
  | .cons y ys, h => by
    rw [allNodesL_cons, Bool.and_eq_true] at h
    intro x hx
    simp only [MsList.toList, List.mem_cons] at hx
    rcases hx with rfl | hx
    · exact h.1
    · exact allNodesL_mem ys h.2 x hx

theorem all_and {α : Type} (l : List α) (p q : α → Bool) :
    l.all (fun m => p m && q m) = (l.all p && l.all q) := by
  induction l with
  | nil => rfl
  | cons a t ih => simp only [List.all_cons, ih]; cases p a <;> cases q a <;> simp

/-- no `j:` wrapper -/
def isNotNonZero : Ms → Bool
  | .nonZero _ => false
  | _ => true

/-- the `j:` side condition of the inductions: the parameter is the specification's row, or
there is no `j:` node -/
theorem nzOK {nz : Sat} {ms : Ms} (h : nz = Sat.push0 ∨ allNodes isNotNonZero ms = true) :
    allNodes (fun m => isNotNonZero m || decide (nz = Sat.push0)) ms = true := by
  unfold allNodes
  rw [List.all_eq_true]
  intro m hm
  rcases h with h | h
  · simp [h]
  · unfold allNodes at h
    rw [List.all_eq_true] at h
    simp [h m hm]

theorem isStk_exists {w : Wit} (h : isStk w = true) : ∃ l, w = .stack l := (isStk_iff w).mp h

/-- no raw `pkh` hash (they are refused by the library's sanity rules) -/
def isNotRawPkH : Ms → Bool
  | .rawPkH _ => false
  | _ => true

/-- the preimage of a hash node is known -/
def preKnown (a : Assets) : Ms → Bool
  | .hash kind h => a.preimage kind h
  | _ => true

/-- `Threshold` invariant `1 ≤ k ≤ n` (guaranteed by the Rust type) -/
def threshKOK : Ms → Bool
  | .thresh k xs => decide (1 ≤ k) && decide (k ≤ xs.length)
  | _ => true

/-- two lock nodes are compatible under `a`: if both are available they have the same unit -/
def lockCompat (a : Assets) : Ms → Ms → Bool
  | .after x, .after y => !(a.checkAfter x && a.checkAfter y) || (absUnit x == absUnit y)
  | .older x, .older y =>
    !(a.checkOlder (relCanon x) && a.checkOlder (relCanon y)) || (relIsTime x == relIsTime y)
  | _, _ => true

/-- a lock node that is available has the given unit -/
def lockUnit (a : Assets) (ua ur : Bool) : Ms → Bool
  | .after n => !a.checkAfter n || (absUnit n == ua)
  | .older n => !a.checkOlder (relCanon n) || (relIsTime n == ur)
  | _ => true

/-- pairwise compatible locks have common units -/
theorem exists_units (a : Assets) (ms : Ms)
    (h : ∀ s ∈ subterms ms, ∀ t ∈ subterms ms, lockCompat a s t = true) :
    ∃ ua ur, allNodes (lockUnit a ua ur) ms = true := by
  have hA : ∃ ua, ∀ n, Ms.after n ∈ subterms ms → a.checkAfter n = true → absUnit n = ua := by
    by_cases hex : ∃ x, Ms.after x ∈ subterms ms ∧ a.checkAfter x = true
    · obtain ⟨x, hx, hax⟩ := hex
      refine ⟨absUnit x, fun n hn han => ?_⟩
      have := h _ hn _ hx
      simpa [lockCompat, han, hax] using this
    · exact ⟨true, fun n hn han => absurd ⟨n, hn, han⟩ hex⟩
  have hR : ∃ ur, ∀ n, Ms.older n ∈ subterms ms → a.checkOlder (relCanon n) = true →
      relIsTime n = ur := by
    by_cases hex : ∃ x, Ms.older x ∈ subterms ms ∧ a.checkOlder (relCanon x) = true
    · obtain ⟨x, hx, hax⟩ := hex
      refine ⟨relIsTime x, fun n hn han => ?_⟩
      have := h _ hn _ hx
      simpa [lockCompat, han, hax] using this
    · exact ⟨true, fun n hn han => absurd ⟨n, hn, han⟩ hex⟩
  obtain ⟨ua, hua⟩ := hA
  obtain ⟨ur, hur⟩ := hR
  refine ⟨ua, ur, ?_⟩
  unfold allNodes
  rw [List.all_eq_true]
  intro s hs
  cases s <;> simp only [lockUnit]
  case after n =>
    cases han : a.checkAfter n with
    | false => rfl
    | true => simp [hua n hs han]
  case older n =>
    cases han : a.checkOlder (relCanon n) with
    | false => rfl
    | true => simp [hur n hs han]

/-! ### size bound -/

mutual
/-- an upper bound on the number of witness items of any (dis)satisfaction of the fragment -/
def itemBound : Ms → Nat
  | .tru | .fls | .after _ | .older _ => 0
  | .pkK _ | .hash _ _ => 1
  | .pkH _ | .rawPkH _ => 2
  | .multi k ks | .sortedMulti k ks => ks.length + k + 1
  | .multiA _ ks | .sortedMultiA _ ks => ks.length
  | .alt x | .swap x | .check x | .verify x | .zeroNotEqual x => itemBound x
  | .dupIf x | .nonZero x => itemBound x + 1
  | .andV l r | .andB l r | .orB l r | .orD l r | .orC l r => itemBound l + itemBound r
  | .orI l r => itemBound l + itemBound r + 1
  | .andOr a b c => itemBound a + itemBound b + itemBound c
  | .thresh _ xs => itemBounds xs
def itemBounds : MsList → Nat
  | .nil => 0
  | .cons x xs => itemBound x + itemBounds xs
end

theorem itemBounds_eq : (xs : MsList) → itemBounds xs = (xs.toList.map itemBound).sum
  | .nil => by simp [itemBounds, MsList.toList]
  | .cons x xs => by simp [itemBounds, MsList.toList, itemBounds_eq xs]

theorem itemBound_le_of_mem {x : Ms} :
    (xs : MsList) → (h : x ∈ xs.toList) → itemBound x ≤ itemBounds xs
  | .nil, h => by simp [MsList.toList] at h
  | .cons y ys, h => by
    simp only [MsList.toList, List.mem_cons] at h
    simp only [itemBounds]
    rcases h with rfl | h
    · omega
    · have := itemBound_le_of_mem ys h; omega

/-! ### linking `Assets` to the specification's `Avail` -/

def availOf (a : Assets) (ctx : Ctx) : Avail where
  sig := sigAvail ctx a
  preimage := a.preimage
  after := a.checkAfter
  older n := a.checkOlder (relCanon n)
  rawKey h := (a.rawPkhPk h).isSome
  rawSig h := match ctx.sigType with
    | .schnorr => (a.rawPkhSchnorr h).isSome
    | .ecdsa => (a.rawPkhEcdsa h).isSome

/-! ### the counting functions of the table as list counts -/

theorem countOnlySat_eq (av : Avail) :
    (xs : MsList) → countOnlySat av xs = xs.toList.countP (fun x => satEx av x && !dsatEx av x)
  | .nil => by simp [countOnlySat, MsList.toList]
  | .cons x xs => by
    simp only [countOnlySat, MsList.toList, List.countP_cons, countOnlySat_eq av xs]
    cases (satEx av x && !dsatEx av x) <;> simp <;> omega

theorem countCanSat_eq (av : Avail) :
    (xs : MsList) → countCanSat av xs = xs.toList.countP (fun x => satEx av x)
  | .nil => by simp [countCanSat, MsList.toList]
  | .cons x xs => by
    simp only [countCanSat, MsList.toList, List.countP_cons, countCanSat_eq av xs]
    cases (satEx av x) <;> simp <;> omega

theorem countDead_eq (av : Avail) :
    (xs : MsList) → countDead av xs = xs.toList.countP (fun x => !satEx av x && !dsatEx av x)
  | .nil => by simp [countDead, MsList.toList]
  | .cons x xs => by
    simp only [countDead, MsList.toList, List.countP_cons, countDead_eq av xs]
    cases (!satEx av x && !dsatEx av x) <;> simp <;> omega

theorem allDsatEx_eq (av : Avail) :
    (xs : MsList) → allDsatEx av xs = xs.toList.all (fun x => dsatEx av x)
  | .nil => by simp [allDsatEx, MsList.toList]
  | .cons x xs => by simp [allDsatEx, MsList.toList, allDsatEx_eq av xs]

end MsVerif.Complete

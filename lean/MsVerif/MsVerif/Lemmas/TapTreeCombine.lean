/-
Helper lemmas for C15: `TapTree::combine` is `Tree.node` on depth lists (and fails exactly
when the result would be deeper than 128); `translate_pk` keeps depths and order; a depth list
determines its tree.
-/
import MsVerif.Model.TapTree
import MsVerif.Lemmas.TapTreeSpec

set_option linter.unusedSimpArgs false

namespace MsVerif.Tap
open MsVerif.Spec MsVerif.Spec.Tree

variable {α β : Type}

/-- the loop body of `combine` -/
def bump (p : Nat × α) : Option (Nat × α) := if p.1 > MAXN - 1 then none else some (p.1 + 1, p.2)

theorem mapM_bump_ok (L : List (Nat × α)) (h : ∀ p ∈ L, p.1 ≤ 127) :
    L.mapM bump = some (L.map (fun p => (p.1 + 1, p.2))) := by
  induction L with
  | nil => rfl
  | cons p L ih =>
    have hp : ¬ p.1 > MAXN - 1 := by have := h p (by simp); simp [MAXN]; omega
    have := ih (fun q hq => h q (by simp [hq]))
    simp [List.mapM_cons, bump, hp, this]

theorem mapM_bump_fail (L : List (Nat × α)) (h : ∃ p ∈ L, p.1 > 127) :
    L.mapM bump = none := by
  induction L with
  | nil => obtain ⟨p, hp, _⟩ := h; simp at hp
  | cons q L ih =>
    by_cases hq : q.1 > MAXN - 1
    · simp [List.mapM_cons, bump, hq]
    · have : ∃ p ∈ L, p.1 > 127 := by
        obtain ⟨p, hp, hgt⟩ := h
        simp at hp
        rcases hp with rfl | hp
        · simp [MAXN] at hq; omega
        · exact ⟨p, hp, hgt⟩
      simp [List.mapM_cons, bump, hq, ih this]

theorem combine_eq (left right : TapTree α) :
    TapTree.combine left right = (left ++ right).mapM bump := rfl

theorem combine_depths_aux (l r : Tree α) :
    TapTree.combine (depths l) (depths r) =
      if height (Tree.node l r) ≤ 128 then some (depths (Tree.node l r)) else none := by
  rw [combine_eq]
  by_cases c : height (Tree.node l r) ≤ 128
  · simp only [c, if_true]
    simp only [height] at c
    rw [mapM_bump_ok]
    · simp [depths, depthsFrom, depthsFrom_succ]
    · intro p hp
      simp only [List.mem_append, depths] at hp
      rcases hp with hp | hp
      · have := depthsFrom_le _ _ _ hp; omega
      · have := depthsFrom_le _ _ _ hp; omega
  · simp only [c, if_false]
    simp only [height] at c
    apply mapM_bump_fail
    by_cases hlr : height l ≤ height r
    · obtain ⟨p, hp, he⟩ := depthsFrom_max r 0
      exact ⟨p, by simp [depths, hp], by omega⟩
    · obtain ⟨p, hp, he⟩ := depthsFrom_max l 0
      exact ⟨p, by simp [depths, hp], by omega⟩

/-- `translate_pk` keeps the depth column and maps the leaves pointwise, in order -/
theorem translate_some (f : α → Option β) : ∀ (t : TapTree α) (t' : TapTree β),
    TapTree.translate f t = some t' →
    t'.map (·.1) = t.map (·.1) ∧ (t'.map (fun p => some p.2)) = t.map (fun p => f p.2) := by
  intro t
  induction t with
  | nil => intro t' h; simp [TapTree.translate] at h; simp [h]
  | cons p t ih =>
    intro t' h
    simp only [TapTree.translate, List.mapM_cons] at h
    cases hf : f p.2 with
    | none => simp [hf] at h
    | some s =>
      cases hr : List.mapM (fun p => Option.map (fun s => (p.1, s)) (f p.2)) t with
      | none => simp [hf, hr] at h
      | some t'' =>
        simp [hf, hr] at h
        have := ih t'' hr
        subst h
        simp [this.1, this.2, hf]

/-- a depth list is the pre-order code of at most one tree (prefix form) -/
theorem depthsFrom_prefix_inj (t₁ : Tree α) : ∀ (t₂ : Tree α) (d : Nat) (r₁ r₂ : List (Nat × α)),
    depthsFrom d t₁ ++ r₁ = depthsFrom d t₂ ++ r₂ → t₁ = t₂ ∧ r₁ = r₂ := by
  induction t₁ with
  | leaf s =>
    intro t₂ d r₁ r₂ h
    cases t₂ with
    | leaf s' => simp [depthsFrom] at h; simp [h]
    | node l r =>
      exfalso
      simp only [depthsFrom, List.cons_append, List.nil_append, List.append_assoc] at h
      rcases hl : depthsFrom (d + 1) l with _ | ⟨p, tl⟩
      · exact depthsFrom_ne_nil l (d + 1) hl
      · rw [hl] at h
        have hp : d + 1 ≤ p.1 := depthsFrom_ge l (d + 1) p (by simp [hl])
        simp at h
        have := h.1
        rw [← this] at hp
        simp at hp
        omega
  | node l r ihl ihr =>
    intro t₂ d r₁ r₂ h
    cases t₂ with
    | leaf s' =>
      exfalso
      simp only [depthsFrom, List.cons_append, List.nil_append, List.append_assoc] at h
      rcases hl : depthsFrom (d + 1) l with _ | ⟨p, tl⟩
      · exact depthsFrom_ne_nil l (d + 1) hl
      · rw [hl] at h
        have hp : d + 1 ≤ p.1 := depthsFrom_ge l (d + 1) p (by simp [hl])
        simp at h
        have := h.1
        rw [this] at hp
        simp at hp
        omega
    | node l' r' =>
      simp only [depthsFrom, List.append_assoc] at h
      obtain ⟨e1, h'⟩ := ihl l' (d + 1) _ _ h
      obtain ⟨e2, h''⟩ := ihr r' (d + 1) _ _ h'
      simp [e1, e2, h'']

theorem depths_inj (t₁ t₂ : Tree α) (h : depths t₁ = depths t₂) : t₁ = t₂ := by
  have := depthsFrom_prefix_inj t₁ t₂ 0 [] [] (by simpa [depths] using h)
  exact this.1

end MsVerif.Tap

/-
`sorted`, `at_age`, `at_lock_time`: truth tables; which atoms can occur in a normalized policy.
-/
import MsVerif.Lemmas.PolicyNorm

set_option linter.unusedSimpArgs false
namespace MsVerif.Pol
open Sem

/-! ## sorted -/

theorem sorted_holdsA (v : Atom → Bool) : ∀ p, holdsA v (sorted p) = holdsA v p := by
  intro p
  induction p using Policy.induct' with
  | unsat => simp [sorted]
  | trivial => simp [sorted]
  | atom a => simp [sorted]
  | thresh k subs ih =>
    rw [sorted, sortedList_eq, holdsA_thresh, holdsA_thresh,
      (List.mergeSort_perm _ _).countP_eq, countP_map_congr sorted (holdsA v) (holdsA v) subs ih]

/-! ## at_age / at_lock_time -/

theorem relImplied_eq_csvOk {a : Nat} (ha : a < 2147483648) (t : Nat) :
    relImplied t a = csvOk a t := by
  simp [relImplied, csvOk, seqDisabled, ha]

theorem absImplied_eq_cltvOk (n t : Nat) : absImplied t n = cltvOk n t := rfl

theorem atAgeRaw_holdsA (v : Atom → Bool) {a : Nat} (ha : a < 2147483648) :
    ∀ p, holdsA v (atAgeRaw a p) = holdsA (restrictAge a v) p := by
  intro p
  induction p using Policy.induct' with
  | unsat => simp [atAgeRaw, holdsA]
  | trivial => simp [atAgeRaw, holdsA]
  | atom x =>
    cases x with
    | older t =>
      rw [atAgeRaw, relImplied_eq_csvOk ha]
      cases h : csvOk a t <;> simp [holdsA, restrictAge, h]
    | _ => simp [atAgeRaw, holdsA, restrictAge]
  | thresh k subs ih =>
    rw [atAgeRaw, atAgeRawList_eq, holdsA_thresh, holdsA_thresh,
      countP_map_congr (atAgeRaw a) (holdsA (restrictAge a v)) (holdsA v) subs ih]

theorem atLockTimeRaw_holdsA (v : Atom → Bool) (n : Nat) :
    ∀ p, holdsA v (atLockTimeRaw n p) = holdsA (restrictLockTime n v) p := by
  intro p
  induction p using Policy.induct' with
  | unsat => simp [atLockTimeRaw, holdsA]
  | trivial => simp [atLockTimeRaw, holdsA]
  | atom x =>
    cases x with
    | after t =>
      rw [atLockTimeRaw, absImplied_eq_cltvOk]
      cases h : cltvOk n t <;> simp [holdsA, restrictLockTime, h]
    | _ => simp [atLockTimeRaw, holdsA, restrictLockTime]
  | thresh k subs ih =>
    rw [atLockTimeRaw, atLockTimeRawList_eq, holdsA_thresh, holdsA_thresh,
      countP_map_congr (atLockTimeRaw n) (holdsA (restrictLockTime n v)) (holdsA v) subs ih]

/-! ## atoms of a normalized policy -/

theorem atomsOf_thresh (k : Nat) (subs : List Policy) :
    atomsOf (.thresh k subs) = subs.flatMap atomsOf := by
  rw [atomsOf, atomsOfList_eq]

theorem atoms_normSub (a o : Bool) (x : Policy) :
    ∀ t ∈ (normSub a o x).flatMap atomsOf, t ∈ atomsOf x := by
  intro t ht
  cases x with
  | thresh k' ss =>
    rw [atomsOf_thresh]
    cases a <;> cases o <;> simp only [normSub] at ht
    · simpa [atomsOf_thresh] using ht
    · split at ht
      · exact ht
      · simpa [atomsOf_thresh] using ht
    · split at ht
      · exact ht
      · simpa [atomsOf_thresh] using ht
    · simpa [atomsOf_thresh] using ht
  | unsat => simp [normSub] at ht
  | trivial => simp [normSub] at ht
  | atom b => simpa [normSub] using ht

theorem atoms_normFinish (m : Nat) (a o : Bool) (ret : List Policy) :
    ∀ t ∈ atomsOf (normFinish m a o ret), t ∈ ret.flatMap atomsOf := by
  intro t ht
  unfold normFinish at ht
  split at ht
  · simp [atomsOf] at ht
  split at ht
  · simp [atomsOf] at ht
  split at ht
  · simpa using ht
  · split at ht
    · simpa [atomsOf_thresh] using ht
    · split at ht <;> simpa [atomsOf_thresh] using ht

theorem atoms_normThresh (k : Nat) (subs : List Policy) :
    ∀ t ∈ atomsOf (normThresh k subs), t ∈ subs.flatMap atomsOf := by
  intro t ht
  unfold normThresh at ht
  have := atoms_normFinish _ _ _ _ t ht
  rw [List.flatMap_assoc] at this
  rcases List.mem_flatMap.mp this with ⟨x, hx, hxt⟩
  exact List.mem_flatMap.mpr ⟨x, hx, atoms_normSub _ _ x t hxt⟩

theorem atoms_normalized : ∀ p, ∀ t ∈ atomsOf (normalized p), t ∈ atomsOf p := by
  intro p
  induction p using Policy.induct' with
  | unsat => simp [normalized]
  | trivial => simp [normalized]
  | atom a => simp [normalized]
  | thresh k subs ih =>
    intro t ht
    rw [normalized, normalizedList_eq] at ht
    have := atoms_normThresh _ _ t ht
    rw [List.flatMap_map] at this
    rcases List.mem_flatMap.mp this with ⟨x, hx, hxt⟩
    rw [atomsOf_thresh]
    exact List.mem_flatMap.mpr ⟨x, hx, ih x hx t hxt⟩

theorem atoms_atAgeRaw {a : Nat} (ha : a < 2147483648) :
    ∀ p, ∀ t, Atom.older t ∈ atomsOf (atAgeRaw a p) → csvOk a t = true := by
  intro p
  induction p using Policy.induct' with
  | unsat => simp [atAgeRaw, atomsOf]
  | trivial => simp [atAgeRaw, atomsOf]
  | atom x =>
    cases x with
    | older t' =>
      intro t ht
      rw [atAgeRaw, relImplied_eq_csvOk ha] at ht
      cases h : csvOk a t' <;> simp [h, atomsOf] at ht
      subst ht; exact h
    | _ => simp [atAgeRaw, atomsOf]
  | thresh k subs ih =>
    intro t ht
    rw [atAgeRaw, atAgeRawList_eq, atomsOf_thresh, List.flatMap_map] at ht
    rcases List.mem_flatMap.mp ht with ⟨x, hx, hxt⟩
    exact ih x hx t hxt

theorem atoms_atLockTimeRaw (n : Nat) :
    ∀ p, ∀ t, Atom.after t ∈ atomsOf (atLockTimeRaw n p) → cltvOk n t = true := by
  intro p
  induction p using Policy.induct' with
  | unsat => simp [atLockTimeRaw, atomsOf]
  | trivial => simp [atLockTimeRaw, atomsOf]
  | atom x =>
    cases x with
    | after t' =>
      intro t ht
      rw [atLockTimeRaw, absImplied_eq_cltvOk] at ht
      cases h : cltvOk n t' <;> simp [h, atomsOf] at ht
      subst ht; exact h
    | _ => simp [atLockTimeRaw, atomsOf]
  | thresh k subs ih =>
    intro t ht
    rw [atLockTimeRaw, atLockTimeRawList_eq, atomsOf_thresh, List.flatMap_map] at ht
    rcases List.mem_flatMap.mp ht with ⟨x, hx, hxt⟩
    exact ih x hx t hxt

end MsVerif.Pol

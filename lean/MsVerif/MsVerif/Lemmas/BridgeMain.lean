/-
Bridge theorem, part 7: the induction over the AST — for every fragment, the flat interpreter
on `encode ms` is simulated by `frag ms` (`sim_encode`, mutually with `sim_thresh` for the
children of `thresh`).

Core Lean only.
-/
import MsVerif.Lemmas.BridgeEncode

namespace MsVerif.Bridge
open MsVerif MsVerif.Script

set_option linter.unusedSimpArgs false

/-- derive the side condition of a sub-fragment from the side condition of the fragment -/
macro "sub_hyp " h:ident : tactic =>
  `(tactic| (refine SkipHyp.mono $h ?_
             intro hbp
             simp only [encode, encodeThresh, bigPush_append, bigPush_cons, bigPush_nil, bigPush_pushVerify,
               Bool.or_eq_false_iff, Bool.or_false, Bool.false_or] at hbp
             simp only [hbp]))

theorem seqOps_single (env : Env) (op : Op) (c : Core) : seqOps env [op] c = pshOp env op c := by
  simp only [seqOps, List.foldlM_cons, List.foldlM_nil]
  cases pshOp env op c <;> rfl

theorem ifThenF_eq (env : Env) (nf : Bool) (X : List Op) (f : Core → Except Err Core) (c : Core) :
    ifThenF env nf X f c = (do
      let (v, c) ← cnd env nf c
      let c ← if v then f c else skipCount env X c
      countOp env c 1) := by
  unfold ifThenF
  cases cnd env nf c with
  | error e => rfl
  | ok p => obtain ⟨v, c2⟩ := p; cases v <;> rfl

theorem ifElseF_eq (env : Env) (nf : Bool) (X Y : List Op) (f g : Core → Except Err Core) (c : Core) :
    ifElseF env nf X Y f g c = (do
      let (v, c) ← cnd env nf c
      let c ← if v then f c else skipCount env X c
      let c ← countOp env c 1
      let c ← if v then skipCount env Y c else g c
      countOp env c 1) := by
  unfold ifElseF
  cases cnd env nf c with
  | error e => rfl
  | ok p => obtain ⟨v, c2⟩ := p; cases v <;> rfl

theorem bind_congr_right {α β} (x : Except Err α) {k k' : α → Except Err β} (h : ∀ a, k a = k' a) :
    (x >>= k) = (x >>= k') := by
  cases x with
  | error e => rfl
  | ok a => exact h a

mutual
theorem sim_encode (env : Env) (ke : KeyEnv) (ctx : Ctx) :
    (ms : Ms) → SkipHyp env (encode ke ctx ms) → Sim env (encode ke ctx ms) (frag env ke ctx ms)
  | .pkK k, _ => by
    refine (Sim.straight env _ rfl).congr (fun c => ?_)
    rw [encode, seqOps_single, frag]; rfl
  | .pkH k, _ => by
    refine (Sim.straight env _ rfl).congr (fun c => ?_)
    rw [encode, frag]
  | .rawPkH h, _ => by
    refine (Sim.straight env _ rfl).congr (fun c => ?_)
    rw [encode, frag]
  | .after n, _ => by
    refine (Sim.straight env _ ?_).congr (fun c => ?_)
    · simp only [encode, straight_cons, pushInt_plain]; rfl
    · rw [encode, frag]
  | .older n, _ => by
    refine (Sim.straight env _ ?_).congr (fun c => ?_)
    · simp only [encode, straight_cons, pushInt_plain]; rfl
    · rw [encode, frag]
  | .hash kind h, _ => by
    refine (Sim.straight env _ ?_).congr (fun c => ?_)
    · simp only [encode, straight_cons, pushInt_plain, Op.plain, hashOpc_plain]; rfl
    · rw [encode, frag]
  | .tru, _ => by
    refine (Sim.straight env _ rfl).congr (fun c => ?_)
    rw [encode, seqOps_single, frag]
  | .fls, _ => by
    refine (Sim.straight env _ rfl).congr (fun c => ?_)
    rw [encode, seqOps_single, frag]
  | .alt x, hk => by
    have hx := sim_encode env ke ctx x (by sub_hyp hk)
    have he : encode ke ctx (.alt x) = .code .toalt :: (encode ke ctx x ++ [.code .fromalt]) := by
      simp only [encode, List.append_assoc, List.cons_append, List.nil_append]
    rw [he]
    refine (Sim.cons_opc .toalt rfl (Sim.snoc_opc .fromalt rfl hx)).congr (fun c => ?_)
    rw [frag]
  | .swap x, hk => by
    have hx := sim_encode env ke ctx x (by sub_hyp hk)
    have he : encode ke ctx (.swap x) = .code .swap :: encode ke ctx x := by
      simp only [encode, List.cons_append, List.nil_append]
    rw [he]
    refine (Sim.cons_opc .swap rfl hx).congr (fun c => ?_)
    rw [frag]
  | .check x, hk => by
    have hx := sim_encode env ke ctx x (by sub_hyp hk)
    rw [encode]
    refine (Sim.snoc_opc .checksig rfl hx).congr (fun c => ?_)
    rw [frag]
  | .dupIf x, hk => by
    have hkx : SkipHyp env (encode ke ctx x) := by sub_hyp hk
    have hx := sim_encode env ke ctx x hkx
    have he : encode ke ctx (.dupIf x)
        = .code .dup :: .code (condOpc false) :: (encode ke ctx x ++ [.code .endif]) := by
      simp only [encode, List.append_assoc, List.cons_append, List.nil_append, condOpc]
    rw [he]
    refine (Sim.cons_opc .dup rfl (Sim.ifThen false hx (balanced_encode ke ctx x) hkx)).congr (fun c => ?_)
    rw [frag]
    exact bind_congr_right _ (fun c1 => ifThenF_eq env false _ _ c1)
  | .verify x, hk => by
    have hx := sim_encode env ke ctx x (by sub_hyp hk)
    rw [encode]
    refine (Sim.pushVerify hx).congr (fun c => ?_)
    rw [frag]; rfl
  | .nonZero x, hk => by
    have hkx : SkipHyp env (encode ke ctx x) := by sub_hyp hk
    have hx := sim_encode env ke ctx x hkx
    have he : encode ke ctx (.nonZero x)
        = .code .size :: .code .zeronotequal :: .code (condOpc false) :: (encode ke ctx x ++ [.code .endif]) := by
      simp only [encode, List.append_assoc, List.cons_append, List.nil_append, condOpc]
    rw [he]
    refine (Sim.cons_opc .size rfl (Sim.cons_opc .zeronotequal rfl
      (Sim.ifThen false hx (balanced_encode ke ctx x) hkx))).congr (fun c => ?_)
    rw [frag]
    exact bind_congr_right _ (fun c1 => bind_congr_right _ (fun c2 => ifThenF_eq env false _ _ c2))
  | .zeroNotEqual x, hk => by
    have hx := sim_encode env ke ctx x (by sub_hyp hk)
    rw [encode]
    refine (Sim.snoc_opc .zeronotequal rfl hx).congr (fun c => ?_)
    rw [frag]
  | .andV l r, hk => by
    have hl := sim_encode env ke ctx l (by sub_hyp hk)
    have hr := sim_encode env ke ctx r (by sub_hyp hk)
    rw [encode]
    refine (Sim.append hl hr).congr (fun c => ?_)
    rw [frag]
  | .andB l r, hk => by
    have hl := sim_encode env ke ctx l (by sub_hyp hk)
    have hr := sim_encode env ke ctx r (by sub_hyp hk)
    rw [encode, List.append_assoc]
    refine (Sim.append hl (Sim.snoc_opc .booland rfl hr)).congr (fun c => ?_)
    rw [frag]
  | .andOr a b z, hk => by
    have hkb : SkipHyp env (encode ke ctx b) := by sub_hyp hk
    have hkz : SkipHyp env (encode ke ctx z) := by sub_hyp hk
    have ha := sim_encode env ke ctx a (by sub_hyp hk)
    have hb := sim_encode env ke ctx b hkb
    have hz := sim_encode env ke ctx z hkz
    have he : encode ke ctx (.andOr a b z) = encode ke ctx a ++
        (.code (condOpc true) :: (encode ke ctx z ++ .code .else_ :: (encode ke ctx b ++ [.code .endif]))) := by
      simp only [encode, List.append_assoc, List.cons_append, List.nil_append, condOpc]
    rw [he]
    refine (Sim.append ha (Sim.ifElse true hz hb (balanced_encode ke ctx z) (balanced_encode ke ctx b)
      hkz hkb)).congr (fun c => ?_)
    rw [frag]
    exact bind_congr_right _ (fun c1 => ifElseF_eq env true _ _ _ _ c1)
  | .orB l r, hk => by
    have hl := sim_encode env ke ctx l (by sub_hyp hk)
    have hr := sim_encode env ke ctx r (by sub_hyp hk)
    rw [encode, List.append_assoc]
    refine (Sim.append hl (Sim.snoc_opc .boolor rfl hr)).congr (fun c => ?_)
    rw [frag]
  | .orD l r, hk => by
    have hkr : SkipHyp env (encode ke ctx r) := by sub_hyp hk
    have hl := sim_encode env ke ctx l (by sub_hyp hk)
    have hr := sim_encode env ke ctx r hkr
    have he : encode ke ctx (.orD l r) = encode ke ctx l ++
        (.code .ifdup :: .code (condOpc true) :: (encode ke ctx r ++ [.code .endif])) := by
      simp only [encode, List.append_assoc, List.cons_append, List.nil_append, condOpc]
    rw [he]
    refine (Sim.append hl (Sim.cons_opc .ifdup rfl
      (Sim.ifThen true hr (balanced_encode ke ctx r) hkr))).congr (fun c => ?_)
    rw [frag]
    exact bind_congr_right _ (fun c1 => bind_congr_right _ (fun c2 => ifThenF_eq env true _ _ c2))
  | .orC l r, hk => by
    have hkr : SkipHyp env (encode ke ctx r) := by sub_hyp hk
    have hl := sim_encode env ke ctx l (by sub_hyp hk)
    have hr := sim_encode env ke ctx r hkr
    have he : encode ke ctx (.orC l r) = encode ke ctx l ++
        (.code (condOpc true) :: (encode ke ctx r ++ [.code .endif])) := by
      simp only [encode, List.append_assoc, List.cons_append, List.nil_append, condOpc]
    rw [he]
    refine (Sim.append hl (Sim.ifThen true hr (balanced_encode ke ctx r) hkr)).congr (fun c => ?_)
    rw [frag]
    exact bind_congr_right _ (fun c1 => ifThenF_eq env true _ _ c1)
  | .orI l r, hk => by
    have hkl : SkipHyp env (encode ke ctx l) := by sub_hyp hk
    have hkr : SkipHyp env (encode ke ctx r) := by sub_hyp hk
    have hl := sim_encode env ke ctx l hkl
    have hr := sim_encode env ke ctx r hkr
    have he : encode ke ctx (.orI l r) =
        .code (condOpc false) :: (encode ke ctx l ++ .code .else_ :: (encode ke ctx r ++ [.code .endif])) := by
      simp only [encode, List.append_assoc, List.cons_append, List.nil_append, condOpc]
    rw [he]
    refine (Sim.ifElse false hl hr (balanced_encode ke ctx l) (balanced_encode ke ctx r) hkl hkr).congr
      (fun c => ?_)
    rw [frag]
    exact ifElseF_eq env false _ _ _ _ c
  | .thresh k xs, hk => by
    have hxs := sim_thresh env ke ctx true xs (by sub_hyp hk)
    rw [encode]
    refine (Sim.append hxs (Sim.straight env [pushInt k, .code .equal] ?_)).congr (fun c => ?_)
    · simp only [straight_cons, pushInt_plain]; rfl
    · rw [frag]
  | .multi k ks, _ => by
    refine (Sim.straight env _ ?_).congr (fun c => ?_)
    · rw [encode]; exact straight_multi ke k _ ks
    · rw [encode, frag]
  | .sortedMulti k ks, _ => by
    refine (Sim.straight env _ ?_).congr (fun c => ?_)
    · rw [encode]; exact straight_multi ke k _ _
    · rw [encode, frag]
  | .multiA k ks, _ => by
    refine (Sim.straight env _ ?_).congr (fun c => ?_)
    · rw [encode]; exact straight_multiA_full ke k ks
    · rw [encode, frag]
  | .sortedMultiA k ks, _ => by
    refine (Sim.straight env _ ?_).congr (fun c => ?_)
    · rw [encode]; exact straight_multiA_full ke k _
    · rw [encode, frag]
theorem sim_thresh (env : Env) (ke : KeyEnv) (ctx : Ctx) (first : Bool) :
    (xs : MsList) → SkipHyp env (encodeThresh ke ctx first xs) →
      Sim env (encodeThresh ke ctx first xs) (fragThresh env ke ctx first xs)
  | .nil, _ => by
    rw [encodeThresh]
    refine (Sim.nil env).congr (fun c => ?_)
    rw [fragThresh]
  | .cons x xs, hk => by
    have hx := sim_encode env ke ctx x (by sub_hyp hk)
    have hxs := sim_thresh env ke ctx false xs (by sub_hyp hk)
    rw [encodeThresh, List.append_assoc]
    cases first with
    | true =>
      refine (Sim.append hx (Sim.append (Sim.nil env) hxs)).congr (fun c => ?_)
      rw [fragThresh]
      exact bind_congr_right _ (fun c1 => rfl)
    | false =>
      refine (Sim.append hx (Sim.append (Sim.code1 env .add rfl) hxs)).congr (fun c => ?_)
      rw [fragThresh]
      exact bind_congr_right _ (fun c1 => rfl)
end

end MsVerif.Bridge

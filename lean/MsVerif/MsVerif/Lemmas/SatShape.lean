/-
Witness shapes: the (dis)satisfactions computed by the satisfier model have the shape that the
input modifier of the fragment's correctness type promises (`Shape`, Lemmas/SatCases.lean):
`z` fragments consume nothing, `o` fragments exactly one element, and the top element of a
satisfaction of an `n` fragment is non-empty.  Proved by mutual structural recursion over
`Ms`/`MsList`, one (non-mutual) lemma per constructor.
-/
import MsVerif.Lemmas.SatCases
import MsVerif.Lemmas.SatMulti

namespace MsVerif.SatSpec
open MsVerif Script

variable {env : Env} {σ : Ph → Bytes} {cfg : SatCfg}

/-! ### stack-only decomposition of the combinators -/

theorem concat_stack {a b : Sat} {w : List Ph} (h : (a.concatenateRev b).stack = .stack w) :
    ∃ wa wb, a.stack = .stack wa ∧ b.stack = .stack wb ∧ w = wb ++ wa := by
  rw [concatenateRev_eq] at h
  split at h
  · simp [Sat.IMPOSSIBLE] at h
  · cases hr : mergeOpt Sat.relMax a.rel b.rel with
    | none => simp [hr, Sat.IMPOSSIBLE] at h
    | some rel =>
      cases ha : mergeOpt Sat.absMax a.abs b.abs with
      | none => simp [hr, ha, Sat.IMPOSSIBLE] at h
      | some abs =>
        simp only [hr, ha] at h
        obtain ⟨wb, wa, eb, ea, rfl⟩ := combine_stack h
        exact ⟨wa, wb, ea, eb, rfl⟩

theorem minimum_stack {a b : Sat} {w : List Ph} (h : (Sat.minimum a b).stack = .stack w) :
    a.stack = .stack w ∨ b.stack = .stack w := by
  unfold Sat.minimum at h
  split at h
  · exact .inr h
  · split at h
    · exact .inl h
    · split at h
      · simp [Sat.UNAVAILABLE] at h
      · exact .inl h
      · exact .inr h
      · split at h
        · exact .inl h
        · exact .inr h

theorem minimumMall_stack {a b : Sat} {w : List Ph} (h : (Sat.minimumMall a b).stack = .stack w) :
    a.stack = .stack w ∨ b.stack = .stack w := by
  unfold Sat.minimumMall at h
  split at h
  · exact .inr h
  · split at h
    · exact .inl h
    · simp only at h
      split at h
      · exact .inl h
      · exact .inr h

theorem minFn_stack {c : SatCfg} {a b : Sat} {w : List Ph} (h : (c.minFn a b).stack = .stack w) :
    a.stack = .stack w ∨ b.stack = .stack w := by
  unfold SatCfg.minFn at h
  split at h
  · exact minimumMall_stack h
  · exact minimum_stack h

theorem withPush_stack {s : Wit} {p : Ph} {w : List Ph}
    (h : Wit.combine s (.stack [p]) = .stack w) : ∃ w0, s = .stack w0 ∧ w = w0 ++ [p] := by
  obtain ⟨w0, wb, e0, eb, rfl⟩ := combine_stack h
  simp only [Wit.stack.injEq] at eb
  subst eb
  exact ⟨w0, e0, rfl⟩

/-! ### lengths promised by an input modifier -/

/-- `n` elements are compatible with input modifier `i` -/
def LenOk (i : Input) (n : Nat) : Prop :=
  (i = .zero → n = 0) ∧ ((i = .one ∨ i = .oneNonZero) → n = 1)

/-- either member of the pair is the stack `w` -/
def Either (sd : SatDissat) (w : List Ph) : Prop :=
  sd.sat.stack = .stack w ∨ sd.dissat.stack = .stack w

theorem Shape.len {c : Corr} {sd : SatDissat} (sh : Shape σ c sd) {w : List Ph}
    (h : Either sd w) : LenOk c.input w.length :=
  ⟨fun hz => by rw [sh.zero hz w h]; rfl, fun ho => sh.one ho w h⟩

/-- a shape whose input modifier is not `n`: only the lengths matter -/
theorem Shape.of_len {c : Corr} {sd : SatDissat}
    (hnz : c.input ≠ .oneNonZero ∧ c.input ≠ .anyNonZero)
    (hlen : ∀ w, Either sd w → LenOk c.input w.length) : Shape σ c sd where
  zero := fun hz w hw => List.eq_nil_of_length_eq_zero ((hlen w hw).1 hz)
  one := fun ho w hw => (hlen w hw).2 ho
  nonzero := fun hn => by
    rcases hn with hn | hn
    · exact (hnz.1 hn).elim
    · exact (hnz.2 hn).elim

/-- a shape with input modifier `any`: nothing to prove -/
theorem Shape.of_any {c : Corr} {sd : SatDissat} (h : c.input = .any) : Shape σ c sd where
  zero := fun hz => by rw [h] at hz; cases hz
  one := fun ho => by rw [h] at ho; rcases ho with ho | ho <;> cases ho
  nonzero := fun hn => by rw [h] at hn; rcases hn with hn | hn <;> cases hn

theorem lenOk_of_numArgs {i : Input} {n : Nat} (h : LenOk i n) (hle : Corr.numArgs i ≤ 1) :
    n = Corr.numArgs i := by
  cases i <;> simp [LenOk, Corr.numArgs] at h hle ⊢ <;> exact h

theorem lenOk_and {il ir : Input} {nl nr : Nat} (hl : LenOk il nl) (hr : LenOk ir nr) :
    LenOk (Corr.andInput il ir) (nr + nl) := by
  cases il <;> cases ir <;> simp [LenOk, Corr.andInput] at hl hr ⊢ <;> omega

theorem andInput_nz {il ir : Input}
    (h : Corr.andInput il ir = .oneNonZero ∨ Corr.andInput il ir = .anyNonZero) :
    (il = .oneNonZero ∨ il = .anyNonZero) ∨
      (il = .zero ∧ (ir = .oneNonZero ∨ ir = .anyNonZero)) := by
  cases il <;> cases ir <;> simp [Corr.andInput] at h ⊢

theorem lenOk_orB {il ir : Input} {nl nr : Nat} (hl : LenOk il nl) (hr : LenOk ir nr) :
    LenOk (Corr.orBInput il ir) (nr + nl) := by
  cases il <;> cases ir <;> simp [LenOk, Corr.orBInput] at hl hr ⊢ <;> omega

theorem orBInput_nz (il ir : Input) :
    Corr.orBInput il ir ≠ .oneNonZero ∧ Corr.orBInput il ir ≠ .anyNonZero := by
  cases il <;> cases ir <;> simp [Corr.orBInput]

theorem lenOk_orD_left {il ir : Input} {nl : Nat} (hl : LenOk il nl) :
    LenOk (Corr.orDInput il ir) nl := by
  cases il <;> cases ir <;> simp [LenOk, Corr.orDInput] at hl ⊢ <;> omega

theorem lenOk_orD {il ir : Input} {nl nr : Nat} (hl : LenOk il nl) (hr : LenOk ir nr) :
    LenOk (Corr.orDInput il ir) (nr + nl) := by
  cases il <;> cases ir <;> simp [LenOk, Corr.orDInput] at hl hr ⊢ <;> omega

theorem orDInput_nz (il ir : Input) :
    Corr.orDInput il ir ≠ .oneNonZero ∧ Corr.orDInput il ir ≠ .anyNonZero := by
  cases il <;> cases ir <;> simp [Corr.orDInput]

theorem lenOk_orI_left {il ir : Input} {nl : Nat} (hl : LenOk il nl) :
    LenOk (Corr.orIInput il ir) (nl + 1) := by
  cases il <;> cases ir <;> simp [LenOk, Corr.orIInput] at hl ⊢ <;> omega

theorem lenOk_orI_right {il ir : Input} {nr : Nat} (hr : LenOk ir nr) :
    LenOk (Corr.orIInput il ir) (nr + 1) := by
  cases il <;> cases ir <;> simp [LenOk, Corr.orIInput] at hr ⊢ <;> omega

theorem orIInput_nz (il ir : Input) :
    Corr.orIInput il ir ≠ .oneNonZero ∧ Corr.orIInput il ir ≠ .anyNonZero := by
  cases il <;> cases ir <;> simp [Corr.orIInput]

theorem lenOk_andOr_ab {ia ib iz : Input} {na nb : Nat} (ha : LenOk ia na) (hb : LenOk ib nb) :
    LenOk (Corr.andOrInput ia ib iz) (nb + na) := by
  cases ia <;> cases ib <;> cases iz <;> simp [LenOk, Corr.andOrInput] at ha hb ⊢ <;> omega

theorem lenOk_andOr_az {ia ib iz : Input} {na nz : Nat} (ha : LenOk ia na) (hz : LenOk iz nz) :
    LenOk (Corr.andOrInput ia ib iz) (nz + na) := by
  cases ia <;> cases ib <;> cases iz <;> simp [LenOk, Corr.andOrInput] at ha hz ⊢ <;> omega

theorem andOrInput_nz (ia ib iz : Input) :
    Corr.andOrInput ia ib iz ≠ .oneNonZero ∧ Corr.andOrInput ia ib iz ≠ .anyNonZero := by
  cases ia <;> cases ib <;> cases iz <;> simp [Corr.andOrInput]

/-! ### building shapes -/

theorem Shape.mk' {c : Corr} {sd : SatDissat}
    (hlen : ∀ w, Either sd w → LenOk c.input w.length)
    (hnz : (c.input = .oneNonZero ∨ c.input = .anyNonZero) →
      ∀ w, sd.sat.stack = .stack w → ∃ w' p, w = w' ++ [p] ∧ σ p ≠ []) : Shape σ c sd where
  zero := fun hz w hw => List.eq_nil_of_length_eq_zero ((hlen w hw).1 hz)
  one := fun ho w hw => (hlen w hw).2 ho
  nonzero := hnz

theorem Shape.congr {c c' : Corr} {sd : SatDissat} (h : c'.input = c.input)
    (sh : Shape σ c sd) : Shape σ c' sd where
  zero := fun hz => sh.zero (h ▸ hz)
  one := fun ho => sh.one (h ▸ ho)
  nonzero := fun hn => sh.nonzero (h ▸ hn)

/-- dropping the dissatisfaction (`v:`, `j:`) keeps the shape -/
theorem Shape.sat_only {c : Corr} {sd : SatDissat} (sh : Shape σ c sd) :
    Shape σ c ⟨Sat.IMPOSSIBLE, sd.sat⟩ where
  zero := fun hz w hw => sh.zero hz w (by
    rcases hw with hw | hw
    · exact .inl hw
    · simp [Sat.IMPOSSIBLE] at hw)
  one := fun ho w hw => sh.one ho w (by
    rcases hw with hw | hw
    · exact .inl hw
    · simp [Sat.IMPOSSIBLE] at hw)
  nonzero := fun hn w hw => sh.nonzero hn w hw

theorem pubkeyOk_ne {pk : Bytes} (h : pubkeyOk env pk = true) : pk ≠ [] := by
  rintro rfl
  unfold pubkeyOk at h
  split at h <;> simp at h

/-! ### leaves -/

theorem fls_shape : Shape σ Corr.FALSE (satDissat cfg .fls) := by
  refine Shape.of_len (by simp [Corr.FALSE]) fun w hw => ?_
  have : w = [] := by
    simp [Either, satDissat, Sat.TRIVIAL, Sat.IMPOSSIBLE] at hw
    first | exact hw | exact hw.symm
  subst this
  simp [LenOk, Corr.FALSE]

theorem tru_shape : Shape σ Corr.TRUE (satDissat cfg .tru) := by
  refine Shape.of_len (by simp [Corr.TRUE]) fun w hw => ?_
  have : w = [] := by
    simp [Either, satDissat, Sat.TRIVIAL, Sat.IMPOSSIBLE] at hw
    first | exact hw | exact hw.symm
  subst this
  simp [LenOk, Corr.TRUE]

theorem after_shape (n : Nat) : Shape σ Corr.time (satDissat cfg (.after n)) := by
  refine Shape.of_len (by simp [Corr.time]) fun w hw => ?_
  have : w = [] := by
    by_cases h1 : cfg.assets.checkAfter n = true <;> by_cases h2 : cfg.rootHasSig = true <;>
      simp [Either, satDissat, Sat.IMPOSSIBLE, h1, h2] at hw <;>
      first | exact hw | exact hw.symm
  subst this
  simp [LenOk, Corr.time]

theorem older_shape (n : Nat) : Shape σ Corr.time (satDissat cfg (.older n)) := by
  refine Shape.of_len (by simp [Corr.time]) fun w hw => ?_
  have : w = [] := by
    by_cases h1 : cfg.assets.checkOlder (relCanon n) = true <;>
      by_cases h2 : cfg.rootHasSig = true <;>
      simp [Either, satDissat, Sat.IMPOSSIBLE, h1, h2] at hw <;>
      first | exact hw | exact hw.symm
  subst this
  simp [LenOk, Corr.time]

theorem pkK_shape (hag : Agrees env cfg.env cfg.assets σ) (k : Key) :
    Shape σ Corr.pkK (satDissat cfg (.pkK k)) := by
  refine Shape.mk' (fun w hw => ?_) (fun _ w hw => ?_)
  · rcases hw with hw | hw
    · simp only [satDissat] at hw
      obtain ⟨p, rfl, _, _⟩ := sigWit_stack hag hw
      simp [LenOk, Corr.pkK]
    · simp only [satDissat, Sat.push0, Wit.stack.injEq] at hw
      subst hw
      simp [LenOk, Corr.pkK]
  · simp only [satDissat] at hw
    obtain ⟨p, rfl, hne, _⟩ := sigWit_stack hag hw
    exact ⟨[], p, rfl, hne⟩

theorem pkH_shape (hag : Agrees env cfg.env cfg.assets σ) (k : Key) :
    Shape σ Corr.pkH (satDissat cfg (.pkH k)) := by
  refine Shape.mk' (fun w _ => by simp [LenOk, Corr.pkH]) (fun _ w hw => ?_)
  simp only [satDissat] at hw
  obtain ⟨w0, _, rfl⟩ := withPush_stack hw
  refine ⟨w0, _, rfl, ?_⟩
  rw [hag.pubkey]
  exact pubkeyOk_ne (hag.keyShape k)

theorem rawPkH_shape (hag : Agrees env cfg.env cfg.assets σ) (h : Nat) :
    Shape σ Corr.pkH (satDissat cfg (.rawPkH h)) := by
  refine Shape.mk' (fun w _ => by simp [LenOk, Corr.pkH]) (fun _ w hw => ?_)
  simp only [satDissat] at hw
  split at hw
  · split at hw
    · rename_i pk sz hsch
      simp only [Wit.stack.injEq] at hw; subst hw
      have hk := hag.rawPk h (pkLen cfg.env cfg.ctx pk) (.inr (.inr (by simp [hsch])))
      exact ⟨[_], _, rfl, pubkeyOk_ne hk.2⟩
    · simp at hw
  · split at hw
    · rename_i pk hec
      simp only [Wit.stack.injEq] at hw; subst hw
      have hk := hag.rawPk h (pkLen cfg.env cfg.ctx pk) (.inr (.inl (by simp [hec])))
      exact ⟨[_], _, rfl, pubkeyOk_ne hk.2⟩
    · simp at hw

theorem hash_shape (hag : Agrees env cfg.env cfg.assets σ) (kind : HashKind) (h : Nat) :
    Shape σ Corr.hash (satDissat cfg (.hash kind h)) := by
  refine Shape.mk' (fun w hw => ?_) (fun _ w hw => ?_)
  · rcases hw with hw | hw
    · simp only [satDissat] at hw
      split at hw
      · simp only [Wit.stack.injEq] at hw; subst hw; simp [LenOk, Corr.hash]
      · simp at hw
    · simp only [satDissat, Wit.stack.injEq] at hw
      subst hw
      simp [LenOk, Corr.hash]
  · simp only [satDissat] at hw
    split at hw
    · rename_i hp
      simp only [Wit.stack.injEq] at hw; subst hw
      refine ⟨[], _, rfl, ?_⟩
      have := (hag.preimage kind h hp).1
      intro h0
      rw [h0] at this
      simp at this
    · simp at hw

theorem multiSD_shape (hag : Agrees env cfg.env cfg.assets σ) (hctx : cfg.ctx ≠ .tap)
    (k : Nat) (hk : 1 ≤ k) (ks : List Key) {c : Corr} (hc : c.input = .anyNonZero) :
    Shape σ c (multiSD cfg.ctx cfg.assets k ks) := by
  refine Shape.mk' (fun w _ => by simp [LenOk, hc]) (fun _ w hw => ?_)
  obtain ⟨ss, _, hlen, hall, rfl⟩ := multiSD_sat hctx cfg.assets k ks hw
  rcases List.eq_nil_or_concat ss with rfl | ⟨ss', x, rfl⟩
  · simp at hlen; omega
  · refine ⟨.pushZero :: ss'.map Ph.ecdsaSig, .ecdsaSig x, by simp, ?_⟩
    exact (hag.ecdsa x (hall x (by simp))).1

theorem multi_shape (hag : Agrees env cfg.env cfg.assets σ) (k : Nat) (ks : List Key)
    (hwf : WF cfg.ctx (.multi k ks)) : Shape σ Corr.multi (satDissat cfg (.multi k ks)) := by
  simp only [WF] at hwf
  simp only [satDissat]
  exact multiSD_shape hag hwf.1 k hwf.2.1 ks rfl

theorem sortedMulti_shape (hag : Agrees env cfg.env cfg.assets σ) (k : Nat) (ks : List Key)
    (hwf : WF cfg.ctx (.sortedMulti k ks)) :
    Shape σ Corr.sortedmulti (satDissat cfg (.sortedMulti k ks)) := by
  simp only [WF] at hwf
  simp only [satDissat]
  exact multiSD_shape hag hwf.1 k hwf.2.1 _ rfl

/-! ### wrappers -/

section wrappers
variable {x : Ms} {cx c : Corr}

theorem alt_shape (hc : Corr.castAlt cx = some c) : Shape σ c (satDissat cfg (.alt x)) := by
  apply Shape.of_any
  unfold Corr.castAlt at hc; split at hc <;> simp at hc; subst hc; rfl

theorem swap_shape (hc : Corr.castSwap cx = some c) : Shape σ c (satDissat cfg (.swap x)) := by
  apply Shape.of_any
  unfold Corr.castSwap at hc; split at hc <;> try (simp at hc; done)
  split at hc <;> simp at hc <;> subst hc <;> rfl

theorem check_shape (hc : Corr.castCheck cx = some c) (sh : Shape σ cx (satDissat cfg x)) :
    Shape σ c (satDissat cfg (.check x)) := by
  have hi : c.input = cx.input := by
    unfold Corr.castCheck at hc; split at hc <;> simp at hc; subst hc; rfl
  simp only [satDissat]
  exact sh.congr hi

theorem zeroNotEqual_shape (hc : Corr.castZeroNotEqual cx = some c)
    (sh : Shape σ cx (satDissat cfg x)) : Shape σ c (satDissat cfg (.zeroNotEqual x)) := by
  have hi : c.input = cx.input := by
    unfold Corr.castZeroNotEqual at hc; split at hc <;> simp at hc; subst hc; rfl
  simp only [satDissat]
  exact sh.congr hi

theorem verify_shape (hc : Corr.castVerify cx = some c) (sh : Shape σ cx (satDissat cfg x)) :
    Shape σ c (satDissat cfg (.verify x)) := by
  have hi : c.input = cx.input := by
    unfold Corr.castVerify at hc; split at hc <;> simp at hc; subst hc; rfl
  simp only [satDissat]
  exact sh.sat_only.congr hi

theorem nonZero_shape (hc : Corr.castNonZero cx = some c) (sh : Shape σ cx (satDissat cfg x)) :
    Shape σ c (satDissat cfg (.nonZero x)) := by
  have hi : c.input = cx.input ∧ (cx.input = .oneNonZero ∨ cx.input = .anyNonZero) := by
    unfold Corr.castNonZero at hc; split at hc <;> try (simp at hc; done)
    rename_i hin
    split at hc <;> simp at hc; subst hc
    refine ⟨rfl, ?_⟩
    cases h : cx.input <;> simp_all
  simp only [satDissat]
  refine ⟨fun hz => ?_, fun ho w hw => ?_, fun hn w hw => sh.nonzero (hi.1 ▸ hn) w hw⟩
  · rw [hi.1] at hz; rcases hi.2 with h | h <;> rw [h] at hz <;> cases hz
  · rcases hw with hw | hw
    · exact sh.one (hi.1 ▸ ho) w (.inl hw)
    · simp only [Sat.push0, Wit.stack.injEq] at hw
      subst hw; rfl

theorem dupIf_shape (hag : Agrees env cfg.env cfg.assets σ) (hc : Corr.castDupIf cx = some c)
    (sh : Shape σ cx (satDissat cfg x)) : Shape σ c (satDissat cfg (.dupIf x)) := by
  have hb : cx.input = .zero ∧ c.input = .oneNonZero := by
    unfold Corr.castDupIf at hc; split at hc <;> try (simp at hc; done)
    split at hc <;> simp at hc <;> subst hc <;> simp [*]
  have hsat : ∀ w, (satDissat cfg (.dupIf x)).sat.stack = .stack w → w = [.pushOne] := by
    intro w hw
    simp only [satDissat] at hw
    obtain ⟨w0, hw0, rfl⟩ := withPush_stack hw
    rw [sh.zero hb.1 w0 (.inl hw0)]; rfl
  refine Shape.mk' (fun w hw => ?_) (fun _ w hw => ?_)
  · rcases hw with hw | hw
    · rw [hsat w hw]; simp [LenOk, hb.2]
    · simp only [satDissat, Sat.push0, Wit.stack.injEq] at hw
      subst hw
      simp [LenOk, hb.2]
  · rw [hsat w hw]
    exact ⟨[], .pushOne, rfl, by rw [hag.pushOne]; simp⟩

end wrappers

/-! ### binary and ternary fragments -/

section binary
variable {l r z : Ms} {cl cr cz c : Corr}

/-- shared part of `and_v`/`and_b`: both members are concatenations, the satisfaction is the
concatenation of the two satisfactions (left child on top) -/
theorem and_shape {L R sd : SatDissat} (hi : c.input = Corr.andInput cl.input cr.input)
    (shl : Shape σ cl L) (shr : Shape σ cr R)
    (hsat : ∀ w, sd.sat.stack = .stack w →
      ∃ wl wr, L.sat.stack = .stack wl ∧ R.sat.stack = .stack wr ∧ w = wr ++ wl)
    (hdis : ∀ w, sd.dissat.stack = .stack w →
      ∃ wl wr, Either L wl ∧ Either R wr ∧ w = wr ++ wl) : Shape σ c sd := by
  refine Shape.mk' (fun w hw => ?_) (fun hn w hw => ?_)
  · have : ∃ wl wr, Either L wl ∧ Either R wr ∧ w = wr ++ wl := by
      rcases hw with hw | hw
      · obtain ⟨wl, wr, h1, h2, h3⟩ := hsat w hw
        exact ⟨wl, wr, .inl h1, .inl h2, h3⟩
      · exact hdis w hw
    obtain ⟨wl, wr, h1, h2, rfl⟩ := this
    rw [hi, List.length_append]
    exact lenOk_and (shl.len h1) (shr.len h2)
  · obtain ⟨wl, wr, h1, h2, rfl⟩ := hsat w hw
    rw [hi] at hn
    rcases andInput_nz hn with hl | ⟨hl, hr⟩
    · obtain ⟨w', p, rfl, hp⟩ := shl.nonzero hl wl h1
      exact ⟨wr ++ w', p, by simp, hp⟩
    · have := shl.zero hl wl (.inl h1)
      subst this
      obtain ⟨w', p, rfl, hp⟩ := shr.nonzero hr wr h2
      exact ⟨w', p, by simp, hp⟩

theorem andV_shape (hc : Corr.andV cl cr = some c)
    (shl : Shape σ cl (satDissat cfg l)) (shr : Shape σ cr (satDissat cfg r)) :
    Shape σ c (satDissat cfg (.andV l r)) := by
  have hi : c.input = Corr.andInput cl.input cr.input := by
    unfold Corr.andV at hc; split at hc <;> simp at hc <;> subst hc <;> rfl
  refine and_shape hi shl shr (fun w hw => ?_) (fun w hw => ?_)
  · simp only [satDissat] at hw
    exact concat_stack hw
  · simp only [satDissat] at hw
    obtain ⟨wl, wr, h1, h2, h3⟩ := concat_stack hw
    exact ⟨wl, wr, .inl h1, .inr h2, h3⟩

theorem andB_shape (hc : Corr.andB cl cr = some c)
    (shl : Shape σ cl (satDissat cfg l)) (shr : Shape σ cr (satDissat cfg r)) :
    Shape σ c (satDissat cfg (.andB l r)) := by
  have hi : c.input = Corr.andInput cl.input cr.input := by
    unfold Corr.andB at hc; split at hc <;> simp at hc <;> subst hc <;> rfl
  refine and_shape hi shl shr (fun w hw => ?_) (fun w hw => ?_)
  · simp only [satDissat] at hw
    exact concat_stack hw
  · simp only [satDissat] at hw
    obtain ⟨wl, wr, h1, h2, h3⟩ := concat_stack hw
    exact ⟨wl, wr, .inr h1, .inr h2, h3⟩

theorem orB_shape (hc : Corr.orB cl cr = some c)
    (shl : Shape σ cl (satDissat cfg l)) (shr : Shape σ cr (satDissat cfg r)) :
    Shape σ c (satDissat cfg (.orB l r)) := by
  have hi : c.input = Corr.orBInput cl.input cr.input := by
    unfold Corr.orB at hc
    split at hc <;> try (simp at hc; done)
    split at hc <;> try (simp at hc; done)
    split at hc <;> simp at hc; subst hc; rfl
  refine Shape.of_len (hi ▸ orBInput_nz _ _) (fun w hw => ?_)
  have : ∃ wl wr, Either (satDissat cfg l) wl ∧ Either (satDissat cfg r) wr ∧ w = wr ++ wl := by
    rcases hw with hw | hw
    · simp only [satDissat] at hw
      rcases minFn_stack hw with hw | hw
      · obtain ⟨wl, wr, h1, h2, h3⟩ := concat_stack hw
        exact ⟨wl, wr, .inr h1, .inl h2, h3⟩
      · obtain ⟨wl, wr, h1, h2, h3⟩ := concat_stack hw
        exact ⟨wl, wr, .inl h1, .inr h2, h3⟩
    · simp only [satDissat] at hw
      obtain ⟨wl, wr, h1, h2, h3⟩ := concat_stack hw
      exact ⟨wl, wr, .inr h1, .inr h2, h3⟩
  obtain ⟨wl, wr, h1, h2, rfl⟩ := this
  rw [hi, List.length_append]
  exact lenOk_orB (shl.len h1) (shr.len h2)

theorem orD_shape (hc : Corr.orD cl cr = some c)
    (shl : Shape σ cl (satDissat cfg l)) (shr : Shape σ cr (satDissat cfg r)) :
    Shape σ c (satDissat cfg (.orD l r)) := by
  have hi : c.input = Corr.orDInput cl.input cr.input := by
    unfold Corr.orD at hc
    split at hc <;> try (simp at hc; done)
    split at hc <;> try (simp at hc; done)
    split at hc <;> simp at hc; subst hc; rfl
  refine Shape.of_len (hi ▸ orDInput_nz _ _) (fun w hw => ?_)
  rw [hi]
  have hcat : ∀ {a b : Sat}, (a.concatenateRev b).stack = .stack w →
      (∀ wa, a.stack = .stack wa → Either (satDissat cfg l) wa) →
      (∀ wb, b.stack = .stack wb → Either (satDissat cfg r) wb) →
      LenOk (Corr.orDInput cl.input cr.input) w.length := by
    intro a b hw ha hb
    obtain ⟨wl, wr, h1, h2, rfl⟩ := concat_stack hw
    rw [List.length_append]
    exact lenOk_orD (shl.len (ha _ h1)) (shr.len (hb _ h2))
  rcases hw with hw | hw
  · simp only [satDissat] at hw
    rcases minFn_stack hw with hw | hw
    · exact lenOk_orD_left (shl.len (.inl hw))
    · exact hcat hw (fun _ h => .inr h) (fun _ h => .inl h)
  · simp only [satDissat] at hw
    exact hcat hw (fun _ h => .inr h) (fun _ h => .inr h)

theorem orC_shape (hc : Corr.orC cl cr = some c)
    (shl : Shape σ cl (satDissat cfg l)) (shr : Shape σ cr (satDissat cfg r)) :
    Shape σ c (satDissat cfg (.orC l r)) := by
  have hi : c.input = Corr.orDInput cl.input cr.input := by
    unfold Corr.orC at hc
    split at hc <;> try (simp at hc; done)
    split at hc <;> try (simp at hc; done)
    split at hc <;> simp at hc; subst hc; rfl
  refine Shape.of_len (hi ▸ orDInput_nz _ _) (fun w hw => ?_)
  rw [hi]
  rcases hw with hw | hw
  · simp only [satDissat] at hw
    rcases minFn_stack hw with hw | hw
    · exact lenOk_orD_left (shl.len (.inl hw))
    · obtain ⟨wl, wr, h1, h2, rfl⟩ := concat_stack hw
      rw [List.length_append]
      exact lenOk_orD (shl.len (.inr h1)) (shr.len (.inl h2))
  · simp [satDissat, Sat.IMPOSSIBLE] at hw

theorem orI_shape (hc : Corr.orI cl cr = some c)
    (shl : Shape σ cl (satDissat cfg l)) (shr : Shape σ cr (satDissat cfg r)) :
    Shape σ c (satDissat cfg (.orI l r)) := by
  have hi : c.input = Corr.orIInput cl.input cr.input := by
    unfold Corr.orI at hc
    split at hc <;> simp at hc <;> subst hc <;> rfl
  refine Shape.of_len (hi ▸ orIInput_nz _ _) (fun w hw => ?_)
  rw [hi]
  have hL : ∀ {s : Wit}, Wit.combine s (.stack [.pushOne]) = .stack w →
      (∀ w0, s = .stack w0 → Either (satDissat cfg l) w0) →
      LenOk (Corr.orIInput cl.input cr.input) w.length := by
    intro s hw hs
    obtain ⟨w0, h0, rfl⟩ := withPush_stack hw
    rw [List.length_append]
    exact lenOk_orI_left (shl.len (hs _ h0))
  have hR : ∀ {s : Wit}, Wit.combine s (.stack [.pushZero]) = .stack w →
      (∀ w0, s = .stack w0 → Either (satDissat cfg r) w0) →
      LenOk (Corr.orIInput cl.input cr.input) w.length := by
    intro s hw hs
    obtain ⟨w0, h0, rfl⟩ := withPush_stack hw
    rw [List.length_append]
    exact lenOk_orI_right (shr.len (hs _ h0))
  rcases hw with hw | hw
  · simp only [satDissat] at hw
    rcases minFn_stack hw with hw | hw
    · exact hL hw (fun _ h => .inl h)
    · exact hR hw (fun _ h => .inl h)
  · simp only [satDissat] at hw
    rcases minFn_stack hw with hw | hw
    · exact hL hw (fun _ h => .inr h)
    · exact hR hw (fun _ h => .inr h)

theorem andOr_shape (hc : Corr.andOr cl cr cz = some c)
    (shl : Shape σ cl (satDissat cfg l)) (shr : Shape σ cr (satDissat cfg r))
    (shz : Shape σ cz (satDissat cfg z)) : Shape σ c (satDissat cfg (.andOr l r z)) := by
  have hi : c.input = Corr.andOrInput cl.input cr.input cz.input := by
    unfold Corr.andOr at hc
    split at hc <;> try (simp at hc; done)
    split at hc <;> try (simp at hc; done)
    split at hc <;> simp at hc <;> subst hc <;> rfl
  refine Shape.of_len (hi ▸ andOrInput_nz _ _ _) (fun w hw => ?_)
  rw [hi]
  have haz : ∀ {a b : Sat}, (a.concatenateRev b).stack = .stack w →
      (∀ wa, a.stack = .stack wa → Either (satDissat cfg l) wa) →
      (∀ wb, b.stack = .stack wb → Either (satDissat cfg z) wb) →
      LenOk (Corr.andOrInput cl.input cr.input cz.input) w.length := by
    intro a b hw ha hb
    obtain ⟨wl, wr, h1, h2, rfl⟩ := concat_stack hw
    rw [List.length_append]
    exact lenOk_andOr_az (shl.len (ha _ h1)) (shz.len (hb _ h2))
  rcases hw with hw | hw
  · simp only [satDissat] at hw
    rcases minFn_stack hw with hw | hw
    · obtain ⟨wl, wr, h1, h2, rfl⟩ := concat_stack hw
      rw [List.length_append]
      exact lenOk_andOr_ab (shl.len (.inl h1)) (shr.len (.inl h2))
    · exact haz hw (fun _ h => .inr h) (fun _ h => .inl h)
  · simp only [satDissat] at hw
    exact haz hw (fun _ h => .inr h) (fun _ h => .inr h)

end binary

/-! ### thresh -/

theorem All2.get {α β : Type} {R : α → β → Prop} {l : List α} {m : List β} (h : All2 R l m) :
    ∀ i (h1 : i < l.length) (h2 : i < m.length), R l[i] m[i] := by
  induction h with
  | nil => intro i h1; simp at h1
  | cons hr _ ih =>
    intro i h1 h2
    cases i with
    | zero => exact hr
    | succ i => exact ih i (by simpa using h1) (by simpa using h2)

theorem All2.of_get {α β : Type} {R : α → β → Prop} : ∀ (l : List α) (m : List β),
    l.length = m.length → (∀ i (h1 : i < l.length) (h2 : i < m.length), R l[i] m[i]) →
    All2 R l m
  | [], [], _, _ => .nil
  | [], _ :: _, hl, _ => by simp at hl
  | _ :: _, [], hl, _ => by simp at hl
  | a :: l, b :: m, hl, h =>
    .cons (h 0 (by simp) (by simp))
      (All2.of_get l m (by simpa using hl) fun i h1 h2 =>
        h (i + 1) (by simpa using h1) (by simpa using h2))

theorem threshLoop_sum : ∀ (cs : List Corr) (i acc n : Nat),
    Corr.threshLoop i acc cs = some n → n = acc + (cs.map fun c => Corr.numArgs c.input).sum
  | [], i, acc, n, h => by simp [Corr.threshLoop] at h; simp [h]
  | s :: rest, i, acc, n, h => by
    unfold Corr.threshLoop at h
    simp only at h
    split at h <;> try (simp at h; done)
    split at h <;> try (simp at h; done)
    split at h <;> try (simp at h; done)
    split at h <;> try (simp at h; done)
    have := threshLoop_sum rest _ _ _ h
    simp only [List.map_cons, List.sum_cons]
    omega

/-- every stack this (dis)satisfaction can be has `n` elements -/
def StackLen (s : Sat) (n : Nat) : Prop := ∀ w, s.stack = .stack w → w.length = n

theorem foldl_concat_len {l : List Sat} {ns : List Nat} (h : All2 StackLen l ns) :
    ∀ (acc : Sat) (w : List Ph), (l.foldl Sat.concatenateRev acc).stack = .stack w →
      ∃ wacc, acc.stack = .stack wacc ∧ w.length = ns.sum + wacc.length := by
  induction h with
  | nil => intro acc w hw; exact ⟨w, hw, by simp⟩
  | cons hx _ ih =>
    intro acc w hw
    rw [List.foldl_cons] at hw
    obtain ⟨w1, h1, hlen⟩ := ih _ _ hw
    obtain ⟨wacc, wx, hacc, hwx, rfl⟩ := concat_stack h1
    refine ⟨wacc, hacc, ?_⟩
    have := hx wx hwx
    simp only [List.length_append, List.sum_cons] at hlen ⊢
    omega

theorem foldConcat_len {l : List Sat} {ns : List Nat} (h : All2 StackLen l ns) {w : List Ph}
    (hw : (foldConcat l).stack = .stack w) : w.length = ns.sum := by
  obtain ⟨wacc, hacc, hlen⟩ := foldl_concat_len h _ _ hw
  simp only [Sat.empty, Wit.stack.injEq] at hacc
  subst hacc
  simpa using hlen

/-- if the children need at most one element in total, every child's stacks have exactly
`numArgs` elements -/
theorem shapes_len : ∀ {ts : List Ty} {sds : List SatDissat},
    All2 (fun t sd => Shape σ t.corr sd) ts sds →
    (ts.map fun t => Corr.numArgs t.corr.input).sum ≤ 1 →
    All2 (fun sd n => ∀ w, Either sd w → w.length = n) sds
      (ts.map fun t => Corr.numArgs t.corr.input) := by
  intro ts sds h
  induction h with
  | nil => intro _; exact .nil
  | cons hr _ ih =>
    intro hs
    simp only [List.map_cons, List.sum_cons] at hs ⊢
    exact .cons (fun w hw => lenOk_of_numArgs (hr.len hw) (by omega)) (ih (by omega))

/-- a list that picks, position by position, the satisfaction or the dissatisfaction -/
theorem select_len {sds : List SatDissat} {ns : List Nat}
    (hQ : All2 (fun sd n => ∀ w, Either sd w → w.length = n) sds ns) (l : List Sat)
    (hlen : l.length = sds.length)
    (hsel : ∀ i (h1 : i < l.length) (h2 : i < sds.length),
      l[i] = sds[i].sat ∨ l[i] = sds[i].dissat) : All2 StackLen l ns := by
  have hl := hQ.length_eq
  refine All2.of_get l ns (hlen.trans hl) fun i h1 h2 => ?_
  have h3 : i < sds.length := hlen ▸ h1
  have := hQ.get i h3 h2
  intro w hw
  rcases hsel i h1 h3 with he | he
  · exact this w (.inl (he ▸ hw))
  · exact this w (.inr (he ▸ hw))

theorem select_ret {sds : List SatDissat} (f : Nat → Bool) :
    let l := (List.range (sds.map (·.dissat)).length).map fun i =>
      if f i then (sds.map (·.sat))[i]! else (sds.map (·.dissat))[i]!
    l.length = sds.length ∧ ∀ i (h1 : i < l.length) (h2 : i < sds.length),
      l[i] = sds[i].sat ∨ l[i] = sds[i].dissat := by
  refine ⟨by simp, fun i h1 h2 => ?_⟩
  simp only [List.getElem_map, List.getElem_range]
  have hs : i < (sds.map (·.sat)).length := by simpa using h2
  have hd : i < (sds.map (·.dissat)).length := by simpa using h2
  rw [getElem!_pos _ i hs, getElem!_pos _ i hd]
  simp only [List.getElem_map]
  cases f i
  · exact .inr (by simp)
  · exact .inl (by simp)

theorem threshMall_ret (k : Nat) (dissats sats : List Sat) :
    ∃ f : Nat → Bool, threshMall k dissats sats =
      foldConcat ((List.range dissats.length).map fun i =>
        if f i then sats[i]! else dissats[i]!) := by
  unfold threshMall swapped
  exact ⟨_, rfl⟩

theorem threshNonMall_ret (k : Nat) (dissats sats : List Sat) {w : List Ph}
    (hw : (threshNonMall k dissats sats).stack = .stack w) :
    ∃ f : Nat → Bool, (foldConcat ((List.range dissats.length).map fun i =>
        if f i then sats[i]! else dissats[i]!)).stack = .stack w := by
  unfold threshNonMall swapped at hw
  simp only at hw
  split at hw
  · simp [Sat.IMPOSSIBLE] at hw
  · split at hw
    · simp [Sat.UNAVAILABLE] at hw
    · exact ⟨_, hw⟩

theorem thresh_shape {k : Nat} {xs : MsList} {ts : List Ty} {c : Corr}
    (hc : Corr.threshold k (ts.map (·.corr)) = some c)
    (hsh : All2 (fun t sd => Shape σ t.corr sd) ts (satDissats cfg xs)) :
    Shape σ c (satDissat cfg (.thresh k xs)) := by
  unfold Corr.threshold at hc
  cases hl : Corr.threshLoop 0 0 (ts.map (·.corr)) with
  | none => simp [hl] at hc
  | some n =>
    simp only [hl, Option.some.injEq] at hc
    have hn := threshLoop_sum _ _ _ _ hl
    simp only [List.map_map, Nat.zero_add] at hn
    have hkey : n ≤ 1 → ∀ w, Either (satDissat cfg (.thresh k xs)) w → w.length = n := by
      intro hle w hw
      have hQ := shapes_len hsh (by
        have : ((fun c : Corr => Corr.numArgs c.input) ∘ fun t : Ty => t.corr) =
            fun t : Ty => Corr.numArgs t.corr.input := rfl
        rw [this] at hn; omega)
      have hsum : (ts.map fun t => Corr.numArgs t.corr.input).sum = n := by
        rw [hn]; rfl
      rw [← hsum]
      have hret : ∀ f : Nat → Bool, (foldConcat ((List.range
          ((satDissats cfg xs).map (·.dissat)).length).map fun i =>
            if f i then ((satDissats cfg xs).map (·.sat))[i]!
            else ((satDissats cfg xs).map (·.dissat))[i]!)).stack = .stack w →
          w.length = (ts.map fun t => Corr.numArgs t.corr.input).sum := by
        intro f hw
        obtain ⟨h1, h2⟩ := select_ret (sds := satDissats cfg xs) f
        exact foldConcat_len (select_len hQ _ h1 h2) hw
      rcases hw with hw | hw
      · simp only [satDissat] at hw
        split at hw
        · refine foldConcat_len (select_len hQ _ (by simp) fun i h1 h2 => .inl ?_) hw
          simp
        · split at hw
          · obtain ⟨f, hf⟩ := threshMall_ret k ((satDissats cfg xs).map (·.dissat))
              ((satDissats cfg xs).map (·.sat))
            rw [hf] at hw
            exact hret f hw
          · obtain ⟨f, hf⟩ := threshNonMall_ret k _ _ hw
            exact hret f hf
      · simp only [satDissat] at hw
        refine foldConcat_len (select_len hQ _ (by simp) fun i h1 h2 => .inr ?_) hw
        simp
    rcases n with _ | _ | n
    · simp only at hc; subst hc
      refine Shape.of_len (by simp) fun w hw => ?_
      rw [hkey (by omega) w hw]; simp [LenOk]
    · simp only at hc; subst hc
      refine Shape.of_len (by simp) fun w hw => ?_
      rw [hkey (by omega) w hw]; simp [LenOk]
    · simp only at hc; subst hc
      exact Shape.of_any rfl

/-! ### inverting `typeOf` -/

theorem lift1_inv {fc : Corr → Option Corr} {fm : Mall → Mall} {t τ : Ty}
    (h : Ty.lift1 fc fm t = some τ) : fc t.corr = some τ.corr := by
  unfold Ty.lift1 at h
  cases hc : fc t.corr with
  | none => simp [hc] at h
  | some c => simp [hc] at h; subst h; rfl

theorem lift2_inv {fc : Corr → Corr → Option Corr} {fm : Mall → Mall → Mall} {a b τ : Ty}
    (h : Ty.lift2 fc fm a b = some τ) : fc a.corr b.corr = some τ.corr := by
  unfold Ty.lift2 at h
  cases hc : fc a.corr b.corr with
  | none => simp [hc] at h
  | some c => simp [hc] at h; subst h; rfl

theorem typeOf_alt_inv {x : Ms} {τ : Ty} (h : typeOf (.alt x) = some τ) :
    ∃ tx, typeOf x = some tx ∧ Corr.castAlt tx.corr = some τ.corr := by
  simp only [typeOf] at h
  cases hx : typeOf x with
  | none => simp [hx] at h
  | some tx =>
    simp only [hx, Option.bind_some] at h
    exact ⟨tx, rfl, lift1_inv h⟩

theorem typeOf_swap_inv {x : Ms} {τ : Ty} (h : typeOf (.swap x) = some τ) :
    ∃ tx, typeOf x = some tx ∧ Corr.castSwap tx.corr = some τ.corr := by
  simp only [typeOf] at h
  cases hx : typeOf x with
  | none => simp [hx] at h
  | some tx =>
    simp only [hx, Option.bind_some] at h
    exact ⟨tx, rfl, lift1_inv h⟩

theorem typeOf_check_inv {x : Ms} {τ : Ty} (h : typeOf (.check x) = some τ) :
    ∃ tx, typeOf x = some tx ∧ Corr.castCheck tx.corr = some τ.corr := by
  simp only [typeOf] at h
  cases hx : typeOf x with
  | none => simp [hx] at h
  | some tx =>
    simp only [hx, Option.bind_some] at h
    exact ⟨tx, rfl, lift1_inv h⟩

theorem typeOf_dupIf_inv {x : Ms} {τ : Ty} (h : typeOf (.dupIf x) = some τ) :
    ∃ tx, typeOf x = some tx ∧ Corr.castDupIf tx.corr = some τ.corr := by
  simp only [typeOf] at h
  cases hx : typeOf x with
  | none => simp [hx] at h
  | some tx =>
    simp only [hx, Option.bind_some] at h
    exact ⟨tx, rfl, lift1_inv h⟩

theorem typeOf_verify_inv {x : Ms} {τ : Ty} (h : typeOf (.verify x) = some τ) :
    ∃ tx, typeOf x = some tx ∧ Corr.castVerify tx.corr = some τ.corr := by
  simp only [typeOf] at h
  cases hx : typeOf x with
  | none => simp [hx] at h
  | some tx =>
    simp only [hx, Option.bind_some] at h
    exact ⟨tx, rfl, lift1_inv h⟩

theorem typeOf_nonZero_inv {x : Ms} {τ : Ty} (h : typeOf (.nonZero x) = some τ) :
    ∃ tx, typeOf x = some tx ∧ Corr.castNonZero tx.corr = some τ.corr := by
  simp only [typeOf] at h
  cases hx : typeOf x with
  | none => simp [hx] at h
  | some tx =>
    simp only [hx, Option.bind_some] at h
    exact ⟨tx, rfl, lift1_inv h⟩

theorem typeOf_zeroNotEqual_inv {x : Ms} {τ : Ty} (h : typeOf (.zeroNotEqual x) = some τ) :
    ∃ tx, typeOf x = some tx ∧ Corr.castZeroNotEqual tx.corr = some τ.corr := by
  simp only [typeOf] at h
  cases hx : typeOf x with
  | none => simp [hx] at h
  | some tx =>
    simp only [hx, Option.bind_some] at h
    exact ⟨tx, rfl, lift1_inv h⟩

theorem typeOf_andB_inv {l r : Ms} {τ : Ty} (h : typeOf (.andB l r) = some τ) :
    ∃ tl tr, typeOf l = some tl ∧ typeOf r = some tr ∧ Corr.andB tl.corr tr.corr = some τ.corr := by
  simp only [typeOf] at h
  cases hl : typeOf l with
  | none => simp [hl] at h
  | some tl =>
    cases hr : typeOf r with
    | none => simp [hl, hr] at h
    | some tr =>
      simp only [hl, hr] at h
      exact ⟨tl, tr, rfl, rfl, lift2_inv h⟩

theorem typeOf_andV_inv {l r : Ms} {τ : Ty} (h : typeOf (.andV l r) = some τ) :
    ∃ tl tr, typeOf l = some tl ∧ typeOf r = some tr ∧ Corr.andV tl.corr tr.corr = some τ.corr := by
  simp only [typeOf] at h
  cases hl : typeOf l with
  | none => simp [hl] at h
  | some tl =>
    cases hr : typeOf r with
    | none => simp [hl, hr] at h
    | some tr =>
      simp only [hl, hr] at h
      exact ⟨tl, tr, rfl, rfl, lift2_inv h⟩

theorem typeOf_orB_inv {l r : Ms} {τ : Ty} (h : typeOf (.orB l r) = some τ) :
    ∃ tl tr, typeOf l = some tl ∧ typeOf r = some tr ∧ Corr.orB tl.corr tr.corr = some τ.corr := by
  simp only [typeOf] at h
  cases hl : typeOf l with
  | none => simp [hl] at h
  | some tl =>
    cases hr : typeOf r with
    | none => simp [hl, hr] at h
    | some tr =>
      simp only [hl, hr] at h
      exact ⟨tl, tr, rfl, rfl, lift2_inv h⟩

theorem typeOf_orD_inv {l r : Ms} {τ : Ty} (h : typeOf (.orD l r) = some τ) :
    ∃ tl tr, typeOf l = some tl ∧ typeOf r = some tr ∧ Corr.orD tl.corr tr.corr = some τ.corr := by
  simp only [typeOf] at h
  cases hl : typeOf l with
  | none => simp [hl] at h
  | some tl =>
    cases hr : typeOf r with
    | none => simp [hl, hr] at h
    | some tr =>
      simp only [hl, hr] at h
      exact ⟨tl, tr, rfl, rfl, lift2_inv h⟩

theorem typeOf_orC_inv {l r : Ms} {τ : Ty} (h : typeOf (.orC l r) = some τ) :
    ∃ tl tr, typeOf l = some tl ∧ typeOf r = some tr ∧ Corr.orC tl.corr tr.corr = some τ.corr := by
  simp only [typeOf] at h
  cases hl : typeOf l with
  | none => simp [hl] at h
  | some tl =>
    cases hr : typeOf r with
    | none => simp [hl, hr] at h
    | some tr =>
      simp only [hl, hr] at h
      exact ⟨tl, tr, rfl, rfl, lift2_inv h⟩

theorem typeOf_orI_inv {l r : Ms} {τ : Ty} (h : typeOf (.orI l r) = some τ) :
    ∃ tl tr, typeOf l = some tl ∧ typeOf r = some tr ∧ Corr.orI tl.corr tr.corr = some τ.corr := by
  simp only [typeOf] at h
  cases hl : typeOf l with
  | none => simp [hl] at h
  | some tl =>
    cases hr : typeOf r with
    | none => simp [hl, hr] at h
    | some tr =>
      simp only [hl, hr] at h
      exact ⟨tl, tr, rfl, rfl, lift2_inv h⟩

theorem typeOf_andOr_inv {a b c : Ms} {τ : Ty} (h : typeOf (.andOr a b c) = some τ) :
    ∃ ta tb tc, typeOf a = some ta ∧ typeOf b = some tb ∧ typeOf c = some tc ∧
      Corr.andOr ta.corr tb.corr tc.corr = some τ.corr := by
  simp only [typeOf] at h
  cases ha : typeOf a with
  | none => simp [ha] at h
  | some ta =>
    cases hb : typeOf b with
    | none => simp [ha, hb] at h
    | some tb =>
      cases hc : typeOf c with
      | none => simp [ha, hb, hc] at h
      | some tc =>
        simp only [ha, hb, hc] at h
        refine ⟨ta, tb, tc, rfl, rfl, rfl, ?_⟩
        unfold Ty.andOr at h
        cases hx : Corr.andOr ta.corr tb.corr tc.corr with
        | none => simp [hx] at h
        | some x => simp [hx] at h; subst h; rfl

theorem typeOf_thresh_inv {k : Nat} {xs : MsList} {τ : Ty} (h : typeOf (.thresh k xs) = some τ) :
    ∃ ts, typesOf xs = some ts ∧ Corr.threshold k (ts.map (·.corr)) = some τ.corr := by
  simp only [typeOf] at h
  cases hx : typesOf xs with
  | none => simp [hx] at h
  | some ts =>
    simp only [hx, Option.bind_some] at h
    refine ⟨ts, rfl, ?_⟩
    unfold Ty.threshold at h
    cases hc : Corr.threshold k (ts.map (·.corr)) with
    | none => simp [hc] at h
    | some c => simp [hc] at h; subst h; rfl

theorem typesOf_cons_inv {x : Ms} {xs : MsList} {ts : List Ty}
    (h : typesOf (.cons x xs) = some ts) :
    ∃ t ts', typeOf x = some t ∧ typesOf xs = some ts' ∧ ts = t :: ts' := by
  simp only [typesOf] at h
  cases hx : typeOf x with
  | none => simp [hx] at h
  | some t =>
    cases hxs : typesOf xs with
    | none => simp [hx, hxs] at h
    | some ts' =>
      simp only [hx, hxs, Option.some.injEq] at h
      exact ⟨t, ts', rfl, rfl, h.symm⟩

/-! ### the theorem -/

mutual
/-- witnesses have the shape the input type promises: `z` fragments consume nothing, `o`
fragments exactly one element, and the top element of a satisfaction of an `n` fragment is
non-empty -/
theorem shape_sound {env : Env} {σ : Ph → Bytes} (cfg : SatCfg)
    (hag : Agrees env cfg.env cfg.assets σ) (ms : Ms) (τ : Ty)
    (hwf : WF cfg.ctx ms) (hty : typeOf ms = some τ) : Shape σ τ.corr (satDissat cfg ms) :=
  match ms, τ, hwf, hty with
  | .tru, τ, _, hty => by
    simp only [typeOf, Option.some.injEq] at hty; subst hty; exact tru_shape
  | .fls, τ, _, hty => by
    simp only [typeOf, Option.some.injEq] at hty; subst hty; exact fls_shape
  | .pkK k, τ, _, hty => by
    simp only [typeOf, Option.some.injEq] at hty; subst hty; exact pkK_shape hag k
  | .pkH k, τ, _, hty => by
    simp only [typeOf, Option.some.injEq] at hty; subst hty; exact pkH_shape hag k
  | .rawPkH h, τ, _, hty => by
    simp only [typeOf, Option.some.injEq] at hty; subst hty; exact rawPkH_shape hag h
  | .after n, τ, _, hty => by
    simp only [typeOf, Option.some.injEq] at hty; subst hty; exact after_shape n
  | .older n, τ, _, hty => by
    simp only [typeOf, Option.some.injEq] at hty; subst hty; exact older_shape n
  | .hash kind h, τ, _, hty => by
    simp only [typeOf, Option.some.injEq] at hty; subst hty; exact hash_shape hag kind h
  | .multi k ks, τ, hwf, hty => by
    simp only [typeOf, Option.some.injEq] at hty; subst hty; exact multi_shape hag k ks hwf
  | .sortedMulti k ks, τ, hwf, hty => by
    simp only [typeOf, Option.some.injEq] at hty; subst hty
    exact sortedMulti_shape hag k ks hwf
  | .multiA k ks, τ, _, hty => by
    simp only [typeOf, Option.some.injEq] at hty; subst hty; exact Shape.of_any rfl
  | .sortedMultiA k ks, τ, _, hty => by
    simp only [typeOf, Option.some.injEq] at hty; subst hty; exact Shape.of_any rfl
  | .alt x, τ, _, hty => by
    obtain ⟨tx, _, hc⟩ := typeOf_alt_inv hty
    exact alt_shape hc
  | .swap x, τ, _, hty => by
    obtain ⟨tx, _, hc⟩ := typeOf_swap_inv hty
    exact swap_shape hc
  | .check x, τ, hwf, hty => by
    obtain ⟨tx, hx, hc⟩ := typeOf_check_inv hty
    exact check_shape hc (shape_sound cfg hag x tx (by simpa only [WF] using hwf) hx)
  | .dupIf x, τ, hwf, hty => by
    obtain ⟨tx, hx, hc⟩ := typeOf_dupIf_inv hty
    exact dupIf_shape hag hc (shape_sound cfg hag x tx (by simpa only [WF] using hwf) hx)
  | .verify x, τ, hwf, hty => by
    obtain ⟨tx, hx, hc⟩ := typeOf_verify_inv hty
    exact verify_shape hc (shape_sound cfg hag x tx (by simpa only [WF] using hwf) hx)
  | .nonZero x, τ, hwf, hty => by
    obtain ⟨tx, hx, hc⟩ := typeOf_nonZero_inv hty
    exact nonZero_shape hc (shape_sound cfg hag x tx (by simpa only [WF] using hwf) hx)
  | .zeroNotEqual x, τ, hwf, hty => by
    obtain ⟨tx, hx, hc⟩ := typeOf_zeroNotEqual_inv hty
    exact zeroNotEqual_shape hc (shape_sound cfg hag x tx (by simpa only [WF] using hwf) hx)
  | .andV l r, τ, hwf, hty => by
    obtain ⟨tl, tr, hl, hr, hc⟩ := typeOf_andV_inv hty
    simp only [WF] at hwf
    exact andV_shape hc (shape_sound cfg hag l tl hwf.1 hl) (shape_sound cfg hag r tr hwf.2 hr)
  | .andB l r, τ, hwf, hty => by
    obtain ⟨tl, tr, hl, hr, hc⟩ := typeOf_andB_inv hty
    simp only [WF] at hwf
    exact andB_shape hc (shape_sound cfg hag l tl hwf.1 hl) (shape_sound cfg hag r tr hwf.2 hr)
  | .orB l r, τ, hwf, hty => by
    obtain ⟨tl, tr, hl, hr, hc⟩ := typeOf_orB_inv hty
    simp only [WF] at hwf
    exact orB_shape hc (shape_sound cfg hag l tl hwf.1 hl) (shape_sound cfg hag r tr hwf.2 hr)
  | .orD l r, τ, hwf, hty => by
    obtain ⟨tl, tr, hl, hr, hc⟩ := typeOf_orD_inv hty
    simp only [WF] at hwf
    exact orD_shape hc (shape_sound cfg hag l tl hwf.1 hl) (shape_sound cfg hag r tr hwf.2 hr)
  | .orC l r, τ, hwf, hty => by
    obtain ⟨tl, tr, hl, hr, hc⟩ := typeOf_orC_inv hty
    simp only [WF] at hwf
    exact orC_shape hc (shape_sound cfg hag l tl hwf.1 hl) (shape_sound cfg hag r tr hwf.2 hr)
  | .orI l r, τ, hwf, hty => by
    obtain ⟨tl, tr, hl, hr, hc⟩ := typeOf_orI_inv hty
    simp only [WF] at hwf
    exact orI_shape hc (shape_sound cfg hag l tl hwf.1 hl) (shape_sound cfg hag r tr hwf.2 hr)
  | .andOr a b c, τ, hwf, hty => by
    obtain ⟨ta, tb, tc, ha, hb, hc, hcc⟩ := typeOf_andOr_inv hty
    simp only [WF] at hwf
    exact andOr_shape hcc (shape_sound cfg hag a ta hwf.1 ha)
      (shape_sound cfg hag b tb hwf.2.1 hb) (shape_sound cfg hag c tc hwf.2.2 hc)
  | .thresh k xs, τ, hwf, hty => by
    obtain ⟨ts, hts, hc⟩ := typeOf_thresh_inv hty
    simp only [WF] at hwf
    exact thresh_shape hc (shapes_sound cfg hag xs ts hwf.2.2.2 hts)
/-- the children of a `thresh`, each with its own type -/
theorem shapes_sound {env : Env} {σ : Ph → Bytes} (cfg : SatCfg)
    (hag : Agrees env cfg.env cfg.assets σ) (xs : MsList) (ts : List Ty)
    (hwf : WFs cfg.ctx xs) (hts : typesOf xs = some ts) :
    All2 (fun t sd => Shape σ t.corr sd) ts (satDissats cfg xs) :=
  match xs, ts, hwf, hts with
  | .nil, ts, _, hts => by
    simp only [typesOf, Option.some.injEq] at hts; subst hts
    simp only [satDissats]; exact .nil
  | .cons x xs, ts, hwf, hts => by
    obtain ⟨t, ts', hx, hxs, rfl⟩ := typesOf_cons_inv hts
    simp only [WFs] at hwf
    simp only [satDissats]
    exact .cons (shape_sound cfg hag x t hwf.1 hx) (shapes_sound cfg hag xs ts' hwf.2 hxs)
end

end MsVerif.SatSpec

/-
Bridge theorem, part 2: the stack-limit invariant.

`StkOk env c` : when `stackLimits` is on, `stack + altstack ≤ 1000`.  Every successful `step`
preserves it (pushes check it, everything else does not grow the stacks), hence `run` does.
Needed for `verify`: `OP_EQUALVERIFY` = `OP_EQUAL; OP_VERIFY` only if the intermediate push of
the boolean cannot hit the stack-size limit.

Core Lean only.
-/
import MsVerif.Lemmas.BridgeBasic

namespace MsVerif.Bridge
open MsVerif MsVerif.Script

def StkOk (env : Env) (c : Core) : Prop :=
  env.flags.stackLimits = true → c.stack.length + c.alt.length ≤ 1000

/-- every successful outcome satisfies the invariant -/
def Good (env : Env) (x : Except Err Core) : Prop := ∀ c', x = .ok c' → StkOk env c'

theorem good_error (env : Env) (e : Err) : Good env (.error e) := by
  intro c' h; cases h

theorem good_ok (env : Env) (c : Core) (h : StkOk env c) : Good env (.ok c) := by
  intro c' h'; cases h'; exact h

theorem good_pushElem (env : Env) (c : Core) (b : Bytes) : Good env (pushElem env c b) := by
  intro c' h
  unfold pushElem at h
  dsimp only at h
  split at h
  · cases h
  · split at h
    · cases h
    · rename_i hlim
      cases h
      intro hl
      simp only [hl, Bool.true_and, decide_eq_true_eq] at hlim
      simp only [List.length_cons] at hlim ⊢
      omega
theorem good_bind {α} (env : Env) (x : Except Err α) (f : α → Except Err Core)
    (h : ∀ a, Good env (f a)) : Good env (x >>= f) := by
  cases x with
  | error e => exact good_error env e
  | ok a => exact h a

theorem good_ite (env : Env) (p : Prop) [Decidable p] (x y : Except Err Core)
    (hx : Good env x) (hy : Good env y) : Good env (if p then x else y) := by
  split <;> assumption

theorem good_countOp (env : Env) (c : Core) (n : Nat) (h : StkOk env c) : Good env (countOp env c n) := by
  intro c' h'
  unfold countOp at h'
  dsimp only at h'
  split at h'
  · cases h'
  · cases h'; exact h

theorem countOp_stack (env : Env) (c c' : Core) (n : Nat) (h : countOp env c n = .ok c') :
    c'.stack = c.stack ∧ c'.alt = c.alt := by
  unfold countOp at h
  dsimp only at h
  split at h
  · cases h
  · cases h; exact ⟨rfl, rfl⟩

theorem good_multisig (env : Env) (c : Core) (v : Bool) (h : StkOk env c) : Good env (multisig env c v) := by
  unfold multisig
  dsimp only
  split
  · exact good_error env _
  · split
    · rename_i nB r hstk
      split
      · exact good_error env _
      · split
        · exact good_error env _
        · split
          · exact good_error env _
          · rename_i s hcnt
            have hs := countOp_stack env c s _ hcnt
            split
            · exact good_error env _
            · split
              · rename_i mB r1 hr1
                split
                · exact good_error env _
                · split
                  · exact good_error env _
                  · split
                    · exact good_error env _
                    · split
                      · rename_i dummy r2 hr2
                        split
                        · exact good_error env _
                        · split
                          · exact good_error env _
                          · split
                            · exact good_error env _
                            · split
                              · split
                                · apply good_ok
                                  intro hl
                                  have h1 := h hl
                                  have l1 := congrArg List.length hr1
                                  have l2 := congrArg List.length hr2
                                  simp only [List.length_drop, List.length_cons] at l1 l2
                                  rw [hstk] at h1
                                  simp only [List.length_cons] at h1
                                  show r2.length + s.alt.length ≤ 1000
                                  rw [hs.2]
                                  omega
                                · exact good_error env _
                              · exact good_pushElem env _ _
                      · exact good_error env _
              · exact good_error env _
    · exact good_error env _

theorem good_execOpc (env : Env) (o : Opc) (c : Core) (h : StkOk env c) : Good env (execOpc env o c) := by
  obtain ⟨stk, alt, n⟩ := c
  have hS : ∀ (stk' alt' : List Bytes) (n' : Nat),
      stk'.length + alt'.length ≤ stk.length + alt.length → StkOk env ⟨stk', alt', n'⟩ := by
    intro stk' alt' n' hle hl
    have := h hl
    simp only at this ⊢
    omega
  cases o <;> rcases stk with _ | ⟨a, _ | ⟨b, _ | ⟨d, r⟩⟩⟩ <;>
    simp only [execOpc] <;>
    first
    | exact good_error env _
    | exact good_pushElem env _ _
    | exact good_multisig env _ _ h
    | (apply good_ok; apply hS; simp only [List.length_cons]; omega)
    | (repeat' first
        | exact good_error env _
        | exact good_pushElem env _ _
        | (apply good_ok; apply hS; simp only [List.length_cons]; omega)
        | (apply good_bind; intro _)
        | split)

theorem condPop_stkOk (env : Env) (nf v : Bool) (c c' : Core) (h : StkOk env c)
    (hp : condPop env nf c = .ok (v, c')) : StkOk env c' := by
  unfold condPop at hp
  split at hp
  · rename_i a r hstk
    split at hp
    · cases hp
    · cases hp
      intro hl
      have := h hl
      rw [hstk] at this
      simp only [List.length_cons] at this ⊢
      omega
  · cases hp

theorem step_stkOk (env : Env) (s s' : State) (op : Op) (h : StkOk env s.core)
    (hs : step env s op = .ok s') : StkOk env s'.core := by
  obtain ⟨c, cs⟩ := s
  unfold step at hs
  cases op with
  | bad b =>
    dsimp only at hs
    split at hs
    · cases hs
    · cases hs; exact h
  | small n =>
    dsimp only at hs
    split at hs
    · cases hp : pushElem env c (if n = 0 then [] else [UInt8.ofNat n]) with
      | error e => rw [hp] at hs; cases hs
      | ok c1 => rw [hp] at hs; cases hs; exact good_pushElem env _ _ _ hp
    · cases hs; exact h
  | push bs =>
    dsimp only at hs
    split at hs
    · cases hs
    · split at hs
      · cases hp : pushElem env c bs with
        | error e => rw [hp] at hs; cases hs
        | ok c1 => rw [hp] at hs; cases hs; exact good_pushElem env _ _ _ hp
      · cases hs; exact h
  | code o =>
    dsimp only at hs
    cases hc : countOp env c 1 with
    | error e => rw [hc] at hs; cases hs
    | ok c1 =>
      rw [hc] at hs
      have h1 : StkOk env c1 := good_countOp env c 1 h c1 hc
      have hcond : ∀ nf, (match condPop env nf c1 with
            | .ok (v, c) => Except.ok (⟨c, v :: cs⟩ : State)
            | .error e => .error e) = .ok s' → StkOk env s'.core := by
        intro nf hs
        cases hp : condPop env nf c1 with
        | error e => rw [hp] at hs; cases hs
        | ok p =>
          obtain ⟨v, c2⟩ := p
          rw [hp] at hs; cases hs
          exact condPop_stkOk env nf v c1 c2 h1 hp
      cases o
      case if_ =>
        dsimp only at hs
        split at hs
        · exact hcond _ hs
        · cases hs; exact h1
      case notif =>
        dsimp only at hs
        split at hs
        · exact hcond _ hs
        · cases hs; exact h1
      case else_ =>
        dsimp only at hs
        split at hs
        · cases hs; exact h1
        · cases hs
      case endif =>
        dsimp only at hs
        split at hs
        · cases hs; exact h1
        · cases hs
      all_goals
        dsimp only at hs
        split at hs
        · rename_i hex
          cases he : execOpc env _ c1 with
          | error e => rw [he] at hs; cases hs
          | ok c2 => rw [he] at hs; cases hs; exact good_execOpc env _ c1 h1 c2 he
        · cases hs; exact h1

theorem run_stkOk (env : Env) (ops : List Op) (s s' : State) (h : StkOk env s.core)
    (hr : run env ops s = .ok s') : StkOk env s'.core := by
  induction ops generalizing s with
  | nil => cases hr; exact h
  | cons op ops ih =>
    rw [run_cons] at hr
    cases hs : step env s op with
    | error e => rw [hs] at hr; cases hr
    | ok s1 =>
      rw [hs] at hr
      exact ih s1 (step_stkOk env s s1 op h hs) hr

end MsVerif.Bridge

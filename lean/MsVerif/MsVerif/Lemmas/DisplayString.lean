/-
The tree `Display` prints for a miniscript is well-formed for the expression grammar and nests at
most `height + 1` deep; with `Expr.fromStr_print` this lifts the tree-level round trip to
CHARACTERS.
-/
import MsVerif.Lemmas.DisplayPlain
import MsVerif.Lemmas.ExprTableMain

namespace MsVerif.Display
open MsVerif.Expr

/-- the atoms print without the characters `(){},#` and inside the descriptor character set -/
structure CodecNames (c : Codec) : Prop where
  key : ∀ k, NameOk (c.showKey k)
  hash : ∀ kind h, NameOk (c.showHash kind h)
  raw : ∀ h, NameOk (c.showRaw h)

def CharOk (ch : Char) : Prop := Checksum.validChar ch = true ∧ ¬ special ch

def charOkB (ch : Char) : Bool :=
  Checksum.validChar ch && !(ch == '(' || ch == ')' || ch == '{' || ch == '}' || ch == ',' || ch == '#')

theorem charOkB_ok (ch : Char) (h : charOkB ch = true) : CharOk ch := by
  unfold charOkB at h
  simp only [Bool.and_eq_true, Bool.not_eq_true', Bool.or_eq_false_iff, beq_eq_false_iff_ne] at h
  refine ⟨h.1, ?_⟩
  unfold special
  intro hs
  rcases hs with e | e | e | e | e | e <;> simp_all

theorem nameOk_of_all (l : List Char) (h : l.all charOkB = true) : NameOk l := by
  intro ch hc
  exact charOkB_ok ch (List.all_eq_true.mp h ch hc)

theorem frag_nameOk (f : Frag) : NameOk f.name :=
  nameOk_of_all _ (by cases f <;> decide)

theorem colon_ok : CharOk ':' := charOkB_ok _ (by decide)

theorem joinName_ok (pre : List Char) (f : Frag) (hp : ∀ ch ∈ pre, CharOk ch) :
    NameOk (joinName pre f.name) := by
  unfold joinName
  split
  · exact frag_nameOk f
  · intro ch hc
    simp only [List.mem_append, List.mem_cons] at hc
    rcases hc with h | h | h
    · exact hp ch h
    · subst h; exact colon_ok
    · exact frag_nameOk f ch h

theorem digit_ok (k : Nat) : CharOk (digit k) := by
  unfold digit
  split <;> exact charOkB_ok _ (by decide)

theorem showNat_nameOk (n : Nat) : NameOk (showNat n) := by
  induction n using Nat.strongRecOn with
  | _ n ih =>
    by_cases h : n < 10
    · rw [showNat_lt n h]; intro ch hc; simp only [List.mem_singleton] at hc; subst hc; exact digit_ok n
    · rw [showNat_ge n h]
      intro ch hc
      simp only [List.mem_append, List.mem_singleton] at hc
      rcases hc with hc | hc
      · exact ih (n / 10) (by omega) ch hc
      · subst hc; exact digit_ok _

theorem leaf_wf (s : List Char) (h : NameOk s) : (leaf s).WF := by
  unfold leaf Tree.WF; exact ⟨h, by simp, by simp [Tree.WFList]⟩

theorem core_wf (pre : List Char) (f : Frag) (cs : List Tree) (hp : ∀ ch ∈ pre, CharOk ch)
    (hcs : Tree.WFList cs) : (core pre f cs).WF := by
  unfold core Tree.WF
  refine ⟨joinName_ok pre f hp, ?_, hcs⟩
  cases cs <;> simp

theorem wfList_keys (c : Codec) (hn : CodecNames c) (k : List Char) (hk : NameOk k) (ks : List Nat) :
    Tree.WFList (leaf k :: ks.map (fun k => leaf (c.showKey k))) := by
  unfold Tree.WFList
  refine ⟨leaf_wf k hk, ?_⟩
  induction ks with
  | nil => simp [Tree.WFList]
  | cons x xs ih => simp only [List.map_cons, Tree.WFList]; exact ⟨leaf_wf _ (hn.key x), ih⟩

theorem pre_snoc {pre : List Char} (hp : ∀ ch ∈ pre, CharOk ch) (x : Char) (hx : CharOk x) :
    ∀ ch ∈ pre ++ [x], CharOk ch := by
  intro ch hc
  simp only [List.mem_append, List.mem_singleton] at hc
  rcases hc with h | h
  · exact hp ch h
  · subst h; exact hx

theorem wch (x : Char) (h : x = 'a' ∨ x = 's' ∨ x = 'c' ∨ x = 'd' ∨ x = 'v' ∨ x = 'j' ∨ x = 'n' ∨ x = 't'
    ∨ x = 'u' ∨ x = 'l') : CharOk x := by
  rcases h with h | h | h | h | h | h | h | h | h | h <;> subst h <;>
    exact charOkB_ok _ (by decide)

theorem nil_pre : ∀ ch ∈ ([] : List Char), CharOk ch := by intro ch hc; simp at hc

mutual
theorem toTreeW_wf (c : Codec) (hn : CodecNames c) :
    ∀ (m : Ms) (pre : List Char), (∀ ch ∈ pre, CharOk ch) → (toTreeW c pre m).WF
  | .tru, pre, hp | .fls, pre, hp => by rw [toTreeW]; exact core_wf _ _ _ hp (by simp [Tree.WFList])
  | .pkK k, pre, hp | .pkH k, pre, hp => by
    rw [toTreeW]; exact core_wf _ _ _ hp (by simp [Tree.WFList, leaf_wf _ (hn.key k)])
  | .rawPkH h, pre, hp => by
    rw [toTreeW]; exact core_wf _ _ _ hp (by simp [Tree.WFList, leaf_wf _ (hn.raw h)])
  | .after n, pre, hp | .older n, pre, hp => by
    rw [toTreeW]; exact core_wf _ _ _ hp (by simp [Tree.WFList, leaf_wf _ (showNat_nameOk n)])
  | .hash kind h, pre, hp => by
    rw [toTreeW]; exact core_wf _ _ _ hp (by simp [Tree.WFList, leaf_wf _ (hn.hash kind h)])
  | .alt x, pre, hp => by rw [toTreeW]; exact toTreeW_wf c hn x _ (pre_snoc hp _ (wch _ (by simp)))
  | .swap x, pre, hp => by rw [toTreeW]; exact toTreeW_wf c hn x _ (pre_snoc hp _ (wch _ (by simp)))
  | .dupIf x, pre, hp => by rw [toTreeW]; exact toTreeW_wf c hn x _ (pre_snoc hp _ (wch _ (by simp)))
  | .verify x, pre, hp => by rw [toTreeW]; exact toTreeW_wf c hn x _ (pre_snoc hp _ (wch _ (by simp)))
  | .nonZero x, pre, hp => by rw [toTreeW]; exact toTreeW_wf c hn x _ (pre_snoc hp _ (wch _ (by simp)))
  | .zeroNotEqual x, pre, hp => by rw [toTreeW]; exact toTreeW_wf c hn x _ (pre_snoc hp _ (wch _ (by simp)))
  | .check x, pre, hp => by
    rw [toTreeW]
    rcases sugarCheck_cases c x with hnone | ⟨k, rfl⟩ | ⟨k, rfl⟩
    · rw [hnone]; exact toTreeW_wf c hn x _ (pre_snoc hp _ (wch _ (by simp)))
    · simp only [sugarCheck]; exact core_wf _ _ _ hp (by simp [Tree.WFList, leaf_wf _ (hn.key k)])
    · simp only [sugarCheck]; exact core_wf _ _ _ hp (by simp [Tree.WFList, leaf_wf _ (hn.key k)])
  | .andV l r, pre, hp => by
    rw [toTreeW]
    split
    · exact toTreeW_wf c hn l _ (pre_snoc hp _ (wch _ (by simp)))
    · exact core_wf _ _ _ hp (by
        simp [Tree.WFList, toTreeW_wf c hn l [] nil_pre, toTreeW_wf c hn r [] nil_pre])
  | .andB l r, pre, hp | .orB l r, pre, hp | .orD l r, pre, hp | .orC l r, pre, hp => by
    rw [toTreeW]
    exact core_wf _ _ _ hp (by
      simp [Tree.WFList, toTreeW_wf c hn l [] nil_pre, toTreeW_wf c hn r [] nil_pre])
  | .orI l r, pre, hp => by
    rw [toTreeW]
    split
    · split
      · exact toTreeW_wf c hn r _ (pre_snoc hp _ (wch _ (by simp)))
      · exact toTreeW_wf c hn l _ (pre_snoc hp _ (wch _ (by simp)))
    · split
      · exact toTreeW_wf c hn r _ (pre_snoc hp _ (wch _ (by simp)))
      · exact core_wf _ _ _ hp (by
          simp [Tree.WFList, toTreeW_wf c hn l [] nil_pre, toTreeW_wf c hn r [] nil_pre])
  | .andOr a b z, pre, hp => by
    rw [toTreeW]
    split
    · exact core_wf _ _ _ hp (by
        simp [Tree.WFList, toTreeW_wf c hn a [] nil_pre, toTreeW_wf c hn b [] nil_pre])
    · exact core_wf _ _ _ hp (by
        simp [Tree.WFList, toTreeW_wf c hn a [] nil_pre, toTreeW_wf c hn b [] nil_pre,
          toTreeW_wf c hn z [] nil_pre])
  | .thresh k xs, pre, hp => by
    rw [toTreeW]
    exact core_wf _ _ _ hp (by
      simp only [Tree.WFList]; exact ⟨leaf_wf _ (showNat_nameOk k), toTreeList_wf c hn xs⟩)
  | .multi k ks, pre, hp | .sortedMulti k ks, pre, hp | .multiA k ks, pre, hp
  | .sortedMultiA k ks, pre, hp => by
    rw [toTreeW]; exact core_wf _ _ _ hp (wfList_keys c hn _ (showNat_nameOk k) ks)
theorem toTreeList_wf (c : Codec) (hn : CodecNames c) : ∀ (xs : MsList), Tree.WFList (toTreeList c xs)
  | .nil => by simp [toTreeList, Tree.WFList]
  | .cons x xs => by
    simp only [toTreeList, Tree.WFList]
    exact ⟨toTreeW_wf c hn x [] nil_pre, toTreeList_wf c hn xs⟩
end

/-! ### nesting depth -/

theorem depth_leaf (s : List Char) : (leaf s).depth = 0 := by simp [leaf, Tree.depth, Tree.depthList]

theorem depth_core (pre : List Char) (f : Frag) (cs : List Tree) : (core pre f cs).depth = Tree.depthList cs := by
  simp [core, Tree.depth]

theorem depthList_keys (c : Codec) (k : List Char) (ks : List Nat) :
    Tree.depthList (leaf k :: ks.map (fun k => leaf (c.showKey k))) = 1 := by
  induction ks generalizing k with
  | nil => simp [Tree.depthList, depth_leaf]
  | cons x xs ih =>
    have := ih (c.showKey x)
    simp only [List.map_cons, Tree.depthList, depth_leaf] at this ⊢
    omega

mutual
theorem toTreeW_depth (c : Codec) : ∀ (m : Ms) (pre : List Char), (toTreeW c pre m).depth ≤ height m + 1
  | .tru, pre | .fls, pre => by rw [toTreeW, depth_core]; simp [Tree.depthList]
  | .pkK _, pre | .pkH _, pre | .rawPkH _, pre | .after _, pre | .older _, pre | .hash _ _, pre => by
    rw [toTreeW, depth_core]; simp [Tree.depthList, depth_leaf]
  | .alt x, pre => by rw [toTreeW]; have := toTreeW_depth c x (pre ++ ['a']); simp only [height]; omega
  | .swap x, pre => by rw [toTreeW]; have := toTreeW_depth c x (pre ++ ['s']); simp only [height]; omega
  | .dupIf x, pre => by rw [toTreeW]; have := toTreeW_depth c x (pre ++ ['d']); simp only [height]; omega
  | .verify x, pre => by rw [toTreeW]; have := toTreeW_depth c x (pre ++ ['v']); simp only [height]; omega
  | .nonZero x, pre => by rw [toTreeW]; have := toTreeW_depth c x (pre ++ ['j']); simp only [height]; omega
  | .zeroNotEqual x, pre => by
    rw [toTreeW]; have := toTreeW_depth c x (pre ++ ['n']); simp only [height]; omega
  | .check x, pre => by
    rw [toTreeW]
    rcases sugarCheck_cases c x with hnone | ⟨k, rfl⟩ | ⟨k, rfl⟩
    · rw [hnone]; have := toTreeW_depth c x (pre ++ ['c']); simp only [height]; omega
    · simp only [sugarCheck]; rw [depth_core]; simp [Tree.depthList, depth_leaf]
    · simp only [sugarCheck]; rw [depth_core]; simp [Tree.depthList, depth_leaf]
  | .andV l r, pre => by
    have hl := toTreeW_depth c l []
    have hr := toTreeW_depth c r []
    have hw := toTreeW_depth c l (pre ++ ['t'])
    rw [toTreeW]
    split
    · simp only [height]; omega
    · rw [depth_core]; simp only [Tree.depthList, height]; omega
  | .andB l r, pre | .orB l r, pre | .orD l r, pre | .orC l r, pre => by
    have hl := toTreeW_depth c l []
    have hr := toTreeW_depth c r []
    rw [toTreeW, depth_core]; simp only [Tree.depthList, height]; omega
  | .orI l r, pre => by
    have hl := toTreeW_depth c l []
    have hr := toTreeW_depth c r []
    have h1 := toTreeW_depth c r (pre ++ ['u'])
    have h2 := toTreeW_depth c l (pre ++ ['u'])
    have h3 := toTreeW_depth c r (pre ++ ['l'])
    rw [toTreeW]
    split
    · split <;> (simp only [height]; omega)
    · split
      · simp only [height]; omega
      · rw [depth_core]; simp only [Tree.depthList, height]; omega
  | .andOr a b z, pre => by
    have ha := toTreeW_depth c a []
    have hb := toTreeW_depth c b []
    have hz := toTreeW_depth c z []
    rw [toTreeW]
    split
    · rw [depth_core]; simp only [Tree.depthList, height]; omega
    · rw [depth_core]; simp only [Tree.depthList, height]; omega
  | .thresh k xs, pre => by
    have := toTreeList_depth c xs
    rw [toTreeW, depth_core]; simp only [Tree.depthList, depth_leaf, height]; omega
  | .multi k ks, pre | .sortedMulti k ks, pre | .multiA k ks, pre | .sortedMultiA k ks, pre => by
    rw [toTreeW, depth_core, depthList_keys]; simp [height]
theorem toTreeList_depth (c : Codec) : ∀ (xs : MsList), Tree.depthList (toTreeList c xs) ≤ heightList xs + 2
  | .nil => by simp [toTreeList, Tree.depthList]
  | .cons x xs => by
    have h1 := toTreeW_depth c x []
    have h2 := toTreeList_depth c xs
    simp only [toTreeList, Tree.depthList, heightList]; omega
end

end MsVerif.Display

/-
The node TABLE that `Tree::from_str` builds for a printed tree is the pre-order table of that tree
(names, bracket kinds, child counts): the missing half of the expression-grammar round trip.

Method: an abstract machine `astep` over the list of (name, brackets, child count) triples is
simulated by the real builder step whenever the latter succeeds (`buildStep_sim`); on the abstract
machine the run over `print t` is computed by induction over the tree (`aloop_tree`); success of the
real builder on printed trees is `printed_tree_accepted_partial` (Thm/C11.lean).
-/
import MsVerif.Lemmas.ExprPrint

namespace MsVerif.Expr

abbrev K := List Char × Parens × Nat

def key (n : Node) : K := (n.name, n.parens, n.nChildren)

def bumpK (k : K) : K := (k.1, k.2.1, k.2.2 + 1)

structure AS where
  keys : List K
  stack : List Nat
  cur : Option Nat
deriving Repr

def bumpHead (keys : List K) (stack : List Nat) : List K :=
  match stack with
  | [] => keys
  | i :: _ => keys.modify i bumpK

def aflush (s : Array Char) (pos : Nat) (a : AS) : Option AS :=
  match a.cur with
  | none => some a
  | some np =>
    match slice s np pos with
    | none => none
    | some nm => some { a with keys := a.keys ++ [(nm, Parens.none, 0)] }

def astep (s : Array Char) (a : AS) (pos : Nat) (ch : Char) : Option AS :=
  if ch = '(' ∨ ch = '{' then
    match a.cur with
    | none => none
    | some np =>
      match slice s np pos with
      | none => none
      | some nm =>
        let keys1 := a.keys ++ [(nm, if ch = '(' then Parens.round else Parens.curly, 0)]
        let stack1 := a.keys.length :: a.stack
        some { keys := bumpHead keys1 stack1, stack := stack1, cur := some (pos + 1) }
  else if ch = ',' then
    match aflush s pos a with
    | none => none
    | some a1 => some { a1 with keys := bumpHead a1.keys a1.stack, cur := some (pos + 1) }
  else if ch = ')' ∨ ch = '}' then
    match aflush s pos a with
    | none => none
    | some a1 => some { a1 with cur := none, stack := a1.stack.tail }
  else some a

def aloop (s : Array Char) : Nat → List Char → AS → Option AS
  | _, [], a => some a
  | pos, ch :: tail, a =>
    match astep s a pos ch with
    | none => none
    | some a' => aloop s (pos + 1) tail a'

/-! ### list helpers -/

theorem map_modify_key (l : List Node) (i : Nat) (f : Node → Node) (hf : ∀ n, key (f n) = bumpK (key n)) :
    (l.modify i f).map key = (l.map key).modify i bumpK := by
  induction l generalizing i with
  | nil => simp
  | cons x xs ih =>
    cases i with
    | zero => simp [hf]
    | succ j => simp [ih j]

theorem map_modify_key_id (l : List Node) (i : Nat) (f : Node → Node) (hf : ∀ n, key (f n) = key n) :
    (l.modify i f).map key = l.map key := by
  induction l generalizing i with
  | nil => simp
  | cons x xs ih =>
    cases i with
    | zero => simp [hf]
    | succ j => simp [ih j]

theorem modify_append_left {α} (l r : List α) (i : Nat) (f : α → α) (h : i < l.length) :
    (l ++ r).modify i f = l.modify i f ++ r := by
  induction l generalizing i with
  | nil => simp at h
  | cons x xs ih =>
    cases i with
    | zero => simp
    | succ j => simp only [List.cons_append, List.modify_succ_cons]; rw [ih j (by simpa using h)]

theorem modify_append_at {α} (l : List α) (x : α) (r : List α) (f : α → α) :
    (l ++ x :: r).modify l.length f = l ++ f x :: r := by
  induction l with
  | nil => simp
  | cons y ys ih => simp only [List.cons_append, List.length_cons, List.modify_succ_cons]; rw [ih]

theorem modify_modify_same {α} (l : List α) (i : Nat) (f g : α → α) :
    (l.modify i f).modify i g = l.modify i (g ∘ f) := by
  induction l generalizing i with
  | nil => simp
  | cons x xs ih =>
    cases i with
    | zero => simp
    | succ j => simp only [List.modify_succ_cons]; rw [ih j]

/-! ### the real builder step is simulated by the abstract step -/

def absSt (st : BSt) : AS := ⟨st.nodes.toList.map key, st.stack, st.current.map (·.namePos)⟩

/-- a pending node has no brackets and no children yet -/
def Inv (st : BSt) : Prop := ∀ c, st.current = some c → c.parens = Parens.none ∧ c.nChildren = 0

theorem newNode_sim {nodes nodes' : Array Node} {stack : List Nat} {pos : Nat} {nn : Node}
    (h : newNode nodes stack pos = .ok (nodes', nn)) :
    nodes'.toList.map key = bumpHead (nodes.toList.map key) stack
      ∧ nn.namePos = pos ∧ nn.parens = Parens.none ∧ nn.nChildren = 0 := by
  unfold newNode at h
  cases stack with
  | nil =>
    simp only [List.head?_nil, pure, Except.pure, Except.ok.injEq, Prod.mk.injEq] at h
    obtain ⟨h1, h2⟩ := h
    subst h1; subst h2
    simp [bumpHead, Node.null]
  | cons idx tl =>
    simp only [List.head?_cons] at h
    by_cases hi : idx < nodes.size
    · simp only [hi, if_true, pure, Except.pure, Except.ok.injEq, Prod.mk.injEq] at h
      obtain ⟨h1, h2⟩ := h
      subst h1; subst h2
      refine ⟨?_, by simp [Node.null], by simp [Node.null], by simp [Node.null]⟩
      simp only [bumpHead, Array.toList_modify]
      exact map_modify_key _ _ _ (fun n => by simp [key, bumpK])
    · simp [hi, throw, throwThe, MonadExceptOf.throw] at h

theorem linkSibling_sim {nodes nodes' : Array Node} {ls : Option Nat}
    (h : linkSibling nodes ls = .ok nodes') : nodes'.toList.map key = nodes.toList.map key := by
  unfold linkSibling at h
  cases ls with
  | none => simp only [pure, Except.pure, Except.ok.injEq] at h; rw [h]
  | some i =>
    by_cases hi : i < nodes.size
    · simp only [hi, if_true, pure, Except.pure, Except.ok.injEq] at h
      subst h
      simp only [Array.toList_modify]
      exact map_modify_key_id _ _ _ (fun n => by simp [key])
    · simp [hi, throw, throwThe, MonadExceptOf.throw] at h

theorem flushCurrent_sim {s : Array Char} {pos : Nat} {st st1 : BSt} (hinv : Inv st)
    (h : flushCurrent s pos st = .ok st1) :
    aflush s pos (absSt st) = some { absSt st with keys := st1.nodes.toList.map key }
      ∧ st1.stack = st.stack ∧ st1.current = st.current := by
  unfold flushCurrent at h
  unfold aflush absSt
  cases hc : st.current with
  | none =>
    rw [hc] at h
    simp only [pure, Except.pure, Except.ok.injEq] at h
    subst h
    simp [hc]
  | some cur =>
    rw [hc] at h
    simp only [Option.map_some]
    cases hsl : slice s cur.namePos pos with
    | none => simp [hsl, throw, throwThe, MonadExceptOf.throw] at h
    | some nm =>
      simp only [hsl, pure, Except.pure, Except.ok.injEq] at h
      subst h
      obtain ⟨hp, hn⟩ := hinv cur hc
      simp [BSt.pushNode, key, hp, hn, hc]

theorem buildStep_sim {s : Array Char} {st st' : BSt} {pos : Nat} {ch : Char} (hinv : Inv st)
    (h : buildStep s st pos ch = .ok st') :
    astep s (absSt st) pos ch = some (absSt st') ∧ Inv st' := by
  unfold buildStep at h
  unfold astep
  by_cases ho : ch = '(' ∨ ch = '{'
  · simp only [ho, if_true] at h ⊢
    cases hc : st.current with
    | none => rw [hc] at h; simp [throw, throwThe, MonadExceptOf.throw] at h
    | some cur =>
      rw [hc] at h
      dsimp only at h
      have hcur : (absSt st).cur = some cur.namePos := by simp [absSt, hc]
      rw [hcur]
      simp only
      cases hsl : slice s cur.namePos pos with
      | none => rw [hsl] at h; simp [throw, throwThe, MonadExceptOf.throw] at h
      | some nm =>
        rw [hsl] at h
        simp only at h ⊢
        cases hn : newNode (st.pushNode { cur with name := nm, parens := if ch = '(' then Parens.round else Parens.curly }).nodes
            (st.nodes.size :: st.stack) (pos + 1) with
        | error e => rw [hn] at h; simp [throw, throwThe, MonadExceptOf.throw] at h
        | ok r =>
          obtain ⟨nodes, nn⟩ := r
          rw [hn] at h
          simp only [pure, Except.pure, Except.ok.injEq] at h
          subst h
          obtain ⟨hk, hnp, hpar, hnc⟩ := newNode_sim hn
          obtain ⟨hp0, hn0⟩ := hinv cur hc
          refine ⟨?_, ?_⟩
          · simp only [absSt, Option.map_some, hnp]
            congr 1
            simp only [AS.mk.injEq, and_true]
            refine ⟨?_, by simp⟩
            rw [hk]
            simp [BSt.pushNode, key, hn0]
          · intro c hc'
            simp only [Option.some.injEq] at hc'
            subst hc'
            exact ⟨hpar, hnc⟩
  · simp only [ho, if_false] at h ⊢
    by_cases hcm : ch = ','
    · simp only [hcm, if_true] at h ⊢
      cases hf : flushCurrent s pos st with
      | error e => rw [hf] at h; simp [throw, throwThe, MonadExceptOf.throw] at h
      | ok st1 =>
        rw [hf] at h
        obtain ⟨hfl, hstk, hcur⟩ := flushCurrent_sim hinv hf
        rw [hfl]
        simp only at h ⊢
        cases hl : lastSibOf st1.nodes st1.stack with
        | error e => rw [hl] at h; simp [throw, throwThe, MonadExceptOf.throw] at h
        | ok ls =>
          rw [hl] at h
          simp only at h
          cases hk : linkSibling st1.nodes ls with
          | error e => rw [hk] at h; simp [throw, throwThe, MonadExceptOf.throw] at h
          | ok nodes1 =>
            rw [hk] at h
            simp only at h
            cases hn : newNode nodes1 st1.stack (pos + 1) with
            | error e => rw [hn] at h; simp [throw, throwThe, MonadExceptOf.throw] at h
            | ok r =>
              obtain ⟨nodes, nn⟩ := r
              rw [hn] at h
              simp only [pure, Except.pure, Except.ok.injEq] at h
              subst h
              obtain ⟨hkk, hnp, hpar, hnc⟩ := newNode_sim hn
              have hls := linkSibling_sim hk
              refine ⟨?_, ?_⟩
              · simp only [absSt, Option.map_some, hnp, hkk, hls, hstk]
              · intro c hc'
                simp only [Option.some.injEq] at hc'
                subst hc'
                exact ⟨hpar, hnc⟩
    · simp only [hcm, if_false] at h ⊢
      by_cases hcl : ch = ')' ∨ ch = '}'
      · simp only [hcl, if_true] at h ⊢
        cases hf : flushCurrent s pos st with
        | error e => rw [hf] at h; simp [throw, throwThe, MonadExceptOf.throw] at h
        | ok st1 =>
          rw [hf] at h
          obtain ⟨hfl, hstk, hcur⟩ := flushCurrent_sim hinv hf
          rw [hfl]
          simp only [pure, Except.pure, Except.ok.injEq] at h
          subst h
          refine ⟨?_, ?_⟩
          · simp [absSt, hstk]
          · intro c hc'; simp at hc'
      · simp only [hcl, if_false, pure, Except.pure, Except.ok.injEq] at h ⊢
        subst h
        exact ⟨rfl, hinv⟩

theorem buildLoop_sim {s : Array Char} : ∀ (cs : List Char) (pos : Nat) (st st' : BSt), Inv st →
    buildLoop s pos cs st = .ok st' → aloop s pos cs (absSt st) = some (absSt st') ∧ Inv st'
  | [], pos, st, st', hinv, h => by
    simp only [buildLoop, pure, Except.pure, Except.ok.injEq] at h
    subst h
    exact ⟨rfl, hinv⟩
  | ch :: tail, pos, st, st', hinv, h => by
    simp only [buildLoop] at h
    cases hs : buildStep s st pos ch with
    | error e => rw [hs] at h; simp [throw, throwThe, MonadExceptOf.throw] at h
    | ok st1 =>
      rw [hs] at h
      obtain ⟨ha, hinv1⟩ := buildStep_sim hinv hs
      simp only [aloop, ha]
      exact buildLoop_sim tail (pos + 1) st1 st' hinv1 h

end MsVerif.Expr

namespace MsVerif.Expr

/-! ### the abstract run over a printed tree -/

mutual
/-- the pre-order table of a tree: (name, brackets, number of children) -/
def flat : Tree → List K
  | .node name p cs => (name, p, cs.length) :: flatList cs
def flatList : List Tree → List K
  | [] => []
  | t :: ts => flat t ++ flatList ts
end

def bumpBy (n : Nat) (k : K) : K := (k.1, k.2.1, k.2.2 + n)

theorem slice_mid (s : Array Char) (pre name rest : List Char) (h : s.toList = pre ++ (name ++ rest)) :
    slice s pre.length (pre.length + name.length) = some name := by
  unfold slice
  have hsz : s.size = pre.length + (name.length + rest.length) := by
    rw [← Array.length_toList, h]; simp
  have hc : pre.length ≤ pre.length + name.length ∧ pre.length + name.length ≤ s.size := by omega
  simp only [hc, and_self, if_true, Array.toList_extract, h, List.extract_eq_take_drop]
  congr 1
  have e : pre.length + name.length - pre.length = name.length := by omega
  rw [e, List.drop_left' rfl, List.take_left' rfl]

theorem astep_plain (s : Array Char) (a : AS) (pos : Nat) (c : Char) (h : ¬ special c) :
    astep s a pos c = some a := by
  unfold special at h
  unfold astep
  have h1 : ¬ (c = '(' ∨ c = '{') := fun e => h (by rcases e with e | e <;> simp [e])
  have h2 : ¬ c = ',' := fun e => h (by simp [e])
  have h3 : ¬ (c = ')' ∨ c = '}') := fun e => h (by rcases e with e | e <;> simp [e])
  simp [h1, h2, h3]

theorem aloop_name (s : Array Char) (name : List Char) (hn : NameOk name) (pos : Nat) (rest : List Char)
    (a : AS) : aloop s pos (name ++ rest) a = aloop s (pos + name.length) rest a := by
  induction name generalizing pos with
  | nil => simp
  | cons c cs ih =>
    have hc := (hn c List.mem_cons_self).2
    simp only [List.cons_append, aloop, astep_plain s a pos c hc]
    rw [ih (fun d hd => hn d (List.mem_cons_of_mem _ hd))]
    simp only [List.length_cons]; congr 1; omega

theorem aloop_cons {s : Array Char} {a a' : AS} {pos : Nat} {ch : Char} {tail : List Char}
    (h : astep s a pos ch = some a') : aloop s pos (ch :: tail) a = aloop s (pos + 1) tail a' := by
  simp only [aloop, h]

theorem openCh_par (p : Parens) (hp : p ≠ .none) :
    (openCh p = '(' ∨ openCh p = '{') ∧ (if openCh p = '(' then Parens.round else Parens.curly) = p := by
  cases p with
  | none => exact absurd rfl hp
  | round => simp [openCh]
  | curly => simp [openCh]

theorem closeCh_cls (p : Parens) :
    ¬ (closeCh p = '(' ∨ closeCh p = '{') ∧ ¬ closeCh p = ',' ∧ (closeCh p = ')' ∨ closeCh p = '}') := by
  cases p <;> simp [closeCh]

theorem bumpBy_zero : bumpBy 0 = id := by funext k; simp [bumpBy]

theorem bumpBy_comp (n : Nat) : bumpBy n ∘ bumpK = bumpBy (n + 1) := by
  funext k; simp [bumpBy, bumpK, Nat.add_comm, Nat.add_left_comm]

mutual
theorem aloop_tree (s : Array Char) (t : Tree) (hw : t.WF) (pre rest : List Char)
    (hs : s.toList = pre ++ (t.print ++ rest)) (a : AS) (hc : a.cur = some pre.length) :
    ∃ a' c', aloop s pre.length (t.print ++ rest) a = aloop s (pre.length + t.print.length) rest a'
      ∧ aflush s (pre.length + t.print.length) a' = some ⟨a.keys ++ flat t, a.stack, c'⟩ := by
  match t, hw with
  | .node name p cs, hw =>
    unfold Tree.WF at hw
    obtain ⟨hn, hpc, hcs⟩ := hw
    by_cases hp : p = .none
    · have hce := hpc.mp hp
      subst hp; subst hce
      simp only [Tree.print] at hs ⊢
      refine ⟨a, a.cur, aloop_name s name hn _ rest a, ?_⟩
      unfold aflush
      rw [hc]
      simp only [slice_mid s pre name rest hs, flat, flatList, List.length_nil]
    · have hne : cs ≠ [] := fun e => hp (hpc.mpr e)
      rw [print_node name p cs hp] at hs ⊢
      have e1 : name ++ openCh p :: (Tree.printList cs ++ [closeCh p]) ++ rest
          = name ++ (openCh p :: (Tree.printList cs ++ closeCh p :: rest)) := by simp
      rw [e1] at hs ⊢
      obtain ⟨hop, hpar⟩ := openCh_par p hp
      -- the opening bracket
      have hstep : astep s a (pre.length + name.length) (openCh p)
          = some ⟨a.keys ++ [(name, p, 1)], a.keys.length :: a.stack, some (pre.length + name.length + 1)⟩ := by
        unfold astep
        simp only [hop, if_true, hc, slice_mid s pre name _ hs, hpar]
        congr 1
        simp only [AS.mk.injEq, and_true]
        simp only [bumpHead]
        rw [modify_append_at]
        simp [bumpK]
      rw [aloop_name s name hn, aloop_cons hstep]
      -- the children
      have hs1 : s.toList = (pre ++ name ++ [openCh p]) ++ (Tree.printList cs ++ (closeCh p :: rest)) := by
        rw [hs]; simp
      have hl1 : (pre ++ name ++ [openCh p]).length = pre.length + name.length + 1 := by
        simp only [List.length_append, List.length_cons, List.length_nil]
      obtain ⟨a1, c1, hrun, hfl⟩ := aloop_list s cs hne hcs (pre ++ name ++ [openCh p]) (closeCh p :: rest) hs1
        ⟨a.keys ++ [(name, p, 1)], a.keys.length :: a.stack, some (pre.length + name.length + 1)⟩
        a.keys.length a.stack rfl (by simp) (by rw [hl1])
      rw [hl1] at hrun hfl
      rw [hrun]
      -- the closing bracket
      obtain ⟨hc1, hc2, hc3⟩ := closeCh_cls p
      have hk : (a.keys ++ [(name, p, 1)]).modify a.keys.length (bumpBy (cs.length - 1)) ++ flatList cs
          = a.keys ++ flat (.node name p cs) := by
        rw [modify_append_at]
        have : cs.length ≠ 0 := fun e => hne (List.eq_nil_of_length_eq_zero e)
        have e : 1 + (cs.length - 1) = cs.length := by omega
        simp [flat, bumpBy, e]
      have hclose : astep s a1 (pre.length + name.length + 1 + (Tree.printList cs).length) (closeCh p)
          = some ⟨a.keys ++ flat (.node name p cs), a.stack, none⟩ := by
        unfold astep
        simp only [hc1, hc2, hc3, if_false, if_true, hfl, hk, List.tail_cons]
      rw [aloop_cons hclose]
      refine ⟨⟨a.keys ++ flat (.node name p cs), a.stack, none⟩, none, ?_, ?_⟩
      · congr 1
        simp only [List.length_append, List.length_cons, List.length_nil]; omega
      · simp [aflush]
theorem aloop_list (s : Array Char) (cs : List Tree) (hne : cs ≠ []) (hw : Tree.WFList cs)
    (pre rest : List Char) (hs : s.toList = pre ++ (Tree.printList cs ++ rest)) (a : AS)
    (i : Nat) (stk : List Nat) (hstk : a.stack = i :: stk) (hi : i < a.keys.length)
    (hc : a.cur = some pre.length) :
    ∃ a' c', aloop s pre.length (Tree.printList cs ++ rest) a
        = aloop s (pre.length + (Tree.printList cs).length) rest a'
      ∧ aflush s (pre.length + (Tree.printList cs).length) a'
        = some ⟨a.keys.modify i (bumpBy (cs.length - 1)) ++ flatList cs, a.stack, c'⟩ := by
  match cs, hne, hw with
  | [t], _, hw =>
    unfold Tree.WFList at hw
    simp only [Tree.printList] at hs ⊢
    obtain ⟨a', c', h1, h2⟩ := aloop_tree s t hw.1 pre rest hs a hc
    refine ⟨a', c', h1, ?_⟩
    rw [h2]
    simp [bumpBy_zero, flatList, List.modify_id]
  | t :: t2 :: ts, _, hw =>
    unfold Tree.WFList at hw
    obtain ⟨hw1, hw2⟩ := hw
    have hpl : Tree.printList (t :: t2 :: ts) = t.print ++ ',' :: Tree.printList (t2 :: ts) := by
      simp [Tree.printList]
    rw [hpl] at hs ⊢
    have e1 : t.print ++ ',' :: Tree.printList (t2 :: ts) ++ rest
        = t.print ++ (',' :: (Tree.printList (t2 :: ts) ++ rest)) := by simp
    rw [e1] at hs ⊢
    obtain ⟨a1, c1, hrun1, hfl1⟩ := aloop_tree s t hw1 pre _ hs a hc
    rw [hrun1]
    -- the comma
    have hcomma : astep s a1 (pre.length + t.print.length) ','
        = some ⟨a.keys.modify i bumpK ++ flat t, a.stack, some (pre.length + t.print.length + 1)⟩ := by
      unfold astep
      have h1 : ¬ (',' = '(' ∨ ',' = '{') := by decide
      simp only [h1, if_false, if_true, hfl1]
      congr 1
      simp only [AS.mk.injEq, and_true, true_and]
      rw [hstk]
      simp only [bumpHead]
      exact modify_append_left _ _ _ _ hi
    rw [aloop_cons hcomma]
    have hs2 : s.toList = (pre ++ t.print ++ [',']) ++ (Tree.printList (t2 :: ts) ++ rest) := by
      rw [hs]; simp
    have hl2 : (pre ++ t.print ++ [',']).length = pre.length + t.print.length + 1 := by
      simp only [List.length_append, List.length_cons, List.length_nil]
    obtain ⟨a2, c2, hrun2, hfl2⟩ := aloop_list s (t2 :: ts) (by simp) hw2 (pre ++ t.print ++ [',']) rest hs2
      ⟨a.keys.modify i bumpK ++ flat t, a.stack, some (pre.length + t.print.length + 1)⟩ i stk hstk
      (by simp only [List.length_append, List.length_modify]; omega) (by rw [hl2])
    rw [hl2] at hrun2 hfl2
    rw [hrun2]
    refine ⟨a2, c2, ?_, ?_⟩
    · congr 1
      simp only [List.length_append, List.length_cons]; omega
    · have epos : pre.length + (t.print ++ ',' :: Tree.printList (t2 :: ts)).length
          = pre.length + t.print.length + 1 + (Tree.printList (t2 :: ts)).length := by
        simp only [List.length_append, List.length_cons]; omega
      rw [epos, hfl2]
      congr 1
      simp only [AS.mk.injEq, and_true]
      have hi' : i < (a.keys.modify i bumpK).length := by simp only [List.length_modify]; exact hi
      rw [modify_append_left _ _ _ _ hi', modify_modify_same, bumpBy_comp]
      simp [flatList, List.append_assoc]
end

end MsVerif.Expr

/-
C10/T3: two substitutions that each stay inside the character's class (group of 32) change
exactly two 5-bit symbols; with the table `Lpow_ge_32` they are detected whenever the two
positions are at most 765 characters apart.
-/
import MsVerif.Lemmas.ChecksumTable
import MsVerif.Lemmas.ChecksumString
import MsVerif.Spec.Bch

namespace MsVerif.Checksum

/-- two engines with identical class accumulators whose residues differ by `δ` -/
structure Tw (a b : Engine) (δ : W) : Prop where
  cnt : a.clscount = b.clscount
  cls : a.cls = b.cls
  wa : WF a
  wb : WF b
  res : a.residue ^^^ b.residue = δ

def stepSyms (cnt : Nat) : Nat := if cnt + 1 = 3 then 2 else 1

theorem Tw_next {a b : Engine} {δ : W} (h : Tw a b δ) {pos : Nat} (hp : pos < 95) :
    Tw (next a pos) (next b pos) (Lpow (stepSyms a.clscount) δ) := by
  have hlo : pos % 32 < 32 := Nat.mod_lt _ (by decide)
  have ca := cls_bound27 h.wa hp
  have hx := xor_inputFe a.residue b.residue (pos % 32) hlo
  rw [h.res] at hx
  refine ⟨?_, ?_, WF_next h.wa hp, WF_next h.wb hp, ?_⟩
  · unfold next; rw [h.cnt]; by_cases h3 : b.clscount + 1 = 3 <;> simp [h3]
  · unfold next; rw [h.cnt, h.cls]; by_cases h3 : b.clscount + 1 = 3 <;> simp [h3]
  · unfold next stepSyms
    rw [← h.cnt, ← h.cls]
    by_cases h3 : a.clscount + 1 = 3
    · simp only [h3, if_true]
      rw [xor_inputFe _ _ _ (by omega), hx]; rfl
    · simp only [h3, if_false]; rw [hx]; rfl

theorem next_clscount (a : Engine) (pos : Nat) :
    (next a pos).clscount = if a.clscount + 1 = 3 then 0 else a.clscount + 1 := by
  unfold next; by_cases h3 : a.clscount + 1 = 3 <;> simp [h3]

theorem Tw_list {a b : Engine} {δ : W} (h : Tw a b δ) {s : List Char} (hs : AllValid s) :
    ∃ a' b', a.inputUnchecked s = some a' ∧ b.inputUnchecked s = some b' ∧
      Tw a' b' (Lpow (s.length + (a.clscount + s.length) / 3) δ) := by
  induction s generalizing a b δ with
  | nil =>
    refine ⟨a, b, rfl, rfl, ?_⟩
    have : a.clscount < 3 := h.wa.1
    have : (a.clscount + 0) / 3 = 0 := by omega
    simp only [List.length_nil, this]; exact h
  | cons c cs ih =>
    obtain ⟨hc, hcs⟩ := hs.of_cons
    obtain ⟨p, hp, hlt⟩ := pos_of_valid c hc
    simp only [Engine.inputUnchecked, inputByte_eq h.wa hp hlt, inputByte_eq h.wb hp hlt]
    obtain ⟨a', b', ha, hb, ht⟩ := ih (Tw_next h hlt) hcs
    refine ⟨a', b', ha, hb, ?_⟩
    rw [← Lpow_add] at ht
    have hcnt : a.clscount < 3 := h.wa.1
    have e : cs.length + ((next a p).clscount + cs.length) / 3 + stepSyms a.clscount
        = (c :: cs).length + (a.clscount + (c :: cs).length) / 3 := by
      rw [next_clscount]; unfold stepSyms
      simp only [List.length_cons]
      by_cases h3 : a.clscount + 1 = 3
      · simp only [h3, if_true]; omega
      · simp only [h3, if_false]; omega
    rw [e] at ht; exact ht

/-- first same-class substitution: the engines become twins whose residues differ by `L^j e` -/
theorem Tw_diverge {en : Engine} (w : WF en) {p q : Nat} (hp : p < 95) (hq : q < 95)
    (hcls : p / 32 = q / 32) (hne : p ≠ q) :
    ∃ e j, e.toNat ≠ 0 ∧ e.toNat < 32 ∧ j ≤ 1 ∧ Tw (next en p) (next en q) (Lpow j e) := by
  have hlo : p % 32 < 32 := Nat.mod_lt _ (by decide)
  have hlo' : q % 32 < 32 := Nat.mod_lt _ (by decide)
  have hl : p % 32 ≠ q % 32 := by omega
  have ca := cls_bound27 w hp
  have hx : inputFe en.residue (p % 32) ^^^ inputFe en.residue (q % 32)
      = BitVec.ofNat 40 (p % 32) ^^^ BitVec.ofNat 40 (q % 32) := by
    rw [inputFe_eq _ _ hlo, inputFe_eq _ _ hlo', xor4, BitVec.xor_self, BitVec.zero_xor]
  refine ⟨BitVec.ofNat 40 (p % 32) ^^^ BitVec.ofNat 40 (q % 32),
    if en.clscount + 1 = 3 then 1 else 0, ?_, ofNat_xor_lt _ _ hlo hlo', by split <;> omega, ?_⟩
  · intro hz
    have : BitVec.ofNat 40 (p % 32) ^^^ BitVec.ofNat 40 (q % 32) = 0#40 :=
      BitVec.eq_of_toNat_eq (by simpa using hz)
    exact ofNat_ne hlo hlo' hl (BitVec.xor_eq_zero_iff.mp this)
  · refine ⟨?_, ?_, WF_next w hp, WF_next w hq, ?_⟩
    · unfold next; by_cases h3 : en.clscount + 1 = 3 <;> simp [h3]
    · unfold next; rw [hcls]; by_cases h3 : en.clscount + 1 = 3 <;> simp [h3]
    · unfold next; rw [hcls]
      by_cases h3 : en.clscount + 1 = 3
      · simp only [h3, if_true]
        rw [xor_inputFe _ _ _ (by omega), hx]; rfl
      · simp only [h3, if_false]; rw [hx]; rfl

/-- second same-class substitution on twins: separated as soon as `L δ` is not a 5-bit value -/
theorem Sep_of_Tw {a b : Engine} {δ : W} (h : Tw a b δ) {p q : Nat} (hp : p < 95) (hq : q < 95)
    (hcls : p / 32 = q / 32) (hbig : 32 ≤ (L δ).toNat) : Sep (next a p) (next b q) := by
  have hlo : p % 32 < 32 := Nat.mod_lt _ (by decide)
  have hlo' : q % 32 < 32 := Nat.mod_lt _ (by decide)
  have ca := cls_bound27 h.wb hq
  have hr : inputFe a.residue (p % 32) ≠ inputFe b.residue (q % 32) := by
    intro e
    rw [inputFe_eq _ _ hlo, inputFe_eq _ _ hlo'] at e
    have e2 := xor_swap e
    rw [← L_xor, h.res] at e2
    have := ofNat_xor_lt _ _ hlo hlo'
    rw [← e2] at this
    omega
  refine ⟨?_, WF_next h.wa hp, WF_next h.wb hq, Or.inl ?_⟩
  · unfold next; rw [h.cnt]; by_cases h3 : b.clscount + 1 = 3 <;> simp [h3]
  · unfold next; rw [h.cnt, h.cls, hcls]
    by_cases h3 : b.clscount + 1 = 3
    · simp only [h3, if_true, true_and]
      exact fun e => hr (inputFe_inj (by omega) e)
    · simp only [h3, if_false, true_and]; exact hr

/-- class (group of 32 in INPUT_CHARSET order) of a character: 0, 1 or 2 -/
def classOf (c : Char) : Nat := ((charMap? c.toNat).getD 0) / 32

/-- the core of T3 -/
theorem checksum_differs_two {pre mid post : List Char} {x x' y y' : Char}
    (hpre : AllValid pre) (hmid : AllValid mid) (hpost : AllValid post)
    (hx : validChar x = true) (hx' : validChar x' = true) (hy : validChar y = true)
    (hy' : validChar y' = true) (hnx : x ≠ x') (hny : y ≠ y')
    (hcx : classOf x = classOf x') (hcy : classOf y = classOf y') (hlen : mid.length ≤ 765) :
    ∃ c1 c2, checksumOf (pre ++ x :: (mid ++ y :: post)) = some c1 ∧
      checksumOf (pre ++ x' :: (mid ++ y' :: post)) = some c2 ∧ c1 ≠ c2 := by
  obtain ⟨en, he, w⟩ := inputUnchecked_valid WF_new hpre
  obtain ⟨p, hp, hpl⟩ := pos_of_valid x hx
  obtain ⟨p', hp', hpl'⟩ := pos_of_valid x' hx'
  obtain ⟨q, hq, hql⟩ := pos_of_valid y hy
  obtain ⟨q', hq', hql'⟩ := pos_of_valid y' hy'
  have hpp : p ≠ p' := by intro e; apply hnx; apply pos_inj hx hx'; rw [hp, hp', e]
  have hqq : q ≠ q' := by intro e; apply hny; apply pos_inj hy hy'; rw [hq, hq', e]
  have hcp : p / 32 = p' / 32 := by simpa [classOf, hp, hp'] using hcx
  have hcq : q / 32 = q' / 32 := by simpa [classOf, hq, hq'] using hcy
  obtain ⟨e, j, he0, he32, hj, tw0⟩ := Tw_diverge w hpl hpl' hcp hpp
  obtain ⟨a1, b1, ha1, hb1, tw1⟩ := Tw_list tw0 hmid
  rw [← Lpow_add] at tw1
  have hc1 : (next en p).clscount < 3 := (WF_next w hpl).1
  have hbig : 32 ≤ (L (Lpow (mid.length + ((next en p).clscount + mid.length) / 3 + j) e)).toNat := by
    have := Lpow_ge_32 e he0 he32
      (mid.length + ((next en p).clscount + mid.length) / 3 + j + 1) (by omega) (by omega)
    exact this
  have sep := Sep_of_Tw tw1 hql hql' hcq hbig
  obtain ⟨a', b', ha, hb, sep'⟩ := Sep_inputUnchecked sep hpost
  obtain ⟨ra, rb, hra, hrb, hr⟩ := Sep_final sep'
  have v1 : AllValid (pre ++ x :: (mid ++ y :: post)) :=
    hpre.append (AllValid.cons hx (hmid.append (AllValid.cons hy hpost)))
  have v2 : AllValid (pre ++ x' :: (mid ++ y' :: post)) :=
    hpre.append (AllValid.cons hx' (hmid.append (AllValid.cons hy' hpost)))
  have r1 : Engine.new.inputUnchecked (pre ++ x :: (mid ++ y :: post)) = some a' := by
    rw [inputUnchecked_append, he]
    simp only [Option.bind, Engine.inputUnchecked, inputByte_eq w hp hpl]
    rw [inputUnchecked_append, ha1]
    simp only [Option.bind, Engine.inputUnchecked, inputByte_eq tw1.wa hq hql]; exact ha
  have r2 : Engine.new.inputUnchecked (pre ++ x' :: (mid ++ y' :: post)) = some b' := by
    rw [inputUnchecked_append, he]
    simp only [Option.bind, Engine.inputUnchecked, inputByte_eq w hp' hpl']
    rw [inputUnchecked_append, hb1]
    simp only [Option.bind, Engine.inputUnchecked, inputByte_eq tw1.wb hq' hql']; exact hb
  refine ⟨residueChars ra, residueChars rb, ?_, ?_, fun e => hr (residueChars_inj e)⟩
  · unfold checksumOf; rw [input_eq v1, r1]; simp [Engine.checksumChars, hra]
  · unfold checksumOf; rw [input_eq v2, r2]; simp [Engine.checksumChars, hrb]

/-! ## the spec vocabulary "k substitutions" for k = 1 -/

open MsVerif.Spec.Bch in
theorem hamming_zero {α} [DecidableEq α] : ∀ {s t : List α}, s.length = t.length →
    hamming s t = 0 → s = t
  | [], [], _, _ => rfl
  | [], _ :: _, hl, _ => by simp at hl
  | _ :: _, [], hl, _ => by simp at hl
  | a :: as, b :: bs, hl, h => by
    simp only [hamming] at h
    by_cases e : a = b
    · simp only [e, if_true, Nat.zero_add] at h
      rw [e, hamming_zero (by simpa using hl) h]
    · simp only [e, if_false] at h; omega

open MsVerif.Spec.Bch in
theorem hamming_one {α} [DecidableEq α] : ∀ {s t : List α}, s.length = t.length →
    hamming s t = 1 → ∃ i, ∃ hi : i < s.length, ∃ c, s[i] ≠ c ∧ t = s.set i c
  | [], [], _, h => by simp [hamming] at h
  | [], _ :: _, hl, _ => by simp at hl
  | _ :: _, [], hl, _ => by simp at hl
  | a :: as, b :: bs, hl, h => by
    simp only [hamming] at h
    have hl' : as.length = bs.length := by simpa using hl
    by_cases e : a = b
    · simp only [e, if_true, Nat.zero_add] at h
      obtain ⟨i, hi, c, hne, ht⟩ := hamming_one hl' h
      refine ⟨i + 1, by simp only [List.length_cons]; omega, c, ?_, ?_⟩
      · simpa using hne
      · rw [e, ht]; rfl
    · simp only [e, if_false] at h
      have : hamming as bs = 0 := by omega
      have := hamming_zero hl' this
      refine ⟨0, by simp, b, by simpa using e, ?_⟩
      rw [this]; rfl

end MsVerif.Checksum

/-
"The satisfied constraints the interpreter reports satisfy the spending condition": for the model
interpreter, by induction over the AST (typed by the library's type rules, which say where a
fragment leaves its result).  The spending condition is `Spec/MsSem.sem` (the trusted reading of
a miniscript as a policy, C07), evaluated in ANY world that covers the reported constraints:
it can sign for the keys a signature was reported for, knows the preimages reported, and has the
transaction's nLockTime / nSequence.
-/
import MsVerif.Lemmas.InterpTyping
import MsVerif.Model.Interp
import MsVerif.Spec.MsSem

namespace MsVerif.InterpPolicy
open MsVerif Interp InterpSound MsSem

variable {ke : KeyEnv} {ie : IEnv}

/-- a world covers a reported constraint -/
def Covers (ke : KeyEnv) (W : Pol.World) : Constraint → Prop
  | .pk pk _ => ∀ k, ke.ser k = pk → W.canSign k = true
  | .pkh _ pk _ => ∀ k, ke.ser k = pk → W.canSign k = true
  | .hashLock kind hv _ => ∀ h, ke.hashVal kind h = hv → W.preimage (polHash kind) h = true
  | .after _ | .older _ => True

/-- the world has the transaction's lock fields and covers every reported constraint -/
structure WLe (ke : KeyEnv) (ie : IEnv) (cs : List Constraint) (W : Pol.World) : Prop where
  lt : W.nLockTime = ie.lockTime
  sq : W.nSequence = ie.sequence
  cov : ∀ c ∈ cs, Covers ke W c

theorem WLe.left {a b : List Constraint} {W : Pol.World} (h : WLe ke ie (a ++ b) W) : WLe ke ie a W :=
  ⟨h.lt, h.sq, fun c hc => h.cov c (List.mem_append_left _ hc)⟩
theorem WLe.right {a b : List Constraint} {W : Pol.World} (h : WLe ke ie (a ++ b) W) : WLe ke ie b W :=
  ⟨h.lt, h.sq, fun c hc => h.cov c (List.mem_append_right _ hc)⟩
theorem WLe.tail {a : Constraint} {b : List Constraint} {W : Pol.World} (h : WLe ke ie (a :: b) W) :
    WLe ke ie b W := ⟨h.lt, h.sq, fun c hc => h.cov c (List.mem_cons_of_mem _ hc)⟩

/-- a key hash identifies its key among the keys of the script (collision freeness of HASH160 on
the keys involved; `pk_h(K)` commits to `hash160 (ser K)`) -/
def KeyHashFaithful (ke : KeyEnv) (ie : IEnv) : Prop :=
  ∀ k pk, ie.hash160 pk = ke.pkh k → pk = ke.ser k

/-- what the claim means per base type: a `V` fragment that completes has its condition satisfied;
any other fragment leaves a boolean result on top, and `Satisfied` means the condition holds -/
def PolPost (W : Pol.World) (ms : Ms) (b : Base) (a' : AStack) : Prop :=
  match b with
  | .V => sem W ms = true
  | _ => ∃ r st', a' = r :: st' ∧ (r = .sat ∨ r = .dissat) ∧ (r = .sat → sem W ms = true)

theorem PolPost.nonV {W : Pol.World} {ms : Ms} {b : Base} {a' : AStack} (hb : b ≠ .V)
    (h : PolPost W ms b a') :
    ∃ r st', a' = r :: st' ∧ (r = .sat ∨ r = .dissat) ∧ (r = .sat → sem W ms = true) := by
  cases b <;> first | exact h | exact absurd rfl hb

theorem PolPost.mkNonV {W : Pol.World} {ms : Ms} {b : Base} {a' : AStack} (hb : b ≠ .V)
    (h : ∃ r st', a' = r :: st' ∧ (r = .sat ∨ r = .dissat) ∧ (r = .sat → sem W ms = true)) :
    PolPost W ms b a' := by
  cases b <;> first | exact h | exact absurd rfl hb

/-- the condition only depends on the node's children's conditions: transport between nodes with
the same `sem` -/
theorem PolPost.congr {W : Pol.World} {ms ms' : Ms} {b : Base} {a' : AStack}
    (e : sem W ms = true → sem W ms' = true) (h : PolPost W ms b a') : PolPost W ms' b a' := by
  cases b with
  | V => exact e h
  | B => obtain ⟨r, st', h1, h2, h3⟩ := h; exact ⟨r, st', h1, h2, fun x => e (h3 x)⟩
  | K => obtain ⟨r, st', h1, h2, h3⟩ := h; exact ⟨r, st', h1, h2, fun x => e (h3 x)⟩
  | W => obtain ⟨r, st', h1, h2, h3⟩ := h; exact ⟨r, st', h1, h2, fun x => e (h3 x)⟩

/-! ### leaves -/

theorem evalSig_pol {pk : Bytes} {mk : Bytes → Constraint} {st a' : AStack} {cs : List Constraint}
    (h : evalSig ie pk mk st = .ok (a', cs)) :
    ∃ r st', a' = r :: st' ∧ (r = .sat ∨ r = .dissat) ∧ (r = .sat → ∃ sg, cs = [mk sg]) := by
  unfold evalSig at h
  split at h
  · simp at h; exact ⟨.dissat, _, h.1.symm, Or.inr rfl, fun x => by cases x⟩
  · split at h
    · simp at h; exact ⟨.sat, _, h.1.symm, Or.inl rfl, fun _ => ⟨_, h.2.symm⟩⟩
    · simp at h
  · simp at h
  · simp at h

theorem afterOk {n : Nat} {st a' : AStack} {cs : List Constraint}
    (h : evaluateAfter ie n st = .ok (a', cs)) :
    a' = .sat :: st ∧ Pol.cltvOk ie.lockTime n = true := by
  unfold evaluateAfter at h
  split at h
  · simp at h
  · split at h
    · rename_i h1
      split at h
      · rename_i h2
        simp at h
        refine ⟨h.1.symm, ?_⟩
        have t1 : Interp.LOCKTIME_THRESHOLD = 500000000 := rfl
        have t2 : Pol.LOCKTIME_THRESHOLD = 500000000 := rfl
        simp only [Bool.and_eq_true, Bool.or_eq_true, decide_eq_true_eq, ge_iff_le] at h1
        simp only [Pol.cltvOk, Pol.absIsHeight, Bool.and_eq_true, decide_eq_true_eq, beq_iff_eq]
        refine ⟨?_, h2⟩
        rcases h1 with ⟨a, b⟩ | ⟨a, b⟩
        · have e1 : decide (n < Pol.LOCKTIME_THRESHOLD) = true := by simp; omega
          have e2 : decide (ie.lockTime < Pol.LOCKTIME_THRESHOLD) = true := by simp; omega
          rw [e1, e2]
        · have e1 : decide (n < Pol.LOCKTIME_THRESHOLD) = false := by simp; omega
          have e2 : decide (ie.lockTime < Pol.LOCKTIME_THRESHOLD) = false := by simp; omega
          rw [e1, e2]
      · simp at h
    · simp at h

theorem olderOk {n : Nat} {st a' : AStack} {cs : List Constraint} (hseq : ie.sequence < 2 ^ 32)
    (h : evaluateOlder ie n st = .ok (a', cs)) :
    a' = .sat :: st ∧ Pol.csvOk ie.sequence n = true := by
  unfold evaluateOlder at h
  split at h
  · simp at h
  · rename_i h0
    dsimp only at h
    split at h
    · rename_i h1
      simp at h
      refine ⟨h.1.symm, ?_⟩
      have u1 : Interp.SEQ_DISABLE = 2147483648 := rfl
      have u2 : Interp.SEQ_TYPE = 4194304 := rfl
      rw [u1] at h0
      rw [u2] at h1
      simp only [Bool.and_eq_true, decide_eq_true_eq] at h1
      have hd : ¬ (ie.sequence / 2147483648 % 2 = 1) := by simpa using h0
      have e1 : Pol.seqDisabled ie.sequence = false := by
        have : ie.sequence < 2147483648 := by omega
        simp [Pol.seqDisabled, this]
      have e2 : (Pol.relIsTime n == Pol.relIsTime ie.sequence) = true := by
        have := h1.1
        simp only [beq_iff_eq] at this
        simp only [Pol.relIsTime, beq_iff_eq]
        exact this.symm
      have e3 : decide (Pol.relValue n ≤ Pol.relValue ie.sequence) = true := by
        simp [Pol.relValue, h1.2]
      simp [Pol.csvOk, e1, e2, e3]
    · simp at h

/-! ### multi / multi_a: counting the keys a signature was reported for -/

theorem multiLoop_pol {W : Pol.World} {k : Nat} : ∀ (ids : List Key) (nSat : Nat) (st a' : AStack)
    (cs : List Constraint), multiLoop ie k (ids.map ke.ser) nSat st = .ok (a', cs) →
    (∀ c ∈ cs, Covers ke W c) →
    (∃ st', a' = .sat :: st') ∧ k ≤ nSat + (ids.filter W.canSign).length
  | ids, nSat, st, a', cs, h, hc => by
    unfold multiLoop at h
    split at h
    · rename_i hk
      have : nSat = k := by simpa using hk
      split at h
      · simp at h; exact ⟨⟨_, h.1.symm⟩, by omega⟩
      · simp at h
    · cases ids with
      | nil => simp at h
      | cons id rest =>
        simp only [List.map_cons] at h
        unfold evaluateMulti at h
        cases st with
        | nil => simp at h
        | cons e st' =>
          cases e with
          | sat => simp at h
          | dissat => simp at h
          | push sg =>
            simp only at h
            by_cases hv : ie.verifySig (ke.ser id) sg = true
            · simp only [hv, if_true] at h
              cases hr : multiLoop ie k (rest.map ke.ser) (nSat + 1) st' with
              | error e => simp [hr] at h
              | ok p =>
                obtain ⟨a2, cs2⟩ := p
                simp [hr] at h
                obtain ⟨h1, h2⟩ := h
                subst h1; subst h2
                have hcan : W.canSign id = true := hc (.pk (ke.ser id) sg) (by simp) id rfl
                obtain ⟨hs, hcount⟩ := multiLoop_pol rest (nSat + 1) st' a2 cs2 hr
                  (fun c hcm => hc c (List.mem_cons_of_mem _ hcm))
                refine ⟨hs, ?_⟩
                simp only [List.filter_cons, hcan, if_true, List.length_cons]
                omega
            · simp only [hv] at h
              obtain ⟨hs, hcount⟩ := multiLoop_pol rest nSat (.push sg :: st') a' cs (by simpa using h) hc
              refine ⟨hs, ?_⟩
              by_cases hcs : W.canSign id = true <;> simp [List.filter_cons, hcs] <;> omega
termination_by ids => ids.length

theorem evalMulti_pol {W : Pol.World} {k : Nat} {ids : List Key} {st a' : AStack} {cs : List Constraint}
    (h : evalMulti ie k (ids.map ke.ser) st = .ok (a', cs)) (hc : ∀ c ∈ cs, Covers ke W c) :
    ∃ r st', a' = r :: st' ∧ (r = .sat ∨ r = .dissat) ∧
      (r = .sat → decide (k ≤ (ids.filter W.canSign).length) = true) := by
  unfold evalMulti at h
  split at h
  · simp at h
  · split at h
    · split at h
      · simp at h; exact ⟨.dissat, _, h.1.symm, Or.inr rfl, fun x => by cases x⟩
      · simp at h
    · simp at h
    · have e : (ids.map ke.ser).reverse = ids.reverse.map ke.ser := by simp [List.map_reverse]
      rw [e] at h
      obtain ⟨⟨st', hs⟩, hcount⟩ := multiLoop_pol (W := W) ids.reverse 0 _ a' cs h hc
      refine ⟨.sat, st', hs, Or.inl rfl, fun _ => ?_⟩
      have : (ids.reverse.filter W.canSign).length = (ids.filter W.canSign).length := by
        rw [List.filter_reverse, List.length_reverse]
      simp only [decide_eq_true_eq]
      omega

theorem multiALoop_pol {W : Pol.World} {k : Nat} : ∀ (ids : List Key) (nSat : Nat) (st a' : AStack)
    (cs : List Constraint), multiALoop ie k (ids.map ke.ser) nSat st = .ok (a', cs) →
    (∀ c ∈ cs, Covers ke W c) →
    ∃ nT st', a' = (if nT == k then Elem.sat else Elem.dissat) :: st'
      ∧ nT ≤ nSat + (ids.filter W.canSign).length
  | [], nSat, st, a', cs, h, _ => by
    simp [multiALoop] at h
    exact ⟨nSat, st, by rw [← h.1]; simp, by simp⟩
  | id :: rest, nSat, st, a', cs, h, hc => by
    simp only [List.map_cons] at h
    unfold multiALoop at h
    cases hp : evaluatePk ie (ke.ser id) st with
    | error e => simp [hp] at h
    | ok p =>
      obtain ⟨st1, cs1⟩ := p
      cases cs1 with
      | nil =>
        simp only [hp] at h
        cases st1 with
        | nil => simp at h
        | cons _ st2 =>
          obtain ⟨nT, st', ha, hle⟩ := multiALoop_pol rest nSat st2 a' cs (by simpa using h) hc
          refine ⟨nT, st', ha, ?_⟩
          by_cases hcs : W.canSign id = true <;> simp [List.filter_cons, hcs] <;> omega
      | cons c1 cr =>
        simp only [hp] at h
        cases st1 with
        | nil => simp at h
        | cons _ st2 =>
          simp only at h
          cases hr : multiALoop ie k (rest.map ke.ser) (nSat + 1) st2 with
          | error e => simp [hr] at h
          | ok q =>
            obtain ⟨a2, cs2⟩ := q
            simp [hr] at h
            obtain ⟨h1, h2⟩ := h
            subst h1; subst h2
            -- the reported constraint is a signature for this very key
            have hc1 : ∃ sg, c1 = .pk (ke.ser id) sg := by
              unfold evaluatePk at hp
              obtain ⟨r, st', _, _, hsat⟩ := evalSig_pol hp
              unfold evalSig at hp
              split at hp
              · simp at hp
              · split at hp
                · simp at hp; exact ⟨_, hp.2.1.symm⟩
                · simp at hp
              · simp at hp
              · simp at hp
            obtain ⟨sg, hsg⟩ := hc1
            have hcan : W.canSign id = true := hc c1 (by simp) |> fun hcov => by
              rw [hsg] at hcov; exact hcov id rfl
            obtain ⟨nT, st', ha, hle⟩ := multiALoop_pol rest (nSat + 1) st2 a2 cs2 hr
              (fun c hcm => hc c (List.mem_cons_of_mem _ hcm))
            refine ⟨nT, st', ha, ?_⟩
            simp only [List.filter_cons, hcan, if_true, List.length_cons]
            omega

/-! ### the induction -/

mutual
/-- raw key hashes name no key of the world (`sem (.rawPkH _) = false`): the claim is about the
descriptor's AST, where `pk_h` carries its key -/
def NoRaw : Ms → Prop
  | .rawPkH _ => False
  | .alt x | .swap x | .check x | .dupIf x | .verify x | .nonZero x | .zeroNotEqual x => NoRaw x
  | .andV l r | .andB l r | .orB l r | .orC l r | .orD l r | .orI l r => NoRaw l ∧ NoRaw r
  | .andOr a b c => NoRaw a ∧ NoRaw b ∧ NoRaw c
  | .thresh _ xs => NoRawL xs
  | _ => True
def NoRawL : MsList → Prop
  | .nil => True
  | .cons x xs => NoRaw x ∧ NoRawL xs
end

def bit (r : Elem) : Nat := if r = .sat then 1 else 0

theorem interpRest_cons_inv' {x : Ms} {xs : MsList} {nS : Nat} {rPrev : Elem} {st st' : AStack} {nS' : Nat}
    {cs : List Constraint} (hrp : rPrev = .sat ∨ rPrev = .dissat)
    (hi : interpRest ke ie (.cons x xs) nS (rPrev :: st) = .ok (st', nS', cs)) :
    ∃ st1 cs1 cs2, interp ke ie x st = .ok (st1, cs1)
      ∧ interpRest ke ie xs (nS + bit rPrev) st1 = .ok (st', nS', cs2) ∧ cs = cs1 ++ cs2 := by
  rcases hrp with e | e <;> subst e
  · simp only [interpRest] at hi
    cases hx : interp ke ie x st with
    | error er => simp [hx] at hi
    | ok p =>
      obtain ⟨st1, cs1⟩ := p
      cases hr : interpRest ke ie xs (nS + 1) st1 with
      | error er => simp [hx, hr] at hi
      | ok q =>
        obtain ⟨a2, n2, cs2⟩ := q
        simp [hx, hr] at hi
        exact ⟨st1, cs1, cs2, rfl, by simp [bit, hr, hi.1, hi.2.1], hi.2.2.symm⟩
  · simp only [interpRest] at hi
    cases hx : interp ke ie x st with
    | error er => simp [hx] at hi
    | ok p =>
      obtain ⟨st1, cs1⟩ := p
      cases hr : interpRest ke ie xs nS st1 with
      | error er => simp [hx, hr] at hi
      | ok q =>
        obtain ⟨a2, n2, cs2⟩ := q
        simp [hx, hr] at hi
        exact ⟨st1, cs1, cs2, rfl, by simp [bit, hr, hi.1, hi.2.1], hi.2.2.symm⟩

mutual
theorem policy (hf : KeyHashFaithful ke ie) (hseq : ie.sequence < 2 ^ 32) :
    (ms : Ms) → (ty : Ty) → typeOf ms = some ty → NoRaw ms →
    ∀ (st a' : AStack) (cs : List Constraint) (W : Pol.World), interp ke ie ms st = .ok (a', cs) →
      WLe ke ie cs W → PolPost W ms ty.corr.base a'
  | .tru, ty, hty, _, st, a', cs, W, hi, _ => by
    rw [(typeOf_tru hty).1]; simp [interp] at hi
    exact ⟨.sat, st, hi.1.symm, Or.inl rfl, fun _ => by simp [sem]⟩
  | .fls, ty, hty, _, st, a', cs, W, hi, _ => by
    rw [(typeOf_fls hty).1]; simp [interp] at hi
    exact ⟨.dissat, st, hi.1.symm, Or.inr rfl, fun x => by cases x⟩
  | .pkK k, ty, hty, _, st, a', cs, W, hi, hw => by
    rw [typeOf_pkK hty]
    simp only [interp, evaluatePk] at hi
    obtain ⟨r, st', ha, hb, hs⟩ := evalSig_pol hi
    refine ⟨r, st', ha, hb, fun hr => ?_⟩
    obtain ⟨sg, hcs⟩ := hs hr
    have := hw.cov (.pk (ke.ser k) sg) (by simp [hcs]) k rfl
    simpa [sem] using this
  | .pkH k, ty, hty, _, st, a', cs, W, hi, hw => by
    rw [typeOf_pkH hty]
    simp only [interp] at hi
    unfold evaluatePkh at hi
    split at hi
    · rename_i pk st0
      split at hi
      · simp at hi
      · rename_i hne
        split at hi
        · simp at hi
        · obtain ⟨r, st', ha, hb, hs⟩ := evalSig_pol hi
          refine ⟨r, st', ha, hb, fun hr => ?_⟩
          obtain ⟨sg, hcs⟩ := hs hr
          have hpk : pk = ke.ser k := hf k pk (by simpa using hne)
          have := hw.cov (.pkh (ke.pkh k) pk sg) (by simp [hcs]) k hpk.symm
          simpa [sem] using this
    · simp at hi
  | .rawPkH _, _, _, hn, _, _, _, _, _, _ => hn.elim
  | .after n, ty, hty, _, st, a', cs, W, hi, hw => by
    rw [(typeOf_after hty).1]
    simp only [interp] at hi
    obtain ⟨ha, hok⟩ := afterOk hi
    exact ⟨.sat, st, ha, Or.inl rfl, fun _ => by simp [sem, hw.lt, hok]⟩
  | .older n, ty, hty, _, st, a', cs, W, hi, hw => by
    rw [(typeOf_older hty).1]
    simp only [interp] at hi
    obtain ⟨ha, hok⟩ := olderOk hseq hi
    exact ⟨.sat, st, ha, Or.inl rfl, fun _ => by simp [sem, hw.sq, hok]⟩
  | .hash kind n, ty, hty, _, st, a', cs, W, hi, hw => by
    rw [(typeOf_hash hty).1]
    simp only [interp] at hi
    unfold evaluateHash at hi
    split at hi
    · split at hi
      · simp at hi
      · split at hi
        · simp at hi
          obtain ⟨h1, h2⟩ := hi
          subst h2
          refine ⟨.sat, _, h1.symm, Or.inl rfl, fun _ => ?_⟩
          have := hw.cov _ (List.mem_singleton.mpr rfl) n rfl
          simpa [sem] using this
        · simp at hi; exact ⟨.dissat, _, hi.1.symm, Or.inr rfl, fun x => by cases x⟩
    · simp at hi
  | .alt x, ty, hty, hn, st, a', cs, W, hi, hw => by
    obtain ⟨tx, htx, hbx, hb, _⟩ := typeOf_alt hty
    have P := policy hf hseq x tx htx hn st a' cs W (by simpa [interp] using hi) hw
    rw [hbx] at P; rw [hb]
    exact PolPost.congr (ms := x) (b := .W) (fun e => by simpa [sem] using e) (PolPost.mkNonV (by simp) (P.nonV (by simp)))
  | .swap x, ty, hty, hn, st, a', cs, W, hi, hw => by
    obtain ⟨tx, htx, hbx, _, hb, _⟩ := typeOf_swap hty
    have P := policy hf hseq x tx htx hn st a' cs W (by simpa [interp] using hi) hw
    rw [hbx] at P; rw [hb]
    exact PolPost.congr (ms := x) (b := .W) (fun e => by simpa [sem] using e) (PolPost.mkNonV (by simp) (P.nonV (by simp)))
  | .check x, ty, hty, hn, st, a', cs, W, hi, hw => by
    obtain ⟨tx, htx, hbx, hb, _⟩ := typeOf_check hty
    have P := policy hf hseq x tx htx hn st a' cs W (by simpa [interp] using hi) hw
    rw [hbx] at P; rw [hb]
    exact PolPost.congr (ms := x) (b := .B) (fun e => by simpa [sem] using e) (PolPost.mkNonV (by simp) (P.nonV (by simp)))
  | .dupIf x, ty, hty, hn, st, a', cs, W, hi, hw => by
    obtain ⟨tx, htx, hbx, _, hb, _⟩ := typeOf_dupIf hty
    rw [hb]
    simp only [interp] at hi
    split at hi
    · simp at hi; exact ⟨.dissat, _, hi.1.symm, Or.inr rfl, fun e => by cases e⟩
    · rename_i st'
      cases hx : interp ke ie x st' with
      | error e => simp [hx] at hi
      | ok p =>
        obtain ⟨a2, cs2⟩ := p
        simp [hx] at hi
        obtain ⟨h1, h2⟩ := hi; subst h1; subst h2
        have P := policy hf hseq x tx htx hn st' a2 cs2 W hx hw
        rw [hbx] at P
        exact ⟨.sat, a2, rfl, Or.inl rfl, fun _ => by simpa [sem, PolPost] using P⟩
    · simp at hi
    · simp at hi
  | .verify x, ty, hty, hn, st, a', cs, W, hi, hw => by
    obtain ⟨tx, htx, hbx, hb⟩ := typeOf_verify hty
    rw [hb]
    simp only [interp] at hi
    cases hx : interp ke ie x st with
    | error e => simp [hx] at hi
    | ok p =>
      obtain ⟨a2, cs2⟩ := p
      have P := policy hf hseq x tx htx hn st a2 cs2 W hx
      rw [hbx] at P
      simp only [hx] at hi
      cases a2 with
      | nil => simp at hi
      | cons e t =>
        cases e <;> simp at hi
        obtain ⟨h1, h2⟩ := hi; subst h2
        obtain ⟨r, st', h3, _, h5⟩ := P hw
        simp at h3
        simpa [sem, PolPost] using h5 h3.1.symm
  | .nonZero x, ty, hty, hn, st, a', cs, W, hi, hw => by
    obtain ⟨tx, htx, hbx, hb, _⟩ := typeOf_nonZero hty
    rw [hb]
    simp only [interp] at hi
    split at hi
    · simp at hi; exact ⟨.dissat, _, hi.1.symm, Or.inr rfl, fun e => by cases e⟩
    · have P := policy hf hseq x tx htx hn _ a' cs W hi hw
      rw [hbx] at P
      exact PolPost.congr (ms := x) (b := .B) (fun e => by simpa [sem] using e) P
    · simp at hi
  | .zeroNotEqual x, ty, hty, hn, st, a', cs, W, hi, hw => by
    obtain ⟨tx, htx, hbx, hb, _⟩ := typeOf_zeroNotEqual hty
    rw [hb]
    simp only [interp] at hi
    cases hx : interp ke ie x st with
    | error e => simp [hx] at hi
    | ok p =>
      obtain ⟨a2, cs2⟩ := p
      have P := policy hf hseq x tx htx hn st a2 cs2 W hx
      rw [hbx] at P
      simp only [hx] at hi
      cases a2 with
      | nil => simp at hi
      | cons e t =>
        have hcs : cs2 = cs := by cases e <;> simp at hi <;> exact hi.2
        subst hcs
        obtain ⟨r, st', h3, h4, h5⟩ := P hw
        simp at h3
        obtain ⟨h3a, h3b⟩ := h3; subst h3a; subst h3b
        rcases h4 with e1 | e1 <;> subst e1 <;> simp at hi
        · exact ⟨.sat, _, hi.symm, Or.inl rfl, fun _ => by simpa [sem] using h5 rfl⟩
        · exact ⟨.dissat, _, hi.symm, Or.inr rfl, fun e => by cases e⟩
  | .andV l r, ty, hty, hn, st, a', cs, W, hi, hw => by
    obtain ⟨tl, tr, htl, htr, hbl, hb, hnw, _⟩ := typeOf_andV hty
    simp only [interp] at hi
    cases hl : interp ke ie l st with
    | error e => simp [hl] at hi
    | ok p =>
      obtain ⟨a1, cs1⟩ := p
      cases hr : interp ke ie r a1 with
      | error e => simp [hl, hr] at hi
      | ok q =>
        obtain ⟨a2, cs2⟩ := q
        simp [hl, hr] at hi
        obtain ⟨h1, h2⟩ := hi; subst h1; subst h2
        have Pl := policy hf hseq l tl htl hn.1 st a1 cs1 W hl hw.left
        rw [hbl] at Pl
        have Pr := policy hf hseq r tr htr hn.2 a1 a2 cs2 W hr hw.right
        rw [hb]
        have hsl : sem W l = true := Pl
        exact PolPost.congr (ms := r) (fun e => by simp [sem, hsl, e]) Pr
  | .andB l r, ty, hty, hn, st, a', cs, W, hi, hw => by
    obtain ⟨tl, tr, htl, htr, hbl, hbr, hb, _⟩ := typeOf_andB hty
    rw [hb]
    simp only [interp] at hi
    cases hl : interp ke ie l st with
    | error e => simp [hl] at hi
    | ok p =>
      obtain ⟨a1, cs1⟩ := p
      simp only [hl] at hi
      cases a1 with
      | nil => simp at hi
      | cons a st1 =>
        cases hr : interp ke ie r st1 with
        | error e => cases a <;> simp [hr] at hi
        | ok q =>
          obtain ⟨a2, cs2⟩ := q
          cases a2 with
          | nil => cases a <;> simp [hr] at hi
          | cons b st2 =>
            have hcs : cs = cs1 ++ cs2 ∧ a' = (if b == .sat && a == .sat then Elem.sat else .dissat) :: st2 := by
              cases a <;> simp [hr] at hi <;> exact ⟨hi.2.symm, by simp [← hi.1]⟩
            obtain ⟨h1, h2⟩ := hcs; subst h1; subst h2
            have Pl := policy hf hseq l tl htl hn.1 st _ cs1 W hl hw.left
            rw [hbl] at Pl
            have Pr := policy hf hseq r tr htr hn.2 st1 _ cs2 W hr hw.right
            rw [hbr] at Pr
            obtain ⟨rl, _, e1, _, sl⟩ := Pl
            obtain ⟨rr, _, e2, _, sr⟩ := Pr
            simp at e1 e2
            obtain ⟨e1a, _⟩ := e1; obtain ⟨e2a, _⟩ := e2
            subst e1a; subst e2a
            refine ⟨_, st2, rfl, by split <;> simp, fun hs => ?_⟩
            by_cases hc : (b == Elem.sat && a == Elem.sat) = true
            · simp only [Bool.and_eq_true, beq_iff_eq] at hc
              simp [sem, sl hc.2, sr hc.1]
            · simp [hc] at hs
  | .orB l r, ty, hty, hn, st, a', cs, W, hi, hw => by
    obtain ⟨tl, tr, htl, htr, hbl, hbr, hb, _⟩ := typeOf_orB hty
    rw [hb]
    simp only [interp] at hi
    cases hl : interp ke ie l st with
    | error e => simp [hl] at hi
    | ok p =>
      obtain ⟨a1, cs1⟩ := p
      simp only [hl] at hi
      cases a1 with
      | nil => simp at hi
      | cons a st1 =>
        cases hr : interp ke ie r st1 with
        | error e => cases a <;> simp [hr] at hi
        | ok q =>
          obtain ⟨a2, cs2⟩ := q
          cases a2 with
          | nil => cases a <;> simp [hr] at hi
          | cons b st2 =>
            have hcs : cs = cs1 ++ cs2 ∧ a' = (if b == .dissat && a == .dissat then Elem.dissat else .sat) :: st2 := by
              cases a <;> simp [hr] at hi <;> exact ⟨hi.2.symm, by simp [← hi.1]⟩
            obtain ⟨h1, h2⟩ := hcs; subst h1; subst h2
            have Pl := policy hf hseq l tl htl hn.1 st _ cs1 W hl hw.left
            rw [hbl] at Pl
            have Pr := policy hf hseq r tr htr hn.2 st1 _ cs2 W hr hw.right
            rw [hbr] at Pr
            obtain ⟨rl, _, e1, bl, sl⟩ := Pl
            obtain ⟨rr, _, e2, br, sr⟩ := Pr
            simp at e1 e2
            obtain ⟨e1a, _⟩ := e1; obtain ⟨e2a, _⟩ := e2
            subst e1a; subst e2a
            refine ⟨_, st2, rfl, by split <;> simp, fun hs => ?_⟩
            rcases bl with e | e <;> rcases br with e' | e' <;> subst e <;> subst e' <;> simp at hs
            · simp [sem, sl rfl]
            · simp [sem, sl rfl]
            · simp [sem, sr rfl]
  | .andOr x y z, ty, hty, hn, st, a', cs, W, hi, hw => by
    obtain ⟨tx, ty', tz, htx, hty', htz, hbx, _, hby, hbz, hnw, _⟩ := typeOf_andOr hty
    simp only [interp] at hi
    cases hx : interp ke ie x st with
    | error e => simp [hx] at hi
    | ok p =>
      obtain ⟨a1, cs1⟩ := p
      have Px := policy hf hseq x tx htx hn.1 st a1 cs1 W hx
      rw [hbx] at Px
      simp only [hx] at hi
      cases a1 with
      | nil => simp at hi
      | cons a st1 =>
        cases a with
        | push q => simp at hi
        | sat =>
          cases hy : interp ke ie y st1 with
          | error e => simp [hy] at hi
          | ok q =>
            obtain ⟨a2, cs2⟩ := q
            simp [hy] at hi
            obtain ⟨h1, h2⟩ := hi; subst h1; subst h2
            obtain ⟨_, _, e1, _, sx⟩ := Px hw.left
            simp at e1
            have hsx : sem W x = true := sx e1.1.symm
            have Py := policy hf hseq y ty' hty' hn.2.1 st1 a2 cs2 W hy hw.right
            rw [hby] at Py
            exact PolPost.congr (ms := y) (fun e => by simp [sem, hsx, e]) Py
        | dissat =>
          cases hz : interp ke ie z st1 with
          | error e => simp [hz] at hi
          | ok q =>
            obtain ⟨a2, cs2⟩ := q
            simp [hz] at hi
            obtain ⟨h1, h2⟩ := hi; subst h1; subst h2
            have Pz := policy hf hseq z tz htz hn.2.2 st1 a2 cs2 W hz hw.right
            rw [hbz] at Pz
            exact PolPost.congr (ms := z) (fun e => by simp [sem, e]) Pz
  | .orC l r, ty, hty, hn, st, a', cs, W, hi, hw => by
    obtain ⟨tl, tr, htl, htr, hbl, _, hbr, hb⟩ := typeOf_orC hty
    rw [hb]
    simp only [interp] at hi
    cases hl : interp ke ie l st with
    | error e => simp [hl] at hi
    | ok p =>
      obtain ⟨a1, cs1⟩ := p
      have Pl := policy hf hseq l tl htl hn.1 st a1 cs1 W hl
      rw [hbl] at Pl
      simp only [hl] at hi
      cases a1 with
      | nil => simp at hi
      | cons a st1 =>
        cases a with
        | push q => simp at hi
        | sat =>
          simp at hi
          obtain ⟨_, h2⟩ := hi; subst h2
          obtain ⟨_, _, e1, _, sl⟩ := Pl hw
          simp at e1
          show sem W (.orC l r) = true
          simp [sem, sl e1.1.symm]
        | dissat =>
          cases hr : interp ke ie r st1 with
          | error e => simp [hr] at hi
          | ok q =>
            obtain ⟨a2, cs2⟩ := q
            simp [hr] at hi
            obtain ⟨h1, h2⟩ := hi; subst h1; subst h2
            have Pr := policy hf hseq r tr htr hn.2 st1 a2 cs2 W hr hw.right
            rw [hbr] at Pr
            have : sem W r = true := Pr
            show sem W (.orC l r) = true
            simp [sem, this]
  | .orD l r, ty, hty, hn, st, a', cs, W, hi, hw => by
    obtain ⟨tl, tr, htl, htr, hbl, _, hbr, hb, _⟩ := typeOf_orD hty
    rw [hb]
    simp only [interp] at hi
    cases hl : interp ke ie l st with
    | error e => simp [hl] at hi
    | ok p =>
      obtain ⟨a1, cs1⟩ := p
      have Pl := policy hf hseq l tl htl hn.1 st a1 cs1 W hl
      rw [hbl] at Pl
      simp only [hl] at hi
      cases a1 with
      | nil => simp at hi
      | cons a st1 =>
        cases a with
        | push q => simp at hi
        | sat =>
          simp at hi
          obtain ⟨h1, h2⟩ := hi; subst h1; subst h2
          obtain ⟨_, _, e1, _, sl⟩ := Pl hw
          simp at e1
          exact ⟨.sat, st1, rfl, Or.inl rfl, fun _ => by simp [sem, sl e1.1.symm]⟩
        | dissat =>
          cases hr : interp ke ie r st1 with
          | error e => simp [hr] at hi
          | ok q =>
            obtain ⟨a2, cs2⟩ := q
            simp [hr] at hi
            obtain ⟨h1, h2⟩ := hi; subst h1; subst h2
            have Pr := policy hf hseq r tr htr hn.2 st1 a2 cs2 W hr hw.right
            rw [hbr] at Pr
            exact PolPost.congr (ms := r) (b := .B) (fun e => by simp [sem, e]) Pr
  | .orI l r, ty, hty, hn, st, a', cs, W, hi, hw => by
    obtain ⟨tl, tr, htl, htr, hbl, hbr, hnw, _⟩ := typeOf_orI hty
    simp only [interp] at hi
    split at hi
    · have P := policy hf hseq l tl htl hn.1 _ a' cs W hi hw
      rw [hbl] at P
      exact PolPost.congr (ms := l) (fun e => by simp [sem, e]) P
    · have P := policy hf hseq r tr htr hn.2 _ a' cs W hi hw
      rw [hbr] at P
      exact PolPost.congr (ms := r) (fun e => by simp [sem, e]) P
    · simp at hi
    · simp at hi
  | .thresh k xs, ty, hty, hn, st, a', cs, W, hi, hw => by
    obtain ⟨ts, n, hts, hloop, hb, _⟩ := typeOf_thresh hty
    rw [hb]
    cases xs with
    | nil => simp [interp] at hi
    | cons x xs' =>
      obtain ⟨t, ts', htx, hts', hcons⟩ := typesOf_cons hts
      subst hcons
      simp only [List.map_cons] at hloop
      obtain ⟨hB, _, _, hloop'⟩ := threshLoop_cons hloop
      simp only [interp] at hi
      cases hx : interp ke ie x st with
      | error er => simp [hx] at hi
      | ok p =>
        obtain ⟨st1, cs1⟩ := p
        simp only [hx] at hi
        cases hrest : interpRest ke ie xs' 0 st1 with
        | error er => simp [hrest] at hi
        | ok q =>
          obtain ⟨st2, nS', cs2⟩ := q
          simp only [hrest] at hi
          have hcs : cs = cs1 ++ cs2 := by
            cases st2 with
            | nil => simp at hi
            | cons b t2 => cases b <;> simp at hi <;> exact hi.2.symm
          subst hcs
          have P1 := policy hf hseq x t htx hn.1 st st1 cs1 W hx hw.left
          rw [hB rfl] at P1
          obtain ⟨r1, st1', e1, b1, s1⟩ := P1
          subst e1
          obtain ⟨rL, st2', e2, bL, hcount⟩ := policyRest hf hseq xs' ts' hts' 1 _ n (by omega) hloop' hn.2
            0 r1 st1' st2 nS' cs2 W b1 hrest hw.right
          subst e2
          have hx1 : bit r1 ≤ (if sem W x = true then 1 else 0) := by
            rcases b1 with e | e <;> subst e <;> simp [bit, s1]
          rcases bL with e | e <;> subst e
          · simp at hi
            subst hi
            refine ⟨_, st2', rfl, by split <;> simp, fun hs => ?_⟩
            have hb1 : bit Elem.sat = 1 := by simp [bit]
            rw [hb1] at hcount
            by_cases hk : nS' = k - 1
            · have hk1 : 1 ≤ k ∨ k = 0 := by omega
              simp only [sem, semCount]
              exact decide_eq_true (by omega)
            · simp [hk] at hs
          · simp at hi
            subst hi
            refine ⟨_, st2', rfl, by split <;> simp, fun hs => ?_⟩
            have hb0 : bit Elem.dissat = 0 := by simp [bit]
            rw [hb0] at hcount
            by_cases hk : nS' = k
            · simp only [sem, semCount]
              exact decide_eq_true (by omega)
            · simp [hk] at hs
  | .multi k ks, ty, hty, _, st, a', cs, W, hi, hw => by
    rw [(typeOf_multi hty).1]
    simp only [interp] at hi
    obtain ⟨r, st', h1, h2, h3⟩ := evalMulti_pol (W := W) hi hw.cov
    exact ⟨r, st', h1, h2, fun e => by simpa [sem] using h3 e⟩
  | .sortedMulti k ks, ty, hty, _, st, a', cs, W, hi, hw => by
    have hb : ty.corr.base = .B := by simp [typeOf] at hty; subst hty; rfl
    rw [hb]
    simp only [interp] at hi
    obtain ⟨r, st', h1, h2, h3⟩ := evalMulti_pol (W := W) hi hw.cov
    exact ⟨r, st', h1, h2, fun e => by simpa [sem] using h3 e⟩
  | .multiA k ks, ty, hty, _, st, a', cs, W, hi, hw => by
    rw [(typeOf_multiA hty).1]
    simp only [interp] at hi
    obtain ⟨nT, st', ha, hle⟩ := multiALoop_pol (W := W) ks 0 st a' cs hi hw.cov
    refine ⟨_, st', ha, by split <;> simp, fun hs => ?_⟩
    by_cases hk : (nT == k) = true
    · have : nT = k := by simpa using hk
      simp only [sem, decide_eq_true_eq]; omega
    · simp [hk] at hs
  | .sortedMultiA k ks, ty, hty, _, st, a', cs, W, hi, hw => by
    have hb : ty.corr.base = .B := by simp [typeOf] at hty; subst hty; rfl
    rw [hb]
    simp only [interp] at hi
    obtain ⟨nT, st', ha, hle⟩ := multiALoop_pol (W := W) ks 0 st a' cs hi hw.cov
    refine ⟨_, st', ha, by split <;> simp, fun hs => ?_⟩
    by_cases hk : (nT == k) = true
    · have : nT = k := by simpa using hk
      simp only [sem, decide_eq_true_eq]; omega
    · simp [hk] at hs
theorem policyRest (hf : KeyHashFaithful ke ie) (hseq : ie.sequence < 2 ^ 32) :
    (xs : MsList) → (ts : List Ty) → typesOf xs = some ts →
    ∀ (i acc n : Nat), i ≠ 0 → Corr.threshLoop i acc (ts.map (·.corr)) = some n → NoRawL xs →
    ∀ (nS : Nat) (rPrev : Elem) (st st' : AStack) (nS' : Nat) (cs : List Constraint) (W : Pol.World),
      (rPrev = .sat ∨ rPrev = .dissat) →
      interpRest ke ie xs nS (rPrev :: st) = .ok (st', nS', cs) → WLe ke ie cs W →
      ∃ rL st'', st' = rL :: st'' ∧ (rL = .sat ∨ rL = .dissat)
        ∧ nS' + bit rL ≤ nS + bit rPrev + semCount W xs
  | .nil, ts, _, i, acc, n, _, _, _, nS, rPrev, st, st', nS', cs, W, hrp, hi, _ => by
    simp [interpRest] at hi
    obtain ⟨e1, e2, _⟩ := hi
    subst e1; subst e2
    exact ⟨rPrev, st, rfl, hrp, by simp [semCount]⟩
  | .cons x xs, ts, hts, i, acc, n, hi0, hloop, hn, nS, rPrev, st, st', nS', cs, W, hrp, hi, hw => by
    obtain ⟨t, ts', htx, hts', hcons⟩ := typesOf_cons hts
    subst hcons
    simp only [List.map_cons] at hloop
    obtain ⟨_, hW, _, hloop'⟩ := threshLoop_cons hloop
    obtain ⟨st1, cs1, cs2, hx, hrest, hcs⟩ := interpRest_cons_inv' hrp hi
    subst hcs
    have P1 := policy hf hseq x t htx hn.1 st st1 cs1 W hx hw.left
    rw [hW hi0] at P1
    obtain ⟨r1, st1', e1, b1, s1⟩ := P1
    subst e1
    obtain ⟨rL, st'', e2, bL, hcount⟩ := policyRest hf hseq xs ts' hts' (i + 1) _ n (by omega) hloop' hn.2
      (nS + bit rPrev) r1 st1' st' nS' cs2 W b1 hrest hw.right
    refine ⟨rL, st'', e2, bL, ?_⟩
    have hx1 : bit r1 ≤ (if sem W x = true then 1 else 0) := by
      rcases b1 with e | e <;> subst e <;> simp [bit, s1]
    simp only [semCount]
    omega
end

end MsVerif.InterpPolicy

/-
T3: the decoder run on the tokens of an encoded miniscript in decoder normal form returns
that miniscript.  Parser-state invariant per grammar position:

  E:  ⟨rev(tokens ms) ++ pre, Expression :: nt, term⟩            ⟶*  ⟨pre, nt, ms :: term⟩
  A:  ⟨rev(tokens ms) ++ pre, Expression :: MaybeAndV :: nt, …⟩  ⟶*  ⟨pre, nt, ms :: term⟩   (¬is_and_v pre)
  W:  ⟨rev(tokens ms) ++ pre, WExpression :: nt, term⟩           ⟶*  ⟨pre, nt, ms :: term⟩
  C:  and_v chains — with operands `rs` already parsed and |rs| `AndV`s pending, parsing `ms`
      ends with the left-nested chain `foldl and_v ms rs` on the terminal stack.
-/
import MsVerif.Lemmas.DecodeTrans

namespace MsVerif
namespace DecodeL

/-! ### hypotheses on the atoms and on `from_ast` -/

mutual
/-- every key / hash of `ms` is mapped back to its atom by `dec`, numbers are in range, and
`Miniscript::from_ast` accepts every inner node (type check, height, global validity) -/
def DecOk (dec : AtomDec) (env : KeyEnv) (ctx : Ctx) : Ms → Prop
  | .tru => True
  | .fls => True
  | .pkK k => parseKey dec ctx (env.ser k) = .ok k
  | .pkH _ => False
  | .rawPkH h => dec.rawPkh (env.rawPkh h) = some h
  | .after n => 1 ≤ n ∧ n ≤ 2147483647
  | .older n => 1 ≤ n ∧ n < 2147483648
  | .hash kind h => dec.hash kind (env.hashVal kind h) = some h
  | .multi k ks => (1 ≤ k ∧ k ≤ ks.length ∧ ks.length ≤ 20) ∧ ∀ x ∈ ks, FullKeyOk dec env ctx x
  | .sortedMulti _ _ => False
  | .multiA k ks => (1 ≤ k ∧ k ≤ ks.length ∧ ks.length ≤ 999) ∧ ∀ x ∈ ks, XKeyOk dec env ctx x
  | .sortedMultiA _ _ => False
  | .alt x => DecOk dec env ctx x ∧ fromAst env ctx (.alt x) = .ok (.alt x)
  | .swap x => DecOk dec env ctx x ∧ fromAst env ctx (.swap x) = .ok (.swap x)
  | .check x => DecOk dec env ctx x ∧ fromAst env ctx (.check x) = .ok (.check x)
  | .dupIf x => DecOk dec env ctx x ∧ fromAst env ctx (.dupIf x) = .ok (.dupIf x)
  | .verify x => DecOk dec env ctx x ∧ fromAst env ctx (.verify x) = .ok (.verify x)
  | .nonZero x => DecOk dec env ctx x ∧ fromAst env ctx (.nonZero x) = .ok (.nonZero x)
  | .zeroNotEqual x => DecOk dec env ctx x ∧ fromAst env ctx (.zeroNotEqual x) = .ok (.zeroNotEqual x)
  | .andV l r => DecOk dec env ctx l ∧ DecOk dec env ctx r ∧ fromAst env ctx (.andV l r) = .ok (.andV l r)
  | .andB l r => DecOk dec env ctx l ∧ DecOk dec env ctx r ∧ fromAst env ctx (.andB l r) = .ok (.andB l r)
  | .orB l r => DecOk dec env ctx l ∧ DecOk dec env ctx r ∧ fromAst env ctx (.orB l r) = .ok (.orB l r)
  | .orD l r => DecOk dec env ctx l ∧ DecOk dec env ctx r ∧ fromAst env ctx (.orD l r) = .ok (.orD l r)
  | .orC l r => DecOk dec env ctx l ∧ DecOk dec env ctx r ∧ fromAst env ctx (.orC l r) = .ok (.orC l r)
  | .orI l r => DecOk dec env ctx l ∧ DecOk dec env ctx r ∧ fromAst env ctx (.orI l r) = .ok (.orI l r)
  | .andOr a b c =>
    DecOk dec env ctx a ∧ DecOk dec env ctx b ∧ DecOk dec env ctx c ∧
      fromAst env ctx (.andOr a b c) = .ok (.andOr a b c)
  | .thresh k xs =>
    DecOkL dec env ctx xs ∧ (1 ≤ k ∧ k ≤ xs.length) ∧ fromAst env ctx (.thresh k xs) = .ok (.thresh k xs)
def DecOkL (dec : AtomDec) (env : KeyEnv) (ctx : Ctx) : MsList → Prop
  | .nil => True
  | .cons x xs => DecOk dec env ctx x ∧ DecOkL dec env ctx xs
end

variable {dec : AtomDec} {env : KeyEnv} {ctx : Ctx}

/-! ### last tokens -/

/-- a token after which `is_and_v` holds and which is neither `Add` nor `IfDup` -/
def okLast (t : Token) : Prop := (∀ ts, isAndV (t :: ts) = true) ∧ t ≠ .add ∧ t ≠ .ifDup

theorem okLast_key (bs : Bytes) : okLast (keyTok bs) := by
  unfold keyTok; split
  · exact ⟨fun _ => rfl, by simp, by simp⟩
  · split <;> exact ⟨fun _ => rfl, by simp, by simp⟩

macro "ok_last" : tactic => `(tactic| exact ⟨fun _ => rfl, by simp, by simp⟩)

theorem cons_of_head? {α} (l : List α) (a : α) (h : l.head? = some a) : ∃ ts, l = a :: ts := by
  cases l with
  | nil => cases h
  | cons x xs => simp at h; exact ⟨xs, by rw [h]⟩

/-- the encoding of any fragment ends in a token that permits `and_v` chaining -/
theorem lastTok' (env : KeyEnv) (ctx : Ctx) : (ms : Ms) →
    ∃ t, (tokens env ctx ms).reverse.head? = some t ∧ okLast t
  | .pkK k => ⟨keyTok (env.ser k), by simp [tokens], okLast_key _⟩
  | .pkH k => ⟨.verify, by simp [tokens], by ok_last⟩
  | .rawPkH k => ⟨.verify, by simp [tokens], by ok_last⟩
  | .after n => ⟨.cltv, by simp [tokens], by ok_last⟩
  | .older n => ⟨.csv, by simp [tokens], by ok_last⟩
  | .hash kind h => ⟨.equal, by simp [tokens], by ok_last⟩
  | .tru => ⟨.num 1, by simp [tokens], by ok_last⟩
  | .fls => ⟨.num 0, by simp [tokens], by ok_last⟩
  | .alt x => ⟨.fromAlt, by simp [tokens], by ok_last⟩
  | .swap x => by
    obtain ⟨t, e, h⟩ := lastTok' env ctx x
    exact ⟨t, by simp [tokens, List.head?_append, e], h⟩
  | .check x => ⟨.checkSig, by simp [tokens], by ok_last⟩
  | .dupIf x => ⟨.endIf, by simp [tokens], by ok_last⟩
  | .verify x => ⟨.verify, by simp [tokens], by ok_last⟩
  | .nonZero x => ⟨.endIf, by simp [tokens], by ok_last⟩
  | .zeroNotEqual x => ⟨.zeroNotEqual, by simp [tokens], by ok_last⟩
  | .andV l r => by
    obtain ⟨t, e, h⟩ := lastTok' env ctx r
    exact ⟨t, by simp [tokens, List.head?_append, e], h⟩
  | .andB l r => ⟨.boolAnd, by simp [tokens], by ok_last⟩
  | .andOr a b c => ⟨.endIf, by simp [tokens], by ok_last⟩
  | .orB l r => ⟨.boolOr, by simp [tokens], by ok_last⟩
  | .orD l r => ⟨.endIf, by simp [tokens], by ok_last⟩
  | .orC l r => ⟨.endIf, by simp [tokens], by ok_last⟩
  | .orI l r => ⟨.endIf, by simp [tokens], by ok_last⟩
  | .thresh k xs => ⟨.equal, by simp [tokens], by ok_last⟩
  | .multi k ks => ⟨.checkMultiSig, by simp [tokens], by ok_last⟩
  | .sortedMulti k ks => ⟨.checkMultiSig, by simp [tokens], by ok_last⟩
  | .multiA k ks => ⟨.numEqual, by simp [tokens], by ok_last⟩
  | .sortedMultiA k ks => ⟨.numEqual, by simp [tokens], by ok_last⟩

theorem lastTok (env : KeyEnv) (ctx : Ctx) (ms : Ms) :
    ∃ t ts, (tokens env ctx ms).reverse = t :: ts ∧ okLast t := by
  obtain ⟨t, e, h⟩ := lastTok' env ctx ms
  obtain ⟨ts, e'⟩ := cons_of_head? _ _ e
  exact ⟨t, ts, e', h⟩

theorem isAndV_rt (env : KeyEnv) (ctx : Ctx) (ms : Ms) (pre : List Token) :
    isAndV ((tokens env ctx ms).reverse ++ pre) = true := by
  obtain ⟨t, ts, e, h⟩ := lastTok env ctx ms
  rw [e]; exact h.1 _

/-- outside `W` positions the encoding does not end in `FROMALTSTACK` -/
theorem lastTok_notW' (env : KeyEnv) (ctx : Ctx) : (ms : Ms) → (p : Pos) → p ≠ .W → form p ms = true →
    ∃ t, (tokens env ctx ms).reverse.head? = some t ∧ t ≠ .fromAlt
  | .andV l r, p, hp, h => by
    simp only [form, Bool.and_eq_true] at h
    obtain ⟨t, e, ht⟩ := lastTok_notW' env ctx r .E (by decide) h.2
    exact ⟨t, by simp [tokens, List.head?_append, e], ht⟩
  | .alt x, p, hp, h => by
    simp only [form, Bool.and_eq_true, beq_iff_eq] at h; exact absurd h.1 hp
  | .swap x, p, hp, h => by
    simp only [form, Bool.and_eq_true, beq_iff_eq] at h; exact absurd h.1 hp
  | .pkK k, _, _, _ => by
    refine ⟨keyTok (env.ser k), by simp [tokens], ?_⟩
    unfold keyTok; split
    · simp
    · split <;> simp
  | .pkH k, _, _, _ => ⟨.verify, by simp [tokens], by simp⟩
  | .rawPkH k, _, _, _ => ⟨.verify, by simp [tokens], by simp⟩
  | .after n, _, _, _ => ⟨.cltv, by simp [tokens], by simp⟩
  | .older n, _, _, _ => ⟨.csv, by simp [tokens], by simp⟩
  | .hash kind h, _, _, _ => ⟨.equal, by simp [tokens], by simp⟩
  | .tru, _, _, _ => ⟨.num 1, by simp [tokens], by simp⟩
  | .fls, _, _, _ => ⟨.num 0, by simp [tokens], by simp⟩
  | .check x, _, _, _ => ⟨.checkSig, by simp [tokens], by simp⟩
  | .dupIf x, _, _, _ => ⟨.endIf, by simp [tokens], by simp⟩
  | .verify x, _, _, _ => ⟨.verify, by simp [tokens], by simp⟩
  | .nonZero x, _, _, _ => ⟨.endIf, by simp [tokens], by simp⟩
  | .zeroNotEqual x, _, _, _ => ⟨.zeroNotEqual, by simp [tokens], by simp⟩
  | .andB l r, _, _, _ => ⟨.boolAnd, by simp [tokens], by simp⟩
  | .andOr a b c, _, _, _ => ⟨.endIf, by simp [tokens], by simp⟩
  | .orB l r, _, _, _ => ⟨.boolOr, by simp [tokens], by simp⟩
  | .orD l r, _, _, _ => ⟨.endIf, by simp [tokens], by simp⟩
  | .orC l r, _, _, _ => ⟨.endIf, by simp [tokens], by simp⟩
  | .orI l r, _, _, _ => ⟨.endIf, by simp [tokens], by simp⟩
  | .thresh k xs, _, _, _ => ⟨.equal, by simp [tokens], by simp⟩
  | .multi k ks, _, _, _ => ⟨.checkMultiSig, by simp [tokens], by simp⟩
  | .sortedMulti k ks, _, _, _ => ⟨.checkMultiSig, by simp [tokens], by simp⟩
  | .multiA k ks, _, _, _ => ⟨.numEqual, by simp [tokens], by simp⟩
  | .sortedMultiA k ks, _, _, _ => ⟨.numEqual, by simp [tokens], by simp⟩

theorem lastTok_notW (env : KeyEnv) (ctx : Ctx) (ms : Ms) (p : Pos) (hp : p ≠ .W) (h : form p ms = true) :
    ∃ t ts, (tokens env ctx ms).reverse = t :: ts ∧ t ≠ .fromAlt := by
  obtain ⟨t, e, ht⟩ := lastTok_notW' env ctx ms p hp h
  obtain ⟨ts, e'⟩ := cons_of_head? _ _ e
  exact ⟨t, ts, e', ht⟩

/-! ### the invariants -/

section
variable (dec : AtomDec) (env : KeyEnv) (ctx : Ctx)

/-- reversed token list (the order in which `TokenIter` yields them) -/
abbrev rt (ms : Ms) : List Token := (tokens env ctx ms).reverse

def EStmt (ms : Ms) : Prop := ∀ (pre : List Token) (nt : List NonTerm) (term : List Ms),
  Steps dec env ctx ⟨rt env ctx ms ++ pre, .expression :: nt, term⟩ ⟨pre, nt, ms :: term⟩

/-- `v:ms` in an `Expression` position (the `Tk::Verify` arm looks one token ahead) -/
def VEStmt (ms : Ms) : Prop := ∀ (pre : List Token) (nt : List NonTerm) (term : List Ms),
  Steps dec env ctx ⟨.verify :: (rt env ctx ms ++ pre), .expression :: nt, term⟩ ⟨pre, nt, .verify ms :: term⟩

def AStmt (ms : Ms) : Prop := ∀ (pre : List Token) (nt : List NonTerm) (term : List Ms),
  isAndV pre = false →
  Steps dec env ctx ⟨rt env ctx ms ++ pre, .expression :: .maybeAndV :: nt, term⟩ ⟨pre, nt, ms :: term⟩

def WStmt (ms : Ms) : Prop := ∀ (pre : List Token) (nt : List NonTerm) (term : List Ms),
  Steps dec env ctx ⟨rt env ctx ms ++ pre, .wExpression :: nt, term⟩ ⟨pre, nt, ms :: term⟩

/-- `from_ast` accepts every node of the left-nested chain `foldl and_v l rs` -/
def ChainOk : Ms → List Ms → Prop
  | _, [] => True
  | l, r :: rs => fromAst env ctx (.andV l r) = .ok (.andV l r) ∧ ChainOk (.andV l r) rs

def andVs (rs : List Ms) : List NonTerm := rs.map (fun _ => NonTerm.andV)

def CStmt (ms : Ms) : Prop := ∀ (pre : List Token) (nt : List NonTerm) (term : List Ms) (rs : List Ms),
  rs ≠ [] → ChainOk env ctx ms rs → isAndV pre = false →
  Steps dec env ctx ⟨rt env ctx ms ++ pre, .expression :: (andVs rs ++ nt), rs ++ term⟩
    ⟨pre, nt, rs.foldl Ms.andV ms :: term⟩

/-- the `W` children of a `thresh`, parsed from the last one to the first -/
def WLStmt (xs : MsList) : Prop := ∀ (pre : List Token) (nt : List NonTerm) (term : List Ms) (k n : Nat),
  Steps dec env ctx ⟨(threshTokens env ctx false xs).reverse ++ pre, .threshW k n :: nt, term⟩
    ⟨pre, .threshW k (n + xs.length) :: nt, xs.toList ++ term⟩

structure Main (ms : Ms) : Prop where
  e : form .E ms = true → DecOk dec env ctx ms → EStmt dec env ctx ms
  ve : form .E ms = true → DecOk dec env ctx ms →
    fromAst env ctx (.verify ms) = .ok (.verify ms) → VEStmt dec env ctx ms
  a : form .A ms = true → DecOk dec env ctx ms → AStmt dec env ctx ms
  c : form .A ms = true → DecOk dec env ctx ms → CStmt dec env ctx ms
  w : form .W ms = true → DecOk dec env ctx ms → WStmt dec env ctx ms
end

/-- pending `AndV`s reduce one after the other once `is_and_v` fails -/
theorem reduce_chain {pre : List Token} (hpre : isAndV pre = false) :
    ∀ (rs : List Ms) (l : Ms) (nt : List NonTerm) (term : List Ms), ChainOk env ctx l rs →
    Steps dec env ctx ⟨pre, andVs rs ++ nt, l :: (rs ++ term)⟩ ⟨pre, nt, rs.foldl Ms.andV l :: term⟩ := by
  intro rs
  induction rs with
  | nil => intro l nt term _; exact .refl _
  | cons r rs ih =>
    intro l nt term h
    exact .head (s_andV_no hpre h.1) (ih _ nt term h.2)

theorem a_of_e {ms : Ms} (he : EStmt dec env ctx ms) : AStmt dec env ctx ms :=
  fun pre nt term hpre => (he pre _ term).trans (.one (s_maybe_no hpre))

theorem c_of_e {ms : Ms} (he : EStmt dec env ctx ms) : CStmt dec env ctx ms :=
  fun pre nt term rs _ hc hpre => (he pre _ _).trans (reduce_chain hpre rs ms nt term hc)

/-- generic `v:ms`: the token before `VERIFY` is not `EQUAL`, so the arm un-reads it -/
theorem ve_of_e {ms : Ms} {t : Token} (ht : (rt env ctx ms).head? = some t) (hne : t ≠ .equal)
    (he : EStmt dec env ctx ms) (hf : fromAst env ctx (.verify ms) = .ok (.verify ms)) :
    VEStmt dec env ctx ms := by
  intro pre nt term
  obtain ⟨ts, e⟩ := cons_of_head? _ _ ht
  have h1 : Step dec env ctx ⟨.verify :: (rt env ctx ms ++ pre), .expression :: nt, term⟩
      ⟨rt env ctx ms ++ pre, .expression :: .verify :: nt, term⟩ := by
    rw [e]; exact e_verify_un hne
  exact .head h1 ((he pre _ term).trans (.one (s_verify hf)))

/-- fragments that are neither `and_v` nor a `W` wrapper: everything follows from `E` and `VE` -/
theorem Main.of_e {ms : Ms} (hA : form .A ms = form .E ms) (hW : form .W ms = false)
    (e : form .E ms = true → DecOk dec env ctx ms → EStmt dec env ctx ms)
    (ve : form .E ms = true → DecOk dec env ctx ms →
      fromAst env ctx (.verify ms) = .ok (.verify ms) → VEStmt dec env ctx ms) :
    Main dec env ctx ms :=
  ⟨e, ve, fun h d => a_of_e (e (hA ▸ h) d), fun h d => c_of_e (e (hA ▸ h) d),
    fun h => by rw [hW] at h; cases h⟩

theorem Main.vacuous {ms : Ms} (h : ∀ p, form p ms = false) : Main dec env ctx ms :=
  ⟨fun hf => by (rw [h] at hf; cases hf), fun hf => by (rw [h] at hf; cases hf),
   fun hf => by (rw [h] at hf; cases hf), fun hf => by (rw [h] at hf; cases hf),
   fun hf => by (rw [h] at hf; cases hf)⟩

theorem keyTok_ne_equal (bs : Bytes) : keyTok bs ≠ .equal := by
  unfold keyTok; split
  · simp
  · split <;> simp

theorem popN_append (l t : List Ms) : popN l.length (l ++ t) = some (l, t) := by
  induction l with
  | nil => rfl
  | cons x l ih => simp [popN, ih]

theorem ofList_toList : (xs : MsList) → MsList.ofList xs.toList = xs
  | .nil => rfl
  | .cons x xs => by simp [MsList.toList, MsList.ofList, ofList_toList xs]

/-- the common tail of `thresh` and `v:thresh`, after `EQUAL k` has been consumed -/
theorem thresh_tail {k : Nat} {x : Ms} {xs : MsList}
    (hx : EStmt dec env ctx x) (hxs : WLStmt dec env ctx xs)
    (hk : 1 ≤ k ∧ k ≤ (MsList.cons x xs).length)
    (hf : fromAst env ctx (.thresh k (.cons x xs)) = .ok (.thresh k (.cons x xs)))
    (pre : List Token) (nt : List NonTerm) (term : List Ms) :
    Steps dec env ctx
      ⟨(threshTokens env ctx false xs).reverse ++ (rt env ctx x ++ pre), .threshW k 0 :: nt, term⟩
      ⟨pre, nt, .thresh k (.cons x xs) :: term⟩ := by
  obtain ⟨t, ts, e, hok⟩ := lastTok env ctx x
  have h1 := hxs (rt env ctx x ++ pre) nt term k 0
  have h2 : Step dec env ctx ⟨rt env ctx x ++ pre, .threshW k (0 + xs.length) :: nt, xs.toList ++ term⟩
      ⟨rt env ctx x ++ pre, .expression :: .threshE k (0 + xs.length + 1) :: nt, xs.toList ++ term⟩ := by
    simp only [rt]; rw [e]; exact s_threshW_un hok.2.1
  have h3 := hx pre (.threshE k (0 + xs.length + 1) :: nt) (xs.toList ++ term)
  have hp : popN (0 + xs.length + 1) (x :: (xs.toList ++ term)) = some (x :: xs.toList, term) := by
    have := popN_append (x :: xs.toList) term
    simpa [MsList.length_toList, Nat.add_comm] using this
  have hf' : fromAst env ctx (.thresh k (MsList.ofList (x :: xs.toList)))
      = .ok (.thresh k (MsList.ofList (x :: xs.toList))) := by
    simpa [MsList.ofList, ofList_toList] using hf
  have h4 := s_threshE (dec := dec) (ts := pre) (nt := nt) hp
    (by simpa [MsList.length, MsList.length_toList] using hk) hf'
  have e4 : Ms.thresh k (MsList.ofList (x :: xs.toList)) = .thresh k (.cons x xs) := by
    simp [MsList.ofList, ofList_toList]
  rw [e4] at h4
  exact h1.trans (.head h2 (h3.trans (.one h4)))

/-! ### the induction -/

@[simp] theorem posA_ne_W : (Pos.A != Pos.W) = true := by decide
@[simp] theorem posE_ne_W : (Pos.E != Pos.W) = true := by decide
@[simp] theorem posW_ne_W : (Pos.W != Pos.W) = false := by decide
@[simp] theorem posE_eq_W : (Pos.E == Pos.W) = false := by decide
@[simp] theorem posA_eq_W : (Pos.A == Pos.W) = false := by decide
@[simp] theorem posE_eq_A : (Pos.E == Pos.A) = false := by decide
@[simp] theorem posW_eq_A : (Pos.W == Pos.A) = false := by decide

mutual
theorem main (dec : AtomDec) (env : KeyEnv) (ctx : Ctx) : (ms : Ms) → Main dec env ctx ms
  | .tru => by
    have hE : EStmt dec env ctx .tru := fun pre nt term => .one e_tru
    exact Main.of_e (by simp [form]) (by simp [form]) (fun _ _ => hE)
      (fun _ _ hv => ve_of_e (t := .num 1) (by simp [rt, tokens]) (by simp) hE hv)
  | .fls => by
    have hE : EStmt dec env ctx .fls := fun pre nt term => .one e_fls
    exact Main.of_e (by simp [form]) (by simp [form]) (fun _ _ => hE)
      (fun _ _ hv => ve_of_e (t := .num 0) (by simp [rt, tokens]) (by simp) hE hv)
  | .pkK k => by
    have hE : DecOk dec env ctx (.pkK k) → EStmt dec env ctx (.pkK k) := fun hd pre nt term => by
      simp only [rt, tokens, List.reverse_cons, List.reverse_nil, List.nil_append, List.singleton_append]
      exact .one (e_key hd)
    exact Main.of_e (by simp [form]) (by simp [form]) (fun _ hd => hE hd)
      (fun _ hd hv => ve_of_e (t := keyTok (env.ser k)) (by simp [rt, tokens]) (keyTok_ne_equal _) (hE hd) hv)
  | .pkH k => Main.vacuous (fun p => by simp [form])
  | .sortedMulti k ks => Main.vacuous (fun p => by simp [form])
  | .sortedMultiA k ks => Main.vacuous (fun p => by simp [form])
  | .rawPkH h => by
    have hE : DecOk dec env ctx (.rawPkH h) → EStmt dec env ctx (.rawPkH h) := fun hd pre nt term => by
      have e : rt env ctx (.rawPkH h) ++ pre
          = .verify :: .equal :: .hash20 (env.rawPkh h) :: .hash160 :: .dup :: pre := by simp [rt, tokens]
      rw [e]; exact .one (e_rawPkh hd)
    exact Main.of_e (by simp [form]) (by simp [form]) (fun _ hd => hE hd)
      (fun _ hd hv => ve_of_e (t := .verify) (by simp [rt, tokens]) (by simp) (hE hd) hv)
  | .after n => by
    have hE : DecOk dec env ctx (.after n) → EStmt dec env ctx (.after n) := fun hd pre nt term => by
      have e : rt env ctx (.after n) ++ pre = .cltv :: .num n :: pre := by simp [rt, tokens]
      rw [e]; exact .one (e_after hd.1 hd.2)
    exact Main.of_e (by simp [form]) (by simp [form]) (fun _ hd => hE hd)
      (fun _ hd hv => ve_of_e (t := .cltv) (by simp [rt, tokens]) (by simp) (hE hd) hv)
  | .older n => by
    have hE : DecOk dec env ctx (.older n) → EStmt dec env ctx (.older n) := fun hd pre nt term => by
      have e : rt env ctx (.older n) ++ pre = .csv :: .num n :: pre := by simp [rt, tokens]
      rw [e]; exact .one (e_older hd.1 hd.2)
    exact Main.of_e (by simp [form]) (by simp [form]) (fun _ hd => hE hd)
      (fun _ hd hv => ve_of_e (t := .csv) (by simp [rt, tokens]) (by simp) (hE hd) hv)
  | .hash kind h => by
    have e : ∀ pre, rt env ctx (.hash kind h) ++ pre
        = .equal :: hashValTok kind (env.hashVal kind h) :: hashOpTok kind :: .verify :: .equal :: .num 32
            :: .size :: pre := by intro pre; simp [rt, tokens]
    refine Main.of_e (by simp [form]) (by simp [form]) ?_ ?_
    · intro _ hd pre nt term
      rw [e]; exact .one (e_hash hd)
    · intro _ hd hv pre nt term
      rw [e]; exact .head (e_vhash hd) (.one (s_verify hv))
  | .multi k ks => by
    have hE : DecOk dec env ctx (.multi k ks) → EStmt dec env ctx (.multi k ks) := fun hd pre nt term => by
      have e : rt env ctx (.multi k ks) ++ pre
          = .checkMultiSig :: .num ks.length ::
              ((ks.map (fun pk => keyTok (env.ser pk))).reverse ++ .num k :: pre) := by simp [rt, tokens]
      rw [e]; exact .one (e_multi hd.1 hd.2)
    exact Main.of_e (by simp [form]) (by simp [form]) (fun _ hd => hE hd)
      (fun _ hd hv => ve_of_e (t := .checkMultiSig) (by simp [rt, tokens]) (by simp) (hE hd) hv)
  | .multiA k ks => by
    have hE : DecOk dec env ctx (.multiA k ks) → EStmt dec env ctx (.multiA k ks) := fun hd pre nt term => by
      have e : rt env ctx (.multiA k ks) ++ pre
          = .numEqual :: .num k :: ((multiATokens env ks).reverse ++ pre) := by simp [rt, tokens]
      rw [e]
      match ks, hd with
      | [], hd => exact absurd hd.1 (by simp; omega)
      | k1 :: ks', hd => exact .one (e_multiA hd.1 hd.2)
    exact Main.of_e (by simp [form]) (by simp [form]) (fun _ hd => hE hd)
      (fun _ hd hv => ve_of_e (t := .numEqual) (by simp [rt, tokens]) (by simp) (hE hd) hv)
  | .alt x => by
    have ih := main dec env ctx x
    refine ⟨fun hf => by simp [form] at hf, fun hf => by simp [form] at hf,
      fun hf => by simp [form] at hf, fun hf => by simp [form] at hf, ?_⟩
    intro hf hd pre nt term
    simp only [form, Bool.and_eq_true, beq_self_eq_true, true_and] at hf
    have e : rt env ctx (.alt x) ++ pre = .fromAlt :: (rt env ctx x ++ (.toAlt :: pre)) := by simp [rt, tokens]
    rw [e]
    exact .head s_wexpr_alt ((ih.a hf hd.1 (.toAlt :: pre) _ term rfl).trans (.one (s_alt hd.2)))
  | .swap x => by
    have ih := main dec env ctx x
    refine ⟨fun hf => by simp [form] at hf, fun hf => by simp [form] at hf,
      fun hf => by simp [form] at hf, fun hf => by simp [form] at hf, ?_⟩
    intro hf hd pre nt term
    simp only [form, Bool.and_eq_true, beq_self_eq_true, true_and] at hf
    have e : rt env ctx (.swap x) ++ pre = rt env ctx x ++ (.swap :: pre) := by simp [rt, tokens]
    rw [e]
    obtain ⟨t, ts, e2, hne⟩ := lastTok_notW env ctx x .A (by decide) hf
    have h1 : Step dec env ctx ⟨rt env ctx x ++ (.swap :: pre), .wExpression :: nt, term⟩
        ⟨rt env ctx x ++ (.swap :: pre), .expression :: .maybeAndV :: .swap :: nt, term⟩ := by
      simp only [rt]; rw [e2]; exact s_wexpr_un hne
    exact .head h1 ((ih.a hf hd.1 (.swap :: pre) _ term rfl).trans (.one (s_swap hd.2)))
  | .check x => by
    have ih := main dec env ctx x
    have hE : form .E (.check x) = true → DecOk dec env ctx (.check x) → EStmt dec env ctx (.check x) := by
      intro hf hd pre nt term
      simp only [form, Bool.and_eq_true] at hf
      have e : rt env ctx (.check x) ++ pre = .checkSig :: (rt env ctx x ++ pre) := by simp [rt, tokens]
      rw [e]
      exact .head e_checkSig ((ih.e hf.2 hd.1 pre _ term).trans (.one (s_check hd.2)))
    exact Main.of_e (by simp [form]) (by simp [form]) hE
      (fun hf hd hv => ve_of_e (t := .checkSig) (by simp [rt, tokens]) (by simp) (hE hf hd) hv)
  | .zeroNotEqual x => by
    have ih := main dec env ctx x
    have hE : form .E (.zeroNotEqual x) = true → DecOk dec env ctx (.zeroNotEqual x) →
        EStmt dec env ctx (.zeroNotEqual x) := by
      intro hf hd pre nt term
      simp only [form, Bool.and_eq_true] at hf
      have e : rt env ctx (.zeroNotEqual x) ++ pre = .zeroNotEqual :: (rt env ctx x ++ pre) := by
        simp [rt, tokens]
      rw [e]
      exact .head e_zeroNotEqual ((ih.e hf.2 hd.1 pre _ term).trans (.one (s_zeroNotEqual hd.2)))
    exact Main.of_e (by simp [form]) (by simp [form]) hE
      (fun hf hd hv => ve_of_e (t := .zeroNotEqual) (by simp [rt, tokens]) (by simp) (hE hf hd) hv)
  | .verify x => by
    have ih := main dec env ctx x
    have hE : form .E (.verify x) = true → DecOk dec env ctx (.verify x) → EStmt dec env ctx (.verify x) := by
      intro hf hd pre nt term
      simp only [form, Bool.and_eq_true] at hf
      have e : rt env ctx (.verify x) ++ pre = .verify :: (rt env ctx x ++ pre) := by simp [rt, tokens]
      rw [e]
      exact ih.ve hf.2 hd.1 hd.2 pre nt term
    exact Main.of_e (by simp [form]) (by simp [form]) hE
      (fun hf hd hv => ve_of_e (t := .verify) (by simp [rt, tokens]) (by simp) (hE hf hd) hv)
  | .dupIf x => by
    have ih := main dec env ctx x
    have hE : form .E (.dupIf x) = true → DecOk dec env ctx (.dupIf x) → EStmt dec env ctx (.dupIf x) := by
      intro hf hd pre nt term
      simp only [form, Bool.and_eq_true] at hf
      have e : rt env ctx (.dupIf x) ++ pre = .endIf :: (rt env ctx x ++ (.if_ :: .dup :: pre)) := by
        simp [rt, tokens]
      rw [e]
      exact .head e_endIf ((ih.a hf.2 hd.1 (.if_ :: .dup :: pre) _ term rfl).trans
        (.head s_endIf_dup (.one (s_dupIf hd.2))))
    exact Main.of_e (by simp [form]) (by simp [form]) hE
      (fun hf hd hv => ve_of_e (t := .endIf) (by simp [rt, tokens]) (by simp) (hE hf hd) hv)
  | .nonZero x => by
    have ih := main dec env ctx x
    have hE : form .E (.nonZero x) = true → DecOk dec env ctx (.nonZero x) → EStmt dec env ctx (.nonZero x) := by
      intro hf hd pre nt term
      simp only [form, Bool.and_eq_true] at hf
      have e : rt env ctx (.nonZero x) ++ pre
          = .endIf :: (rt env ctx x ++ (.if_ :: .zeroNotEqual :: .size :: pre)) := by simp [rt, tokens]
      rw [e]
      exact .head e_endIf ((ih.a hf.2 hd.1 (.if_ :: .zeroNotEqual :: .size :: pre) _ term rfl).trans
        (.head s_endIf_nz (.one (s_nonZero hd.2))))
    exact Main.of_e (by simp [form]) (by simp [form]) hE
      (fun hf hd hv => ve_of_e (t := .endIf) (by simp [rt, tokens]) (by simp) (hE hf hd) hv)
  | .andV l r => by
    have ihl := main dec env ctx l
    have ihr := main dec env ctx r
    refine ⟨fun hf => by simp [form] at hf, fun hf => by simp [form] at hf, ?_, ?_,
      fun hf => by simp [form] at hf⟩
    · intro hf hd pre nt term hpre
      simp only [form, Bool.and_eq_true, beq_self_eq_true, true_and] at hf
      have e : rt env ctx (.andV l r) ++ pre = rt env ctx r ++ (rt env ctx l ++ pre) := by simp [rt, tokens]
      rw [e]
      refine (ihr.e hf.2 hd.2.1 (rt env ctx l ++ pre) _ term).trans ?_
      refine .head (s_maybe_yes (isAndV_rt env ctx l pre)) ?_
      exact ihl.c hf.1 hd.1 pre nt term [r] (by simp) ⟨hd.2.2, trivial⟩ hpre
    · intro hf hd pre nt term rs hrs hc hpre
      simp only [form, Bool.and_eq_true, beq_self_eq_true, true_and] at hf
      have e : rt env ctx (.andV l r) ++ pre = rt env ctx r ++ (rt env ctx l ++ pre) := by simp [rt, tokens]
      rw [e]
      refine (ihr.e hf.2 hd.2.1 (rt env ctx l ++ pre) _ (rs ++ term)).trans ?_
      match rs, hrs, hc with
      | r0 :: rs', _, hc =>
        have h1 : Step dec env ctx ⟨rt env ctx l ++ pre, andVs (r0 :: rs') ++ nt, r :: (r0 :: rs' ++ term)⟩
            ⟨rt env ctx l ++ pre, .maybeAndV :: .andV :: (andVs rs' ++ nt), r :: (r0 :: rs' ++ term)⟩ :=
          s_andV_yes (isAndV_rt env ctx l pre)
        have h2 : Step dec env ctx
            ⟨rt env ctx l ++ pre, .maybeAndV :: .andV :: (andVs rs' ++ nt), r :: (r0 :: rs' ++ term)⟩
            ⟨rt env ctx l ++ pre, .expression :: .andV :: .andV :: (andVs rs' ++ nt), r :: (r0 :: rs' ++ term)⟩ :=
          s_maybe_yes (isAndV_rt env ctx l pre)
        exact .head h1 (.head h2 (ihl.c hf.1 hd.1 pre nt term (r :: r0 :: rs') (by simp) ⟨hd.2.2, hc⟩ hpre))
  | .andB l r => by
    have ihl := main dec env ctx l
    have ihr := main dec env ctx r
    have hE : form .E (.andB l r) = true → DecOk dec env ctx (.andB l r) → EStmt dec env ctx (.andB l r) := by
      intro hf hd pre nt term
      simp only [form, Bool.and_eq_true] at hf
      have e : rt env ctx (.andB l r) ++ pre = .boolAnd :: (rt env ctx r ++ (rt env ctx l ++ pre)) := by
        simp [rt, tokens]
      rw [e]
      exact .head e_boolAnd ((ihr.w hf.2 hd.2.1 (rt env ctx l ++ pre) _ term).trans
        ((ihl.e hf.1.2 hd.1 pre _ _).trans (.one (s_andB hd.2.2))))
    exact Main.of_e (by simp [form]) (by simp [form]) hE
      (fun hf hd hv => ve_of_e (t := .boolAnd) (by simp [rt, tokens]) (by simp) (hE hf hd) hv)
  | .orB l r => by
    have ihl := main dec env ctx l
    have ihr := main dec env ctx r
    have hE : form .E (.orB l r) = true → DecOk dec env ctx (.orB l r) → EStmt dec env ctx (.orB l r) := by
      intro hf hd pre nt term
      simp only [form, Bool.and_eq_true] at hf
      have e : rt env ctx (.orB l r) ++ pre = .boolOr :: (rt env ctx r ++ (rt env ctx l ++ pre)) := by
        simp [rt, tokens]
      rw [e]
      exact .head e_boolOr ((ihr.w hf.2 hd.2.1 (rt env ctx l ++ pre) _ term).trans
        ((ihl.e hf.1.2 hd.1 pre _ _).trans (.one (s_orB hd.2.2))))
    exact Main.of_e (by simp [form]) (by simp [form]) hE
      (fun hf hd hv => ve_of_e (t := .boolOr) (by simp [rt, tokens]) (by simp) (hE hf hd) hv)
  | .andOr a b c => by
    have iha := main dec env ctx a
    have ihb := main dec env ctx b
    have ihc := main dec env ctx c
    have hE : form .E (.andOr a b c) = true → DecOk dec env ctx (.andOr a b c) →
        EStmt dec env ctx (.andOr a b c) := by
      intro hf hd pre nt term
      simp only [form, Bool.and_eq_true] at hf
      have e : rt env ctx (.andOr a b c) ++ pre
          = .endIf :: (rt env ctx b ++ (.else_ :: (rt env ctx c ++ (.notIf :: (rt env ctx a ++ pre))))) := by
        simp [rt, tokens]
      rw [e]
      refine .head e_endIf ((ihb.a hf.1.2 hd.2.1 _ _ term rfl).trans ?_)
      refine .head s_endIf_else ((ihc.a hf.2 hd.2.2.1 _ _ _ rfl).trans ?_)
      exact .head s_endIfElse_notIf ((iha.e hf.1.1.2 hd.1 pre _ _).trans (.one (s_tern hd.2.2.2)))
    exact Main.of_e (by simp [form]) (by simp [form]) hE
      (fun hf hd hv => ve_of_e (t := .endIf) (by simp [rt, tokens]) (by simp) (hE hf hd) hv)
  | .orD l r => by
    have ihl := main dec env ctx l
    have ihr := main dec env ctx r
    have hE : form .E (.orD l r) = true → DecOk dec env ctx (.orD l r) → EStmt dec env ctx (.orD l r) := by
      intro hf hd pre nt term
      simp only [form, Bool.and_eq_true] at hf
      have e : rt env ctx (.orD l r) ++ pre
          = .endIf :: (rt env ctx r ++ (.notIf :: .ifDup :: (rt env ctx l ++ pre))) := by simp [rt, tokens]
      rw [e]
      refine .head e_endIf ((ihr.a hf.2 hd.2.1 _ _ term rfl).trans ?_)
      exact .head s_endIf_notIf (.head s_endIfNotIf_ifDup
        ((ihl.e hf.1.2 hd.1 pre _ _).trans (.one (s_orD hd.2.2))))
    exact Main.of_e (by simp [form]) (by simp [form]) hE
      (fun hf hd hv => ve_of_e (t := .endIf) (by simp [rt, tokens]) (by simp) (hE hf hd) hv)
  | .orC l r => by
    have ihl := main dec env ctx l
    have ihr := main dec env ctx r
    have hE : form .E (.orC l r) = true → DecOk dec env ctx (.orC l r) → EStmt dec env ctx (.orC l r) := by
      intro hf hd pre nt term
      simp only [form, Bool.and_eq_true] at hf
      have e : rt env ctx (.orC l r) ++ pre
          = .endIf :: (rt env ctx r ++ (.notIf :: (rt env ctx l ++ pre))) := by simp [rt, tokens]
      rw [e]
      refine .head e_endIf ((ihr.a hf.2 hd.2.1 _ _ term rfl).trans ?_)
      obtain ⟨t, ts, e2, hok⟩ := lastTok env ctx l
      have h1 : Step dec env ctx ⟨rt env ctx l ++ pre, .endIfNotIf :: nt, r :: term⟩
          ⟨rt env ctx l ++ pre, .expression :: .orC :: nt, r :: term⟩ := by
        simp only [rt]; rw [e2]; exact s_endIfNotIf_un hok.2.2
      exact .head s_endIf_notIf (.head h1 ((ihl.e hf.1.2 hd.1 pre _ _).trans (.one (s_orC hd.2.2))))
    exact Main.of_e (by simp [form]) (by simp [form]) hE
      (fun hf hd hv => ve_of_e (t := .endIf) (by simp [rt, tokens]) (by simp) (hE hf hd) hv)
  | .orI l r => by
    have ihl := main dec env ctx l
    have ihr := main dec env ctx r
    have hE : form .E (.orI l r) = true → DecOk dec env ctx (.orI l r) → EStmt dec env ctx (.orI l r) := by
      intro hf hd pre nt term
      simp only [form, Bool.and_eq_true] at hf
      have e : rt env ctx (.orI l r) ++ pre
          = .endIf :: (rt env ctx r ++ (.else_ :: (rt env ctx l ++ (.if_ :: pre)))) := by simp [rt, tokens]
      rw [e]
      refine .head e_endIf ((ihr.a hf.2 hd.2.1 _ _ term rfl).trans ?_)
      exact .head s_endIf_else ((ihl.a hf.1.2 hd.1 _ _ _ rfl).trans (.one (s_endIfElse_if hd.2.2)))
    exact Main.of_e (by simp [form]) (by simp [form]) hE
      (fun hf hd hv => ve_of_e (t := .endIf) (by simp [rt, tokens]) (by simp) (hE hf hd) hv)
  | .thresh k .nil => Main.vacuous (fun p => by simp [form, formL])
  | .thresh k (.cons x xs) => by
    have ihx := main dec env ctx x
    have e : ∀ pre, rt env ctx (.thresh k (.cons x xs)) ++ pre
        = .equal :: .num k :: ((threshTokens env ctx false xs).reverse ++ (rt env ctx x ++ pre)) := by
      intro pre; simp [rt, tokens, threshTokens]
    refine Main.of_e (by simp [form]) (by simp [form]) ?_ ?_
    · intro hf hd pre nt term
      simp only [form, formL, Bool.and_eq_true, if_true] at hf
      rw [e]
      exact .head e_thresh (thresh_tail (ihx.e hf.2.1 hd.1.1) (mainL dec env ctx xs hf.2.2 hd.1.2)
        hd.2.1 hd.2.2 pre nt term)
    · intro hf hd hv pre nt term
      simp only [form, formL, Bool.and_eq_true, if_true] at hf
      rw [e]
      exact .head e_vthresh ((thresh_tail (ihx.e hf.2.1 hd.1.1) (mainL dec env ctx xs hf.2.2 hd.1.2)
        hd.2.1 hd.2.2 pre _ term).trans (.one (s_verify hv)))
theorem mainL (dec : AtomDec) (env : KeyEnv) (ctx : Ctx) : (xs : MsList) → formL false xs = true →
    DecOkL dec env ctx xs → WLStmt dec env ctx xs
  | .nil, _, _ => by
    intro pre nt term k n
    simp only [threshTokens, List.reverse_nil, List.nil_append, MsList.length, Nat.add_zero, MsList.toList]
    exact .refl _
  | .cons y ys, hf, hd => by
    intro pre nt term k n
    simp only [formL, Bool.and_eq_true, Bool.false_eq_true, if_false] at hf
    have e : (threshTokens env ctx false (.cons y ys)).reverse ++ pre
        = (threshTokens env ctx false ys).reverse ++ (.add :: (rt env ctx y ++ pre)) := by
      simp [rt, threshTokens]
    rw [e]
    have h1 := mainL dec env ctx ys hf.2 hd.2 (.add :: (rt env ctx y ++ pre)) nt term k n
    have h2 := (main dec env ctx y).w hf.1 hd.1 pre (.threshW k (n + ys.length + 1) :: nt) (ys.toList ++ term)
    have e3 : n + (MsList.cons y ys).length = n + ys.length + 1 := by simp [MsList.length]; omega
    rw [e3]
    exact h1.trans (.head s_threshW_add h2)
end

end DecodeL
end MsVerif

/-
Helper lemmas for the size theorems of C17: how many bytes `witness_to_scriptsig` spends on an
item, and monotonicity of the compact-size length.
-/
import MsVerif.Model.Plan

namespace MsVerif.PlanSizes
open MsVerif MsVerif.Plan MsVerif.Script

theorem varintLen_mono {a b : Nat} (h : a ≤ b) : varintLen a ≤ varintLen b := by
  unfold varintLen
  repeat' split
  all_goals omega

theorem w2ssItem_byte : ∀ n, n < 256 → (w2ssItem [UInt8.ofNat n]).length ≤ 2 := by
  decide +kernel

theorem w2ssItem_single (x : UInt8) : (w2ssItem [x]).length ≤ 2 := by
  have := w2ssItem_byte x.toNat x.toNat_lt
  simpa using this

theorem pushSlice_length (b : Bytes) (h : b.length ≤ 0xffff) :
    (pushSlice b).length = pushLen b.length := by
  unfold pushSlice pushPrefix pushLen
  simp only [List.length_append]
  repeat' split
  all_goals (simp; try omega)

/-- bytes `witness_to_scriptsig` spends on one item: at most the plain push -/
theorem w2ssItem_length (b : Bytes)
    (h : b.length = 0 ∨ b.length = 1 ∨ (5 ≤ b.length ∧ b.length ≤ 0xffff)) :
    (w2ssItem b).length ≤ pushLen b.length := by
  rcases h with h | h | h
  · have : b = [] := List.eq_nil_of_length_eq_zero h
    subst this; decide
  · match b, h with
    | [x], _ => have := w2ssItem_single x; simpa [pushLen] using this
  · have hr : readScriptInt b = none := by
      simp [readScriptInt, numDecode]; omega
    simp only [w2ssItem, hr]
    rw [pushSlice_length b h.2]; exact Nat.le_refl _

/-- a completed placeholder is `[]`, one byte, or 5..75 bytes, and its push fits the announced size -/
theorem ph_fits (p : Ph) (len : Nat) (h : (Item.ph p).fits len = true) :
    (len = 0 ∨ len = 1 ∨ (5 ≤ len ∧ len ≤ 0xffff)) ∧ pushLen len ≤ p.size := by
  cases p <;> simp [Item.fits] at h <;> simp [Ph.size, pushLen] <;> (try split) <;> omega

theorem w2ss_length (t : List Ph) (stack : List Bytes) (hlen : stack.length = t.length)
    (hfit : ∀ q ∈ t.zip stack, (Item.ph q.1).fits q.2.length = true) :
    (witnessToScriptSig stack).length ≤ (t.map Ph.size).sum := by
  induction t generalizing stack with
  | nil => cases stack <;> simp_all [witnessToScriptSig]
  | cons p t ih =>
    cases stack with
    | nil => simp at hlen
    | cons b bs =>
      have h1 := ph_fits p b.length (hfit (p, b) (by simp))
      have h2 := w2ssItem_length b h1.1
      have h3 := ih bs (by simpa using hlen) (fun q hq => hfit q (by simp [hq]))
      simp only [witnessToScriptSig, List.flatMap_cons, List.length_append, List.map_cons,
        List.sum_cons] at h3 ⊢
      omega

theorem w2ss_append (a b : List Bytes) :
    witnessToScriptSig (a ++ b) = witnessToScriptSig a ++ witnessToScriptSig b := by
  simp [witnessToScriptSig]

end MsVerif.PlanSizes

/-
The stack machines of `src/iter/tree.rs` (Model/Cmp.lean: `preOrderNext`, `postOrderCollect`,
`Tree.rtl`) yield the structural traversals, for ANY tree type:

* `preCollect_eq`  : `PreOrderIter` yields `take fuel` of the flattened pre-order of its stack;
* `postCollect_eq` : `PostOrderIter` yields the flattened post-order once the fuel covers the
                     cost of the stack (2 steps per unprocessed node);
* `prefix_code`    : a pre-order label sequence determines the forest (labels fix arities):
                     the basis of "zip of two traversals = structural equality".

Then the instances for `Ms` (`Ms.preOrder = Ms.pre`, `Ms.rtlPostOrder = Ms.rtlPost`).
Shared by C19 (eq / hash / cmp / clone) and C20 (translate / for_each_key / iter_pk).
-/
import MsVerif.Model.Cmp

-- many `simp` calls below close several constructor cases at once; an argument unused in one case is used in another
set_option linter.unusedSimpArgs false

namespace MsVerif.TreeWalk
open MsVerif

variable {α β : Type}

theorem foldl_cons (l : List α) (s : List α) :
    l.foldl (fun st c => c :: st) s = l.reverse ++ s := by
  induction l generalizing s with
  | nil => rfl
  | cons x xs ih => simp [List.foldl_cons, ih]

@[simp] theorem pushRev_eq (cs stack : List α) : pushRev cs stack = cs ++ stack := by
  simp [pushRev]

theorem preOrderNext_cons (asNode : α → Tree α) (top : α) (stack : List α) :
    preOrderNext asNode (top :: stack) = some (top, (asNode top).children ++ stack) := by
  simp only [preOrderNext]
  cases asNode top <;> simp [Tree.children]

/-- `PreOrderIter` = flattened structural pre-order (for any `pre` that unfolds as
"node, then the children's traversals") -/
theorem preCollect_eq (asNode : α → Tree α) (pre : α → List α)
    (hpre : ∀ x, pre x = x :: (asNode x).children.flatMap pre) :
    ∀ (fuel : Nat) (stack : List α),
      iterCollect (preOrderNext asNode) fuel stack = (stack.flatMap pre).take fuel := by
  intro fuel
  induction fuel with
  | zero => intro stack; simp [iterCollect]
  | succ n ih =>
    intro stack
    cases stack with
    | nil => simp [iterCollect, preOrderNext]
    | cons top rest =>
      simp only [iterCollect, preOrderNext_cons, ih, List.flatMap_cons, List.flatMap_append]
      rw [hpre top]
      simp [List.take_succ_cons]

/-- cost of a `PostOrderIter` stack: one step to yield a processed entry, `2·size` steps for an
unprocessed one -/
def cost (size : α → Nat) : List (α × Bool) → Nat
  | [] => 0
  | (x, b) :: st => (if b then 1 else 2 * size x) + cost size st

theorem cost_append (size : α → Nat) (a b : List (α × Bool)) :
    cost size (a ++ b) = cost size a + cost size b := by
  induction a with
  | nil => simp [cost]
  | cons p ps ih => obtain ⟨x, f⟩ := p; simp [cost, ih]; omega

theorem cost_unprocessed (size : α → Nat) (cs : List α) :
    cost size (cs.map (·, false)) = 2 * (cs.map size).sum := by
  induction cs with
  | nil => simp [cost]
  | cons c cs ih => simp [cost, ih]; omega

/-- what a stack entry still has to yield -/
def entryOut (post : α → List α) (p : α × Bool) : List α := if p.2 then [p.1] else post p.1

/-- `PostOrderIter` = flattened structural post-order -/
theorem postCollect_eq (asNode : α → Tree α) (post : α → List α) (size : α → Nat)
    (hpost : ∀ x, post x = (asNode x).children.flatMap post ++ [x])
    (hsize : ∀ x, size x = 1 + ((asNode x).children.map size).sum) :
    ∀ (fuel : Nat) (stack : List (α × Bool)), cost size stack ≤ fuel →
      postOrderCollect asNode fuel stack = stack.flatMap (entryOut post) := by
  intro fuel
  induction fuel with
  | zero =>
    intro stack h
    cases stack with
    | nil => simp [postOrderCollect]
    | cons p ps =>
      obtain ⟨x, b⟩ := p
      cases b
      · have := hsize x; simp [cost] at h; omega
      · simp [cost] at h
  | succ n ih =>
    intro stack h
    cases stack with
    | nil => simp [postOrderCollect]
    | cons p ps =>
      obtain ⟨x, b⟩ := p
      cases b
      · -- unprocessed: expand
        simp only [postOrderCollect, pushRev_eq]
        rw [ih]
        · simp only [List.flatMap_append, List.flatMap_cons, entryOut]
          rw [hpost x]
          simp [List.flatMap_map, entryOut]
        · have hs := hsize x
          simp only [cost_append, cost_unprocessed, cost] at h ⊢
          simp at h ⊢
          omega
      · simp only [postOrderCollect]
        rw [ih]
        · simp [entryOut]
        · simp [cost] at h; omega

/-- PREFIX CODE.  `lab` labels a node; equal labels force equal numbers of children (`harity`)
and a node is determined by its label and children (`hinj`).  Then two stacks of equal length
whose flattened pre-order LABEL sequences are related by "one is a prefix of the other" are
equal.  (`size` is only the termination measure.) -/
theorem prefix_code {L : Type} (kids : α → List α) (pre : α → List α) (lab : α → L) (size : α → Nat)
    (hpre : ∀ x, pre x = x :: (kids x).flatMap pre)
    (hsize : ∀ x, size x = 1 + ((kids x).map size).sum)
    (harity : ∀ x y, lab x = lab y → (kids x).length = (kids y).length)
    (hinj : ∀ x y, lab x = lab y → kids x = kids y → x = y) :
    ∀ (n : Nat) (sa sb : List α), (sa.map size).sum ≤ n → sa.length = sb.length →
      ((sa.flatMap pre).map lab) <+: ((sb.flatMap pre).map lab) → sa = sb := by
  intro n
  induction n with
  | zero =>
    intro sa sb hn hl _
    cases sa with
    | nil => cases sb with
      | nil => rfl
      | cons y ys => simp at hl
    | cons x xs => have := hsize x; simp at hn; omega
  | succ n ih =>
    intro sa sb hn hl hp
    cases sa with
    | nil => cases sb with
      | nil => rfl
      | cons y ys => simp at hl
    | cons x xs =>
      cases sb with
      | nil => simp at hl
      | cons y ys =>
        simp only [List.flatMap_cons, hpre x, hpre y, List.cons_append, List.map_cons,
          List.cons_prefix_cons] at hp
        obtain ⟨hlab, hrest⟩ := hp
        have har := harity x y hlab
        have hrec : kids x ++ xs = kids y ++ ys := by
          apply ih
          · have hs := hsize x
            simp only [List.map_cons, List.sum_cons, List.map_append, List.sum_append] at hn ⊢
            omega
          · simp only [List.length_append, List.length_cons] at hl ⊢; omega
          · simpa [List.flatMap_append] using hrest
        have hk : kids x = kids y ∧ xs = ys := List.append_inj hrec har
        rw [hinj x y hlab hk.1, hk.2]

/-! ## `Ms` -/

theorem MsList.pre_eq : (xs : MsList) → xs.pre = xs.toList.flatMap Ms.pre
  | .nil => rfl
  | .cons x xs => by simp [MsList.pre, MsList.toList, MsList.pre_eq xs]

theorem Ms.pre_eq (x : Ms) : x.pre = x :: x.asNode.children.flatMap Ms.pre := by
  cases x <;> simp [Ms.pre, Ms.asNode, Tree.children, MsList.pre_eq]

theorem MsList.rtlPost_eq : (xs : MsList) → xs.rtlPost = xs.toList.reverse.flatMap Ms.rtlPost
  | .nil => rfl
  | .cons x xs => by simp [MsList.rtlPost, MsList.toList, MsList.rtlPost_eq xs]

theorem Ms.rtlPost_eq (x : Ms) :
    x.rtlPost = x.asNode.rtl.children.flatMap Ms.rtlPost ++ [x] := by
  cases x <;> simp [Ms.rtlPost, Ms.asNode, Tree.rtl, Tree.children, MsList.rtlPost_eq]

theorem MsList.nodes_eq : (xs : MsList) → xs.nodes = (xs.toList.map Ms.nodes).sum
  | .nil => rfl
  | .cons x xs => by simp [MsList.nodes, MsList.toList, MsList.nodes_eq xs]

theorem Ms.nodes_eq (x : Ms) : x.nodes = 1 + (x.asNode.children.map Ms.nodes).sum := by
  cases x <;> simp [Ms.nodes, Ms.asNode, Tree.children, MsList.nodes_eq] <;> omega

theorem Ms.nodes_rtl (x : Ms) : x.nodes = 1 + (x.asNode.rtl.children.map Ms.nodes).sum := by
  cases x <;> simp [Ms.nodes, Ms.asNode, Tree.rtl, Tree.children, MsList.nodes_eq, List.sum_reverse] <;> omega

mutual
theorem Ms.pre_length : (x : Ms) → x.pre.length = x.nodes
  | .tru | .fls | .pkK _ | .pkH _ | .rawPkH _ | .after _ | .older _ | .hash _ _
  | .multi _ _ | .sortedMulti _ _ | .multiA _ _ | .sortedMultiA _ _ => by simp [Ms.pre, Ms.nodes]
  | .alt x | .swap x | .check x | .dupIf x | .verify x | .nonZero x | .zeroNotEqual x => by
    simp [Ms.pre, Ms.nodes, Ms.pre_length x]
  | .andV l r | .andB l r | .orB l r | .orD l r | .orC l r | .orI l r => by
    simp [Ms.pre, Ms.nodes, Ms.pre_length l, Ms.pre_length r]
  | .andOr a b c => by
    simp [Ms.pre, Ms.nodes, Ms.pre_length a, Ms.pre_length b, Ms.pre_length c]; omega
  | .thresh _ xs => by simp [Ms.pre, Ms.nodes, MsList.pre_length' xs]
theorem MsList.pre_length' : (xs : MsList) → xs.pre.length = xs.nodes
  | .nil => rfl
  | .cons x xs => by simp [MsList.pre, MsList.nodes, Ms.pre_length x, MsList.pre_length' xs]
end

/-- `ms.pre_order_iter()` yields the structural pre-order; `nodes` items of fuel are enough -/
theorem preOrder_eq_pre (ms : Ms) : ms.preOrder = ms.pre := by
  unfold Ms.preOrder preOrderIter
  rw [preCollect_eq Ms.asNode Ms.pre Ms.pre_eq]
  simp only [List.flatMap_cons, List.flatMap_nil, List.append_nil]
  rw [← Ms.pre_length ms, List.take_length]

/-- `ms.rtl_post_order_iter()` yields the structural right-to-left post-order -/
theorem rtlPostOrder_eq (ms : Ms) : ms.rtlPostOrder = ms.rtlPost := by
  unfold Ms.rtlPostOrder rtlPostOrderIter
  rw [postCollect_eq (fun x => (Ms.asNode x).rtl) Ms.rtlPost Ms.nodes Ms.rtlPost_eq Ms.nodes_rtl]
  · simp [entryOut]
  · simp [cost]

end MsVerif.TreeWalk

/-
`NumOk n`: the script-number facts about `n` that the execution lemmas use.  Proved for every
`n < 2^31` in Lemmas/SatNum.lean (`numOk_of_lt`).
-/
import MsVerif.Spec.SatSpec

namespace MsVerif.SatSpec
open MsVerif Script

/-- `n` survives the script-number round trip as a ≤ 4-byte operand (with or without the
MINIMALDATA rule) and is truthy when non-zero.  Holds for every `n < 2^31`
(`numOk_of_lt`). -/
def NumOk (n : Nat) : Prop :=
  (∀ min, numDecode min 4 (numEncode (n : Int)) = some (n : Int)) ∧
  (n ≠ 0 → castToBool (numEncode (n : Int)) = true)

end MsVerif.SatSpec

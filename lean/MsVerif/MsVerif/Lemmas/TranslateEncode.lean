/-
Lemmas for C20 (T3/T4/T5): script, type and ext data of a key-substituted miniscript; key
iteration (`for_each_key`, `Miniscript::iter`, `iter_pk`).
-/
import MsVerif.Lemmas.TranslateLemmas
import MsVerif.Model.Encode
import MsVerif.Model.TypeCheck
import MsVerif.Model.Ext

-- many `simp` calls below close several constructor cases at once; an argument unused in one case is used in another
set_option linter.unusedSimpArgs false

namespace MsVerif.TranslateEncode
open MsVerif MsVerif.TreeWalk MsVerif.CmpEq MsVerif.TranslateLemmas Script

/-- the key table seen through a mapping: atom `k` is serialised as the mapped key `f k` -/
def KeyEnv.comap (env : KeyEnv) (f : Key → Key) (g : HashKind → Nat → Nat) : KeyEnv where
  ser k := env.ser (f k)
  sortKey k := env.sortKey (f k)
  pkh k := env.pkh (f k)
  rawPkh := env.rawPkh
  hashVal kind h := env.hashVal kind (g kind h)

theorem insertByKey_map (env : KeyEnv) (f : Key → Key) (g : HashKind → Nat → Nat) (k : Key) (l : List Key) :
    insertByKey env (f k) (l.map f) = (insertByKey (KeyEnv.comap env f g) k l).map f := by
  induction l with
  | nil => rfl
  | cons x xs ih =>
    have hs : ∀ y, (KeyEnv.comap env f g).sortKey y = env.sortKey (f y) := fun _ => rfl
    simp only [List.map_cons, insertByKey, hs]
    split <;> simp [ih]

theorem sortKeys_map (env : KeyEnv) (f : Key → Key) (g : HashKind → Nat → Nat) (ks : List Key) :
    sortKeys env (ks.map f) = (sortKeys (KeyEnv.comap env f g) ks).map f := by
  unfold sortKeys
  suffices h : ∀ (acc : List Key),
      (ks.map f).foldl (fun acc k => insertByKey env k acc) (acc.map f)
        = (ks.foldl (fun acc k => insertByKey (KeyEnv.comap env f g) k acc) acc).map f by
    simpa using h []
  induction ks with
  | nil => intro acc; rfl
  | cons k ks ih =>
    intro acc
    simp only [List.map_cons, List.foldl_cons, insertByKey_map env f g]
    exact ih _

theorem encodeMultiA_map (env : KeyEnv) (f : Key → Key) (g : HashKind → Nat → Nat) (ks : List Key) :
    encodeMultiA env (ks.map f) = encodeMultiA (KeyEnv.comap env f g) ks := by
  cases ks with
  | nil => rfl
  | cons k ks => simp [encodeMultiA, KeyEnv.comap, List.flatMap_map]

mutual
theorem encode_mapKeys (env : KeyEnv) (ctx : Ctx) (f : Key → Key) (g : HashKind → Nat → Nat) : (ms : Ms) →
    encode env ctx (ms.mapKeys f g) = encode (KeyEnv.comap env f g) ctx ms
  | .tru | .fls | .rawPkH _ | .after _ | .older _ => by simp [Ms.mapKeys, encode, KeyEnv.comap]
  | .pkK _ | .pkH _ | .hash _ _ => by simp [Ms.mapKeys, encode, KeyEnv.comap]
  | .multi _ _ => by simp [Ms.mapKeys, encode, KeyEnv.comap, Function.comp_def]
  | .sortedMulti _ _ => by
    simp [Ms.mapKeys, encode, sortKeys_map env f g, Function.comp_def, KeyEnv.comap]
  | .multiA _ _ => by simp [Ms.mapKeys, encode, encodeMultiA_map env f g]
  | .sortedMultiA _ ks => by
    simp only [Ms.mapKeys, encode, sortKeys_map env f g, encodeMultiA_map env f g]
  | .alt x | .swap x | .check x | .dupIf x | .verify x | .nonZero x | .zeroNotEqual x => by
    simp [Ms.mapKeys, encode, encode_mapKeys env ctx f g x]
  | .andV l r | .andB l r | .orB l r | .orD l r | .orC l r | .orI l r => by
    simp [Ms.mapKeys, encode, encode_mapKeys env ctx f g l, encode_mapKeys env ctx f g r]
  | .andOr a b c => by
    simp [Ms.mapKeys, encode, encode_mapKeys env ctx f g a, encode_mapKeys env ctx f g b,
      encode_mapKeys env ctx f g c]
  | .thresh _ xs => by simp [Ms.mapKeys, encode, encodeThresh_mapKeys env ctx f g true xs]
theorem encodeThresh_mapKeys (env : KeyEnv) (ctx : Ctx) (f : Key → Key) (g : HashKind → Nat → Nat)
    (first : Bool) : (xs : MsList) →
    encodeThresh env ctx first (xs.mapKeys f g) = encodeThresh (KeyEnv.comap env f g) ctx first xs
  | .nil => rfl
  | .cons x xs => by
    simp [MsList.mapKeys, encodeThresh, encode_mapKeys env ctx f g x,
      encodeThresh_mapKeys env ctx f g false xs]
end

mutual
theorem typeOf_mapKeys (f : Key → Key) (g : HashKind → Nat → Nat) : (ms : Ms) →
    typeOf (ms.mapKeys f g) = typeOf ms
  | .tru | .fls | .rawPkH _ | .after _ | .older _ | .pkK _ | .pkH _ | .hash _ _ => by
    simp [Ms.mapKeys, typeOf]
  | .multi _ _ | .sortedMulti _ _ | .multiA _ _ | .sortedMultiA _ _ => by simp [Ms.mapKeys, typeOf]
  | .alt x | .swap x | .check x | .dupIf x | .verify x | .nonZero x | .zeroNotEqual x => by
    simp [Ms.mapKeys, typeOf, typeOf_mapKeys f g x]
  | .andV l r | .andB l r | .orB l r | .orD l r | .orC l r | .orI l r => by
    simp [Ms.mapKeys, typeOf, typeOf_mapKeys f g l, typeOf_mapKeys f g r]
  | .andOr a b c => by
    simp [Ms.mapKeys, typeOf, typeOf_mapKeys f g a, typeOf_mapKeys f g b, typeOf_mapKeys f g c]
  | .thresh _ xs => by simp [Ms.mapKeys, typeOf, typesOf_mapKeys f g xs]
theorem typesOf_mapKeys (f : Key → Key) (g : HashKind → Nat → Nat) : (xs : MsList) →
    typesOf (xs.mapKeys f g) = typesOf xs
  | .nil => rfl
  | .cons x xs => by simp [MsList.mapKeys, typesOf, typeOf_mapKeys f g x, typesOf_mapKeys f g xs]
end

mutual
theorem extOf_mapKeys (env : KeyEnv) (ctx : Ctx) (f : Key → Key) (g : HashKind → Nat → Nat)
    (hk : ∀ k, isUnc env (f k) = isUnc env k) : (ms : Ms) →
    extOf env ctx (ms.mapKeys f g) = extOf env ctx ms
  | .tru | .fls | .rawPkH _ | .after _ | .older _ | .pkK _ | .pkH _ => by
    simp [Ms.mapKeys, extOf, hk]
  | .hash kind _ => by cases kind <;> simp [Ms.mapKeys, extOf]
  | .multi _ _ | .sortedMulti _ _ | .multiA _ _ | .sortedMultiA _ _ => by
    simp [Ms.mapKeys, extOf, hk, Function.comp_def]
  | .alt x | .swap x | .check x | .dupIf x | .verify x | .nonZero x | .zeroNotEqual x => by
    simp [Ms.mapKeys, extOf, extOf_mapKeys env ctx f g hk x]
  | .andV l r | .andB l r | .orB l r | .orD l r | .orC l r | .orI l r => by
    simp [Ms.mapKeys, extOf, extOf_mapKeys env ctx f g hk l, extOf_mapKeys env ctx f g hk r]
  | .andOr a b c => by
    simp [Ms.mapKeys, extOf, extOf_mapKeys env ctx f g hk a, extOf_mapKeys env ctx f g hk b,
      extOf_mapKeys env ctx f g hk c]
  | .thresh _ xs => by simp [Ms.mapKeys, extOf, extsOf_mapKeys env ctx f g hk xs]
theorem extsOf_mapKeys (env : KeyEnv) (ctx : Ctx) (f : Key → Key) (g : HashKind → Nat → Nat)
    (hk : ∀ k, isUnc env (f k) = isUnc env k) : (xs : MsList) →
    extsOf env ctx (xs.mapKeys f g) = extsOf env ctx xs
  | .nil => rfl
  | .cons x xs => by
    simp [MsList.mapKeys, extsOf, extOf_mapKeys env ctx f g hk x, extsOf_mapKeys env ctx f g hk xs]
end

/-! ## `for_each_key` -/

theorem allVisit_append (pred : Key → Bool) (a b : List Key) :
    allVisit pred (a ++ b) =
      if (allVisit pred a).2 then ((allVisit pred a).1 ++ (allVisit pred b).1, (allVisit pred b).2)
      else ((allVisit pred a).1, false) := by
  induction a with
  | nil => simp [allVisit]
  | cons k ks ih =>
    simp only [List.cons_append, allVisit]
    by_cases hk : pred k = true
    · simp only [hk, if_true, ih]
      split <;> simp
    · simp [hk]

theorem forEachKeyLoop_cons (pred : Key → Bool) (x : Ms) (xs : List Ms) :
    forEachKeyLoop pred (x :: xs) =
      if (allVisit pred x.keysAt).2 then
        ((allVisit pred x.keysAt).1 ++ (forEachKeyLoop pred xs).1, (forEachKeyLoop pred xs).2)
      else ((allVisit pred x.keysAt).1, false) := by
  cases x
  case pkK k => cases h : pred k <;> simp [forEachKeyLoop, Ms.keysAt, allVisit, h]
  case pkH k => cases h : pred k <;> simp [forEachKeyLoop, Ms.keysAt, allVisit, h]
  case multi k ks => simp only [forEachKeyLoop, Ms.keysAt]; rfl
  case sortedMulti k ks => simp only [forEachKeyLoop, Ms.keysAt]; rfl
  case multiA k ks => simp only [forEachKeyLoop, Ms.keysAt]; rfl
  case sortedMultiA k ks => simp only [forEachKeyLoop, Ms.keysAt]; rfl
  all_goals simp [forEachKeyLoop, Ms.keysAt, allVisit]

theorem forEachKeyLoop_eq (pred : Key → Bool) (l : List Ms) :
    forEachKeyLoop pred l = allVisit pred (l.flatMap Ms.keysAt) := by
  induction l with
  | nil => rfl
  | cons x xs ih => rw [forEachKeyLoop_cons, List.flatMap_cons, allVisit_append, ih]

/-! ## `Miniscript::iter` -/

theorem branches_eq (ms : Ms) : ms.branches = ms.asNode.children := by
  cases ms <;> simp [Ms.branches, Ms.asNode, Tree.children]

theorem getNthChild_eq (ms : Ms) (n : Nat) : ms.getNthChild n = ms.asNode.children[n]? := by
  cases ms <;> simp [Ms.getNthChild, Ms.asNode, Tree.children] <;>
    (first
      | done
      | (cases n with
         | zero => simp
         | succ n => cases n with
           | zero => simp
           | succ n => cases n <;> simp))

/-- what a path entry `(node, i)` still has to yield: the subtrees of children `i, i+1, …` -/
def pathOut (p : Ms × Nat) : List Ms := (p.1.asNode.children.drop p.2).flatMap Ms.pre

/-- what the iterator state still has to yield -/
def remaining (s : IterState) : List Ms :=
  (match s.next with | some n => n.pre | none => []) ++ s.path.flatMap pathOut

theorem drop_getElem? {α : Type} (l : List α) (i : Nat) :
    l.drop i = match l[i]? with | some x => x :: l.drop (i + 1) | none => [] := by
  induction l generalizing i with
  | nil => simp
  | cons y ys ih =>
    cases i with
    | zero => simp
    | succ i => simpa using ih i

theorem iterUnwind_spec : (path : List (Ms × Nat)) →
    path.flatMap pathOut =
      (match (iterUnwind path).1 with | some c => c.pre | none => []) ++ (iterUnwind path).2.flatMap pathOut
  | [] => by simp [iterUnwind]
  | (node, child) :: path => by
    simp only [iterUnwind, getNthChild_eq]
    have hd := drop_getElem? node.asNode.children child
    cases h : node.asNode.children[child]? with
    | none =>
      simp only [h] at hd
      simp only [List.flatMap_cons, pathOut, hd, List.flatMap_nil, List.nil_append]
      exact iterUnwind_spec path
    | some c =>
      simp only [h] at hd
      simp [List.flatMap_cons, pathOut, hd, List.flatMap_append]

theorem iterUnwind_none (path : List (Ms × Nat)) (h : (iterUnwind path).1 = none) :
    (iterUnwind path).2 = [] := by
  induction path with
  | nil => rfl
  | cons p ps ih =>
    obtain ⟨node, child⟩ := p
    simp only [iterUnwind] at h ⊢
    cases hc : node.getNthChild child with
    | none => simp only [hc] at h ⊢; exact ih h
    | some c => simp [hc] at h

theorem iterCollect_eq : ∀ (fuel : Nat) (s : IterState),
    iterCollect iterNext fuel s = (remaining s).take fuel := by
  intro fuel
  induction fuel with
  | zero => intro s; simp [iterCollect]
  | succ n ih =>
    intro s
    obtain ⟨next, path⟩ := s
    cases next with
    | some c =>
      simp only [iterCollect, iterNext, ih, remaining, getNthChild_eq]
      rw [Ms.pre_eq c]
      have hd := drop_getElem? c.asNode.children 0
      simp only [List.drop_zero] at hd
      cases h0 : c.asNode.children[0]? with
      | none =>
        simp only [h0] at hd
        simp [hd, pathOut, h0, List.take_succ_cons]
      | some c0 =>
        simp only [h0] at hd
        rw [hd]
        simp [pathOut, List.take_succ_cons, List.flatMap_append]
    | none =>
      have hs := iterUnwind_spec path
      simp only [iterCollect, iterNext, remaining, List.nil_append]
      cases hu : (iterUnwind path).1 with
      | none =>
        have h2 := iterUnwind_none path hu
        rw [hs, hu, h2]
        simp [hu]
      | some c =>
        rw [hs, hu]
        have he : iterUnwind path = (some c, (iterUnwind path).2) := by rw [← hu]
        rw [he]
        simp only [ih, remaining, getNthChild_eq]
        rw [Ms.pre_eq c]
        have hd := drop_getElem? c.asNode.children 0
        simp only [List.drop_zero] at hd
        cases h0 : c.asNode.children[0]? with
        | none =>
          simp only [h0] at hd
          simp [hd, pathOut, List.take_succ_cons]
        | some c0 =>
          simp only [h0] at hd
          rw [hd]
          simp [pathOut, List.take_succ_cons]

/-- `ms.iter()` yields the pre-order -/
theorem iterNodes_eq (ms : Ms) : ms.iterNodes = ms.pre := by
  unfold Ms.iterNodes
  rw [iterCollect_eq]
  simp only [remaining, List.flatMap_nil, List.append_nil]
  rw [← Ms.pre_length ms, List.take_length]

theorem getNthPk_eq (ms : Ms) (n : Nat) : ms.getNthPk n = ms.keysAt[n]? := by
  cases ms <;> simp [Ms.getNthPk, Ms.keysAt] <;> (cases n <;> simp)

theorem pkIterNode_eq (node : Ms) : ∀ (fuel idx : Nat),
    pkIterNode node fuel idx = (node.keysAt.drop idx).take fuel
  | 0, _ => by simp [pkIterNode]
  | fuel + 1, idx => by
    rw [pkIterNode, getNthPk_eq, drop_getElem? node.keysAt idx]
    cases node.keysAt[idx]? with
    | none => simp
    | some pk => simp [pkIterNode_eq node fuel (idx + 1), List.take_succ_cons]

/-- `ms.iter_pk()` yields the keys in pre-order -/
theorem iterPk_eq (ms : Ms) : ms.iterPkLit = ms.keys := by
  unfold Ms.iterPkLit Ms.keys
  rw [iterNodes_eq]
  congr 1; funext node
  rw [pkIterNode_eq]
  simp only [List.drop_zero]
  exact List.take_of_length_le (by omega)

mutual
theorem keysPre_mapKeys (f : Key → Key) (g : HashKind → Nat → Nat) : (ms : Ms) →
    (ms.mapKeys f g).pre.flatMap Ms.keysAt = (ms.pre.flatMap Ms.keysAt).map f
  | .tru | .fls | .rawPkH _ | .after _ | .older _ | .pkK _ | .pkH _ | .hash _ _ => by
    simp [Ms.mapKeys, Ms.pre, Ms.keysAt]
  | .multi _ _ | .sortedMulti _ _ | .multiA _ _ | .sortedMultiA _ _ => by
    simp [Ms.mapKeys, Ms.pre, Ms.keysAt]
  | .alt x | .swap x | .check x | .dupIf x | .verify x | .nonZero x | .zeroNotEqual x => by
    simp [Ms.mapKeys, Ms.pre, Ms.keysAt, keysPre_mapKeys f g x]
  | .andV l r | .andB l r | .orB l r | .orD l r | .orC l r | .orI l r => by
    simp [Ms.mapKeys, Ms.pre, Ms.keysAt, List.flatMap_append, keysPre_mapKeys f g l,
      keysPre_mapKeys f g r]
  | .andOr a b c => by
    simp [Ms.mapKeys, Ms.pre, Ms.keysAt, List.flatMap_append, keysPre_mapKeys f g a,
      keysPre_mapKeys f g b, keysPre_mapKeys f g c]
  | .thresh _ xs => by simp [Ms.mapKeys, Ms.pre, Ms.keysAt, keysPre_mapKeys_list f g xs]
theorem keysPre_mapKeys_list (f : Key → Key) (g : HashKind → Nat → Nat) : (xs : MsList) →
    (xs.mapKeys f g).pre.flatMap Ms.keysAt = (xs.pre.flatMap Ms.keysAt).map f
  | .nil => rfl
  | .cons x xs => by
    simp [MsList.mapKeys, MsList.pre, List.flatMap_append, keysPre_mapKeys f g x,
      keysPre_mapKeys_list f g xs]
end

end MsVerif.TranslateEncode

/-
The three-symbol-error table of C10: for distinct distances `1 ≤ d₂ < d₁ ≤ 1040` and non-zero
symbols, `L^d₁ e₁ + L^d₂ e₂` is never a single symbol `e₃` — no code word of weight 3 within
1041 symbols.
-/
import MsVerif.Lemmas.ChecksumTripleData

namespace MsVerif.Checksum

/-! ## distinctness of the table entries -/

theorem notIn_sound {x : Nat} : ∀ {l : List Nat}, notIn x l = true → ∀ y ∈ l, x ≠ y
  | [], _, y, hy => by cases hy
  | z :: zs, h, y, hy => by
    simp only [notIn, Bool.and_eq_true, bne_iff_ne, ne_eq] at h
    rcases List.mem_cons.mp hy with e | e
    · rw [e]; exact h.1
    · exact notIn_sound h.2 y e

theorem distinct_sound : ∀ {l : List Nat}, distinct l = true → l.Pairwise (· ≠ ·)
  | [], _ => List.Pairwise.nil
  | x :: xs, h => by
    simp only [distinct, Bool.and_eq_true] at h
    exact List.Pairwise.cons (notIn_sound h.1) (distinct_sound h.2)

theorem bucketDistinct_sound {l : List Nat} (h : bucketDistinct l = true) : l.Pairwise (· ≠ ·) := by
  rw [List.pairwise_iff_forall_sublist]
  intro a b hab e
  subst e
  have hb : a % 32 < 32 := Nat.mod_lt _ (by decide)
  unfold bucketDistinct at h
  have h1 := List.all_eq_true.mp h (a % 32) (List.mem_range.mpr hb)
  have h2 := distinct_sound h1
  have h3 : [a, a].Sublist (l.filter (fun x => x % 32 == a % 32)) := by
    have := List.Sublist.filter (fun x => x % 32 == a % 32) hab
    simpa using this
  have := (List.pairwise_iff_forall_sublist.mp h2) h3
  exact this rfl

theorem repN_table (d : Nat) (h1 : 1 ≤ d) (h2 : d ≤ 1040) :
    allReps[d - 1]? = some (repN (LNpow d 1)) := by
  have c0 := repChunk0; have c1 := repChunk1; have c2 := repChunk2; have c3 := repChunk3
  rw [repsFrom_eq] at c0 c1 c2 c3
  have t0 : tv0 = 1 := rfl
  obtain ⟨r0, v1⟩ := Prod.mk.inj c0
  obtain ⟨r1, v2⟩ := Prod.mk.inj c1
  obtain ⟨r2, v3⟩ := Prod.mk.inj c2
  obtain ⟨r3, _⟩ := Prod.mk.inj c3
  have hadd : ∀ a b x, LNpow a (LNpow b x) = LNpow (a + b) x := by
    intro a b x; induction a with
    | zero => simp [LNpow]
    | succ k ih => rw [Nat.succ_add]; show LN _ = LN _; rw [ih]
  have e1 : tv1 = LNpow 260 1 := by rw [← v1, t0]
  have e2 : tv2 = LNpow 520 1 := by rw [← v2, e1, hadd]
  have e3 : tv3 = LNpow 780 1 := by rw [← v3, e2, hadd]
  have l0 : reps0.length = 260 := by rw [← r0]; simp
  have l1 : reps1.length = 260 := by rw [← r1]; simp
  have l2 : reps2.length = 260 := by rw [← r2]; simp
  have l3 : reps3.length = 260 := by rw [← r3]; simp
  unfold allReps
  by_cases k0 : d ≤ 260
  · rw [List.append_assoc, List.append_assoc, List.getElem?_append_left (by omega), ← r0, t0]
    simp only [List.getElem?_map, List.getElem?_range (show d - 1 < 260 by omega), Option.map]
    rw [show d - 1 + 1 = d by omega]
  by_cases k1 : d ≤ 520
  · rw [List.append_assoc, List.getElem?_append_left (by simp only [List.length_append]; omega),
      List.getElem?_append_right (by omega), l0, ← r1, e1]
    simp only [List.getElem?_map, List.getElem?_range (show d - 1 - 260 < 260 by omega), Option.map,
      hadd]
    rw [show d - 1 - 260 + 1 + 260 = d by omega]
  by_cases k2 : d ≤ 780
  · rw [List.getElem?_append_left (by simp only [List.length_append]; omega),
      List.getElem?_append_right (by simp only [List.length_append]; omega),
      List.length_append, l0, l1, ← r2, e2]
    simp only [List.getElem?_map, List.getElem?_range (show d - 1 - (260 + 260) < 260 by omega),
      Option.map, hadd]
    rw [show d - 1 - (260 + 260) + 1 + 520 = d by omega]
  · rw [List.getElem?_append_right (by simp only [List.length_append]; omega),
      List.length_append, List.length_append, l0, l1, l2, ← r3, e3]
    simp only [List.getElem?_map, List.getElem?_range (show d - 1 - (260 + 260 + 260) < 260 by omega),
      Option.map, hadd]
    rw [show d - 1 - (260 + 260 + 260) + 1 + 780 = d by omega]

theorem allReps_length : allReps.length = 1040 := by decide +kernel

/-- distinct powers of `x` have distinct normal forms -/
theorem repN_distinct {d1 d2 : Nat} (h1 : 1 ≤ d2) (h : d2 < d1) (hN : d1 ≤ 1040) :
    repN (LNpow d1 1) ≠ repN (LNpow d2 1) := by
  have hp := bucketDistinct_sound allReps_distinct
  rw [List.pairwise_iff_getElem] at hp
  have hl := allReps_length
  have := hp (d2 - 1) (d1 - 1) (by omega) (by omega) (by omega)
  have a1 := repN_table d1 (by omega) hN
  have a2 := repN_table d2 h1 (by omega)
  rw [List.getElem?_eq_getElem (by omega)] at a1 a2
  rw [Option.some.inj a1, Option.some.inj a2] at this
  exact fun e => this e.symm

/-! ## from a weight-3 code word to equal normal forms -/

def upper (v : W) : List Nat :=
  [unpack v 1, unpack v 2, unpack v 3, unpack v 4, unpack v 5, unpack v 6, unpack v 7]

theorem upper_eq (v : W) : upper v = digitsU v.toNat := by
  unfold upper digitsU
  simp only [unpack_eq, Nat.shiftRight_eq_div_pow]

theorem upper_all (v : W) : All32 (upper v) := by
  intro d hd
  unfold upper at hd
  simp only [List.mem_cons, List.not_mem_nil, or_false] at hd
  rcases hd with h | h | h | h | h | h | h <;> rw [h] <;> exact unpack_lt _ _

theorem upper_smul (l : Nat) (hl : l < 32) (v : W) : upper (smul l v) = (upper v).map (gmul l) := by
  unfold upper
  simp only [List.map, unpack_smul l hl v _ (by omega : 1 < 8), unpack_smul l hl v _ (by omega : 2 < 8),
    unpack_smul l hl v _ (by omega : 3 < 8), unpack_smul l hl v _ (by omega : 4 < 8),
    unpack_smul l hl v _ (by omega : 5 < 8), unpack_smul l hl v _ (by omega : 6 < 8),
    unpack_smul l hl v _ (by omega : 7 < 8)]

theorem upper_ofNat : ∀ e, e < 32 → upper (BitVec.ofNat 40 e) = [0, 0, 0, 0, 0, 0, 0] := by
  decide +kernel

theorem upper_xor (x y : W) : upper (x ^^^ y) = List.zipWith (· ^^^ ·) (upper x) (upper y) := by
  unfold upper; simp only [unpack_xor, List.zipWith]

/-- **no code word of weight 3**: `L^d₁ e₁ + L^d₂ e₂ ≠ e₃` -/
theorem triple_free {d1 d2 e1 e2 e3 : Nat} (h1 : 1 ≤ d2) (h : d2 < d1) (hN : d1 ≤ 1040)
    (he1 : e1 < 32) (he2 : e2 < 32) (he3 : e3 < 32) (n1 : e1 ≠ 0) (n2 : e2 ≠ 0) :
    Lpow d1 (BitVec.ofNat 40 e1) ^^^ Lpow d2 (BitVec.ofNat 40 e2) ≠ BitVec.ofNat 40 e3 := by
  intro heq
  rw [Lpow_ofNat_smul e1 he1, Lpow_ofNat_smul e2 he2] at heq
  have hu := congrArg upper heq
  rw [upper_xor, upper_smul e1 he1, upper_smul e2 he2, upper_ofNat e3 he3] at hu
  -- the two scaled vectors coincide
  have hsame : (upper (Lpow d1 1#40)).map (gmul e1) = (upper (Lpow d2 1#40)).map (gmul e2) := by
    unfold upper at hu ⊢
    simp only [List.map, List.zipWith, List.cons.injEq, and_true] at hu ⊢
    obtain ⟨a1, a2, a3, a4, a5, a6, a7⟩ := hu
    exact ⟨xor_eq_zero_iff'.mp a1, xor_eq_zero_iff'.mp a2, xor_eq_zero_iff'.mp a3,
      xor_eq_zero_iff'.mp a4, xor_eq_zero_iff'.mp a5, xor_eq_zero_iff'.mp a6, xor_eq_zero_iff'.mp a7⟩
  have r1 := repL_map e1 he1 n1 (upper_all (Lpow d1 1#40))
  have r2 := repL_map e2 he2 n2 (upper_all (Lpow d2 1#40))
  rw [hsame, r2] at r1
  -- equal normal forms: contradiction with the table
  have hrep : repN (LNpow d1 1) = repN (LNpow d2 1) := by
    unfold repN
    have t1 : (1#40 : W).toNat = 1 := rfl
    rw [← t1, ← Lpow_toNat, ← Lpow_toNat, ← upper_eq, ← upper_eq, r1]
  exact repN_distinct h1 h hN hrep

end MsVerif.Checksum

/- The printed descriptor trees are well-formed for the expression grammar; string-level round trip. -/
import MsVerif.Lemmas.DescRound
import MsVerif.Lemmas.DisplayString

namespace MsVerif.DescDisplay
open MsVerif MsVerif.Display MsVerif.Expr

structure DNames (c : DCodec) : Prop where
  ms : ∀ ctx, CodecNames (c.ms ctx)
  key : ∀ k, NameOk (c.showKey k)

theorem wname (n : List Char) (h : n.all charOkB = true) : NameOk n := nameOk_of_all n h

theorem node1_wf (n : List Char) (hn : NameOk n) (x : Tree) (hx : x.WF) : (Tree.node n .round [x]).WF := by
  unfold Tree.WF; exact ⟨hn, by simp, by simp [Tree.WFList, hx]⟩

theorem tapTree_wf (c : DCodec) (hn : DNames c) : ∀ t : TapT, (tapTree c t).WF
  | .leaf m => by
    rw [show tapTree c (.leaf m) = Display.toTree (c.ms .tap) m from rfl]
    exact toTreeW_wf _ (hn.ms .tap) m [] nil_pre
  | .node l r => by
    rw [show tapTree c (.node l r) = .node [] .curly [tapTree c l, tapTree c r] from rfl]
    unfold Tree.WF
    refine ⟨by intro ch hc; simp at hc, by simp, ?_⟩
    simp [Tree.WFList, tapTree_wf c hn l, tapTree_wf c hn r]

theorem toTree_wf (c : DCodec) (hn : DNames c) (d : Desc) : (toTree c d).WF := by
  have kleaf : ∀ k, (leaf (c.showKey k)).WF := fun k => leaf_wf _ (hn.key k)
  cases d with
  | bare m => exact toTreeW_wf _ (hn.ms .bare) m [] nil_pre
  | pkh k => exact node1_wf _ (wname _ (by decide)) _ (kleaf k)
  | wpkh k => exact node1_wf _ (wname _ (by decide)) _ (kleaf k)
  | sh m => exact node1_wf _ (wname _ (by decide)) _ (toTreeW_wf _ (hn.ms .legacy) m [] nil_pre)
  | shWpkh k => exact node1_wf _ (wname _ (by decide)) _ (node1_wf _ (wname _ (by decide)) _ (kleaf k))
  | shWsh m =>
    exact node1_wf _ (wname _ (by decide)) _
      (node1_wf _ (wname _ (by decide)) _ (toTreeW_wf _ (hn.ms .segwitv0) m [] nil_pre))
  | wsh m => exact node1_wf _ (wname _ (by decide)) _ (toTreeW_wf _ (hn.ms .segwitv0) m [] nil_pre)
  | tr ik t =>
    cases t with
    | none => exact node1_wf _ (wname _ (by decide)) _ (kleaf ik)
    | some tt =>
      simp only [toTree]
      unfold Tree.WF
      refine ⟨wname _ (by decide), by simp, ?_⟩
      simp [Tree.WFList, kleaf ik, tapTree_wf c hn tt]

/-- on CHARACTERS: `Descriptor::from_str` (without the checksum and the final `Tap::SANE` sweep)
reads back what `Display` writes, as long as the printed nesting stays within the expression
parser's limit of 403 -/
theorem fromStr_display (c : DCodec) (hn : DNames c) (d : Desc) (h : DescOk c d)
    (hd : (toTree c d).depth ≤ 403) : fromStr c (display c d) = .ok d := by
  obtain ⟨nodes, hok, hdec⟩ := Expr.fromStr_print (toTree c d) (toTree_wf c hn d) hd
  unfold fromStr display
  rw [hok]
  simp only [hdec]
  exact fromTree_toTree c d h

end MsVerif.DescDisplay

/-
C06 helper lemmas, part 1: what a SUCCESSFUL primitive step of the fragment semantics
(`opc`, `psh`, `pushElem`, `countOp`, `cnd`, `skipCount`, `seqOps`) does to the stacks.
No hypothesis on the flags: with limits on, a step either fails or has the same effect.

Core Lean only.
-/
import MsVerif.Spec.Frag

namespace MsVerif.TypeSound
open MsVerif MsVerif.Script

theorem bind_ok {α β} {x : Except Err α} {f : α → Except Err β} {b : β}
    (h : (x >>= f) = .ok b) : ∃ a, x = .ok a ∧ f a = .ok b := by
  cases x with
  | error e => cases h
  | ok a => exact ⟨a, rfl, h⟩

theorem countOp_ok {env : Env} {c c' : Core} {n : Nat} (h : countOp env c n = .ok c') :
    c'.stack = c.stack ∧ c'.alt = c.alt := by
  unfold countOp at h
  dsimp only at h
  split at h
  · cases h
  · cases h; exact ⟨rfl, rfl⟩

theorem pushElem_ok {env : Env} {c c' : Core} {b : Bytes} (h : pushElem env c b = .ok c') :
    c'.stack = b :: c.stack ∧ c'.alt = c.alt := by
  unfold pushElem at h
  dsimp only at h
  split at h
  · cases h
  · split at h
    · cases h
    · cases h; exact ⟨rfl, rfl⟩

theorem psh_ok {env : Env} {c c' : Core} {b : Bytes} (h : psh env b c = .ok c') :
    c'.stack = b :: c.stack ∧ c'.alt = c.alt := by
  unfold psh at h
  split at h
  · cases h
  · exact pushElem_ok h

theorem skipCount_ok {env : Env} {s : List Op} {c c' : Core} (h : skipCount env s c = .ok c') :
    c'.stack = c.stack ∧ c'.alt = c.alt := by
  unfold skipCount at h
  split at h
  · cases h
  · exact countOp_ok h

/-- a counted opcode: the count does not touch the stacks -/
theorem opc_ok {env : Env} {o : Opc} {c c' : Core} (h : opc env o c = .ok c') :
    ∃ c1, c1.stack = c.stack ∧ c1.alt = c.alt ∧ execOpc env o c1 = .ok c' := by
  unfold opc at h
  split at h
  · cases h
  · rename_i c1 hc
    exact ⟨c1, (countOp_ok hc).1, (countOp_ok hc).2, h⟩

theorem cnd_ok {env : Env} {nf : Bool} {c c' : Core} {v : Bool} (h : cnd env nf c = .ok (v, c')) :
    ∃ a, c.stack = a :: c'.stack ∧ c'.alt = c.alt ∧ v = (if nf then !castToBool a else castToBool a) := by
  unfold cnd at h
  split at h
  · cases h
  · rename_i c1 hc
    have h1 := countOp_ok hc
    unfold condPop at h
    split at h
    · rename_i a r hs
      split at h
      · cases h
      · cases h
        exact ⟨a, by rw [← h1.1, hs], h1.2, rfl⟩
    · cases h

/-! ### individual opcodes (successful case) -/

section opcodes
variable {env : Env} {c c' : Core}

/-- tactic: destructure the core, split the stack as far as the opcode needs, unfold -/
macro "exec_cases " h:ident : tactic =>
  `(tactic| (obtain ⟨s, al, ops⟩ := c
             simp only [execOpc] at $h:ident))

theorem toalt_ok (h : opc env .toalt c = .ok c') :
    ∃ a, c.stack = a :: c'.stack ∧ c'.alt = a :: c.alt := by
  obtain ⟨c1, hs, ha, h⟩ := opc_ok h
  obtain ⟨s, al, ops⟩ := c1
  cases s with
  | nil => simp [execOpc] at h
  | cons a r =>
    simp only [execOpc] at h
    cases h
    exact ⟨a, hs.symm, by simp at ha ⊢; exact ha⟩

theorem fromalt_ok (h : opc env .fromalt c = .ok c') :
    ∃ a, c.alt = a :: c'.alt ∧ c'.stack = a :: c.stack := by
  obtain ⟨c1, hs, ha, h⟩ := opc_ok h
  obtain ⟨s, al, ops⟩ := c1
  cases al with
  | nil => simp [execOpc] at h
  | cons a r =>
    simp only [execOpc] at h
    have := pushElem_ok h
    simp at this hs ha
    exact ⟨a, by rw [← ha, this.2], by rw [this.1, hs]⟩

theorem swap_ok (h : opc env .swap c = .ok c') :
    ∃ a b r, c.stack = a :: b :: r ∧ c'.stack = b :: a :: r ∧ c'.alt = c.alt := by
  obtain ⟨c1, hs, ha, h⟩ := opc_ok h
  obtain ⟨s, al, ops⟩ := c1
  match s, h with
  | [], h => simp [execOpc] at h
  | [_], h => simp [execOpc] at h
  | a :: b :: r, h =>
    simp only [execOpc] at h
    cases h
    exact ⟨a, b, r, hs.symm, rfl, ha⟩

theorem dup_ok (h : opc env .dup c = .ok c') :
    ∃ a r, c.stack = a :: r ∧ c'.stack = a :: a :: r ∧ c'.alt = c.alt := by
  obtain ⟨c1, hs, ha, h⟩ := opc_ok h
  obtain ⟨s, al, ops⟩ := c1
  match s, h with
  | [], h => simp [execOpc] at h
  | a :: r, h =>
    simp only [execOpc] at h
    have := pushElem_ok h
    exact ⟨a, r, hs.symm, this.1, this.2.trans ha⟩

theorem size_ok (h : opc env .size c = .ok c') :
    ∃ a r, c.stack = a :: r ∧ c'.stack = numEncode a.length :: a :: r ∧ c'.alt = c.alt := by
  obtain ⟨c1, hs, ha, h⟩ := opc_ok h
  obtain ⟨s, al, ops⟩ := c1
  match s, h with
  | [], h => simp [execOpc] at h
  | a :: r, h =>
    simp only [execOpc] at h
    have := pushElem_ok h
    exact ⟨a, r, hs.symm, this.1, this.2.trans ha⟩

theorem ifdup_ok (h : opc env .ifdup c = .ok c') :
    ∃ a r, c.stack = a :: r ∧ c'.alt = c.alt ∧
      c'.stack = (if castToBool a then a :: a :: r else a :: r) := by
  obtain ⟨c1, hs, ha, h⟩ := opc_ok h
  obtain ⟨s, al, ops⟩ := c1
  match s, h with
  | [], h => simp [execOpc] at h
  | a :: r, h =>
    simp only [execOpc] at h
    split at h
    · rename_i hb
      have := pushElem_ok h
      exact ⟨a, r, hs.symm, this.2.trans ha, by simp [hb, this.1]⟩
    · rename_i hb
      cases h
      exact ⟨a, r, hs.symm, ha, by simp [hb]⟩

theorem verify_ok (h : opc env .verify c = .ok c') :
    ∃ a, c.stack = a :: c'.stack ∧ castToBool a = true ∧ c'.alt = c.alt := by
  obtain ⟨c1, hs, ha, h⟩ := opc_ok h
  obtain ⟨s, al, ops⟩ := c1
  match s, h with
  | [], h => simp [execOpc] at h
  | a :: r, h =>
    simp only [execOpc] at h
    split at h
    · rename_i hb; cases h; exact ⟨a, hs.symm, hb, ha⟩
    · cases h

/-- opcodes that pop one element and push a boolean -/
theorem zeronotequal_ok (h : opc env .zeronotequal c = .ok c') :
    ∃ a r b, c.stack = a :: r ∧ c'.stack = boolBytes b :: r ∧ c'.alt = c.alt := by
  obtain ⟨c1, hs, ha, h⟩ := opc_ok h
  obtain ⟨s, al, ops⟩ := c1
  match s, h with
  | [], h => simp [execOpc] at h
  | a :: r, h =>
    simp only [execOpc] at h
    obtain ⟨x, _, h⟩ := bind_ok h
    have := pushElem_ok h
    exact ⟨a, r, _, hs.symm, this.1, this.2.trans ha⟩

/-- binary opcodes that pop two elements and push a boolean -/
theorem bool2_ok {o : Opc} (ho : o = .booland ∨ o = .boolor ∨ o = .equal ∨ o = .numequal ∨ o = .checksig)
    (h : opc env o c = .ok c') :
    ∃ a b r v, c.stack = a :: b :: r ∧ c'.stack = boolBytes v :: r ∧ c'.alt = c.alt := by
  obtain ⟨c1, hs, ha, h⟩ := opc_ok h
  obtain ⟨s, al, ops⟩ := c1
  match s, h with
  | [], h => rcases ho with rfl | rfl | rfl | rfl | rfl <;> simp [execOpc] at h
  | [_], h => rcases ho with rfl | rfl | rfl | rfl | rfl <;> simp [execOpc] at h
  | a :: b :: r, h =>
    rcases ho with rfl | rfl | rfl | rfl | rfl
    · simp only [execOpc] at h
      obtain ⟨x, _, h⟩ := bind_ok h
      obtain ⟨y, _, h⟩ := bind_ok h
      have := pushElem_ok h
      exact ⟨a, b, r, _, hs.symm, this.1, this.2.trans ha⟩
    · simp only [execOpc] at h
      obtain ⟨x, _, h⟩ := bind_ok h
      obtain ⟨y, _, h⟩ := bind_ok h
      have := pushElem_ok h
      exact ⟨a, b, r, _, hs.symm, this.1, this.2.trans ha⟩
    · simp only [execOpc] at h
      have := pushElem_ok h
      exact ⟨a, b, r, _, hs.symm, this.1, this.2.trans ha⟩
    · simp only [execOpc] at h
      obtain ⟨x, _, h⟩ := bind_ok h
      obtain ⟨y, _, h⟩ := bind_ok h
      have := pushElem_ok h
      exact ⟨a, b, r, _, hs.symm, this.1, this.2.trans ha⟩
    · simp only [execOpc] at h
      obtain ⟨x, _, h⟩ := bind_ok h
      have := pushElem_ok h
      exact ⟨a, b, r, _, hs.symm, this.1, this.2.trans ha⟩

theorem add_ok (h : opc env .add c = .ok c') :
    ∃ a b r v, c.stack = a :: b :: r ∧ c'.stack = v :: r ∧ c'.alt = c.alt := by
  obtain ⟨c1, hs, ha, h⟩ := opc_ok h
  obtain ⟨s, al, ops⟩ := c1
  match s, h with
  | [], h => simp [execOpc] at h
  | [_], h => simp [execOpc] at h
  | a :: b :: r, h =>
    simp only [execOpc] at h
    obtain ⟨x, _, h⟩ := bind_ok h
    obtain ⟨y, _, h⟩ := bind_ok h
    have := pushElem_ok h
    exact ⟨a, b, r, _, hs.symm, this.1, this.2.trans ha⟩

theorem equalverify_ok (h : opc env .equalverify c = .ok c') :
    ∃ a b, c.stack = a :: b :: c'.stack ∧ a = b ∧ c'.alt = c.alt := by
  obtain ⟨c1, hs, ha, h⟩ := opc_ok h
  obtain ⟨s, al, ops⟩ := c1
  match s, h with
  | [], h => simp [execOpc] at h
  | [_], h => simp [execOpc] at h
  | a :: b :: r, h =>
    simp only [execOpc] at h
    split at h
    · rename_i hb; cases h; exact ⟨a, b, hs.symm, by simpa using hb, ha⟩
    · cases h

/-- the four hash opcodes: pop one, push its hash -/
theorem hashop_ok {k : HashKind} (h : opc env (hashOpc k) c = .ok c') :
    ∃ a r v, c.stack = a :: r ∧ c'.stack = v :: r ∧ c'.alt = c.alt := by
  obtain ⟨c1, hs, ha, h⟩ := opc_ok h
  obtain ⟨s, al, ops⟩ := c1
  match s, h with
  | [], h => cases k <;> simp [execOpc, hashOpc] at h
  | a :: r, h =>
    cases k <;> simp only [execOpc, hashOpc] at h <;>
    · have := pushElem_ok h
      exact ⟨a, r, _, hs.symm, this.1, this.2.trans ha⟩

theorem hash160_ok (h : opc env .hash160 c = .ok c') :
    ∃ a r, c.stack = a :: r ∧ c'.stack = env.hash .hash160 a :: r ∧ c'.alt = c.alt := by
  obtain ⟨c1, hs, ha, h⟩ := opc_ok h
  obtain ⟨s, al, ops⟩ := c1
  match s, h with
  | [], h => simp [execOpc] at h
  | a :: r, h =>
    simp only [execOpc] at h
    have := pushElem_ok h
    exact ⟨a, r, hs.symm, this.1, this.2.trans ha⟩

/-- CLTV / CSV leave the stacks as they are -/
theorem locktime_ok {o : Opc} (ho : o = .cltv ∨ o = .csv) (h : opc env o c = .ok c') :
    c'.stack = c.stack ∧ c'.alt = c.alt := by
  obtain ⟨c1, hs, ha, h⟩ := opc_ok h
  obtain ⟨s, al, ops⟩ := c1
  match s, h with
  | [], h => rcases ho with rfl | rfl <;> simp [execOpc] at h
  | a :: r, h =>
    rcases ho with rfl | rfl
    · simp only [execOpc] at h
      split at h
      · cases h
      · split at h
        · cases h
        · split at h
          · cases h; exact ⟨hs, ha⟩
          · cases h
    · simp only [execOpc] at h
      split at h
      · cases h
      · split at h
        · cases h
        · split at h
          · cases h; exact ⟨hs, ha⟩
          · split at h
            · cases h; exact ⟨hs, ha⟩
            · cases h

theorem checksigadd_ok (h : opc env .checksigadd c = .ok c') :
    ∃ a b d r v, c.stack = a :: b :: d :: r ∧ c'.stack = v :: r ∧ c'.alt = c.alt := by
  obtain ⟨c1, hs, ha, h⟩ := opc_ok h
  obtain ⟨s, al, ops⟩ := c1
  match s, h with
  | [], h => simp [execOpc] at h
  | [_], h => simp [execOpc] at h
  | [_, _], h => simp [execOpc] at h
  | a :: b :: d :: r, h =>
    simp only [execOpc] at h
    split at h
    · cases h
    · obtain ⟨x, _, h⟩ := bind_ok h
      obtain ⟨y, _, h⟩ := bind_ok h
      have := pushElem_ok h
      exact ⟨a, b, d, r, _, hs.symm, this.1, this.2.trans ha⟩

end opcodes

/-! ### straight-line lists -/

theorem seqOps_nil_ok {env : Env} {c c' : Core} (h : seqOps env [] c = .ok c') : c' = c := by
  simp only [seqOps, List.foldlM_nil] at h
  cases h; rfl

theorem seqOps_cons_ok {env : Env} {op : Op} {ops : List Op} {c c' : Core}
    (h : seqOps env (op :: ops) c = .ok c') :
    ∃ c1, pshOp env op c = .ok c1 ∧ seqOps env ops c1 = .ok c' := by
  simp only [seqOps, List.foldlM_cons] at h
  exact bind_ok h

theorem seqOps_append_ok {env : Env} {xs ys : List Op} {c c' : Core}
    (h : seqOps env (xs ++ ys) c = .ok c') :
    ∃ c1, seqOps env xs c = .ok c1 ∧ seqOps env ys c1 = .ok c' := by
  simp only [seqOps, List.foldlM_append] at h
  exact bind_ok h

/-- the bytes `pushInt n` puts on the stack -/
def intBytes (n : Nat) : Bytes :=
  if n ≤ 16 then (if n = 0 then [] else [UInt8.ofNat n]) else numEncode (Int.ofNat n)

theorem pushInt_ok {env : Env} {n : Nat} {c c' : Core} (h : pshOp env (pushInt n) c = .ok c') :
    c'.stack = intBytes n :: c.stack ∧ c'.alt = c.alt := by
  unfold pushInt at h
  unfold intBytes
  split at h
  · rename_i hn
    simp only [pshOp] at h
    simpa [hn] using pushElem_ok h
  · rename_i hn
    simp only [pshOp] at h
    simpa [hn] using psh_ok h

theorem pushData_ok {env : Env} {b : Bytes} {c c' : Core} (h : pshOp env (.push b) c = .ok c') :
    c'.stack = b :: c.stack ∧ c'.alt = c.alt := psh_ok h

theorem boolBytes_unit (b : Bool) (h : castToBool (boolBytes b) = true) : boolBytes b = [1] := by
  cases b
  · simp [boolBytes, castToBool] at h
  · rfl

end MsVerif.TypeSound

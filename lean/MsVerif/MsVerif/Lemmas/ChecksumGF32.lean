/-
GF(32) = GF(2)[x]/(x^5 + x^3 + 1), the symbol field of the descriptor checksum: the polymod
step `L` is not only XOR-linear but GF(32)-linear (the five generator constants are the multiples
2^i · GEN[0]).  Used for the three-symbol-error table of C10.
-/
import MsVerif.Lemmas.ChecksumLpow
import MsVerif.Lemmas.ChecksumRun

namespace MsVerif.Checksum

/-- product in GF(32), carry-less multiplication reduced modulo x^5 + x^3 + 1 (= 41) -/
def gmul (a b : Nat) : Nat :=
  let r := selN (b.testBit 0) a ^^^ selN (b.testBit 1) (a <<< 1) ^^^ selN (b.testBit 2) (a <<< 2)
    ^^^ selN (b.testBit 3) (a <<< 3) ^^^ selN (b.testBit 4) (a <<< 4)
  let r := r ^^^ selN (r.testBit 8) (41 <<< 3)
  let r := r ^^^ selN (r.testBit 7) (41 <<< 2)
  let r := r ^^^ selN (r.testBit 6) (41 <<< 1)
  r ^^^ selN (r.testBit 5) 41

/-- multiplicative inverse (0 ↦ 0): `a^30` -/
def ginv (a : Nat) : Nat :=
  let a2 := gmul a a; let a4 := gmul a2 a2; let a8 := gmul a4 a4; let a16 := gmul a8 a8
  gmul (gmul (gmul a16 a8) a4) a2

theorem gmul_lt : ∀ a, a < 32 → ∀ b, b < 32 → gmul a b < 32 := by decide +kernel
theorem gmul_one : ∀ a, a < 32 → gmul a 1 = a := by decide +kernel
theorem gmul_zero_iff : ∀ a, a < 32 → ∀ b, b < 32 → (gmul a b = 0 ↔ (a = 0 ∨ b = 0)) := by
  decide +kernel
theorem ginv_lt : ∀ a, a < 32 → ginv a < 32 := by decide +kernel
theorem ginv_mul : ∀ a, a < 32 → a ≠ 0 → ∀ b, b < 32 → gmul (ginv a) (gmul a b) = b := by
  decide +kernel

/-- 8 symbols → 40 bits -/
def ofDigits (d0 d1 d2 d3 d4 d5 d6 d7 : Nat) : W :=
  BitVec.ofNat 40 (d0 + d1 * 32 + d2 * 32 ^ 2 + d3 * 32 ^ 3 + d4 * 32 ^ 4 + d5 * 32 ^ 5 + d6 * 32 ^ 6
    + d7 * 32 ^ 7)

/-- scalar multiplication of a residue (8 symbols) by a field element -/
def smul (l : Nat) (c : W) : W :=
  ofDigits (gmul l (unpack c 0)) (gmul l (unpack c 1)) (gmul l (unpack c 2)) (gmul l (unpack c 3))
    (gmul l (unpack c 4)) (gmul l (unpack c 5)) (gmul l (unpack c 6)) (gmul l (unpack c 7))

theorem ofDigits_toNat {d0 d1 d2 d3 d4 d5 d6 d7 : Nat} (h0 : d0 < 32) (h1 : d1 < 32) (h2 : d2 < 32)
    (h3 : d3 < 32) (h4 : d4 < 32) (h5 : d5 < 32) (h6 : d6 < 32) (h7 : d7 < 32) :
    (ofDigits d0 d1 d2 d3 d4 d5 d6 d7).toNat
      = d0 + d1 * 32 + d2 * 1024 + d3 * 32768 + d4 * 1048576 + d5 * 33554432 + d6 * 1073741824
        + d7 * 34359738368 := by
  unfold ofDigits
  rw [BitVec.toNat_ofNat]
  simp only [Nat.reducePow]
  omega

set_option maxHeartbeats 1000000 in
theorem unpack_ofDigits {d0 d1 d2 d3 d4 d5 d6 d7 : Nat} (h0 : d0 < 32) (h1 : d1 < 32) (h2 : d2 < 32)
    (h3 : d3 < 32) (h4 : d4 < 32) (h5 : d5 < 32) (h6 : d6 < 32) (h7 : d7 < 32) (n : Nat) (hn : n < 8) :
    unpack (ofDigits d0 d1 d2 d3 d4 d5 d6 d7) n = [d0, d1, d2, d3, d4, d5, d6, d7].getD n 0 := by
  rw [unpack_eq, ofDigits_toNat h0 h1 h2 h3 h4 h5 h6 h7]
  have : n = 0 ∨ n = 1 ∨ n = 2 ∨ n = 3 ∨ n = 4 ∨ n = 5 ∨ n = 6 ∨ n = 7 := by omega
  rcases this with rfl | rfl | rfl | rfl | rfl | rfl | rfl | rfl
  · simp only [List.getD_cons_zero, Nat.reducePow, Nat.reduceMul]; omega
  · simp only [List.getD_cons_zero, List.getD_cons_succ, Nat.reducePow, Nat.reduceMul]; omega
  · simp only [List.getD_cons_zero, List.getD_cons_succ, Nat.reducePow, Nat.reduceMul]; omega
  · simp only [List.getD_cons_zero, List.getD_cons_succ, Nat.reducePow, Nat.reduceMul]; omega
  · simp only [List.getD_cons_zero, List.getD_cons_succ, Nat.reducePow, Nat.reduceMul]; omega
  · simp only [List.getD_cons_zero, List.getD_cons_succ, Nat.reducePow, Nat.reduceMul]; omega
  · simp only [List.getD_cons_zero, List.getD_cons_succ, Nat.reducePow, Nat.reduceMul]; omega
  · simp only [List.getD_cons_zero, List.getD_cons_succ, Nat.reducePow, Nat.reduceMul]; omega

set_option maxHeartbeats 1000000 in
theorem ext_digits {x y : W} (h : ∀ n, n < 8 → unpack x n = unpack y n) : x = y := by
  have e0 := h 0 (by omega); have e1 := h 1 (by omega); have e2 := h 2 (by omega)
  have e3 := h 3 (by omega); have e4 := h 4 (by omega); have e5 := h 5 (by omega)
  have e6 := h 6 (by omega); have e7 := h 7 (by omega)
  rw [unpack_eq, unpack_eq] at e0 e1 e2 e3 e4 e5 e6 e7
  apply BitVec.eq_of_toNat_eq
  have ha := x.isLt
  have hb := y.isLt
  simp only [Nat.reducePow, Nat.reduceMul] at e0 e1 e2 e3 e4 e5 e6 e7 ha hb
  omega

theorem unpack_smul (l : Nat) (hl : l < 32) (c : W) (n : Nat) (hn : n < 8) :
    unpack (smul l c) n = gmul l (unpack c n) := by
  unfold smul
  have g := fun k => gmul_lt l hl (unpack c k) (unpack_lt c k)
  rw [unpack_ofDigits (g 0) (g 1) (g 2) (g 3) (g 4) (g 5) (g 6) (g 7) n hn]
  have : n = 0 ∨ n = 1 ∨ n = 2 ∨ n = 3 ∨ n = 4 ∨ n = 5 ∨ n = 6 ∨ n = 7 := by omega
  rcases this with rfl | rfl | rfl | rfl | rfl | rfl | rfl | rfl <;> rfl

/-! ## the step `L` is GF(32)-linear -/

theorem gmul_bits : ∀ l, l < 32 → ∀ b, b < 32 → gmul l b =
    selN (b.testBit 0) (gmul l 1) ^^^ selN (b.testBit 1) (gmul l 2) ^^^ selN (b.testBit 2) (gmul l 4)
      ^^^ selN (b.testBit 3) (gmul l 8) ^^^ selN (b.testBit 4) (gmul l 16) := by decide +kernel

theorem selN_xor (x y : Bool) (g : Nat) : selN (x ^^ y) g = selN x g ^^^ selN y g := by
  cases x <;> cases y <;> simp [selN]

theorem gmul_add (l : Nat) (hl : l < 32) (a : Nat) (ha : a < 32) (b : Nat) (hb : b < 32) :
    gmul l (a ^^^ b) = gmul l a ^^^ gmul l b := by
  rw [gmul_bits l hl _ (Nat.xor_lt_two_pow (n := 5) ha hb), gmul_bits l hl a ha, gmul_bits l hl b hb]
  simp only [Nat.testBit_xor, selN_xor]
  ac_rfl

theorem gmul_zero_right : ∀ l, l < 32 → gmul l 0 = 0 := by decide +kernel

theorem smul_xor (l : Nat) (hl : l < 32) (x y : W) : smul l (x ^^^ y) = smul l x ^^^ smul l y := by
  apply ext_digits
  intro n hn
  rw [unpack_smul l hl _ n hn, unpack_xor, unpack_xor, unpack_smul l hl _ n hn,
    unpack_smul l hl _ n hn]
  exact gmul_add l hl _ (unpack_lt x n) _ (unpack_lt y n)

/-- `G` on the top symbol commutes with the scalar -/
theorem G_smul' : ∀ l, l < 32 → ∀ t, t < 32 →
    G (BitVec.ofNat 40 (gmul l t)) = smul l (G (BitVec.ofNat 40 t)) := by decide +kernel

theorem G_smul (l : Nat) (hl : l < 32) (t : Nat) (ht : t < 32) (n : Nat) (hn : n < 8) :
    unpack (G (BitVec.ofNat 40 (gmul l t))) n = gmul l (unpack (G (BitVec.ofNat 40 t)) n) := by
  rw [G_smul' l hl t ht, unpack_smul l hl _ n hn]

theorem top_eq (c : W) : c >>> 35 = BitVec.ofNat 40 (unpack c 7) := by
  apply BitVec.eq_of_toNat_eq
  rw [BitVec.toNat_ushiftRight, BitVec.toNat_ofNat, unpack_eq, Nat.shiftRight_eq_div_pow]
  have := c.isLt
  simp only [Nat.reducePow, Nat.reduceMul] at this ⊢
  omega

set_option maxHeartbeats 1000000 in
theorem unpack_shiftPart (c : W) (n : Nat) (hn : n < 8) :
    unpack (shiftPart c) n = if n = 0 then 0 else unpack c (n - 1) := by
  have hs : (shiftPart c).toNat = (c.toNat % 2 ^ 35) * 32 := by
    unfold shiftPart
    rw [mask_eq, BitVec.toNat_shiftLeft, BitVec.toNat_and]
    have h1 : (0x7ffffffff#40).toNat = 2 ^ 35 - 1 := by decide
    rw [h1, Nat.and_two_pow_sub_one_eq_mod, Nat.shiftLeft_eq]
    apply Nat.mod_eq_of_lt
    have : c.toNat % 2 ^ 35 < 2 ^ 35 := Nat.mod_lt _ (by decide)
    omega
  rw [unpack_eq, hs]
  have hc := c.isLt
  have : n = 0 ∨ n = 1 ∨ n = 2 ∨ n = 3 ∨ n = 4 ∨ n = 5 ∨ n = 6 ∨ n = 7 := by omega
  rcases this with rfl | rfl | rfl | rfl | rfl | rfl | rfl | rfl <;>
    simp only [unpack_eq, Nat.reducePow, Nat.reduceMul, Nat.reduceSub, Nat.reduceEqDiff,
      if_true, if_false] at hc ⊢ <;> omega

theorem unpack_L (c : W) (n : Nat) (hn : n < 8) :
    unpack (L c) n = (if n = 0 then 0 else unpack c (n - 1))
      ^^^ unpack (G (BitVec.ofNat 40 (unpack c 7))) n := by
  unfold L
  rw [unpack_xor, unpack_shiftPart c n hn, top_eq]

theorem L_smul (l : Nat) (hl : l < 32) (c : W) : L (smul l c) = smul l (L c) := by
  apply ext_digits
  intro n hn
  rw [unpack_L _ n hn, unpack_smul l hl _ n hn, unpack_L c n hn, unpack_smul l hl c 7 (by omega),
    G_smul l hl _ (unpack_lt c 7) n hn, gmul_add l hl _ (by split <;> first | omega | exact unpack_lt _ _)
      _ (unpack_lt _ _)]
  congr 1
  by_cases h0 : n = 0
  · simp [h0, gmul_zero_right l hl]
  · simp only [h0, if_false]
    exact unpack_smul l hl c (n - 1) (by omega)

theorem Lpow_smul (l : Nat) (hl : l < 32) (d : Nat) (c : W) :
    Lpow d (smul l c) = smul l (Lpow d c) := by
  induction d with
  | zero => rfl
  | succ k ih => show L _ = smul l (L _); rw [ih, L_smul l hl]

theorem ofNat_smul : ∀ e, e < 32 → BitVec.ofNat 40 e = smul e 1#40 := by decide +kernel

/-- `L^d e = e · L^d 1` -/
theorem Lpow_ofNat_smul (e : Nat) (he : e < 32) (d : Nat) :
    Lpow d (BitVec.ofNat 40 e) = smul e (Lpow d 1#40) := by
  rw [ofNat_smul e he, Lpow_smul e he]

/-! ## field identities needed for the normal form -/

theorem mul_ginv : ∀ a, a < 32 → a ≠ 0 → ∀ b, b < 32 → gmul a (gmul (ginv a) b) = b := by
  decide +kernel

theorem gmul_assoc_basis : ∀ a, a < 32 → ∀ b, b < 32 → ∀ j, j < 5 →
    gmul (gmul a b) (2 ^ j) = gmul a (gmul b (2 ^ j)) := by decide +kernel

theorem gmul_selN (a : Nat) (ha : a < 32) (x : Bool) (y : Nat) :
    gmul a (selN x y) = selN x (gmul a y) := by
  cases x
  · simp only [selN, Bool.false_eq_true, if_false]; exact gmul_zero_right a ha
  · simp [selN]

theorem selN_lt (x : Bool) {y : Nat} (h : y < 32) : selN x y < 32 := by
  cases x <;> simp [selN, h]

theorem gmul_assoc (a : Nat) (ha : a < 32) (b : Nat) (hb : b < 32) (c : Nat) (hc : c < 32) :
    gmul (gmul a b) c = gmul a (gmul b c) := by
  have hab := gmul_lt a ha b hb
  have g := fun j (hj : j < 5) => gmul_lt b hb (2 ^ j) (by
    have : j = 0 ∨ j = 1 ∨ j = 2 ∨ j = 3 ∨ j = 4 := by omega
    rcases this with rfl | rfl | rfl | rfl | rfl <;> decide)
  have x5 := @Nat.xor_lt_two_pow
  rw [gmul_bits (gmul a b) hab c hc, gmul_bits b hb c hc]
  have e0 := gmul_assoc_basis a ha b hb 0 (by omega)
  have e1 := gmul_assoc_basis a ha b hb 1 (by omega)
  have e2 := gmul_assoc_basis a ha b hb 2 (by omega)
  have e3 := gmul_assoc_basis a ha b hb 3 (by omega)
  have e4 := gmul_assoc_basis a ha b hb 4 (by omega)
  simp only [Nat.reducePow] at e0 e1 e2 e3 e4
  have l0 := selN_lt (c.testBit 0) (g 0 (by omega))
  have l1 := selN_lt (c.testBit 1) (g 1 (by omega))
  have l2 := selN_lt (c.testBit 2) (g 2 (by omega))
  have l3 := selN_lt (c.testBit 3) (g 3 (by omega))
  have l4 := selN_lt (c.testBit 4) (g 4 (by omega))
  simp only [Nat.reducePow] at l0 l1 l2 l3 l4
  have x01 := x5 (n := 5) l0 l1
  have x012 := x5 (n := 5) x01 l2
  have x0123 := x5 (n := 5) x012 l3
  rw [gmul_add a ha _ x0123 _ l4, gmul_add a ha _ x012 _ l3, gmul_add a ha _ x01 _ l2,
    gmul_add a ha _ l0 _ l1]
  simp only [gmul_selN a ha, e0, e1, e2, e3, e4]

end MsVerif.Checksum

/-
Helper lemmas for C15 about the specification (`Spec/Merkle.lean`) alone: depth lists,
sibling paths, path verification.
-/
import MsVerif.Spec.Merkle

namespace MsVerif.Spec
namespace Tree
variable {α ν : Type}

theorem depthsFrom_succ (t : Tree α) : ∀ d,
    depthsFrom (d + 1) t = (depthsFrom d t).map (fun p => (p.1 + 1, p.2)) := by
  induction t with
  | leaf s => intro d; rfl
  | node l r ihl ihr => intro d; simp only [depthsFrom, List.map_append, ihl, ihr]

theorem depthsFrom_eq_map (t : Tree α) (d : Nat) :
    depthsFrom d t = (depths t).map (fun p => (p.1 + d, p.2)) := by
  induction d with
  | zero => simp [depths]
  | succ d ih =>
    rw [depthsFrom_succ, ih, List.map_map]
    apply List.map_congr_left
    intro p _
    simp [Nat.add_assoc]

theorem depthsFrom_ne_nil (t : Tree α) (d : Nat) : depthsFrom d t ≠ [] := by
  induction t generalizing d with
  | leaf s => simp [depthsFrom]
  | node l r ihl _ => simp [depthsFrom, ihl]

/-- every leaf depth is at most `d + height` -/
theorem depthsFrom_le (t : Tree α) : ∀ d p, p ∈ depthsFrom d t → p.1 ≤ d + height t := by
  induction t with
  | leaf s => intro d p hp; simp [depthsFrom] at hp; simp [hp, height]
  | node l r ihl ihr =>
    intro d p hp
    simp only [depthsFrom, List.mem_append] at hp
    simp only [height]
    rcases hp with hp | hp
    · have := ihl _ _ hp; omega
    · have := ihr _ _ hp; omega

/-- every leaf depth is at least `d` -/
theorem depthsFrom_ge (t : Tree α) : ∀ d p, p ∈ depthsFrom d t → d ≤ p.1 := by
  induction t with
  | leaf s => intro d p hp; simp [depthsFrom] at hp; simp [hp]
  | node l r ihl ihr =>
    intro d p hp
    simp only [depthsFrom, List.mem_append] at hp
    rcases hp with hp | hp
    · have := ihl _ _ hp; omega
    · have := ihr _ _ hp; omega

/-- and some leaf attains `d + height` -/
theorem depthsFrom_max (t : Tree α) : ∀ d, ∃ p, p ∈ depthsFrom d t ∧ p.1 = d + height t := by
  induction t with
  | leaf s => intro d; exact ⟨(d, s), by simp [depthsFrom], by simp [height]⟩
  | node l r ihl ihr =>
    intro d
    simp only [depthsFrom, List.mem_append, height]
    by_cases h : height l ≤ height r
    · obtain ⟨p, hp, he⟩ := ihr (d + 1)
      exact ⟨p, Or.inr hp, by omega⟩
    · obtain ⟨p, hp, he⟩ := ihl (d + 1)
      exact ⟨p, Or.inl hp, by omega⟩

theorem leaves_eq_depths (t : Tree α) (d : Nat) : leaves t = (depthsFrom d t).map (·.2) := by
  induction t generalizing d with
  | leaf s => rfl
  | node l r ihl ihr => simp only [leaves, depthsFrom, List.map_append, ← ihl, ← ihr]

theorem siblingPaths_length (H : HashAlg α ν) (t : Tree α) :
    (siblingPaths H t).length = (leaves t).length := by
  induction t with
  | leaf s => rfl
  | node l r ihl ihr => simp [siblingPaths, leaves, ihl, ihr]

/-- the sibling paths list the leaves in pre-order, and the path of a leaf is as long as the
leaf is deep -/
theorem siblingPaths_depths (H : HashAlg α ν) (t : Tree α) : ∀ d,
    (siblingPaths H t).map (fun p => (p.2.length + d, p.1)) = depthsFrom d t := by
  induction t with
  | leaf s => intro d; simp [siblingPaths, depthsFrom]
  | node l r ihl ihr =>
    intro d
    simp only [siblingPaths, depthsFrom, List.map_append, List.map_map, ← ihl, ← ihr]
    congr 1 <;> (apply List.map_congr_left; intro p _; simp [Nat.add_assoc, Nat.add_comm 1 d])

end Tree

theorem verifyPath_append {α ν : Type} (H : HashAlg α ν) (n : ν) (p : List ν) (x : ν) :
    verifyPath H n (p ++ [x]) = H.branch (verifyPath H n p) x := by
  simp [verifyPath, List.foldl_append]

/-- BIP341 soundness of the specification itself: with a commutative branch hash, every
leaf's sibling path folds to the Merkle root -/
theorem Tree.siblingPaths_verify {α ν : Type} (H : HashAlg α ν) (hc : H.Comm) (t : Tree α) :
    ∀ p, p ∈ Tree.siblingPaths H t → verifyPath H (H.leafHash p.1) p.2 = Tree.root H t := by
  induction t with
  | leaf s => intro p hp; simp [Tree.siblingPaths] at hp; simp [hp, verifyPath, Tree.root]
  | node l r ihl ihr =>
    intro p hp
    simp only [Tree.siblingPaths, List.mem_append, List.mem_map] at hp
    rcases hp with ⟨q, hq, rfl⟩ | ⟨q, hq, rfl⟩
    · simp only [verifyPath_append, ihl q hq, Tree.root]
    · simp only [verifyPath_append, ihr q hq, Tree.root]
      exact hc _ _

end MsVerif.Spec

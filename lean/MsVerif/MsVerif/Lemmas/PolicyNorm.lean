/-
Normal forms: what `normalized` produces (`NF`), that it produces it, that it is the identity on
it, and that it preserves the truth table.
-/
import MsVerif.Lemmas.PolicyBasic

set_option linter.unusedSimpArgs false
namespace MsVerif.Pol
open Sem

/-- the child is dissolved into its parent -/
def flat (a o : Bool) (x : Policy) : Bool := (a && !o && isAndT x) || (!a && o && isOrT x)
def expand (a o : Bool) (x : Policy) : List Policy := if flat a o x then childrenOf x else [x]

theorem normSub_eq (a o : Bool) (x : Policy) :
    normSub a o x = if isConst x then [] else expand a o x := by
  cases x with
  | thresh k ss =>
    cases a <;> cases o <;>
      simp [normSub, isConst, isTrivial, isUnsat, flat, expand, isAndT, isOrT, childrenOf]
  | _ => simp [normSub, isConst, isTrivial, isUnsat, flat, expand, isAndT, isOrT, childrenOf]

/-- the non-constant children -/
def rest (subs : List Policy) : List Policy := subs.filter (fun p => !isConst p)

theorem length_rest (subs : List Policy) :
    subs.length = (rest subs).length + subs.countP isTrivial + subs.countP isUnsat := by
  induction subs with
  | nil => simp [rest]
  | cons p ps ih =>
    cases p <;> simp [rest, isConst, isTrivial, isUnsat, List.filter_cons, List.countP_cons] at * <;> omega

theorem flatMap_normSub (a o : Bool) (subs : List Policy) :
    subs.flatMap (normSub a o) = (rest subs).flatMap (expand a o) := by
  induction subs with
  | nil => simp [rest]
  | cons p ps ih =>
    simp only [List.flatMap_cons, ih, rest, List.filter_cons, normSub_eq]
    by_cases h : isConst p <;> simp [h]

theorem countP_rest (v : Atom → Bool) (subs : List Policy) :
    subs.countP (holdsA v) = subs.countP isTrivial + (rest subs).countP (holdsA v) := by
  induction subs with
  | nil => simp [rest]
  | cons p ps ih =>
    cases p <;> simp [rest, isConst, isTrivial, isUnsat, List.filter_cons, List.countP_cons, holdsA] at * <;> omega

theorem normThresh_eq (k : Nat) (subs : List Policy) :
    normThresh k subs =
      normFinish (k - subs.countP isTrivial)
        (k - subs.countP isTrivial == (rest subs).length) (k - subs.countP isTrivial == 1)
        ((rest subs).flatMap (expand (k - subs.countP isTrivial == (rest subs).length)
          (k - subs.countP isTrivial == 1))) := by
  have h := length_rest subs
  have hn : subs.length - subs.countP isUnsat - subs.countP isTrivial = (rest subs).length := by omega
  simp only [normThresh, hn, flatMap_normSub]

end MsVerif.Pol

set_option linter.unusedSimpArgs false
namespace MsVerif.Pol
open Sem

/-! ## Normal form -/

def OkChild (a o : Bool) (p : Policy) : Prop :=
  NF p = true ∧ isConst p = false ∧ (a = true → isAndT p = false) ∧ (o = true → isOrT p = false)

theorem NFl_iff (a o : Bool) (l : List Policy) : NFl a o l = true ↔ ∀ p ∈ l, OkChild a o p := by
  induction l with
  | nil => simp [NFl]
  | cons p ps ih =>
    simp only [NFl, Bool.and_eq_true, ih, List.mem_cons, forall_eq_or_imp, OkChild]
    cases a <;> cases o <;> simp [and_assoc]

theorem NF_thresh (k : Nat) (ss : List Policy) :
    NF (.thresh k ss) = true ↔
      2 ≤ ss.length ∧ 1 ≤ k ∧ k ≤ ss.length ∧ ∀ p ∈ ss, OkChild (k == ss.length) (k == 1) p := by
  simp only [NF, Bool.and_eq_true, decide_eq_true_eq, NFl_iff, and_assoc]

theorem cnt_all {α} (p : α → Bool) (l : List α) : decide (l.length ≤ l.countP p) = l.all p := by
  induction l with
  | nil => simp
  | cons x xs ih =>
    have hle := List.countP_le_length (p := p) (l := xs)
    cases hx : p x
    · simp [List.countP_cons, hx]; omega
    · rw [List.all_cons, hx, Bool.true_and, ← ih]; simp [List.countP_cons, hx]

theorem cnt_any {α} (p : α → Bool) (l : List α) : decide (1 ≤ l.countP p) = l.any p := by
  induction l with
  | nil => simp
  | cons x xs ih =>
    cases hx : p x
    · rw [List.any_cons, hx, Bool.false_or, ← ih]; simp [List.countP_cons, hx]
    · simp [List.countP_cons, hx]

theorem expand_of_not_flat {a o : Bool} (h : (a && !o) = false ∧ (!a && o) = false)
    (x : Policy) : expand a o x = [x] := by
  have : flat a o x = false := by
    cases a <;> cases o <;> simp_all [flat]
  simp [expand, this]

theorem flatMap_expand_of_not_flat {a o : Bool} (h : (a && !o) = false ∧ (!a && o) = false)
    (l : List Policy) : l.flatMap (expand a o) = l := by
  induction l with
  | nil => simp
  | cons x xs ih => simp [List.flatMap_cons, expand_of_not_flat h, ih]

/-- members of the rebuilt child list -/
theorem mem_flatMap_expand {a o : Bool} {R : List Policy}
    (hR : ∀ x ∈ R, NF x = true ∧ isConst x = false) {y : Policy}
    (hy : y ∈ R.flatMap (expand a o)) :
    NF y = true ∧ isConst y = false ∧ ((a && !o) = true → isAndT y = false)
      ∧ ((!a && o) = true → isOrT y = false) := by
  rcases List.mem_flatMap.mp hy with ⟨x, hx, hyx⟩
  obtain ⟨hnf, hc⟩ := hR x hx
  unfold expand at hyx
  by_cases hf : flat a o x = true
  · rw [if_pos hf] at hyx
    cases x with
    | thresh k' ss' =>
      simp only [childrenOf] at hyx
      obtain ⟨_, _, _, hch⟩ := (NF_thresh k' ss').mp hnf
      obtain ⟨h1, h2, h3, h4⟩ := hch y hyx
      refine ⟨h1, h2, ?_, ?_⟩
      · intro hao
        have : isAndT (.thresh k' ss') = true := by
          cases a <;> cases o <;> simp_all [flat]
        exact h3 (by simpa [isAndT] using this)
      · intro hao
        have : isOrT (.thresh k' ss') = true := by
          cases a <;> cases o <;> simp_all [flat]
        exact h4 (by simpa [isOrT] using this)
    | _ => simp [childrenOf] at hyx
  · rw [if_neg hf] at hyx
    have : y = x := by simpa using hyx
    subst this
    refine ⟨hnf, hc, ?_, ?_⟩
    · intro hao
      cases hA : isAndT y
      · rfl
      · exfalso; apply hf; cases a <;> cases o <;> simp_all [flat]
    · intro hao
      cases hO : isOrT y
      · rfl
      · exfalso; apply hf; cases a <;> cases o <;> simp_all [flat]

theorem length_expand {a o : Bool} {x : Policy} (h : NF x = true) : 1 ≤ (expand a o x).length := by
  unfold expand
  split
  · cases x with
    | thresh k' ss' =>
      have := ((NF_thresh k' ss').mp h).1
      simp [childrenOf]; omega
    | _ => simp_all [flat, isAndT, isOrT]
  · simp

theorem length_flatMap_expand {a o : Bool} {R : List Policy} (hR : ∀ x ∈ R, NF x = true) :
    R.length ≤ (R.flatMap (expand a o)).length := by
  induction R with
  | nil => simp
  | cons x xs ih =>
    have h1 := length_expand (a := a) (o := o) (hR x (by simp))
    have h2 := ih (fun y hy => hR y (by simp [hy]))
    simp only [List.flatMap_cons, List.length_append, List.length_cons]
    omega

theorem rest_ok {subs : List Policy} (h : ∀ p ∈ subs, NF p = true) :
    ∀ x ∈ rest subs, NF x = true ∧ isConst x = false := by
  intro x hx
  simp only [rest, List.mem_filter] at hx
  exact ⟨h x hx.1, by simpa using hx.2⟩

theorem normFinish_unsat (m : Nat) (a o : Bool) (ret : List Policy) (h0 : m ≠ 0)
    (hL : m > ret.length) : normFinish m a o ret = .unsat := by
  simp [normFinish, h0, hL]

theorem normFinish_single (m : Nat) (a o : Bool) (x : Policy) (h0 : m ≠ 0) (hL : m ≤ 1) :
    normFinish m a o [x] = x := by
  have : ¬ (m > 1) := by omega
  simp [normFinish, h0, this]

theorem normFinish_many (m : Nat) (a o : Bool) (ret : List Policy) (h0 : m ≠ 0)
    (hL : m ≤ ret.length) (h1 : ret.length ≠ 1) :
    normFinish m a o ret =
      if a then .thresh ret.length ret else if o then .thresh 1 ret else .thresh m ret := by
  have : ¬ (m > ret.length) := by omega
  unfold normFinish
  simp only [beq_iff_eq, h0, if_false, this]
  split
  · simp at h1
  · rfl

theorem normThresh_NF (k : Nat) (subs : List Policy) (h : ∀ p ∈ subs, NF p = true) :
    NF (normThresh k subs) = true := by
  rw [normThresh_eq]
  generalize hm : k - subs.countP isTrivial = m
  have hR := rest_ok h
  generalize rest subs = R at hR
  generalize ha : (m == R.length) = a
  generalize ho : (m == 1) = o
  have hmem := fun y => mem_flatMap_expand (a := a) (o := o) hR (y := y)
  have hlen := length_flatMap_expand (a := a) (o := o) (fun x hx => (hR x hx).1)
  have hid := fun hh => flatMap_expand_of_not_flat (a := a) (o := o) hh R
  generalize R.flatMap (expand a o) = ret at hmem hlen hid
  by_cases hm0 : m = 0
  · simp [normFinish, hm0, NF]
  by_cases hmL' : m > ret.length
  · simp [normFinish, hm0, hmL', NF]
  have hmL : m ≤ ret.length := by omega
  by_cases hL1 : ret.length = 1
  · obtain ⟨x, hx⟩ := List.length_eq_one_iff.mp hL1
    subst hx
    rw [normFinish_single _ _ _ _ hm0 (by simpa using hmL)]
    exact (hmem x (by simp)).1
  · rw [normFinish_many _ _ _ _ hm0 hmL hL1]
    have hL2 : 2 ≤ ret.length := by omega
    cases a
    · cases o
      · -- generic threshold
        have hret := hid ⟨rfl, rfl⟩
        subst hret
        have hmn : m ≠ ret.length := by simpa using ha
        have hm1 : m ≠ 1 := by simpa using ho
        simp only [Bool.false_eq_true, if_false]
        rw [NF_thresh]
        refine ⟨hL2, by omega, hmL, ?_⟩
        intro p hp
        obtain ⟨h1, h2, _, _⟩ := hmem p hp
        refine ⟨h1, h2, ?_, ?_⟩
        · intro hc; exfalso; apply hmn; simpa using hc
        · intro hc; exfalso; apply hm1; simpa using hc
      · -- 1-of-n
        simp only [Bool.false_eq_true, if_false, if_true]
        rw [NF_thresh]
        refine ⟨hL2, by omega, by omega, ?_⟩
        intro p hp
        obtain ⟨h1, h2, _, h4⟩ := hmem p hp
        refine ⟨h1, h2, ?_, ?_⟩
        · intro hc
          have : 1 = ret.length := by simpa using hc
          omega
        · intro _; exact h4 (by simp)
    · -- n-of-n
      simp only [if_true]
      rw [NF_thresh]
      refine ⟨hL2, by omega, by omega, ?_⟩
      intro p hp
      obtain ⟨h1, h2, h3, _⟩ := hmem p hp
      have ho' : o = false := by
        cases o
        · rfl
        · exfalso
          have hret := hid ⟨by simp, by simp⟩
          subst hret
          have : m = ret.length := by simpa using ha
          have : m = 1 := by simpa using ho
          omega
      subst ho'
      refine ⟨h1, h2, ?_, ?_⟩
      · intro _; exact h3 (by simp)
      · intro hc
        have : ret.length = 1 := by simpa using hc
        omega

end MsVerif.Pol

namespace MsVerif.Pol
open Sem

theorem normalized_NF : ∀ p, NF (normalized p) = true := by
  intro p
  induction p using Policy.induct' with
  | unsat => simp [normalized, NF]
  | trivial => simp [normalized, NF]
  | atom a => simp [normalized, NF]
  | thresh k subs ih =>
    rw [normalized, normalizedList_eq]
    apply normThresh_NF
    intro p hp
    obtain ⟨q, hq, rfl⟩ := List.mem_map.mp hp
    exact ih q hq

/-! ## `normalized` preserves the truth table -/

theorem holds_andT (v : Atom → Bool) {x : Policy} (h : isAndT x = true) :
    holdsA v x = (childrenOf x).all (holdsA v) := by
  cases x with
  | thresh k ss =>
    have : k = ss.length := by simpa [isAndT] using h
    subst this
    rw [holdsA_thresh, cnt_all]; rfl
  | _ => simp [isAndT] at h

theorem holds_orT (v : Atom → Bool) {x : Policy} (h : isOrT x = true) :
    holdsA v x = (childrenOf x).any (holdsA v) := by
  cases x with
  | thresh k ss =>
    have : k = 1 := by simpa [isOrT] using h
    subst this
    rw [holdsA_thresh, cnt_any]; rfl
  | _ => simp [isOrT] at h

theorem all_flatMap_expand (v : Atom → Bool) (R : List Policy) :
    (R.flatMap (expand true false)).all (holdsA v) = R.all (holdsA v) := by
  induction R with
  | nil => simp
  | cons x xs ih =>
    rw [List.flatMap_cons, List.all_append, ih, List.all_cons]
    congr 1
    unfold expand
    by_cases h : isAndT x = true
    · simp [flat, h, holds_andT v h]
    · simp [flat, h]

theorem any_flatMap_expand (v : Atom → Bool) (R : List Policy) :
    (R.flatMap (expand false true)).any (holdsA v) = R.any (holdsA v) := by
  induction R with
  | nil => simp
  | cons x xs ih =>
    rw [List.flatMap_cons, List.any_append, ih, List.any_cons]
    congr 1
    unfold expand
    by_cases h : isOrT x = true
    · simp [flat, h, holds_orT v h]
    · simp [flat, h]

theorem normThresh_holds (v : Atom → Bool) (k : Nat) (subs : List Policy)
    (h : ∀ p ∈ subs, NF p = true) :
    holdsA v (normThresh k subs) = decide (k ≤ subs.countP (holdsA v)) := by
  rw [normThresh_eq, countP_rest v subs]
  have hkm : decide (k ≤ subs.countP isTrivial + (rest subs).countP (holdsA v))
      = decide (k - subs.countP isTrivial ≤ (rest subs).countP (holdsA v)) := by
    apply decide_eq_decide.mpr; omega
  rw [hkm]
  generalize k - subs.countP isTrivial = m
  have hR := rest_ok h
  generalize rest subs = R at hR
  have hcle := List.countP_le_length (p := holdsA v) (l := R)
  generalize ha : (m == R.length) = a
  generalize ho : (m == 1) = o
  have hlen := length_flatMap_expand (a := a) (o := o) (fun x hx => (hR x hx).1)
  have hid := fun hh => flatMap_expand_of_not_flat (a := a) (o := o) hh R
  by_cases hm0 : m = 0
  · simp [normFinish, hm0, holdsA]
  by_cases hmL' : m > (R.flatMap (expand a o)).length
  · have : ¬ (m ≤ R.countP (holdsA v)) := by omega
    rw [normFinish_unsat _ _ _ _ hm0 hmL']
    simp [holdsA, this]
  have hmL : m ≤ (R.flatMap (expand a o)).length := by omega
  cases a
  · cases o
    · -- neither and nor or: nothing dissolved
      have hret := hid ⟨rfl, rfl⟩
      rw [hret] at hmL ⊢
      have hmn : m ≠ R.length := by simpa using ha
      have hm1 : m ≠ 1 := by simpa using ho
      rw [normFinish_many _ _ _ _ hm0 hmL (by omega)]
      simp [holdsA_thresh]
    · -- 1-of-n
      have hm1 : m = 1 := by simpa using ho
      have hmn : m ≠ R.length := by simpa using ha
      subst hm1
      have hcnt : decide (1 ≤ R.countP (holdsA v)) = R.any (holdsA v) := cnt_any _ _
      by_cases hL1 : (R.flatMap (expand false true)).length = 1
      · -- then R is empty: impossible
        exfalso
        have : R.length = 0 := by omega
        have : R = [] := List.eq_nil_of_length_eq_zero this
        subst this
        simp at hL1
      · rw [normFinish_many _ _ _ _ hm0 hmL hL1]
        simp only [Bool.false_eq_true, if_false, if_true]
        rw [holdsA_thresh, cnt_any, any_flatMap_expand, hcnt]
  · have hmn : m = R.length := by simpa using ha
    cases o
    · -- n-of-n, n ≠ 1
      have hm1 : m ≠ 1 := by simpa using ho
      have hcnt : decide (m ≤ R.countP (holdsA v)) = R.all (holdsA v) := by
        rw [hmn]; exact cnt_all _ _
      rw [normFinish_many _ _ _ _ hm0 hmL (by omega)]
      simp only [if_true]
      rw [holdsA_thresh, cnt_all, all_flatMap_expand, hcnt]
    · -- m = n = 1
      have hm1 : m = 1 := by simpa using ho
      have hret := hid ⟨by simp, by simp⟩
      rw [hret] at hmL ⊢
      obtain ⟨x, hx⟩ := List.length_eq_one_iff.mp (by omega : R.length = 1)
      subst hx
      rw [normFinish_single _ _ _ _ hm0 (by omega)]
      subst hm1
      cases hh : holdsA v x <;> simp [hh]

theorem normalized_holdsA (v : Atom → Bool) : ∀ p, holdsA v (normalized p) = holdsA v p := by
  intro p
  induction p using Policy.induct' with
  | unsat => simp [normalized]
  | trivial => simp [normalized]
  | atom a => simp [normalized]
  | thresh k subs ih =>
    rw [normalized, normalizedList_eq, normThresh_holds, holdsA_thresh,
      countP_map_congr normalized (holdsA v) (holdsA v) subs ih]
    intro p hp
    obtain ⟨q, _, rfl⟩ := List.mem_map.mp hp
    exact normalized_NF q

/-! ## `normalized` is the identity on normal forms -/

theorem flatMap_singleton_of {α} (f : α → List α) (l : List α) (h : ∀ p ∈ l, f p = [p]) :
    l.flatMap f = l := by
  induction l with
  | nil => simp
  | cons x xs ih =>
    rw [List.flatMap_cons, h x (by simp), ih (fun p hp => h p (by simp [hp]))]
    rfl


theorem normalized_of_NF : ∀ p, NF p = true → normalized p = p := by
  intro p
  induction p using Policy.induct' with
  | unsat => simp [normalized]
  | trivial => simp [normalized]
  | atom a => simp [normalized]
  | thresh k subs ih =>
    intro hnf
    obtain ⟨h2, hk1, hkn, hch⟩ := (NF_thresh k subs).mp hnf
    have hmap : subs.map normalized = subs := by
      conv => rhs; rw [← List.map_id subs]
      apply List.map_congr_left
      intro p hp
      exact ih p hp (hch p hp).1
    rw [normalized, normalizedList_eq, hmap, normThresh_eq]
    have ht : subs.countP isTrivial = 0 := by
      apply List.countP_eq_zero.mpr
      intro p hp
      have := (hch p hp).2.1
      simp [isConst] at this
      simp [this.1]
    have hrest : rest subs = subs := by
      apply List.filter_eq_self.mpr
      intro p hp
      simp [(hch p hp).2.1]
    rw [ht, hrest, Nat.sub_zero]
    have hexp : subs.flatMap (expand (k == subs.length) (k == 1)) = subs := by
      have : ∀ p ∈ subs, expand (k == subs.length) (k == 1) p = [p] := by
        intro p hp
        obtain ⟨_, _, h3, h4⟩ := hch p hp
        have : flat (k == subs.length) (k == 1) p = false := by
          unfold flat
          cases hA : (k == subs.length) <;> cases hO : (k == 1) <;> simp_all
        simp [expand, this]
      exact flatMap_singleton_of _ _ this
    rw [hexp, normFinish_many _ _ _ _ (by omega) hkn (by omega)]
    by_cases hA : k = subs.length
    · simp [hA]
    · by_cases hO : k = 1
      · subst hO
        have : ¬ (1 = subs.length) := by omega
        simp [this]
      · simp [hA, hO]

theorem normalized_idem (p : Policy) : normalized (normalized p) = normalized p :=
  normalized_of_NF _ (normalized_NF p)

end MsVerif.Pol

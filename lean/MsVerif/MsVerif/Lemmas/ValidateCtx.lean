/-
Helper lemmas for C12/T1: what `constructed` (= `from_ast` on every node) and a successful
`validate` under the context's parameters imply about the context rules of Spec/CtxRules.lean.
-/
import MsVerif.Lemmas.ValidateSpec

namespace MsVerif
open Spec ValidationParams

/-- the specification's facts as seen through the validator's key table -/
def factsFrom (K : KeyInfo) (len : Ms → Nat) : Facts where
  uncompressed k := K.kind k == .uncompressed
  xonly k := K.kind k == .xonly
  nPaths := K.nPaths
  scriptLen := len

theorem checkPk_eq (K : KeyInfo) (len) (ctx : Ctx) (k : Key) :
    checkPk ctx (K.kind k) = keyAllowed (factsFrom K len) ctx k := by
  cases ctx <;> simp [checkPk, keyAllowed, factsFrom] <;> cases K.kind k <;> rfl

theorem validateKN_iff (mx k n : Nat) (hmx : 0 < mx) :
    validateKN mx k n = (decide (1 ≤ k) && decide (k ≤ n) && decide (n ≤ mx)) := by
  unfold validateKN
  rw [Bool.eq_iff_iff]
  simp only [Bool.not_eq_true', Bool.or_eq_false_iff, beq_eq_false_iff_ne, decide_eq_false_iff_not,
    Bool.and_eq_false_imp, decide_eq_true_eq, Bool.and_eq_true]
  omega

theorem validateKN0_iff (k n : Nat) : validateKN 0 k n = (decide (1 ≤ k) && decide (k ≤ n)) := by
  unfold validateKN
  rw [Bool.eq_iff_iff]
  simp only [Bool.not_eq_true', Bool.or_eq_false_iff, beq_eq_false_iff_ne, decide_eq_false_iff_not,
    Bool.and_eq_false_imp, decide_eq_true_eq, Bool.and_eq_true]
  omega

theorem termNodeOk_eq (m : Ms) : termNodeOk m = rangeOk m := by
  cases m <;> simp only [termNodeOk, rangeOk, validateKN0_iff, MsList.length_toList] <;>
    first
    | rfl
    | (rw [validateKN_iff _ _ _ (by decide)]; rfl)
    | (simp only [absLockOk, relLockOk]; rw [Bool.eq_iff_iff]; simp; omega)

variable (env : KeyEnv) (K : KeyInfo) (ctx : Ctx)

/-- node-level consequences of `from_ast` -/
theorem fromAstNode_imp (len) (m : Ms) (h : fromAstNode env K ctx m = true) :
    rangeOk m = true ∧ multiAllowed ctx m = true ∧
      m.nodeKeys.all (keyAllowed (factsFrom K len) ctx) = true := by
  simp only [fromAstNode, Bool.and_eq_true, checkGlobalValidity] at h
  obtain ⟨⟨⟨h1, _⟩, _⟩, h4, _⟩ := h
  refine ⟨by rw [← termNodeOk_eq]; exact h1, ?_, ?_⟩
  · cases ctx <;> cases m <;> simp_all [multiAllowed, isTap, nodeChecked]
  · cases ctx <;> cases m <;>
      simp_all [Ms.nodeKeys, ← checkPk_eq K len, List.all_eq_true, nodeChecked]

theorem constructed_rules (len) (ms : Ms) (h : constructed env K ctx ms = true) :
    ruleRange ms = true ∧ ruleMulti ctx ms = true ∧
      ruleKeys (factsFrom K len) ctx ms = true := by
  simp only [constructed, List.all_eq_true] at h
  simp only [ruleRange, ruleMulti, ruleKeys, allKeys_eq, Ms.iterPk, everyNode_eq, List.all_eq_true,
    List.mem_flatMap]
  refine ⟨fun m hm => (fromAstNode_imp env K ctx len m (h m hm)).1,
    fun m hm => (fromAstNode_imp env K ctx len m (h m hm)).2.1, ?_⟩
  rintro k ⟨m, hm, hk⟩
  exact List.all_eq_true.mp (fromAstNode_imp env K ctx len m (h m hm)).2.2 k hk

theorem preorder_self_mem (ms : Ms) : ms ∈ ms.preorder := by
  cases ms <;> simp [Ms.preorder]

theorem constructed_root (ms : Ms) (h : constructed env K ctx ms = true) :
    fromAstNode env K ctx ms = true := by
  simp only [constructed, List.all_eq_true] at h
  exact h ms (preorder_self_mem ms)

theorem constructed_depth (ms : Ms) (h : constructed env K ctx ms = true) : ruleDepth ms = true := by
  have := constructed_root env K ctx ms h
  simp only [fromAstNode, Bool.and_eq_true, MAX_RECURSION_DEPTH] at this
  simp only [ruleDepth, ← treeHeight_eq env ctx]
  exact this.1.2

theorem sizeChecked_le (c : Ctx) (n : Nat) : sizeChecked c n = true → n ≤ maxScriptLen c := by
  cases c <;> simp only [sizeChecked, maxScriptLen, MAX_SCRIPT_ELEMENT_SIZE, MAX_SCRIPT_SIZE,
    MAX_STANDARD_P2WSH_SCRIPT_SIZE, MAX_BLOCK_WU, Bool.and_eq_true] <;> intro h <;>
    first
    | exact of_decide_eq_true h
    | exact of_decide_eq_true h.1

theorem constructed_size (ms : Ms) (h : constructed env K ctx ms = true) :
    (extOf env ctx ms).pkCost ≤ maxScriptLen ctx := by
  have := constructed_root env K ctx ms h
  simp only [fromAstNode, checkGlobalValidity, Bool.and_eq_true] at this
  exact sizeChecked_le _ _ this.2.2

theorem constructed_typed (ms : Ms) (h : constructed env K ctx ms = true) :
    (typeOf ms).isSome = true := by
  have := constructed_root env K ctx ms h
  simp only [fromAstNode, Bool.and_eq_true] at this
  exact this.1.1.2

/-! ### what a successful `validate` under the context's CONSENSUS parameters adds -/

theorem pkOK_consensus (len) (k : Key) (h : pkOK ctx.CONSENSUS (K.kind k) = true) :
    keyAllowed (factsFrom K len) ctx k = true := by
  cases ctx <;> cases hk : K.kind k <;>
    simp_all [pkOK, Ctx.CONSENSUS, ValidationParams.CONSENSUS, keyAllowed, factsFrom]

theorem flagOK_consensus (m : Ms) (h : flagOK ctx.CONSENSUS m = true) :
    condAllowed ctx m = true := by
  cases ctx <;> cases m <;>
    simp_all [flagOK, Ctx.CONSENSUS, ValidationParams.CONSENSUS, condAllowed, minimalIf]

theorem validOK_consensus_rules (len) (ms : Ms)
    (h : validOK env K ctx ctx.CONSENSUS ms = true) :
    ruleKeys (factsFrom K len) ctx ms = true ∧ ruleCond ctx ms = true ∧
      ∃ ty, typeOf ms = some ty ∧ ty.corr.base = .B := by
  unfold validOK at h
  cases hty : typeOf ms with
  | none => simp [hty] at h
  | some ty =>
    simp only [hty, Bool.and_eq_true, nonTopOK, nodesOK, topOK, List.all_eq_true,
      Bool.or_eq_true] at h
    obtain ⟨⟨⟨_, ⟨hf, hk⟩, _⟩, _⟩, ⟨⟨_, hb⟩, _⟩, _⟩ := h
    refine ⟨?_, ?_, ty, rfl, ?_⟩
    · simp only [ruleKeys, allKeys_eq, List.all_eq_true]
      exact fun k hk' => pkOK_consensus K ctx len k (hk k hk')
    · simp only [ruleCond, everyNode_eq, List.all_eq_true]
      exact fun m hm => flagOK_consensus ctx m (hf m hm)
    · rcases hb with hb | hb
      · cases ctx <;> simp [Ctx.CONSENSUS, ValidationParams.CONSENSUS] at hb
      · simpa using hb

theorem flagOK_consensus_multi (m : Ms) (h : flagOK ctx.CONSENSUS m = true) :
    multiAllowed ctx m = true := by
  cases ctx <;> cases m <;>
    simp_all [flagOK, Ctx.CONSENSUS, ValidationParams.CONSENSUS, multiAllowed, isTap]

theorem validOK_consensus_multi (ms : Ms) (h : validOK env K ctx ctx.CONSENSUS ms = true) :
    ruleMulti ctx ms = true := by
  unfold validOK at h
  cases hty : typeOf ms with
  | none => simp [hty] at h
  | some ty =>
    simp only [hty, Bool.and_eq_true, nonTopOK, nodesOK, List.all_eq_true] at h
    simp only [ruleMulti, everyNode_eq, List.all_eq_true]
    exact fun m hm => flagOK_consensus_multi ctx m (h.1.1.2.1.1 m hm)

theorem validOK_depth (p : ValidationParams) (ms : Ms) (h : validOK env K ctx p ms = true) :
    depth ms ≤ p.maxRecursiveDepth := by
  unfold validOK at h
  cases hty : typeOf ms with
  | none => simp [hty] at h
  | some ty =>
    simp only [hty, Bool.and_eq_true, nonTopOK, decide_eq_true_eq] at h
    rw [← treeHeight_eq env ctx]; exact h.1.1.1.1.1

theorem depths_le_height (t : TapT) (d0 : Nat) : ∀ d ∈ t.depths d0, d ≤ d0 + t.height := by
  induction t generalizing d0 with
  | leaf m => intro d hd; simp [TapT.depths] at hd; simp [TapT.height, hd]
  | node l r ihl ihr =>
    intro d hd
    simp only [TapT.depths, List.mem_append] at hd
    simp only [TapT.height]
    rcases hd with hd | hd
    · have := ihl (d0 + 1) d hd; omega
    · have := ihr (d0 + 1) d hd; omega

theorem sane_le_consensus : (ctx : Ctx) → ctx.SANE.le ctx.CONSENSUS = true
  | .bare => by decide
  | .legacy => by decide
  | .segwitv0 => by decide
  | .tap => by decide

theorem insane_le_consensus : (ctx : Ctx) → ctx.INSANE.le ctx.CONSENSUS = true
  | .bare => by decide
  | .legacy => by decide
  | .segwitv0 => by decide
  | .tap => by decide

end MsVerif

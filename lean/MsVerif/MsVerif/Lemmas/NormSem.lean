/-
The decoder normal form keeps the SPENDING CONDITION (`Spec/MsSem.lean`, the trusted
specification of C07) of every well-typed miniscript: `sem W (norm ms) = sem W ms`.

Floating an `and_v` operand out of `c:`/`n:`/`v:`/`and_b`/`and_v` is conjunction associativity;
out of the first argument of `or_b`/`or_d`/`or_c`/`andor`/`thresh` it would change the condition
— but those positions require a dissatisfiable argument and nothing an `and_v` floats out of is
dissatisfiable (`prefix_not_dissat`), so for well-typed miniscripts nothing floats there.
-/
import MsVerif.Model.Tokens
import MsVerif.Model.TypeCheck
import MsVerif.Spec.MsSem

namespace MsVerif
namespace NormL
open MsSem

/-! ### typing inversions -/

theorem ty2_inv {f : Ty → Ty → Option Ty} {l r : Ms} {t : Ty}
    (h : (match typeOf l, typeOf r with | some a, some b => f a b | _, _ => none) = some t) :
    ∃ a b, typeOf l = some a ∧ typeOf r = some b ∧ f a b = some t := by
  cases hl : typeOf l with
  | none => simp [hl] at h
  | some a =>
    cases hr : typeOf r with
    | none => simp [hl, hr] at h
    | some b => simp only [hl, hr] at h; exact ⟨a, b, rfl, rfl, h⟩

theorem lift1_inv {fc : Corr → Option Corr} {fm : Mall → Mall} {a t : Ty}
    (h : Ty.lift1 fc fm a = some t) : fc a.corr = some t.corr := by
  unfold Ty.lift1 at h; split at h
  · cases h; assumption
  · cases h

theorem lift2_inv {fc : Corr → Corr → Option Corr} {fm : Mall → Mall → Mall} {a b t : Ty}
    (h : Ty.lift2 fc fm a b = some t) : fc a.corr b.corr = some t.corr := by
  unfold Ty.lift2 at h; split at h
  · cases h; assumption
  · cases h

/-! ### nothing that an `and_v` operand floats out of is dissatisfiable -/

theorem prefix_not_dissat : (ms : Ms) → (t : Ty) → typeOf ms = some t → (normSeq ms).1 ≠ [] →
    t.corr.dissat = false
  | .andV l r, t, ht, _ => by
    simp only [typeOf] at ht
    obtain ⟨a, b, _, _, hab⟩ := ty2_inv ht
    have := lift2_inv hab
    unfold Corr.andV at this
    split at this <;> first | (cases this; done) | (simp at this; rw [← this])
  | .check x, t, ht, hp => by
    simp only [typeOf] at ht
    cases hx : typeOf x with
    | none => simp [hx] at ht
    | some a =>
      simp only [hx, Option.bind_some] at ht
      have h1 := lift1_inv ht
      have ih := prefix_not_dissat x a hx (by simpa [normSeq] using hp)
      unfold Corr.castCheck at h1
      split at h1 <;> first | (cases h1; done) | (simp at h1; rw [← h1]; exact ih)
  | .verify x, t, ht, _ => by
    simp only [typeOf] at ht
    cases hx : typeOf x with
    | none => simp [hx] at ht
    | some a =>
      simp only [hx, Option.bind_some] at ht
      have h1 := lift1_inv ht
      unfold Corr.castVerify at h1
      split at h1 <;> first | (cases h1; done) | (simp at h1; rw [← h1])
  | .zeroNotEqual x, t, ht, hp => by
    simp only [typeOf] at ht
    cases hx : typeOf x with
    | none => simp [hx] at ht
    | some a =>
      simp only [hx, Option.bind_some] at ht
      have h1 := lift1_inv ht
      have ih := prefix_not_dissat x a hx (by simpa [normSeq] using hp)
      unfold Corr.castZeroNotEqual at h1
      split at h1 <;> first | (cases h1; done) | (simp at h1; rw [← h1]; exact ih)
  | .andB l r, t, ht, hp => by
    simp only [typeOf] at ht
    obtain ⟨a, b, hl, _, hab⟩ := ty2_inv ht
    have h1 := lift2_inv hab
    have ih := prefix_not_dissat l a hl (by simpa [normSeq] using hp)
    unfold Corr.andB at h1
    split at h1 <;> first | (cases h1; done) | (simp at h1; rw [← h1]; simp [ih])
  | .orB l r, t, ht, hp => by
    simp only [typeOf] at ht
    obtain ⟨a, b, hl, _, hab⟩ := ty2_inv ht
    have h1 := lift2_inv hab
    have ih := prefix_not_dissat l a hl (by simpa [normSeq] using hp)
    unfold Corr.orB at h1
    simp [ih] at h1
  | .orD l r, t, ht, hp => by
    simp only [typeOf] at ht
    obtain ⟨a, b, hl, _, hab⟩ := ty2_inv ht
    have h1 := lift2_inv hab
    have ih := prefix_not_dissat l a hl (by simpa [normSeq] using hp)
    unfold Corr.orD at h1
    simp [ih] at h1
  | .orC l r, t, ht, hp => by
    simp only [typeOf] at ht
    obtain ⟨a, b, hl, _, hab⟩ := ty2_inv ht
    have h1 := lift2_inv hab
    have ih := prefix_not_dissat l a hl (by simpa [normSeq] using hp)
    unfold Corr.orC at h1
    simp [ih] at h1
  | .andOr x y z, t, ht, hp => by
    simp only [typeOf] at ht
    cases hx : typeOf x with
    | none => simp [hx] at ht
    | some a =>
      cases hy : typeOf y with
      | none => simp [hx, hy] at ht
      | some b =>
        cases hz : typeOf z with
        | none => simp [hx, hy, hz] at ht
        | some c =>
          simp only [hx, hy, hz] at ht
          have ih := prefix_not_dissat x a hx (by simpa [normSeq] using hp)
          unfold Ty.andOr Corr.andOr at ht
          simp [ih] at ht
  | .thresh k .nil, _, _, hp => by simp [normSeq] at hp
  | .thresh k (.cons x xs), t, ht, hp => by
    simp only [typeOf, typesOf] at ht
    cases hx : typeOf x with
    | none => simp [hx] at ht
    | some a =>
      cases hxs : typesOf xs with
      | none => simp [hx, hxs] at ht
      | some ts =>
        simp only [hx, hxs, Option.bind_some] at ht
        have ih := prefix_not_dissat x a hx (by simpa [normSeq] using hp)
        unfold Ty.threshold Corr.threshold at ht
        simp [Corr.threshLoop, ih] at ht
  | .alt _, _, _, hp | .swap _, _, _, hp | .dupIf _, _, _, hp | .nonZero _, _, _, hp
  | .orI _ _, _, _, hp | .tru, _, _, hp | .fls, _, _, hp | .pkK _, _, _, hp | .pkH _, _, _, hp
  | .rawPkH _, _, _, hp | .after _, _, _, hp | .older _, _, _, hp | .hash _ _, _, _, hp
  | .multi _ _, _, _, hp | .sortedMulti _ _, _, _, hp | .multiA _ _, _, _, hp
  | .sortedMultiA _ _, _, _, hp => by simp [normSeq] at hp

theorem noPrefix {x : Ms} {a : Ty} (hx : typeOf x = some a) (hd : a.corr.dissat = true) :
    (normSeq x).1 = [] := by
  cases h : (normSeq x).1 with
  | nil => rfl
  | cons p ps =>
    have := prefix_not_dissat x a hx (by simp [h])
    rw [hd] at this; cases this

/-! ### the spending condition -/

theorem sem_foldl_andV (W : Pol.World) (rs : List Ms) : ∀ a : Ms,
    sem W (rs.foldl Ms.andV a) = (sem W a && rs.all (sem W)) := by
  induction rs with
  | nil => intro a; simp
  | cons r rs ih => intro a; simp [ih, sem, Bool.and_assoc]

theorem sem_mkAndV (W : Pol.World) (ps : List Ms) (l : Ms) :
    sem W (mkAndV ps l) = (ps.all (sem W) && sem W l) := by
  cases ps with
  | nil => simp [mkAndV]
  | cons p ps => simp [mkAndV, sem_foldl_andV, sem, Bool.and_assoc]

theorem orB_dissat {a b t : Ty} (h : Ty.orB a b = some t) : a.corr.dissat = true := by
  have := lift2_inv h; unfold Corr.orB at this
  cases hd : a.corr.dissat with
  | true => rfl
  | false => simp [hd] at this
theorem orD_dissat {a b t : Ty} (h : Ty.orD a b = some t) : a.corr.dissat = true := by
  have := lift2_inv h; unfold Corr.orD at this
  cases hd : a.corr.dissat with
  | true => rfl
  | false => simp [hd] at this
theorem orC_dissat {a b t : Ty} (h : Ty.orC a b = some t) : a.corr.dissat = true := by
  have := lift2_inv h; unfold Corr.orC at this
  cases hd : a.corr.dissat with
  | true => rfl
  | false => simp [hd] at this
theorem andOr_dissat {a b c t : Ty} (h : Ty.andOr a b c = some t) : a.corr.dissat = true := by
  unfold Ty.andOr Corr.andOr at h
  cases hd : a.corr.dissat with
  | true => rfl
  | false => simp [hd] at h
theorem thresh_dissat {k : Nat} {a : Ty} {ts : List Ty} {t : Ty}
    (h : Ty.threshold k (a :: ts) = some t) : a.corr.dissat = true := by
  unfold Ty.threshold Corr.threshold at h
  cases hd : a.corr.dissat with
  | true => rfl
  | false => simp [Corr.threshLoop, hd] at h

theorem bind1_inv {f : Ty → Option Ty} {x : Ms} {t : Ty} (h : (typeOf x).bind f = some t) :
    ∃ a, typeOf x = some a := by
  cases hx : typeOf x with
  | none => simp [hx] at h
  | some a => exact ⟨a, rfl⟩

mutual
theorem sem_normSeq (W : Pol.World) : (ms : Ms) → (t : Ty) → typeOf ms = some t →
    ((normSeq ms).1.all (sem W) && sem W (normSeq ms).2) = sem W ms
  | .andV l r, t, ht => by
    simp only [typeOf] at ht
    obtain ⟨a, b, hl, hr, _⟩ := ty2_inv ht
    have h1 := sem_normSeq W l a hl
    have h2 := sem_normSeq W r b hr
    simp only [normSeq, sem, List.all_append, List.all_cons, List.all_nil, Bool.and_true]
    rw [← h1, ← h2]; simp [Bool.and_assoc]
  | .check x, t, ht => by
    simp only [typeOf] at ht
    obtain ⟨a, hx⟩ := bind1_inv ht
    simpa [normSeq, sem] using sem_normSeq W x a hx
  | .verify x, t, ht => by
    simp only [typeOf] at ht
    obtain ⟨a, hx⟩ := bind1_inv ht
    simpa [normSeq, sem] using sem_normSeq W x a hx
  | .zeroNotEqual x, t, ht => by
    simp only [typeOf] at ht
    obtain ⟨a, hx⟩ := bind1_inv ht
    simpa [normSeq, sem] using sem_normSeq W x a hx
  | .alt x, t, ht => by
    simp only [typeOf] at ht
    obtain ⟨a, hx⟩ := bind1_inv ht
    simpa [normSeq, sem, sem_mkAndV] using sem_normSeq W x a hx
  | .swap x, t, ht => by
    simp only [typeOf] at ht
    obtain ⟨a, hx⟩ := bind1_inv ht
    simpa [normSeq, sem, sem_mkAndV] using sem_normSeq W x a hx
  | .dupIf x, t, ht => by
    simp only [typeOf] at ht
    obtain ⟨a, hx⟩ := bind1_inv ht
    simpa [normSeq, sem, sem_mkAndV] using sem_normSeq W x a hx
  | .nonZero x, t, ht => by
    simp only [typeOf] at ht
    obtain ⟨a, hx⟩ := bind1_inv ht
    simpa [normSeq, sem, sem_mkAndV] using sem_normSeq W x a hx
  | .andB l r, t, ht => by
    simp only [typeOf] at ht
    obtain ⟨a, b, hl, hr, _⟩ := ty2_inv ht
    have h1 := sem_normSeq W l a hl
    have h2 := sem_normSeq W r b hr
    simp only [normSeq, sem, sem_mkAndV]
    rw [← h1, ← h2]; simp [Bool.and_assoc]
  | .orI l r, t, ht => by
    simp only [typeOf] at ht
    obtain ⟨a, b, hl, hr, _⟩ := ty2_inv ht
    have h1 := sem_normSeq W l a hl
    have h2 := sem_normSeq W r b hr
    simp only [normSeq, sem, sem_mkAndV, List.all_nil, Bool.true_and]
    rw [← h1, ← h2]
  | .orB l r, t, ht => by
    simp only [typeOf] at ht
    obtain ⟨a, b, hl, hr, hab⟩ := ty2_inv ht
    have h1 := sem_normSeq W l a hl
    have h2 := sem_normSeq W r b hr
    have hp := noPrefix hl (orB_dissat hab)
    simp only [normSeq, sem, sem_mkAndV, hp, List.all_nil, Bool.true_and] at h1 ⊢
    rw [← h1, ← h2]
  | .orD l r, t, ht => by
    simp only [typeOf] at ht
    obtain ⟨a, b, hl, hr, hab⟩ := ty2_inv ht
    have h1 := sem_normSeq W l a hl
    have h2 := sem_normSeq W r b hr
    have hp := noPrefix hl (orD_dissat hab)
    simp only [normSeq, sem, sem_mkAndV, hp, List.all_nil, Bool.true_and] at h1 ⊢
    rw [← h1, ← h2]
  | .orC l r, t, ht => by
    simp only [typeOf] at ht
    obtain ⟨a, b, hl, hr, hab⟩ := ty2_inv ht
    have h1 := sem_normSeq W l a hl
    have h2 := sem_normSeq W r b hr
    have hp := noPrefix hl (orC_dissat hab)
    simp only [normSeq, sem, sem_mkAndV, hp, List.all_nil, Bool.true_and] at h1 ⊢
    rw [← h1, ← h2]
  | .andOr x y z, t, ht => by
    simp only [typeOf] at ht
    cases hx : typeOf x with
    | none => simp [hx] at ht
    | some a =>
      cases hy : typeOf y with
      | none => simp [hx, hy] at ht
      | some b =>
        cases hz : typeOf z with
        | none => simp [hx, hy, hz] at ht
        | some c =>
          simp only [hx, hy, hz] at ht
          have h1 := sem_normSeq W x a hx
          have h2 := sem_normSeq W y b hy
          have h3 := sem_normSeq W z c hz
          have hp := noPrefix hx (andOr_dissat ht)
          simp only [normSeq, sem, sem_mkAndV, hp, List.all_nil, Bool.true_and] at h1 ⊢
          rw [← h1, ← h2, ← h3]
  | .thresh k .nil, _, _ => by simp [normSeq]
  | .thresh k (.cons x xs), t, ht => by
    simp only [typeOf, typesOf] at ht
    cases hx : typeOf x with
    | none => simp [hx] at ht
    | some a =>
      cases hxs : typesOf xs with
      | none => simp [hx, hxs] at ht
      | some ts =>
        simp only [hx, hxs, Option.bind_some] at ht
        have h1 := sem_normSeq W x a hx
        have h2 := sem_normList W xs ts hxs
        have hp := noPrefix hx (thresh_dissat ht)
        simp only [hp, List.all_nil, Bool.true_and] at h1
        have hc : semCount W (.cons (normSeq x).2 (normList xs)) = semCount W (.cons x xs) := by
          simp only [semCount, h1, h2]
        simp only [normSeq, hp, List.all_nil, Bool.true_and, sem, hc]
  | .tru, _, _ | .fls, _, _ | .pkK _, _, _ | .pkH _, _, _ | .rawPkH _, _, _ | .after _, _, _
  | .older _, _, _ | .hash _ _, _, _ | .multi _ _, _, _ | .sortedMulti _ _, _, _
  | .multiA _ _, _, _ | .sortedMultiA _ _, _, _ => by simp [normSeq]
theorem sem_normList (W : Pol.World) : (xs : MsList) → (ts : List Ty) → typesOf xs = some ts →
    semCount W (normList xs) = semCount W xs
  | .nil, _, _ => by simp [normList]
  | .cons x xs, ts, h => by
    simp only [typesOf] at h
    cases hx : typeOf x with
    | none => simp [hx] at h
    | some a =>
      cases hxs : typesOf xs with
      | none => simp [hx, hxs] at h
      | some ts' =>
        have h1 := sem_normSeq W x a hx
        have h2 := sem_normList W xs ts' hxs
        simp only [normList, semCount, sem_mkAndV, h1, h2]
end

/-- the decoder normal form of a well-typed miniscript has the same spending condition -/
theorem sem_norm (W : Pol.World) (ms : Ms) (t : Ty) (ht : typeOf ms = some t) :
    sem W (norm ms) = sem W ms := by
  simp only [norm, sem_mkAndV]; exact sem_normSeq W ms t ht

end NormL
end MsVerif

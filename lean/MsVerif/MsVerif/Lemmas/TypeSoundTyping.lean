/-
C06 helper lemmas, part 2: inversion of the typing rules.  `typeOf (C x y) = some τ` gives the
children's types and what the correctness rule says about base / input / unit of parent and
children.  Core Lean only.
-/
import MsVerif.Model.TypeCheck

namespace MsVerif.TypeSound
open MsVerif

/-! ### `Ty`-level rules to `Corr`-level rules -/

theorem lift1_corr {fc fm a τ} (h : Ty.lift1 fc fm a = some τ) : fc a.corr = some τ.corr := by
  unfold Ty.lift1 at h
  split at h
  · cases h; assumption
  · cases h

theorem lift2_corr {fc fm a b τ} (h : Ty.lift2 fc fm a b = some τ) : fc a.corr b.corr = some τ.corr := by
  unfold Ty.lift2 at h
  split at h
  · cases h; assumption
  · cases h

theorem andOr_corr {a b c τ} (h : Ty.andOr a b c = some τ) :
    Corr.andOr a.corr b.corr c.corr = some τ.corr := by
  unfold Ty.andOr at h
  split at h
  · cases h; assumption
  · cases h

theorem threshold_corr {k ts τ} (h : Ty.threshold k ts = some τ) :
    Corr.threshold k (ts.map (·.corr)) = some τ.corr := by
  unfold Ty.threshold at h
  split at h
  · cases h; assumption
  · cases h

/-! ### `typeOf` one level -/

theorem typeOf_un {f : Ty → Option Ty} {x : Ms} {τ : Ty} (h : (typeOf x).bind f = some τ) :
    ∃ a, typeOf x = some a ∧ f a = some τ := by
  cases hx : typeOf x with
  | none => simp [hx] at h
  | some a => exact ⟨a, rfl, by simpa [hx] using h⟩

theorem typeOf_bin {f : Ty → Ty → Option Ty} {l r : Ms} {τ : Ty}
    (h : (match typeOf l, typeOf r with | some a, some b => f a b | _, _ => none) = some τ) :
    ∃ a b, typeOf l = some a ∧ typeOf r = some b ∧ f a b = some τ := by
  cases hl : typeOf l with
  | none => simp [hl] at h
  | some a =>
    cases hr : typeOf r with
    | none => simp [hl, hr] at h
    | some b => exact ⟨a, b, rfl, rfl, by simpa [hl, hr] using h⟩

/-! ### the correctness rules, read backwards -/

theorem castAlt_inv {a y : Corr} (e : Corr.castAlt a = some y) :
    a.base = .B ∧ y = ⟨.W, .any, a.dissat, a.unit⟩ := by
  obtain ⟨ab, ai, ad, au⟩ := a
  cases ab <;> simp [Corr.castAlt] at e
  exact ⟨rfl, e.symm⟩

theorem castSwap_inv {a y : Corr} (e : Corr.castSwap a = some y) :
    a.base = .B ∧ (a.input = .one ∨ a.input = .oneNonZero) ∧ y = ⟨.W, .any, a.dissat, a.unit⟩ := by
  obtain ⟨ab, ai, ad, au⟩ := a
  cases ab <;> cases ai <;> simp [Corr.castSwap] at e
  all_goals exact ⟨rfl, by simp, e.symm⟩

theorem castCheck_inv {a y : Corr} (e : Corr.castCheck a = some y) :
    a.base = .K ∧ y = ⟨.B, a.input, a.dissat, true⟩ := by
  obtain ⟨ab, ai, ad, au⟩ := a
  cases ab <;> simp [Corr.castCheck] at e
  exact ⟨rfl, e.symm⟩

theorem castDupIf_inv {a y : Corr} (e : Corr.castDupIf a = some y) :
    a.base = .V ∧ a.input = .zero ∧ y = ⟨.B, .oneNonZero, true, false⟩ := by
  obtain ⟨ab, ai, ad, au⟩ := a
  cases ab <;> cases ai <;> simp [Corr.castDupIf] at e
  exact ⟨rfl, rfl, e.symm⟩

theorem castVerify_inv {a y : Corr} (e : Corr.castVerify a = some y) :
    a.base = .B ∧ y = ⟨.V, a.input, false, false⟩ := by
  obtain ⟨ab, ai, ad, au⟩ := a
  cases ab <;> simp [Corr.castVerify] at e
  exact ⟨rfl, e.symm⟩

theorem castNonZero_inv {a y : Corr} (e : Corr.castNonZero a = some y) :
    a.base = .B ∧ (a.input = .oneNonZero ∨ a.input = .anyNonZero) ∧ y = ⟨.B, a.input, true, a.unit⟩ := by
  obtain ⟨ab, ai, ad, au⟩ := a
  cases ab <;> cases ai <;> simp [Corr.castNonZero] at e
  all_goals exact ⟨rfl, by simp, e.symm⟩

theorem castZeroNotEqual_inv {a y : Corr} (e : Corr.castZeroNotEqual a = some y) :
    a.base = .B ∧ y = ⟨.B, a.input, a.dissat, true⟩ := by
  obtain ⟨ab, ai, ad, au⟩ := a
  cases ab <;> simp [Corr.castZeroNotEqual] at e
  exact ⟨rfl, e.symm⟩

theorem andV_inv {a b y : Corr} (e : Corr.andV a b = some y) :
    a.base = .V ∧ (b.base = .B ∨ b.base = .K ∨ b.base = .V) ∧
      y = ⟨b.base, Corr.andInput a.input b.input, false, b.unit⟩ := by
  obtain ⟨ab, ai, ad, au⟩ := a
  obtain ⟨bb, bi, bd, bu⟩ := b
  cases ab <;> cases bb <;> simp [Corr.andV] at e
  all_goals exact ⟨rfl, by simp, e.symm⟩

theorem andB_inv {a b y : Corr} (e : Corr.andB a b = some y) :
    a.base = .B ∧ b.base = .W ∧
      y = ⟨.B, Corr.andInput a.input b.input, a.dissat && b.dissat, true⟩ := by
  obtain ⟨ab, ai, ad, au⟩ := a
  obtain ⟨bb, bi, bd, bu⟩ := b
  cases ab <;> cases bb <;> simp [Corr.andB] at e
  exact ⟨rfl, rfl, e.symm⟩

theorem orB_inv {a b y : Corr} (e : Corr.orB a b = some y) :
    a.base = .B ∧ b.base = .W ∧ y = ⟨.B, Corr.orBInput a.input b.input, true, true⟩ := by
  obtain ⟨ab, ai, ad, au⟩ := a
  obtain ⟨bb, bi, bd, bu⟩ := b
  cases ad <;> cases bd <;> cases ab <;> cases bb <;> simp [Corr.orB] at e
  exact ⟨rfl, rfl, e.symm⟩

theorem orD_inv {a b y : Corr} (e : Corr.orD a b = some y) :
    a.base = .B ∧ b.base = .B ∧ a.unit = true ∧ a.dissat = true ∧
      y = ⟨.B, Corr.orDInput a.input b.input, b.dissat, b.unit⟩ := by
  obtain ⟨ab, ai, ad, au⟩ := a
  obtain ⟨bb, bi, bd, bu⟩ := b
  cases ad <;> cases au <;> cases ab <;> cases bb <;> simp [Corr.orD] at e
  exact ⟨rfl, rfl, rfl, rfl, e.symm⟩

theorem orC_inv {a b y : Corr} (e : Corr.orC a b = some y) :
    a.base = .B ∧ b.base = .V ∧ a.unit = true ∧ a.dissat = true ∧
      y = ⟨.V, Corr.orDInput a.input b.input, false, false⟩ := by
  obtain ⟨ab, ai, ad, au⟩ := a
  obtain ⟨bb, bi, bd, bu⟩ := b
  cases ad <;> cases au <;> cases ab <;> cases bb <;> simp [Corr.orC] at e
  exact ⟨rfl, rfl, rfl, rfl, e.symm⟩

theorem orI_inv {a b y : Corr} (e : Corr.orI a b = some y) :
    a.base = b.base ∧ (a.base = .B ∨ a.base = .V ∨ a.base = .K) ∧
      y = ⟨a.base, Corr.orIInput a.input b.input, a.dissat || b.dissat, a.unit && b.unit⟩ := by
  obtain ⟨ab, ai, ad, au⟩ := a
  obtain ⟨bb, bi, bd, bu⟩ := b
  cases ab <;> cases bb <;> simp [Corr.orI] at e
  all_goals exact ⟨rfl, by simp, e.symm⟩

theorem andOr_inv {a b c y : Corr} (e : Corr.andOr a b c = some y) :
    a.base = .B ∧ a.unit = true ∧ a.dissat = true ∧ b.base = c.base ∧
      (b.base = .B ∨ b.base = .K ∨ b.base = .V) ∧
      y = ⟨b.base, Corr.andOrInput a.input b.input c.input, c.dissat, b.unit && c.unit⟩ := by
  obtain ⟨ab, ai, ad, au⟩ := a
  obtain ⟨bb, bi, bd, bu⟩ := b
  obtain ⟨cb, ci, cd, cu⟩ := c
  cases ad <;> cases au <;> cases ab <;> cases bb <;> cases cb <;> simp [Corr.andOr] at e
  all_goals exact ⟨rfl, rfl, rfl, rfl, by simp, e.symm⟩

/-! ### thresholds -/

/-- what `threshLoop` checks of the head, and that it continues on the tail -/
theorem threshLoop_cons {i acc : Nat} {s : Corr} {rest : List Corr} {n : Nat}
    (h : Corr.threshLoop i acc (s :: rest) = some n) :
    (i = 0 → s.base = .B) ∧ (i ≠ 0 → s.base = .W) ∧ s.unit = true ∧ s.dissat = true ∧
      Corr.threshLoop (i + 1) (acc + Corr.numArgs s.input) rest = some n := by
  unfold Corr.threshLoop at h
  dsimp only at h
  split at h
  · cases h
  · split at h
    · cases h
    · split at h
      · cases h
      · split at h
        · cases h
        · rename_i h1 h2 h3 h4
          refine ⟨?_, ?_, ?_, ?_, h⟩
          · intro hi
            apply Classical.byContradiction
            intro hb
            exact h1 ⟨hi, hb⟩
          · intro hi
            apply Classical.byContradiction
            intro hb
            exact h2 ⟨hi, hb⟩
          · simpa using h3
          · simpa using h4

theorem threshLoop_ge {i acc : Nat} {cs : List Corr} {n : Nat}
    (h : Corr.threshLoop i acc cs = some n) : acc ≤ n := by
  induction cs generalizing i acc with
  | nil => simp [Corr.threshLoop] at h; omega
  | cons s rest ih =>
    have := (threshLoop_cons h).2.2.2.2
    have := ih this
    omega

theorem threshold_inv {k : Nat} {cs : List Corr} {y : Corr} (e : Corr.threshold k cs = some y) :
    ∃ n, Corr.threshLoop 0 0 cs = some n ∧
      y = ⟨.B, (match n with | 0 => .zero | 1 => .one | _ => .any), true, true⟩ := by
  unfold Corr.threshold at e
  split at e
  · cases e
  · rename_i n hn
    cases e
    exact ⟨n, hn, rfl⟩

theorem typesOf_cons {x : Ms} {xs : MsList} {ts : List Ty} (h : typesOf (.cons x xs) = some ts) :
    ∃ t ts', typeOf x = some t ∧ typesOf xs = some ts' ∧ ts = t :: ts' := by
  simp only [typesOf] at h
  cases hx : typeOf x with
  | none => simp [hx] at h
  | some t =>
    cases hxs : typesOf xs with
    | none => simp [hx, hxs] at h
    | some ts' =>
      simp [hx, hxs] at h
      exact ⟨t, ts', rfl, rfl, h.symm⟩

/-! ### a W-typed fragment takes `any` input; a K-typed fragment is never zero-arg -/

theorem W_any {ms : Ms} {τ : Ty} (h : typeOf ms = some τ) (hb : τ.corr.base = .W) :
    τ.corr.input = .any := by
  cases ms with
  | tru | fls | pkK | pkH | rawPkH | after | older | hash | multi | sortedMulti | multiA | sortedMultiA =>
    simp only [typeOf] at h; cases h; simp [Ty.TRUE, Ty.FALSE, Ty.pkK, Ty.pkH, Ty.time, Ty.hash, Ty.multi,
      Ty.sortedmulti, Ty.multiA, Ty.sortedmultiA, Corr.TRUE, Corr.FALSE, Corr.pkK, Corr.pkH, Corr.time,
      Corr.hash, Corr.multi, Corr.sortedmulti, Corr.multiA, Corr.sortedmultiA] at hb
  | alt x =>
    simp only [typeOf] at h
    obtain ⟨a, _, h⟩ := typeOf_un h
    rw [(castAlt_inv (lift1_corr h)).2]
  | swap x =>
    simp only [typeOf] at h
    obtain ⟨a, _, h⟩ := typeOf_un h
    rw [(castSwap_inv (lift1_corr h)).2.2]
  | check x =>
    simp only [typeOf] at h
    obtain ⟨a, _, h⟩ := typeOf_un h
    rw [(castCheck_inv (lift1_corr h)).2] at hb; cases hb
  | dupIf x =>
    simp only [typeOf] at h
    obtain ⟨a, _, h⟩ := typeOf_un h
    rw [(castDupIf_inv (lift1_corr h)).2.2] at hb; cases hb
  | verify x =>
    simp only [typeOf] at h
    obtain ⟨a, _, h⟩ := typeOf_un h
    rw [(castVerify_inv (lift1_corr h)).2] at hb; cases hb
  | nonZero x =>
    simp only [typeOf] at h
    obtain ⟨a, _, h⟩ := typeOf_un h
    rw [(castNonZero_inv (lift1_corr h)).2.2] at hb; cases hb
  | zeroNotEqual x =>
    simp only [typeOf] at h
    obtain ⟨a, _, h⟩ := typeOf_un h
    rw [(castZeroNotEqual_inv (lift1_corr h)).2] at hb; cases hb
  | andV l r =>
    simp only [typeOf] at h
    obtain ⟨a, b, _, _, h⟩ := typeOf_bin h
    obtain ⟨_, hbb, hy⟩ := andV_inv (lift2_corr h)
    rw [hy] at hb
    rcases hbb with h1 | h1 | h1 <;> simp [h1] at hb
  | andB l r =>
    simp only [typeOf] at h
    obtain ⟨a, b, _, _, h⟩ := typeOf_bin h
    rw [(andB_inv (lift2_corr h)).2.2] at hb; cases hb
  | orB l r =>
    simp only [typeOf] at h
    obtain ⟨a, b, _, _, h⟩ := typeOf_bin h
    rw [(orB_inv (lift2_corr h)).2.2] at hb; cases hb
  | orD l r =>
    simp only [typeOf] at h
    obtain ⟨a, b, _, _, h⟩ := typeOf_bin h
    rw [(orD_inv (lift2_corr h)).2.2.2.2] at hb; cases hb
  | orC l r =>
    simp only [typeOf] at h
    obtain ⟨a, b, _, _, h⟩ := typeOf_bin h
    rw [(orC_inv (lift2_corr h)).2.2.2.2] at hb; cases hb
  | orI l r =>
    simp only [typeOf] at h
    obtain ⟨a, b, _, _, h⟩ := typeOf_bin h
    obtain ⟨_, hbb, hy⟩ := orI_inv (lift2_corr h)
    rw [hy] at hb
    rcases hbb with h1 | h1 | h1 <;> simp [h1] at hb
  | andOr x y z =>
    simp only [typeOf] at h
    cases hx : typeOf x with
    | none => simp [hx] at h
    | some a =>
      cases hy : typeOf y with
      | none => simp [hx, hy] at h
      | some b =>
        cases hz : typeOf z with
        | none => simp [hx, hy, hz] at h
        | some c =>
          simp only [hx, hy, hz] at h
          obtain ⟨_, _, _, _, hbb, hyy⟩ := andOr_inv (andOr_corr h)
          rw [hyy] at hb
          rcases hbb with h1 | h1 | h1 <;> simp [h1] at hb
  | thresh k xs =>
    simp only [typeOf] at h
    cases hxs : typesOf xs with
    | none => simp [hxs] at h
    | some ts =>
      simp only [hxs, Option.bind_some] at h
      obtain ⟨n, _, hy⟩ := threshold_inv (threshold_corr h)
      rw [hy] at hb; cases hb

theorem typeOf_andOr {x y z : Ms} {τ : Ty} (h : typeOf (.andOr x y z) = some τ) :
    ∃ a b c, typeOf x = some a ∧ typeOf y = some b ∧ typeOf z = some c ∧ Ty.andOr a b c = some τ := by
  simp only [typeOf] at h
  cases hx : typeOf x with
  | none => simp [hx] at h
  | some a =>
    cases hy : typeOf y with
    | none => simp [hx, hy] at h
    | some b =>
      cases hz : typeOf z with
      | none => simp [hx, hy, hz] at h
      | some c =>
        simp only [hx, hy, hz] at h
        exact ⟨a, b, c, rfl, rfl, rfl, h⟩

theorem typeOf_thresh {k : Nat} {xs : MsList} {τ : Ty} (h : typeOf (.thresh k xs) = some τ) :
    ∃ ts, typesOf xs = some ts ∧ Ty.threshold k ts = some τ := by
  simp only [typeOf] at h
  cases hxs : typesOf xs with
  | none => simp [hxs] at h
  | some ts => exact ⟨ts, rfl, by simpa [hxs] using h⟩

end MsVerif.TypeSound

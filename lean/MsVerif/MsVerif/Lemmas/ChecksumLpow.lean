/-
Powers of the linear step `L` of the checksum engine, on `BitVec 40` and on `Nat`
(the `Nat` copy `LN` is what the kernel evaluates in the tables).
-/
import MsVerif.Lemmas.ChecksumLinear

namespace MsVerif.Checksum

/-- `L` iterated -/
def Lpow : Nat → W → W
  | 0, x => x
  | n + 1, x => L (Lpow n x)

theorem Lpow_succ' (n : Nat) (x : W) : Lpow (n + 1) x = Lpow n (L x) := by
  induction n with
  | zero => rfl
  | succ k ih => show L (Lpow (k + 1) x) = L (Lpow k (L x)); rw [ih]

theorem Lpow_add (m n : Nat) (x : W) : Lpow (m + n) x = Lpow m (Lpow n x) := by
  induction m with
  | zero => simp [Lpow]
  | succ k ih => rw [Nat.succ_add]; show L _ = L _; rw [ih]

theorem Lpow_xor (n : Nat) (x y : W) : Lpow n (x ^^^ y) = Lpow n x ^^^ Lpow n y := by
  induction n with
  | zero => rfl
  | succ k ih => show L _ = L _ ^^^ L _; rw [ih, L_xor]

theorem Lpow_zero (n : Nat) : Lpow n 0 = 0 := by
  induction n with
  | zero => rfl
  | succ k ih => show L _ = 0; rw [ih, L_zero]

theorem Lpow_zero' (n : Nat) : Lpow n 0#40 = 0#40 := Lpow_zero n

theorem Lpow_inj (n : Nat) {x y : W} (h : Lpow n x = Lpow n y) : x = y := by
  induction n with
  | zero => exact h
  | succ k ih => exact ih (L_inj _ _ h)

theorem Lpow_eq_zero (n : Nat) {x : W} (h : Lpow n x = 0#40) : x = 0#40 := by
  apply Lpow_inj n; rw [h, Lpow_zero']

/-- while the value stays below 2^40 the step is a shift by one symbol -/
theorem Lpow_small (n : Nat) (x : W) (h : x.toNat * 32 ^ n < 2 ^ 40) :
    (Lpow n x).toNat = x.toNat * 32 ^ n := by
  induction n with
  | zero => simp [Lpow]
  | succ k ih =>
    have hk : x.toNat * 32 ^ k < 2 ^ 35 := by
      rw [Nat.pow_succ] at h
      have : x.toNat * 32 ^ k * 32 < 2 ^ 35 * 32 := by
        rw [Nat.mul_assoc]; exact h
      exact Nat.lt_of_mul_lt_mul_right this
    have hk' : x.toNat * 32 ^ k < 2 ^ 40 := by omega
    show (L (Lpow k x)).toNat = _
    rw [L_small _ (by rw [ih hk']; exact hk), ih hk', Nat.pow_succ, Nat.mul_assoc]

/-! ## the same step on `Nat` -/

def selN (b : Bool) (g : Nat) : Nat := if b then g else 0

def LN (c : Nat) : Nat :=
  let t := c >>> 35
  ((c &&& 0x7ffffffff) <<< 5) ^^^ selN (t.testBit 0) 0xf5dee51989 ^^^ selN (t.testBit 1) 0xa9fdca3312
    ^^^ selN (t.testBit 2) 0x1bab10e32d ^^^ selN (t.testBit 3) 0x3706b1677a
    ^^^ selN (t.testBit 4) 0x644d626ffd

theorem sel_toNat (b : Bool) (g : W) : (sel b g).toNat = selN b g.toNat := by
  cases b <;> simp [sel, selN]

theorem L_toNat (c : W) : (L c).toNat = LN c.toNat := by
  have hs : (shiftPart c).toNat = (c.toNat &&& 0x7ffffffff) <<< 5 := by
    unfold shiftPart
    rw [mask_eq, BitVec.toNat_shiftLeft, BitVec.toNat_and]
    have h1 : (0x7ffffffff#40).toNat = 0x7ffffffff := by decide
    rw [h1]
    apply Nat.mod_eq_of_lt
    have : c.toNat &&& 0x7ffffffff ≤ 0x7ffffffff := Nat.and_le_right
    rw [Nat.shiftLeft_eq]; omega
  have hb : ∀ i, (c >>> 35).getLsbD i = (c.toNat >>> 35).testBit i := by
    intro i; rw [BitVec.getLsbD, BitVec.toNat_ushiftRight]
  have g0 : GEN0.toNat = 0xf5dee51989 := by decide
  have g1 : GEN1.toNat = 0xa9fdca3312 := by decide
  have g2 : GEN2.toNat = 0x1bab10e32d := by decide
  have g3 : GEN3.toNat = 0x3706b1677a := by decide
  have g4 : GEN4.toNat = 0x644d626ffd := by decide
  unfold L G LN
  simp only [BitVec.toNat_xor, hs, sel_toNat, hb, g0, g1, g2, g3, g4, Nat.xor_assoc]

def LNpow : Nat → Nat → Nat
  | 0, x => x
  | n + 1, x => LN (LNpow n x)

theorem Lpow_toNat (n : Nat) (x : W) : (Lpow n x).toNat = LNpow n x.toNat := by
  induction n with
  | zero => rfl
  | succ k ih => show (L _).toNat = LN _; rw [L_toNat, ih]

end MsVerif.Checksum

/-
The decoder normal form keeps the TYPE of every well-typed miniscript:
`typeOf ms = some t → typeOf (norm ms) = some t`.

Type-level facts: `and_v` is associative, `c:`/`v:`/`n:` commute with the right operand of an
`and_v`, `and_b(and_v(x,y),w)` has the type of `and_v(x,and_b(y,w))` (both for the correctness
and the malleability part); positions that need a dissatisfiable first argument never see a
floated operand (`noPrefix`, Lemmas/NormSem.lean).
-/
import MsVerif.Lemmas.NormSem

namespace MsVerif
namespace NormL

/-! ### the rule algebra -/

theorem andInput_assoc : ∀ a b c : Input,
    Corr.andInput (Corr.andInput a b) c = Corr.andInput a (Corr.andInput b c) := by
  intro a b c; cases a <;> cases b <;> cases c <;> rfl

theorem mall_andV_assoc (x y z : Mall) :
    Mall.andV (Mall.andV x y) z = Mall.andV x (Mall.andV y z) := by
  obtain ⟨xd, xs, xn⟩ := x; obtain ⟨yd, ys, yn⟩ := y; obtain ⟨zd, zs, zn⟩ := z
  cases xs <;> cases ys <;> cases zd <;> simp [Mall.andV, Bool.and_assoc]

theorem ty_andV_assoc (x y z : Ty) :
    (Ty.andV x y).bind (fun xy => Ty.andV xy z) = (Ty.andV y z).bind (fun yz => Ty.andV x yz) := by
  obtain ⟨⟨xb, xi, xd, xu⟩, xm⟩ := x
  obtain ⟨⟨yb, yi, yd, yu⟩, ym⟩ := y
  obtain ⟨⟨zb, zi, zd, zu⟩, zm⟩ := z
  cases xb <;> cases yb <;> cases zb <;>
    simp [Ty.andV, Ty.lift2, Corr.andV, andInput_assoc, mall_andV_assoc]

theorem ty_check_andV (x y : Ty) :
    (Ty.andV x y).bind Ty.castCheck = (Ty.castCheck y).bind (fun cy => Ty.andV x cy) := by
  obtain ⟨⟨xb, xi, xd, xu⟩, ⟨xmd, xms, xmn⟩⟩ := x
  obtain ⟨⟨yb, yi, yd, yu⟩, ⟨ymd, yms, ymn⟩⟩ := y
  cases xb <;> cases yb <;>
    simp [Ty.andV, Ty.castCheck, Ty.lift1, Ty.lift2, Corr.andV, Corr.castCheck, Mall.andV, Mall.castCheck]

theorem ty_verify_andV (x y : Ty) :
    (Ty.andV x y).bind Ty.castVerify = (Ty.castVerify y).bind (fun cy => Ty.andV x cy) := by
  obtain ⟨⟨xb, xi, xd, xu⟩, ⟨xmd, xms, xmn⟩⟩ := x
  obtain ⟨⟨yb, yi, yd, yu⟩, ⟨ymd, yms, ymn⟩⟩ := y
  cases xb <;> cases yb <;> cases xms <;> cases ymd <;>
    simp [Ty.andV, Ty.castVerify, Ty.lift1, Ty.lift2, Corr.andV, Corr.castVerify, Mall.andV, Mall.castVerify]

theorem ty_zne_andV (x y : Ty) :
    (Ty.andV x y).bind Ty.castZeroNotEqual = (Ty.castZeroNotEqual y).bind (fun cy => Ty.andV x cy) := by
  obtain ⟨⟨xb, xi, xd, xu⟩, ⟨xmd, xms, xmn⟩⟩ := x
  obtain ⟨⟨yb, yi, yd, yu⟩, ⟨ymd, yms, ymn⟩⟩ := y
  cases xb <;> cases yb <;>
    simp [Ty.andV, Ty.castZeroNotEqual, Ty.lift1, Ty.lift2, Corr.andV, Corr.castZeroNotEqual, Mall.andV,
      Mall.castZeroNotEqual]

theorem mall_andB_andV (x y w : Mall) :
    Mall.andB (Mall.andV x y) w = Mall.andV x (Mall.andB y w) := by
  obtain ⟨xd, xs, xn⟩ := x; obtain ⟨yd, ys, yn⟩ := y; obtain ⟨wd, ws, wn⟩ := w
  cases xs <;> cases yd <;> cases ys <;> cases wd <;> cases ws <;>
    simp [Mall.andB, Mall.andV, Bool.and_assoc]

theorem ty_andB_andV (x y w : Ty) :
    (Ty.andV x y).bind (fun xy => Ty.andB xy w) = (Ty.andB y w).bind (fun yw => Ty.andV x yw) := by
  obtain ⟨⟨xb, xi, xd, xu⟩, xm⟩ := x
  obtain ⟨⟨yb, yi, yd, yu⟩, ym⟩ := y
  obtain ⟨⟨wb, wi, wd, wu⟩, wm⟩ := w
  cases xb <;> cases yb <;> cases wb <;>
    simp [Ty.andV, Ty.andB, Ty.lift2, Corr.andV, Corr.andB, andInput_assoc, mall_andB_andV]

/-! ### the same facts on terms -/

theorem typeOf_andV (l r : Ms) :
    typeOf (.andV l r) = (typeOf l).bind (fun a => (typeOf r).bind (fun b => Ty.andV a b)) := by
  simp only [typeOf]; cases typeOf l <;> cases typeOf r <;> rfl

theorem typeOf_andB (l r : Ms) :
    typeOf (.andB l r) = (typeOf l).bind (fun a => (typeOf r).bind (fun b => Ty.andB a b)) := by
  simp only [typeOf]; cases typeOf l <;> cases typeOf r <;> rfl

theorem typeOf_check (x : Ms) : typeOf (.check x) = (typeOf x).bind Ty.castCheck := by simp only [typeOf]
theorem typeOf_verify (x : Ms) : typeOf (.verify x) = (typeOf x).bind Ty.castVerify := by simp only [typeOf]
theorem typeOf_zne (x : Ms) : typeOf (.zeroNotEqual x) = (typeOf x).bind Ty.castZeroNotEqual := by
  simp only [typeOf]

/-- `and_v` is associative as far as types go -/
theorem tyAssoc (a b c : Ms) : typeOf (.andV (.andV a b) c) = typeOf (.andV a (.andV b c)) := by
  simp only [typeOf_andV]
  cases typeOf a with
  | none => rfl
  | some x =>
    cases typeOf b with
    | none => rfl
    | some y =>
      cases typeOf c with
      | none => simp
      | some z => simpa using ty_andV_assoc x y z

theorem tyCheck (a b : Ms) : typeOf (.check (.andV a b)) = typeOf (.andV a (.check b)) := by
  rw [typeOf_check, typeOf_andV, typeOf_andV, typeOf_check]
  cases typeOf a with
  | none => rfl
  | some x =>
    cases typeOf b with
    | none => rfl
    | some y => simpa using ty_check_andV x y

theorem tyVerify (a b : Ms) : typeOf (.verify (.andV a b)) = typeOf (.andV a (.verify b)) := by
  rw [typeOf_verify, typeOf_andV, typeOf_andV, typeOf_verify]
  cases typeOf a with
  | none => rfl
  | some x =>
    cases typeOf b with
    | none => rfl
    | some y => simpa using ty_verify_andV x y

theorem tyZne (a b : Ms) : typeOf (.zeroNotEqual (.andV a b)) = typeOf (.andV a (.zeroNotEqual b)) := by
  rw [typeOf_zne, typeOf_andV, typeOf_andV, typeOf_zne]
  cases typeOf a with
  | none => rfl
  | some x =>
    cases typeOf b with
    | none => rfl
    | some y => simpa using ty_zne_andV x y

theorem tyAndB (a b w : Ms) : typeOf (.andB (.andV a b) w) = typeOf (.andV a (.andB b w)) := by
  simp only [typeOf_andB, typeOf_andV]
  cases typeOf a with
  | none => rfl
  | some x =>
    cases typeOf b with
    | none => rfl
    | some y =>
      cases typeOf w with
      | none => simp
      | some z => simpa using ty_andB_andV x y z

/-! congruence: the type of a node depends on the types of its children only -/

theorem congr_andV {a a' b b' : Ms} (h1 : typeOf a = typeOf a') (h2 : typeOf b = typeOf b') :
    typeOf (.andV a b) = typeOf (.andV a' b') := by simp only [typeOf, h1, h2]

theorem foldl_congr (Q : List Ms) : ∀ {s s' : Ms}, typeOf s = typeOf s' →
    typeOf (Q.foldl Ms.andV s) = typeOf (Q.foldl Ms.andV s') := by
  induction Q with
  | nil => intro s s' h; exact h
  | cons q Q ih => intro s s' h; exact ih (congr_andV h rfl)

/-- re-bracketing a chain: `((L ∧ b₀) ∧ q₁ … ∧ qₙ)` has the type of `L ∧ (b₀ ∧ q₁ … ∧ qₙ)` -/
theorem foldl_shift (Q : List Ms) : ∀ (L b0 : Ms),
    typeOf (Q.foldl Ms.andV (.andV L b0)) = typeOf (.andV L (Q.foldl Ms.andV b0)) := by
  induction Q with
  | nil => intro L b0; rfl
  | cons q Q ih =>
    intro L b0
    simp only [List.foldl_cons]
    rw [foldl_congr Q (tyAssoc L b0 q)]
    exact ih L (.andV b0 q)

theorem mkAndV_snoc (A : List Ms) (a z : Ms) : mkAndV (A ++ [a]) z = .andV (mkAndV A a) z := by
  cases A with
  | nil => simp [mkAndV]
  | cons a0 A => simp [mkAndV, List.foldl_append]

theorem mkAndV_cons (p0 : Ms) (ps : List Ms) (l : Ms) :
    mkAndV (p0 :: ps) l = .andV (ps.foldl Ms.andV p0) l := by
  simp [mkAndV, List.foldl_append]

theorem mkAndV_concat (A : List Ms) (a : Ms) (B : List Ms) (z : Ms) :
    mkAndV (A ++ [a] ++ B) z = (B ++ [z]).foldl Ms.andV (mkAndV A a) := by
  cases A with
  | nil => simp [mkAndV]
  | cons a0 A => simp [mkAndV, List.foldl_append]

/-- the chain over `A ++ [a] ++ B` with last `z` has the type of `and_v(chain A a, chain B z)` -/
theorem ty_concat (A : List Ms) (a : Ms) (B : List Ms) (z : Ms) :
    typeOf (mkAndV (A ++ [a] ++ B) z) = typeOf (.andV (mkAndV A a) (mkAndV B z)) := by
  cases B with
  | nil => simp only [List.append_nil, mkAndV_snoc]; rfl
  | cons b0 B =>
    rw [mkAndV_concat]
    simp only [List.cons_append, List.foldl_cons]
    rw [foldl_shift]
    simp [mkAndV]

theorem wrap_check (p : List Ms) (l : Ms) : typeOf (mkAndV p (.check l)) = typeOf (.check (mkAndV p l)) := by
  cases p with
  | nil => rfl
  | cons p0 ps => rw [mkAndV_cons, mkAndV_cons]; exact (tyCheck _ _).symm

theorem wrap_verify (p : List Ms) (l : Ms) : typeOf (mkAndV p (.verify l)) = typeOf (.verify (mkAndV p l)) := by
  cases p with
  | nil => rfl
  | cons p0 ps => rw [mkAndV_cons, mkAndV_cons]; exact (tyVerify _ _).symm

theorem wrap_zne (p : List Ms) (l : Ms) :
    typeOf (mkAndV p (.zeroNotEqual l)) = typeOf (.zeroNotEqual (mkAndV p l)) := by
  cases p with
  | nil => rfl
  | cons p0 ps => rw [mkAndV_cons, mkAndV_cons]; exact (tyZne _ _).symm

theorem wrap_andB (p : List Ms) (l w : Ms) :
    typeOf (mkAndV p (.andB l w)) = typeOf (.andB (mkAndV p l) w) := by
  cases p with
  | nil => rfl
  | cons p0 ps => rw [mkAndV_cons, mkAndV_cons]; exact (tyAndB _ _ _).symm

/-! ### the induction -/

mutual
theorem ty_normSeq : (ms : Ms) → (t : Ty) → typeOf ms = some t →
    typeOf (mkAndV (normSeq ms).1 (normSeq ms).2) = typeOf ms
  | .andV l r, t, ht => by
    simp only [typeOf] at ht
    obtain ⟨a, b, hl, hr, _⟩ := ty2_inv ht
    have h1 := ty_normSeq l a hl
    have h2 := ty_normSeq r b hr
    simp only [normSeq]
    rw [ty_concat]
    exact congr_andV h1 h2
  | .check x, t, ht => by
    simp only [typeOf] at ht
    obtain ⟨a, hx⟩ := bind1_inv ht
    have h1 := ty_normSeq x a hx
    simp only [normSeq]
    rw [wrap_check, typeOf_check, typeOf_check, h1]
  | .verify x, t, ht => by
    simp only [typeOf] at ht
    obtain ⟨a, hx⟩ := bind1_inv ht
    have h1 := ty_normSeq x a hx
    simp only [normSeq]
    rw [wrap_verify, typeOf_verify, typeOf_verify, h1]
  | .zeroNotEqual x, t, ht => by
    simp only [typeOf] at ht
    obtain ⟨a, hx⟩ := bind1_inv ht
    have h1 := ty_normSeq x a hx
    simp only [normSeq]
    rw [wrap_zne, typeOf_zne, typeOf_zne, h1]
  | .alt x, t, ht => by
    simp only [typeOf] at ht
    obtain ⟨a, hx⟩ := bind1_inv ht
    have h1 := ty_normSeq x a hx
    simp only [normSeq, mkAndV, typeOf]
    simp only [mkAndV] at h1 ⊢
    rw [h1]
  | .swap x, t, ht => by
    simp only [typeOf] at ht
    obtain ⟨a, hx⟩ := bind1_inv ht
    have h1 := ty_normSeq x a hx
    simp only [normSeq, typeOf]
    show (typeOf (mkAndV (normSeq x).1 (normSeq x).2)).bind Ty.castSwap = _
    rw [h1]
  | .dupIf x, t, ht => by
    simp only [typeOf] at ht
    obtain ⟨a, hx⟩ := bind1_inv ht
    have h1 := ty_normSeq x a hx
    simp only [normSeq, typeOf]
    show (typeOf (mkAndV (normSeq x).1 (normSeq x).2)).bind Ty.castDupIf = _
    rw [h1]
  | .nonZero x, t, ht => by
    simp only [typeOf] at ht
    obtain ⟨a, hx⟩ := bind1_inv ht
    have h1 := ty_normSeq x a hx
    simp only [normSeq, typeOf]
    show (typeOf (mkAndV (normSeq x).1 (normSeq x).2)).bind Ty.castNonZero = _
    rw [h1]
  | .andB l r, t, ht => by
    simp only [typeOf] at ht
    obtain ⟨a, b, hl, hr, _⟩ := ty2_inv ht
    have h1 := ty_normSeq l a hl
    have h2 := ty_normSeq r b hr
    simp only [normSeq]
    rw [wrap_andB, typeOf_andB, typeOf_andB, h1, h2]
  | .orI l r, t, ht => by
    simp only [typeOf] at ht
    obtain ⟨a, b, hl, hr, _⟩ := ty2_inv ht
    have h1 := ty_normSeq l a hl
    have h2 := ty_normSeq r b hr
    simp only [normSeq, typeOf]
    show (match typeOf (mkAndV (normSeq l).1 (normSeq l).2), typeOf (mkAndV (normSeq r).1 (normSeq r).2) with
      | some a, some b => Ty.orI a b | _, _ => none) = _
    rw [h1, h2, hl, hr]
  | .orB l r, t, ht => by
    simp only [typeOf] at ht
    obtain ⟨a, b, hl, hr, hab⟩ := ty2_inv ht
    have h1 := ty_normSeq l a hl
    have h2 := ty_normSeq r b hr
    have hp := noPrefix hl (orB_dissat hab)
    simp only [hp] at h1
    simp only [normSeq, hp, typeOf]
    show (match typeOf (mkAndV [] (normSeq l).2), typeOf (mkAndV (normSeq r).1 (normSeq r).2) with
      | some a, some b => Ty.orB a b | _, _ => none) = _
    rw [h1, h2, hl, hr]
  | .orD l r, t, ht => by
    simp only [typeOf] at ht
    obtain ⟨a, b, hl, hr, hab⟩ := ty2_inv ht
    have h1 := ty_normSeq l a hl
    have h2 := ty_normSeq r b hr
    have hp := noPrefix hl (orD_dissat hab)
    simp only [hp] at h1
    simp only [normSeq, hp, typeOf]
    show (match typeOf (mkAndV [] (normSeq l).2), typeOf (mkAndV (normSeq r).1 (normSeq r).2) with
      | some a, some b => Ty.orD a b | _, _ => none) = _
    rw [h1, h2, hl, hr]
  | .orC l r, t, ht => by
    simp only [typeOf] at ht
    obtain ⟨a, b, hl, hr, hab⟩ := ty2_inv ht
    have h1 := ty_normSeq l a hl
    have h2 := ty_normSeq r b hr
    have hp := noPrefix hl (orC_dissat hab)
    simp only [hp] at h1
    simp only [normSeq, hp, typeOf]
    show (match typeOf (mkAndV [] (normSeq l).2), typeOf (mkAndV (normSeq r).1 (normSeq r).2) with
      | some a, some b => Ty.orC a b | _, _ => none) = _
    rw [h1, h2, hl, hr]
  | .andOr x y z, t, ht => by
    simp only [typeOf] at ht
    cases hx : typeOf x with
    | none => simp [hx] at ht
    | some a =>
      cases hy : typeOf y with
      | none => simp [hx, hy] at ht
      | some b =>
        cases hz : typeOf z with
        | none => simp [hx, hy, hz] at ht
        | some c =>
          simp only [hx, hy, hz] at ht
          have h1 := ty_normSeq x a hx
          have h2 := ty_normSeq y b hy
          have h3 := ty_normSeq z c hz
          have hp := noPrefix hx (andOr_dissat ht)
          simp only [hp] at h1
          simp only [normSeq, hp, typeOf]
          show (match typeOf (mkAndV [] (normSeq x).2), typeOf (mkAndV (normSeq y).1 (normSeq y).2),
              typeOf (mkAndV (normSeq z).1 (normSeq z).2) with
            | some x, some y, some z => Ty.andOr x y z | _, _, _ => none) = _
          rw [h1, h2, h3, hx, hy, hz]
  | .thresh k .nil, _, _ => by simp [normSeq, mkAndV]
  | .thresh k (.cons x xs), t, ht => by
    simp only [typeOf, typesOf] at ht
    cases hx : typeOf x with
    | none => simp [hx] at ht
    | some a =>
      cases hxs : typesOf xs with
      | none => simp [hx, hxs] at ht
      | some ts =>
        simp only [hx, hxs, Option.bind_some] at ht
        have h1 := ty_normSeq x a hx
        have h2 := ty_normList xs ts hxs
        have hp := noPrefix hx (thresh_dissat ht)
        simp only [hp] at h1
        simp only [normSeq, hp, typeOf, typesOf]
        show (match typeOf (mkAndV [] (normSeq x).2), typesOf (normList xs) with
          | some t, some ts => some (t :: ts) | _, _ => none).bind (Ty.threshold k) = _
        rw [h1, h2, hx, hxs]
  | .tru, _, _ | .fls, _, _ | .pkK _, _, _ | .pkH _, _, _ | .rawPkH _, _, _ | .after _, _, _
  | .older _, _, _ | .hash _ _, _, _ | .multi _ _, _, _ | .sortedMulti _ _, _, _
  | .multiA _ _, _, _ | .sortedMultiA _ _, _, _ => by simp [normSeq, mkAndV]
theorem ty_normList : (xs : MsList) → (ts : List Ty) → typesOf xs = some ts →
    typesOf (normList xs) = some ts
  | .nil, ts, h => by simpa [normList] using h
  | .cons x xs, ts, h => by
    simp only [typesOf] at h
    cases hx : typeOf x with
    | none => simp [hx] at h
    | some a =>
      cases hxs : typesOf xs with
      | none => simp [hx, hxs] at h
      | some ts' =>
        simp only [hx, hxs] at h
        have h1 := ty_normSeq x a hx
        have h2 := ty_normList xs ts' hxs
        simp only [normList, typesOf, h1, h2, hx]
        exact h
end

/-- the decoder normal form of a well-typed miniscript has the same type -/
theorem typeOf_norm (ms : Ms) (t : Ty) (ht : typeOf ms = some t) : typeOf (norm ms) = some t := by
  have := ty_normSeq ms t ht
  simp only [norm]; rw [this, ht]

end NormL
end MsVerif

/-
C06 helper lemmas, part 3: the FRAME property of the fragment semantics (limits off).

`Framed f`: whenever `f` on a core `c` does not fail by running out of stack, `f` on the same
core with extra elements `s` BELOW the stack does exactly the same and leaves `s` untouched
(errors included).  Every primitive step is framed, hence `frag ms` for every `ms` — no typing
needed.  Core Lean only.
-/
import MsVerif.Lemmas.TypeSoundOps

namespace MsVerif.TypeSound
open MsVerif MsVerif.Script

/-- the core with `s` appended below its stack -/
def app (c : Core) (s : List Bytes) : Core := { c with stack := c.stack ++ s }

def lift (s : List Bytes) (r : Except Err Core) : Except Err Core := r.map (app · s)

def liftP (s : List Bytes) (r : Except Err (Bool × Core)) : Except Err (Bool × Core) :=
  r.map fun p => (p.1, app p.2 s)

/-- the two error kinds that mean "the stack was too short" -/
def NoUF {α} (r : Except Err α) : Prop :=
  r ≠ .error .stackUnderflow ∧ r ≠ .error .unbalancedConditional

def Framed (f : Core → Except Err Core) : Prop :=
  ∀ c s, NoUF (f c) → f (app c s) = lift s (f c)

def FramedP (f : Core → Except Err (Bool × Core)) : Prop :=
  ∀ c s, NoUF (f c) → f (app c s) = liftP s (f c)

@[simp] theorem lift_ok (s : List Bytes) (c : Core) : lift s (.ok c) = .ok (app c s) := rfl
@[simp] theorem lift_error (s : List Bytes) (e : Err) : lift s (.error e) = .error e := rfl
@[simp] theorem liftP_ok (s : List Bytes) (p : Bool × Core) : liftP s (.ok p) = .ok (p.1, app p.2 s) := rfl
@[simp] theorem liftP_error (s : List Bytes) (e : Err) : liftP s (.error e) = .error e := rfl
@[simp] theorem app_stack (c : Core) (s : List Bytes) : (app c s).stack = c.stack ++ s := rfl
@[simp] theorem app_alt (c : Core) (s : List Bytes) : (app c s).alt = c.alt := rfl
@[simp] theorem app_ops (c : Core) (s : List Bytes) : (app c s).ops = c.ops := rfl
@[simp] theorem app_nil (c : Core) : app c [] = c := by simp [app]

theorem NoUF_ok {α} (a : α) : NoUF (Except.ok a : Except Err α) := ⟨by simp, by simp⟩

theorem NoUF_error {α} {e : Err} (h1 : e ≠ .stackUnderflow) (h2 : e ≠ .unbalancedConditional) :
    NoUF (Except.error e : Except Err α) :=
  ⟨fun h => h1 (by cases h; rfl), fun h => h2 (by cases h; rfl)⟩

theorem NoUF_lift {s : List Bytes} {r : Except Err Core} (h : NoUF r) : NoUF (lift s r) := by
  cases r with
  | ok c => exact NoUF_ok _
  | error e => exact h

/-- `NoUF` of a sequence: the first part does not underflow, and if it succeeds neither does
the rest -/
theorem NoUF_bind {α β} {x : Except Err α} {f : α → Except Err β} (h : NoUF (x >>= f)) :
    NoUF x ∧ ∀ a, x = .ok a → NoUF (f a) := by
  cases x with
  | error e =>
    refine ⟨⟨fun he => h.1 (by cases he; rfl), fun he => h.2 (by cases he; rfl)⟩, ?_⟩
    intro a ha; cases ha
  | ok a =>
    refine ⟨NoUF_ok a, ?_⟩
    intro a' ha; cases ha; exact h

theorem framed_bind {f g : Core → Except Err Core} (hf : Framed f) (hg : Framed g) :
    Framed (fun c => f c >>= g) := by
  intro c s hn
  obtain ⟨h1, h2⟩ := NoUF_bind hn
  show (f (app c s) >>= g) = lift s (f c >>= g)
  rw [hf c s h1]
  cases hfc : f c with
  | error e => rfl
  | ok c1 =>
    exact hg c1 s (h2 c1 hfc)

theorem framedP_bind {f : Core → Except Err (Bool × Core)} {g : Bool → Core → Except Err Core}
    (hf : FramedP f) (hg : ∀ v, Framed (g v)) :
    Framed (fun c => f c >>= fun p => g p.1 p.2) := by
  intro c s hn
  obtain ⟨h1, h2⟩ := NoUF_bind hn
  show (f (app c s) >>= fun p => g p.1 p.2) = lift s (f c >>= fun p => g p.1 p.2)
  rw [hf c s h1]
  cases hfc : f c with
  | error e => rfl
  | ok p =>
    exact hg p.1 p.2 s (h2 p hfc)

theorem framed_ite {p : Prop} [Decidable p] {f g : Core → Except Err Core} (hf : Framed f) (hg : Framed g) :
    Framed (fun c => if p then f c else g c) := by
  intro c s hn
  by_cases hp : p
  · simp only [hp, if_true] at hn ⊢; exact hf c s hn
  · simp only [hp, if_false] at hn ⊢; exact hg c s hn

theorem framed_congr {f g : Core → Except Err Core} (h : ∀ c, f c = g c) (hg : Framed g) : Framed f := by
  intro c s hn
  rw [h] at hn ⊢
  rw [h]
  exact hg c s hn

/-! ### primitives -/

theorem countOp_app (env : Env) (c : Core) (n : Nat) (s : List Bytes) :
    countOp env (app c s) n = lift s (countOp env c n) := by
  obtain ⟨st, al, ops⟩ := c
  show countOp env ⟨st ++ s, al, ops⟩ n = lift s (countOp env ⟨st, al, ops⟩ n)
  unfold countOp
  dsimp only
  split <;> rfl

theorem framed_countOp (env : Env) (n : Nat) : Framed (fun c => countOp env c n) :=
  fun c s _ => countOp_app env c n s

theorem pushElem_nolim {env : Env} (hlim : env.flags.stackLimits = false) (c : Core) (b : Bytes) :
    pushElem env c b = .ok { c with stack := b :: c.stack } := by
  unfold pushElem
  simp [hlim]

theorem pushElem_app {env : Env} (hlim : env.flags.stackLimits = false) (c : Core) (b : Bytes) (s : List Bytes) :
    pushElem env (app c s) b = lift s (pushElem env c b) := by
  rw [pushElem_nolim hlim, pushElem_nolim hlim]
  rfl

theorem psh_app {env : Env} (hlim : env.flags.stackLimits = false) (c : Core) (b : Bytes) (s : List Bytes) :
    psh env b (app c s) = lift s (psh env b c) := by
  unfold psh
  simp only [hlim, Bool.false_and]
  exact pushElem_app hlim c b s

theorem skipCount_app (env : Env) (sc : List Op) (c : Core) (s : List Bytes) :
    skipCount env sc (app c s) = lift s (skipCount env sc c) := by
  unfold skipCount
  split
  · rfl
  · exact countOp_app env c _ s

theorem framed_skipCount (env : Env) (sc : List Op) : Framed (skipCount env sc) :=
  fun c s _ => skipCount_app env sc c s

theorem framedP_condPop (env : Env) (nf : Bool) : FramedP (condPop env nf) := by
  intro c s hn
  obtain ⟨st, al, ops⟩ := c
  cases st with
  | nil => exact absurd rfl hn.2
  | cons a r =>
    simp only [condPop, app, List.cons_append]
    split <;> rfl

theorem framedP_cnd (env : Env) (nf : Bool) : FramedP (cnd env nf) := by
  intro c s hn
  unfold cnd at hn ⊢
  rw [countOp_app]
  cases hc : countOp env c 1 with
  | error e => rfl
  | ok c1 =>
    simp only [hc] at hn
    simpa using framedP_condPop env nf c1 s hn

/-! ### opcodes -/

set_option linter.unusedSimpArgs false in
theorem framed_execOpc_simple {env : Env} (hlim : env.flags.stackLimits = false) (o : Opc)
    (ho : o ≠ .checkmultisig ∧ o ≠ .checkmultisigverify) : Framed (execOpc env o) := by
  intro c s hn
  obtain ⟨st, al, ops⟩ := c
  rcases st with _ | ⟨a, _ | ⟨b, _ | ⟨d, r⟩⟩⟩ <;> cases o <;>
    first
    | exact absurd rfl ho.1
    | exact absurd rfl ho.2
    | exact absurd rfl hn.1
    | exact absurd rfl hn.2
    | rfl
    | skip
  all_goals (try (simp [app, execOpc, pushElem_nolim hlim, lift, Except.map, bind, Except.bind]; done))
  all_goals (try (
    simp only [app, List.cons_append, List.nil_append, execOpc, pushElem_nolim hlim]
    first
    | (cases num4 env a <;> (try cases num4 env b) <;> (try cases checkSig env d a) <;> (try cases checkSig env b a) <;>
        simp [lift, app, Except.map, bind, Except.bind, pushElem_nolim hlim] <;> (try split) <;> simp; done)
    | (cases checkSig env b a <;> simp [lift, app, Except.map, bind, Except.bind, pushElem_nolim hlim] <;> (try split) <;> simp; done)
    | (repeat' split) <;> simp [lift, app, Except.map, bind, Except.bind]; done))

set_option linter.unusedSimpArgs false in
theorem framed_multisig {env : Env} (hlim : env.flags.stackLimits = false) (v : Bool) :
    Framed (fun c => multisig env c v) := by
  intro c s hn
  obtain ⟨st, al, ops⟩ := c
  show multisig env ⟨st ++ s, al, ops⟩ v = lift s (multisig env ⟨st, al, ops⟩ v)
  change NoUF (multisig env ⟨st, al, ops⟩ v) at hn
  unfold multisig at hn ⊢
  dsimp only at hn ⊢
  by_cases ht : env.flags.tapscript = true
  · simp only [ht, if_true]; rfl
  · simp only [ht] at hn ⊢
    cases st with
    | nil => exact absurd rfl hn.1
    | cons nB r =>
      simp only [List.cons_append] at hn ⊢
      cases hnd : numDecode env.flags.minimalNum 4 nB with
      | none => simp only [hnd]; rfl
      | some nI =>
        simp only [hnd] at hn ⊢
        by_cases hrange : nI < 0 ∨ nI > 20
        · simp only [hrange, if_true]; rfl
        · simp only [hrange, if_false] at hn ⊢
          have hc' : countOp env ⟨nB :: (r ++ s), al, ops⟩ nI.toNat
              = lift s (countOp env ⟨nB :: r, al, ops⟩ nI.toNat) :=
            countOp_app env ⟨nB :: r, al, ops⟩ _ s
          rw [hc']
          cases hc : countOp env ⟨nB :: r, al, ops⟩ nI.toNat with
          | error e => rfl
          | ok c1 =>
            simp only [hc, lift_ok, app_alt, app_ops] at hn ⊢
            by_cases hl : r.length < nI.toNat + 1
            · simp only [hl, if_true] at hn; exact absurd rfl hn.1
            · have hl' : ¬ (r ++ s).length < nI.toNat + 1 := by
                rw [List.length_append]; omega
              have hle : nI.toNat ≤ r.length := by omega
              simp only [hl, hl', if_false, List.take_append_of_le_length hle,
                List.drop_append_of_le_length hle] at hn ⊢
              cases hd : List.drop nI.toNat r with
              | nil =>
                have := congrArg List.length hd
                simp only [List.length_drop, List.length_nil] at this
                omega
              | cons mB r1 =>
                simp only [hd, List.cons_append] at hn ⊢
                cases hmd : numDecode env.flags.minimalNum 4 mB with
                | none => rfl
                | some mI =>
                  simp only [hmd] at hn ⊢
                  by_cases hmr : mI < 0 ∨ mI > nI
                  · simp only [hmr, if_true]; rfl
                  · simp only [hmr, if_false] at hn ⊢
                    by_cases hl2 : r1.length < mI.toNat + 1
                    · simp only [hl2, if_true] at hn; exact absurd rfl hn.1
                    · have hl2' : ¬ (r1 ++ s).length < mI.toNat + 1 := by
                        rw [List.length_append]; omega
                      have hle2 : mI.toNat ≤ r1.length := by omega
                      simp only [hl2, hl2', if_false, List.take_append_of_le_length hle2,
                        List.drop_append_of_le_length hle2] at hn ⊢
                      cases hd2 : List.drop mI.toNat r1 with
                      | nil =>
                        have := congrArg List.length hd2
                        simp only [List.length_drop, List.length_nil] at this
                        omega
                      | cons dummy r2 =>
                        simp only [hd2, List.cons_append] at hn ⊢
                        cases multisigLoop env (List.take mI.toNat r1) (List.take nI.toNat r) with
                        | error e => rfl
                        | ok ok =>
                          dsimp only
                          repeat' split
                          all_goals first | rfl | (simp only [pushElem_nolim hlim]; rfl)

theorem execOpc_cms (env : Env) (c : Core) : execOpc env .checkmultisig c = multisig env c false := by
  obtain ⟨st, al, ops⟩ := c
  cases st <;> rfl

theorem execOpc_cmsv (env : Env) (c : Core) : execOpc env .checkmultisigverify c = multisig env c true := by
  obtain ⟨st, al, ops⟩ := c
  cases st <;> rfl

theorem framed_execOpc {env : Env} (hlim : env.flags.stackLimits = false) (o : Opc) : Framed (execOpc env o) := by
  by_cases h1 : o = .checkmultisig
  · subst h1
    exact framed_congr (execOpc_cms env) (framed_multisig hlim false)
  · by_cases h2 : o = .checkmultisigverify
    · subst h2
      exact framed_congr (execOpc_cmsv env) (framed_multisig hlim true)
    · exact framed_execOpc_simple hlim o ⟨h1, h2⟩

theorem framed_opc {env : Env} (hlim : env.flags.stackLimits = false) (o : Opc) : Framed (opc env o) := by
  refine framed_congr (g := fun c => countOp env c 1 >>= execOpc env o) ?_
    (framed_bind (framed_countOp env 1) (framed_execOpc hlim o))
  intro c
  unfold opc
  cases countOp env c 1 <;> rfl

theorem framed_pshOp {env : Env} (hlim : env.flags.stackLimits = false) (op : Op) : Framed (pshOp env op) := by
  cases op with
  | small n => exact fun c s _ => pushElem_app hlim c _ s
  | push bs => exact fun c s _ => psh_app hlim c bs s
  | code o => exact framed_opc hlim o
  | bad b => exact fun c s _ => rfl

theorem framed_seqOps {env : Env} (hlim : env.flags.stackLimits = false) :
    (ops : List Op) → Framed (seqOps env ops)
  | [] => fun c s _ => rfl
  | op :: ops => by
    refine framed_congr (g := fun c => pshOp env op c >>= seqOps env ops) ?_
      (framed_bind (framed_pshOp hlim op) (framed_seqOps hlim ops))
    intro c
    simp only [seqOps, List.foldlM_cons]
    rfl

/-! ### conditionals -/

/-- `IF/NOTIF X ENDIF` with the branch `f` -/
def ifThen (env : Env) (nf : Bool) (X : List Op) (f : Core → Except Err Core) (c : Core) : Except Err Core := do
  let (v, c) ← cnd env nf c
  let c ← if v then f c else skipCount env X c
  countOp env c 1

/-- `IF/NOTIF X ELSE Y ENDIF` with the branches `f` (taken when the flag is true) and `g` -/
def ifElse (env : Env) (nf : Bool) (X Y : List Op) (f g : Core → Except Err Core) (c : Core) :
    Except Err Core := do
  let (v, c) ← cnd env nf c
  let c ← if v then f c else skipCount env X c
  let c ← countOp env c 1
  let c ← if v then skipCount env Y c else g c
  countOp env c 1

theorem ifThen_eq (env : Env) (nf : Bool) (X : List Op) (f : Core → Except Err Core) (c : Core) :
    ifThen env nf X f c = (cnd env nf c >>= fun p =>
      (if p.1 then f p.2 else skipCount env X p.2) >>= fun c => countOp env c 1) := by
  unfold ifThen
  cases cnd env nf c with
  | error e => rfl
  | ok p => obtain ⟨v, c2⟩ := p; cases v <;> rfl

theorem ifElse_eq (env : Env) (nf : Bool) (X Y : List Op) (f g : Core → Except Err Core) (c : Core) :
    ifElse env nf X Y f g c = (cnd env nf c >>= fun p =>
      (if p.1 then f p.2 else skipCount env X p.2) >>= fun c =>
        countOp env c 1 >>= fun c => (if p.1 then skipCount env Y c else g c) >>= fun c => countOp env c 1) := by
  unfold ifElse
  cases cnd env nf c with
  | error e => rfl
  | ok p => obtain ⟨v, c2⟩ := p; cases v <;> rfl

theorem framed_ifThen {env : Env} (nf : Bool) (X : List Op) {f : Core → Except Err Core} (hf : Framed f) :
    Framed (ifThen env nf X f) := by
  refine framed_congr (ifThen_eq env nf X f)
    (framedP_bind (g := fun (v : Bool) (c : Core) => (if v then f c else skipCount env X c) >>= fun c => countOp env c 1)
      (framedP_cnd env nf) ?_)
  intro v
  cases v
  · exact framed_bind (framed_skipCount env X) (framed_countOp env 1)
  · exact framed_bind hf (framed_countOp env 1)

theorem framed_ifElse {env : Env} (nf : Bool) (X Y : List Op) {f g : Core → Except Err Core}
    (hf : Framed f) (hg : Framed g) : Framed (ifElse env nf X Y f g) := by
  refine framed_congr (ifElse_eq env nf X Y f g)
    (framedP_bind (g := fun (v : Bool) (c : Core) => (if v then f c else skipCount env X c) >>= fun c =>
        countOp env c 1 >>= fun c => (if v then skipCount env Y c else g c) >>= fun c => countOp env c 1)
      (framedP_cnd env nf) ?_)
  intro v
  cases v
  · exact framed_bind (framed_skipCount env X)
      (framed_bind (framed_countOp env 1) (framed_bind hg (framed_countOp env 1)))
  · exact framed_bind hf
      (framed_bind (framed_countOp env 1) (framed_bind (framed_skipCount env Y) (framed_countOp env 1)))

/-- the tail of `v:X`: a fused `*VERIFY` or a separate `OP_VERIFY` -/
def verifyTail (env : Env) (fused : Bool) (c : Core) : Except Err Core :=
  if fused then
    match c.stack with
    | a :: r => if castToBool a then .ok { c with stack := r } else .error .verifyFailed
    | [] => .error .stackUnderflow
  else opc env .verify c

theorem framed_verifyTail {env : Env} (hlim : env.flags.stackLimits = false) (fused : Bool) :
    Framed (verifyTail env fused) := by
  cases fused
  · exact framed_opc hlim .verify
  · intro c s hn
    obtain ⟨st, al, ops⟩ := c
    cases st with
    | nil => exact absurd rfl hn.1
    | cons a r =>
      simp only [verifyTail, app, List.cons_append, if_true]
      split <;> rfl

/-! ### fragments: one-step unfoldings in combinator form -/

section unfold
variable (env : Env) (ke : KeyEnv) (ctx : Ctx)

theorem frag_alt (x : Ms) (c : Core) : frag env ke ctx (.alt x) c =
    (opc env .toalt c >>= fun c => frag env ke ctx x c >>= opc env .fromalt) := by rw [frag] <;> rfl
theorem frag_swap (x : Ms) (c : Core) : frag env ke ctx (.swap x) c =
    (opc env .swap c >>= frag env ke ctx x) := by rw [frag] <;> rfl
theorem frag_check (x : Ms) (c : Core) : frag env ke ctx (.check x) c =
    (frag env ke ctx x c >>= opc env .checksig) := by rw [frag] <;> rfl
theorem frag_dupIf (x : Ms) (c : Core) : frag env ke ctx (.dupIf x) c =
    (opc env .dup c >>= ifThen env false (encode ke ctx x) (frag env ke ctx x)) := by rw [frag] <;> rfl
theorem frag_verify (x : Ms) (c : Core) : frag env ke ctx (.verify x) c =
    (frag env ke ctx x c >>= verifyTail env (endsFusable (encode ke ctx x))) := by
  rw [frag]
  cases frag env ke ctx x c with
  | error e => rfl
  | ok c1 =>
    show (if endsFusable (encode ke ctx x) = true then _ else _) = verifyTail env _ c1
    unfold verifyTail
    rfl
theorem frag_nonZero (x : Ms) (c : Core) : frag env ke ctx (.nonZero x) c =
    (opc env .size c >>= fun c => opc env .zeronotequal c >>=
      ifThen env false (encode ke ctx x) (frag env ke ctx x)) := by rw [frag] <;> rfl
theorem frag_zeroNotEqual (x : Ms) (c : Core) : frag env ke ctx (.zeroNotEqual x) c =
    (frag env ke ctx x c >>= opc env .zeronotequal) := by rw [frag] <;> rfl
theorem frag_andV (l r : Ms) (c : Core) : frag env ke ctx (.andV l r) c =
    (frag env ke ctx l c >>= frag env ke ctx r) := by rw [frag] <;> rfl
theorem frag_andB (l r : Ms) (c : Core) : frag env ke ctx (.andB l r) c =
    (frag env ke ctx l c >>= fun c => frag env ke ctx r c >>= opc env .booland) := by rw [frag] <;> rfl
theorem frag_orB (l r : Ms) (c : Core) : frag env ke ctx (.orB l r) c =
    (frag env ke ctx l c >>= fun c => frag env ke ctx r c >>= opc env .boolor) := by rw [frag] <;> rfl
theorem frag_andOr (a b z : Ms) (c : Core) : frag env ke ctx (.andOr a b z) c =
    (frag env ke ctx a c >>= ifElse env true (encode ke ctx z) (encode ke ctx b)
      (frag env ke ctx z) (frag env ke ctx b)) := by rw [frag] <;> rfl
theorem frag_orD (l r : Ms) (c : Core) : frag env ke ctx (.orD l r) c =
    (frag env ke ctx l c >>= fun c => opc env .ifdup c >>=
      ifThen env true (encode ke ctx r) (frag env ke ctx r)) := by rw [frag] <;> rfl
theorem frag_orC (l r : Ms) (c : Core) : frag env ke ctx (.orC l r) c =
    (frag env ke ctx l c >>= ifThen env true (encode ke ctx r) (frag env ke ctx r)) := by rw [frag] <;> rfl
theorem frag_orI (l r : Ms) (c : Core) : frag env ke ctx (.orI l r) c =
    ifElse env false (encode ke ctx l) (encode ke ctx r) (frag env ke ctx l) (frag env ke ctx r) c := by
  rw [frag]; rfl
theorem frag_thresh (k : Nat) (xs : MsList) (c : Core) : frag env ke ctx (.thresh k xs) c =
    (fragThresh env ke ctx true xs c >>= seqOps env [pushInt k, .code .equal]) := by rw [frag] <;> rfl
theorem fragThresh_cons (first : Bool) (x : Ms) (xs : MsList) (c : Core) :
    fragThresh env ke ctx first (.cons x xs) c =
    (frag env ke ctx x c >>= fun c => (if first then .ok c else opc env .add c) >>=
      fragThresh env ke ctx false xs) := by
  rw [fragThresh]
  cases first <;> cases frag env ke ctx x c <;> rfl

end unfold

/-! ### every fragment is framed -/

mutual
theorem framed_frag {env : Env} (hlim : env.flags.stackLimits = false) (ke : KeyEnv) (ctx : Ctx) :
    (ms : Ms) → Framed (frag env ke ctx ms)
  | .pkK k => framed_congr (fun c => by rw [frag]) (fun c s _ => psh_app hlim c (ke.ser k) s)
  | .pkH k => framed_congr (fun c => by rw [frag]) (framed_seqOps hlim _)
  | .rawPkH h => framed_congr (fun c => by rw [frag]) (framed_seqOps hlim _)
  | .after n => framed_congr (fun c => by rw [frag]) (framed_seqOps hlim _)
  | .older n => framed_congr (fun c => by rw [frag]) (framed_seqOps hlim _)
  | .hash kind h => framed_congr (fun c => by rw [frag]) (framed_seqOps hlim _)
  | .tru => framed_congr (fun c => by rw [frag]) (framed_pshOp hlim _)
  | .fls => framed_congr (fun c => by rw [frag]) (framed_pshOp hlim _)
  | .multi k ks => framed_congr (fun c => by rw [frag]) (framed_seqOps hlim _)
  | .sortedMulti k ks => framed_congr (fun c => by rw [frag]) (framed_seqOps hlim _)
  | .multiA k ks => framed_congr (fun c => by rw [frag]) (framed_seqOps hlim _)
  | .sortedMultiA k ks => framed_congr (fun c => by rw [frag]) (framed_seqOps hlim _)
  | .alt x => framed_congr (frag_alt env ke ctx x)
      (framed_bind (framed_opc hlim _) (framed_bind (framed_frag hlim ke ctx x) (framed_opc hlim _)))
  | .swap x => framed_congr (frag_swap env ke ctx x)
      (framed_bind (framed_opc hlim _) (framed_frag hlim ke ctx x))
  | .check x => framed_congr (frag_check env ke ctx x)
      (framed_bind (framed_frag hlim ke ctx x) (framed_opc hlim _))
  | .dupIf x => framed_congr (frag_dupIf env ke ctx x)
      (framed_bind (framed_opc hlim _) (framed_ifThen _ _ (framed_frag hlim ke ctx x)))
  | .verify x => framed_congr (frag_verify env ke ctx x)
      (framed_bind (framed_frag hlim ke ctx x) (framed_verifyTail hlim _))
  | .nonZero x => framed_congr (frag_nonZero env ke ctx x)
      (framed_bind (framed_opc hlim _) (framed_bind (framed_opc hlim _)
        (framed_ifThen _ _ (framed_frag hlim ke ctx x))))
  | .zeroNotEqual x => framed_congr (frag_zeroNotEqual env ke ctx x)
      (framed_bind (framed_frag hlim ke ctx x) (framed_opc hlim _))
  | .andV l r => framed_congr (frag_andV env ke ctx l r)
      (framed_bind (framed_frag hlim ke ctx l) (framed_frag hlim ke ctx r))
  | .andB l r => framed_congr (frag_andB env ke ctx l r)
      (framed_bind (framed_frag hlim ke ctx l) (framed_bind (framed_frag hlim ke ctx r) (framed_opc hlim _)))
  | .orB l r => framed_congr (frag_orB env ke ctx l r)
      (framed_bind (framed_frag hlim ke ctx l) (framed_bind (framed_frag hlim ke ctx r) (framed_opc hlim _)))
  | .andOr a b z => framed_congr (frag_andOr env ke ctx a b z)
      (framed_bind (framed_frag hlim ke ctx a)
        (framed_ifElse _ _ _ (framed_frag hlim ke ctx z) (framed_frag hlim ke ctx b)))
  | .orD l r => framed_congr (frag_orD env ke ctx l r)
      (framed_bind (framed_frag hlim ke ctx l) (framed_bind (framed_opc hlim _)
        (framed_ifThen _ _ (framed_frag hlim ke ctx r))))
  | .orC l r => framed_congr (frag_orC env ke ctx l r)
      (framed_bind (framed_frag hlim ke ctx l) (framed_ifThen _ _ (framed_frag hlim ke ctx r)))
  | .orI l r => framed_congr (frag_orI env ke ctx l r)
      (framed_ifElse _ _ _ (framed_frag hlim ke ctx l) (framed_frag hlim ke ctx r))
  | .thresh k xs => framed_congr (frag_thresh env ke ctx k xs)
      (framed_bind (framed_fragThresh hlim ke ctx true xs) (framed_seqOps hlim _))
theorem framed_fragThresh {env : Env} (hlim : env.flags.stackLimits = false) (ke : KeyEnv) (ctx : Ctx)
    (first : Bool) : (xs : MsList) → Framed (fragThresh env ke ctx first xs)
  | .nil => fun c s _ => by rw [fragThresh, fragThresh]; rfl
  | .cons x xs => framed_congr (fragThresh_cons env ke ctx first x xs)
      (framed_bind (framed_frag hlim ke ctx x)
        (framed_bind (by
            cases first
            · exact framed_opc hlim .add
            · exact fun c s _ => rfl)
          (framed_fragThresh hlim ke ctx false xs)))
end

end MsVerif.TypeSound

/-
Helper lemmas for C15: `TrSpendInfoIter` run over the node vector `encWith (root t) t` yields,
for every leaf in pre-order, exactly the specification's sibling path.  First the bit stack is
replaced by a list (simulation, `iterCollect_sim`), then induction on the tree.
-/
import MsVerif.Lemmas.TapTreeBits
import MsVerif.Lemmas.TapTreeNodes

set_option linter.unusedSimpArgs false

namespace MsVerif.Tap
open MsVerif.Spec MsVerif.Spec.Tree

variable {α ν : Type}

/-- the iterator with `done_left_stack : List Bool` and `index > 0` as a flag -/
def iterL : List (SNode α ν) → Bool → List ν → List Bool → Option (List (Item α ν))
  | [], _, _, _ => some []
  | nd :: rest, nonRoot, ms, dl =>
    let ms := if nonRoot then nd.siblingHash :: ms else ms
    match nd.leafData with
    | some lf =>
      if ms.length > MAXN then none else
      (iterL rest true (unwindMs dl ms.tail) (unwindL dl)).map (fun items => ⟨lf, ms⟩ :: items)
    | none =>
      if dl.length < 128 then iterL rest true ms (false :: dl) else none

theorem iterCollect_sim : ∀ (rest : List (SNode α ν)) (index : Nat) (ms : List ν)
    (dl : BitStack128) (l : List Bool), RS dl l →
    iterCollect rest index ms dl = iterL rest (decide (index > 0)) ms l := by
  intro rest
  induction rest with
  | nil => intro index ms dl l _; rfl
  | cons nd rest ih =>
    intro index ms dl l h
    have hidx : decide (index + 1 > 0) = true := by simp
    rw [iterCollect, iterL]
    cases hld : nd.leafData with
    | some lf =>
      simp only [vecOrder, List.reverse_reverse, decide_eq_true_eq]
      generalize (if index > 0 then nd.siblingHash :: ms else ms) = msv
      obtain ⟨dl', hu, h'⟩ := iterUnwind_sim l (dl.height + 1) msv.tail dl h
        (by have := h.1; omega)
      rw [hu]
      simp only [ih _ _ _ _ h', hidx]
    | none =>
      simp only [decide_eq_true_eq]
      by_cases c : l.length < 128
      · obtain ⟨dl', hp, h'⟩ := h.push_some c false
        simp only [hp, c, if_true]
        rw [ih _ _ _ _ h', hidx]
      · simp [h.push_none c false, c]

/-- the items of a subtree whose root-to-top path is `path` -/
def itemsOf (H : HashAlg α ν) (t : Tree α) (path : List ν) : List (Item α ν) :=
  (siblingPaths H t).map (fun p => ⟨p.1, p.2 ++ path⟩)

theorem itemsOf_node (H : HashAlg α ν) (l r : Tree α) (path : List ν) :
    itemsOf H (.node l r) path =
      itemsOf H l (root H r :: path) ++ itemsOf H r (root H l :: path) := by
  simp [itemsOf, siblingPaths, List.map_append, List.map_map, Function.comp_def,
    List.append_assoc]

/-- MAIN INVARIANT of the iterator: a non-root subtree block is consumed, its leaves come out
with their sibling paths extended by the path above, and one subtree is completed in the
stacks. -/
theorem iterL_subtree (H : HashAlg α ν) (t : Tree α) :
    ∀ (h : ν) (rest : List (SNode α ν)) (ms : List ν) (dl : List Bool),
      dl.length + height t ≤ 128 → ms.length + 1 + height t ≤ 128 →
      iterL (encWith H h t ++ rest) true ms dl =
        (iterL rest true (unwindMs dl ms) (unwindL dl)).map (fun items =>
          itemsOf H t (h :: ms) ++ items) := by
  induction t with
  | leaf s =>
    intro h rest ms dl _ hm
    have : ¬ (ms.length + 1 > MAXN) := by simp [MAXN, height] at hm ⊢; omega
    simp only [encWith, encTail, rootData, List.cons_append, List.nil_append, iterL, if_true,
      List.length_cons, this, if_false, List.tail_cons, itemsOf, siblingPaths, List.map_cons,
      List.map_nil, List.nil_append, List.singleton_append]
  | node l r ihl ihr =>
    intro h rest ms dl hd hm
    simp only [height] at hd hm
    have c : dl.length < 128 := by omega
    rw [encWith_node]
    simp only [List.cons_append, iterL, if_true, c, List.append_assoc]
    rw [ihl (root H r) _ (h :: ms) (false :: dl) (by simp; omega) (by simp; omega)]
    simp only [unwindMs, unwindL]
    rw [ihr (root H l) _ (h :: ms) (true :: dl) (by simp; omega) (by simp; omega)]
    simp only [unwindMs, unwindL, List.tail_cons, Option.map_map, itemsOf_node]
    congr 1
    funext items
    simp [List.append_assoc]

/-- T2 core (list version): the whole node vector -/
theorem iterL_tree (H : HashAlg α ν) (t : Tree α) (ht : height t ≤ 128) :
    iterL (encWith H (root H t) t) false [] [] = some (itemsOf H t []) := by
  cases t with
  | leaf s => simp [encWith, encTail, rootData, iterL, itemsOf, siblingPaths, MAXN, unwindMs, unwindL]
  | node l r =>
    simp only [height] at ht
    rw [encWith_node]
    have c : (0 : Nat) < 128 := by omega
    simp only [iterL, List.length_nil, Bool.false_eq_true, if_false, c, if_true]
    rw [ihl_sub H l (root H r) _ [] [false] (by simp; omega) (by simp; omega)]
    simp only [unwindMs, unwindL]
    have e : encWith H (root H l) r = encWith H (root H l) r ++ [] := by simp
    rw [e, ihl_sub H r (root H l) [] [] [true] (by simp; omega) (by simp; omega)]
    simp [unwindMs, unwindL, iterL, itemsOf_node]
  where ihl_sub := @iterL_subtree α ν

end MsVerif.Tap

/- Decimal printing (`showNat`) is inverted by `Expr.parseNum` on the `u32` range. -/
import MsVerif.Model.Display

namespace MsVerif.Display
open MsVerif.Expr

theorem digit_spec (k : Nat) (h : k < 10) :
    ('0' ≤ digit k ∧ digit k ≤ '9') ∧ (digit k).toNat - 48 = k := by
  have : k = 0 ∨ k = 1 ∨ k = 2 ∨ k = 3 ∨ k = 4 ∨ k = 5 ∨ k = 6 ∨ k = 7 ∨ k = 8 ∨ k = 9 := by omega
  rcases this with rfl | rfl | rfl | rfl | rfl | rfl | rfl | rfl | rfl | rfl <;> decide

theorem digit_pos (k : Nat) (h : k < 10) (h1 : 1 ≤ k) : '1' ≤ digit k ∧ digit k ≤ '9' ∧ digit k ≠ '0' := by
  have : k = 1 ∨ k = 2 ∨ k = 3 ∨ k = 4 ∨ k = 5 ∨ k = 6 ∨ k = 7 ∨ k = 8 ∨ k = 9 := by omega
  rcases this with rfl | rfl | rfl | rfl | rfl | rfl | rfl | rfl | rfl <;> decide

theorem showNat_lt (n : Nat) (h : n < 10) : showNat n = [digit n] := by
  rw [showNat]; simp [h]

theorem showNat_ge (n : Nat) (h : ¬ n < 10) : showNat n = showNat (n / 10) ++ [digit (n % 10)] := by
  rw [showNat]; simp [h]

theorem showNat_ne_nil (n : Nat) : showNat n ≠ [] := by
  by_cases h : n < 10
  · rw [showNat_lt n h]; simp
  · rw [showNat_ge n h]; simp

/-- the accumulator loop of `u32::from_str` distributes over append -/
theorem go_append (xs ys : List Char) (acc : Nat) :
    u32FromStr.go (xs ++ ys) acc =
      (match u32FromStr.go xs acc with
       | .ok a => u32FromStr.go ys a
       | .error e => .error e) := by
  induction xs generalizing acc with
  | nil => simp [u32FromStr.go, pure, Except.pure]
  | cons c cs ih =>
    simp only [List.cons_append, u32FromStr.go]
    by_cases hd : '0' ≤ c ∧ c ≤ '9'
    · simp only [hd, and_self, if_true]
      by_cases ho : acc * 10 + (c.toNat - 48) > 4294967295
      · simp [ho, throw, throwThe, MonadExceptOf.throw]
      · simp only [ho, if_false]; exact ih _
    · simp [hd, throw, throwThe, MonadExceptOf.throw]

theorem go_showNat : ∀ (n : Nat), n ≤ 4294967295 → u32FromStr.go (showNat n) 0 = .ok n := by
  intro n
  induction n using Nat.strongRecOn with
  | _ n ih =>
    intro hn
    by_cases h : n < 10
    · rw [showNat_lt n h]
      have hd := digit_spec n h
      simp only [u32FromStr.go, hd.1, and_self, if_true, hd.2]
      simp [pure, Except.pure]; omega
    · rw [showNat_ge n h, go_append, ih (n / 10) (by omega) (by omega)]
      have hd := digit_spec (n % 10) (by omega)
      simp only [u32FromStr.go, hd.1, and_self, if_true, hd.2]
      have e : n / 10 * 10 + n % 10 = n := by omega
      rw [e]
      simp [pure, Except.pure]; omega

theorem showNat_head (n : Nat) (h1 : 1 ≤ n) :
    ∃ d rest, showNat n = d :: rest ∧ '1' ≤ d ∧ d ≤ '9' ∧ d ≠ '0' := by
  induction n using Nat.strongRecOn with
  | _ n ih =>
    by_cases h : n < 10
    · rw [showNat_lt n h]
      have := digit_pos n h h1
      exact ⟨digit n, [], rfl, this.1, this.2.1, this.2.2⟩
    · rw [showNat_ge n h]
      obtain ⟨d, rest, e, hd⟩ := ih (n / 10) (by omega) (by omega)
      rw [e]
      exact ⟨d, rest ++ [digit (n % 10)], rfl, hd⟩

/-- `parse_num` inverts the decimal printer on the whole `u32` range -/
theorem parseNum_showNat (n : Nat) (hn : n ≤ 4294967295) : parseNum (showNat n) = .ok n := by
  by_cases h0 : n = 0
  · subst h0; rw [showNat_lt 0 (by omega)]; rfl
  · obtain ⟨d, rest, e, h1, h9, hz⟩ := showNat_head n (by omega)
    have hgo := go_showNat n hn
    rw [e] at hgo
    unfold parseNum
    rw [e]
    have hne : ¬ (d :: rest = ['0']) := by
      intro h; injection h with ha _; exact hz ha
    simp only [hne, if_false, List.head?_cons, h1, h9, and_self, if_true]
    unfold u32FromStr
    simp only [List.isEmpty_cons, Bool.false_eq_true, if_false]
    exact hgo

theorem readDec_showNat (n : Nat) (hn : n ≤ 4294967295) : readDec (showNat n) = some n := by
  unfold readDec; rw [parseNum_showNat n hn]

end MsVerif.Display

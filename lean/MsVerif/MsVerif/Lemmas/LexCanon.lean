/-
T2b: the lexer (`lex = lexG true`: `OP_VERIFY` rejected after `Equal`, `NumEqual`, `CheckSig`,
`CheckMultiSig`) accepts only canonical serialisations: `lexG true bs = ok ts → tokBytes ts = bs`.
-/
import MsVerif.Lemmas.LexSerialize

namespace MsVerif
namespace LexL
open Script

/-! ### `read_scriptint` is injective on minimal encodings: `numEncode ∘ numDecodeRaw = id` -/

theorem leValue_eq_zero : ∀ (l : Bytes), leValue l = 0 → ∀ b ∈ l, b.toNat = 0
  | [], _, b, hb => by cases hb
  | x :: l, h, b, hb => by
    simp only [leValue] at h
    rcases List.mem_cons.mp hb with rfl | hb
    · omega
    · exact leValue_eq_zero l (by omega) b hb

theorem leBytes_zero (fuel : Nat) : leBytes fuel 0 = [] := by
  cases fuel <;> simp [leBytes]

theorem leValue_pos_of_last {l : Bytes} {x : UInt8} (h : l.getLast? = some x) (hx : x.toNat ≠ 0) :
    0 < leValue l := by
  rcases Nat.eq_zero_or_pos (leValue l) with h0 | h0
  · exact absurd (leValue_eq_zero l h0 x (List.mem_of_getLast? h)) hx
  · exact h0

theorem leBytes_leValue : ∀ (l : Bytes) (fuel : Nat) (x : UInt8), l.getLast? = some x → x.toNat ≠ 0 →
    l.length ≤ fuel → leBytes fuel (leValue l) = l
  | [], _, _, h, _, _ => by cases h
  | b :: rest, fuel, x, h, hx, hl => by
    cases fuel with
    | zero => simp at hl
    | succ f =>
      have hpos := leValue_pos_of_last h hx
      have hb := u8_toNat_lt b
      simp only [leValue] at hpos ⊢
      simp only [leBytes]
      have hne : ¬ (b.toNat + 256 * leValue rest = 0) := by omega
      simp only [hne, if_false]
      have h1 : (b.toNat + 256 * leValue rest) % 256 = b.toNat := by omega
      have h2 : (b.toNat + 256 * leValue rest) / 256 = leValue rest := by omega
      rw [h1, h2, ← u8_eq_ofNat]
      cases rest with
      | nil => simp [leValue, leBytes_zero]
      | cons c rest' =>
        rw [List.getLast?_cons_cons] at h
        rw [leBytes_leValue (c :: rest') f x h hx (by simpa using hl)]

theorem eq_dropLast_append' {α} (l : List α) (a : α) (h : l.getLast? = some a) :
    l = l.dropLast ++ [a] := by
  induction l with
  | nil => cases h
  | cons x xs ih =>
    cases xs with
    | nil => simp at h; simp [h]
    | cons y ys =>
      rw [List.getLast?_cons_cons] at h
      rw [List.dropLast_cons_cons, List.cons_append, ← ih h]

theorem and7f' (x : UInt8) : ((x &&& 0x7f) == 0) = (x.toNat % 128 == 0) := by
  have := and7f x.toNat (u8_toNat_lt x)
  rwa [← u8_eq_ofNat] at this

/-- a minimal, non-negative script number of at most 9 bytes is the minimal encoding of its value -/
theorem numEncode_numDecodeRaw {bs : Bytes} (hlen : bs.length ≤ 9) (hmin : numMinimal bs = true)
    (hnn : 0 ≤ numDecodeRaw bs) : numEncode (numDecodeRaw bs) = bs := by
  cases hg : bs.getLast? with
  | none =>
    have : bs = [] := by simpa using hg
    subst this; rfl
  | some last =>
    have hs := eq_dropLast_append' bs last hg
    have hlt := u8_toNat_lt last
    by_cases hbig : last.toNat ≥ 0x80
    · -- negative or negative zero: impossible
      exfalso
      simp only [numDecodeRaw, hg, hbig, if_true] at hnn
      have hz : leValue (bs.dropLast ++ [last &&& 0x7f]) = 0 := by
        have : (0 : Int) ≤ Int.ofNat (leValue (bs.dropLast ++ [last &&& 0x7f])) := Int.natCast_nonneg _
        simp only [Int.ofNat_eq_natCast] at hnn this
        omega
      have hall := leValue_eq_zero _ hz
      have hl0 : (last &&& 0x7f).toNat = 0 := hall _ (by simp)
      have h7 : ((last &&& 0x7f) == 0) = true := by
        simp only [beq_iff_eq]
        exact UInt8.toNat_inj.mp (by simpa using hl0)
      simp only [numMinimal, hg, h7, if_true] at hmin
      cases hp : bs.dropLast.getLast? with
      | none => simp [hp] at hmin
      | some prev =>
        simp only [hp, decide_eq_true_eq] at hmin
        have := hall prev (by
          have : prev ∈ bs.dropLast := List.mem_of_getLast? hp
          simp [this])
        omega
    · have hv : numDecodeRaw bs = Int.ofNat (leValue bs) := by
        simp [numDecodeRaw, hg, hbig]
      rw [hv]
      by_cases hz : last.toNat = 0
      · -- trailing 0x00 sign byte: the byte before has its top bit set
        have h7 : ((last &&& 0x7f) == 0) = true := by rw [and7f']; simp [hz]
        simp only [numMinimal, hg, h7, if_true] at hmin
        cases hp : bs.dropLast.getLast? with
        | none => simp [hp] at hmin
        | some prev =>
          simp only [hp, decide_eq_true_eq] at hmin
          have hl0 : last = 0 := UInt8.toNat_inj.mp (by simpa using hz)
          have hval : leValue bs = leValue bs.dropLast := by
            rw [hs, leValue_append, hl0]; simp [leValue]
          have hpos := leValue_pos_of_last hp (by omega)
          have hle : bs.dropLast.length ≤ 9 := by simp; omega
          have hmag := leBytes_leValue bs.dropLast 9 prev hp (by omega) hle
          have hne : ¬ ((leValue bs.dropLast : Int) = 0) := by omega
          have hnneg : ¬ ((leValue bs.dropLast : Int) < 0) := by omega
          rw [hval]
          simp only [numEncode, Int.ofNat_eq_natCast, hne, if_false, Int.natAbs_natCast, hmag, hp,
            hnneg, decide_false]
          have : prev.toNat ≥ 128 := hmin
          simp only [this, if_true, Bool.false_eq_true, if_false]
          rw [hl0] at hs
          exact hs.symm
      · have hpos := leValue_pos_of_last hg hz
        have hmag := leBytes_leValue bs 9 last hg hz hlen
        have hne : ¬ ((leValue bs : Int) = 0) := by omega
        have hnneg : ¬ ((leValue bs : Int) < 0) := by omega
        simp only [numEncode, Int.ofNat_eq_natCast, hne, if_false, Int.natAbs_natCast, hmag, hg,
          hnneg, decide_false, hbig, Bool.false_eq_true]

/-! ### `tokBytes` unfolding -/

theorem tokBytes_cons_nofuse {t : Token} (h : t.fused = none) (ts : List Token) :
    tokBytes (t :: ts) = t.bytes1 ++ tokBytes ts := by
  cases ts with
  | nil => simp [tokBytes]
  | cons u ts =>
    cases u <;> simp [tokBytes, h]

theorem tokBytes_cons_nohead {t : Token} (ts : List Token) (h : ts.head? ≠ some .verify) :
    tokBytes (t :: ts) = t.bytes1 ++ tokBytes ts := by
  cases ts with
  | nil => simp [tokBytes]
  | cons u ts =>
    cases u <;> first
      | (exfalso; exact h rfl)
      | simp [tokBytes]

theorem tokBytes_fused {t : Token} {b : UInt8} (h : t.fused = some b) (ts : List Token) :
    tokBytes (t :: .verify :: ts) = b :: tokBytes ts := by
  simp [tokBytes, h]

/-! ### one instruction -/

theorem numEncode_small : ∀ v, 1 ≤ v → v ≤ 16 → numEncode (Int.ofNat v) = [UInt8.ofNat v] := by
  intro v h1 h2
  have : v = 1 ∨ v = 2 ∨ v = 3 ∨ v = 4 ∨ v = 5 ∨ v = 6 ∨ v = 7 ∨ v = 8 ∨ v = 9 ∨ v = 10 ∨ v = 11 ∨
      v = 12 ∨ v = 13 ∨ v = 14 ∨ v = 15 ∨ v = 16 := by omega
  rcases this with rfl | rfl | rfl | rfl | rfl | rfl | rfl | rfl | rfl | rfl | rfl | rfl | rfl | rfl | rfl | rfl <;> rfl

theorem hasPushNum_small : ∀ v, v < 17 → 1 ≤ v → hasPushNum (UInt8.ofNat v) = true := by decide

/-- a data push that lexes to token `t` is `t`'s canonical bytes -/
theorem push_canon {b : UInt8} {rest rest' bs : Bytes} {t : Token}
    (hn : nextInstr b rest = .ok (.push bs, rest')) (ht : pushToken bs = .ok t) :
    b :: rest = t.bytes1 ++ rest' ∧ t.fused = none ∧ t ≠ .verify := by
  -- what kinds of push can `pushToken` accept at all: at most 65 bytes
  have hlen65 : bs.length ≤ 65 := by
    unfold pushToken at ht
    repeat' (first | split at ht | (dsimp only at ht))
    all_goals first
      | (cases ht; done)
      | omega
  have direct : b.toNat ≤ 75 → b :: rest = UInt8.ofNat bs.length :: (bs ++ rest') ∧
      (bs.length = 1 → ∀ c, bs = [c] → hasPushNum c = false) := by
    intro h75
    simp only [nextInstr, h75, if_true] at hn
    have key : ∀ (guard : Bool), (guard = true → ∃ c tl, rest = c :: tl ∧ b.toNat = 1 ∧ hasPushNum c = true) →
        (guard = false → ∀ c tl, rest = c :: tl → b.toNat = 1 → hasPushNum c = false) →
        (if guard = true then Except.error LexErr.script else takeSlice b.toNat rest)
          = Except.ok (Instr.push bs, rest') →
        b :: rest = UInt8.ofNat bs.length :: (bs ++ rest') ∧
          (bs.length = 1 → ∀ c, bs = [c] → hasPushNum c = false) := by
      intro guard _ hgf hn
      cases guard with
      | true => simp at hn
      | false =>
        simp only [Bool.false_eq_true, if_false, takeSlice] at hn
        by_cases hle : b.toNat ≤ rest.length
        · simp only [hle, if_true, Except.ok.injEq, Prod.mk.injEq, Instr.push.injEq] at hn
          obtain ⟨h1, h2⟩ := hn
          have hbl : bs.length = b.toNat := by rw [← h1]; simp [hle]
          refine ⟨?_, ?_⟩
          · rw [hbl, ← u8_eq_ofNat, ← h1, ← h2, List.take_append_drop]
          · intro hone c hc
            have hb1 : b.toNat = 1 := by omega
            rw [hc] at h1
            cases rest with
            | nil => simp [hb1] at h1
            | cons r tl =>
              simp [hb1] at h1
              rw [← h1]
              exact hgf rfl r tl rfl hb1
        · simp only [hle, if_false] at hn; cases hn
    cases rest with
    | nil =>
      refine key _ ?_ ?_ hn
      · intro h; simp at h
      · intro _ c tl h; cases h
    | cons r tl =>
      refine key _ ?_ ?_ hn
      · intro h
        simp only [Bool.and_eq_true, decide_eq_true_eq] at h
        exact ⟨r, tl, rfl, h.1, h.2⟩
      · intro h c tl' hc hb1
        simp only [List.cons.injEq] at hc
        obtain ⟨rfl, _⟩ := hc
        simp only [Bool.and_eq_false_iff, decide_eq_false_iff_not] at h
        rcases h with h | h
        · exact absurd hb1 h
        · exact h
  by_cases h75 : b.toNat ≤ 75
  · obtain ⟨hb, hsingle⟩ := direct h75
    unfold pushToken at ht
    repeat' (first | split at ht | (dsimp only at ht))
    all_goals first
      | (cases ht; done)
      | (cases ht; exact ⟨by rw [hb]; rfl, rfl, by simp⟩)
      | skip
    -- the number case
    rename_i h20 h32 h33 h65 h4 hmin hnn
    cases ht
    have hmin' : numMinimal bs = true := by simpa using hmin
    have henc := numEncode_numDecodeRaw (bs := bs) (by omega) hmin' hnn
    have hnat : Int.ofNat (numDecodeRaw bs).toNat = numDecodeRaw bs := by
      simp only [Int.ofNat_eq_natCast]; omega
    refine ⟨?_, rfl, by simp⟩
    rw [hb]
    simp only [Token.bytes1]
    rw [hnat, henc]
    by_cases hz : (numDecodeRaw bs).toNat = 0
    · have : numDecodeRaw bs = 0 := by omega
      rw [this] at henc
      have : bs = [] := by rw [← henc]; rfl
      subst this
      simp [hz]
    · by_cases h16 : (numDecodeRaw bs).toNat ≤ 16
      · exfalso
        have hsm := numEncode_small (numDecodeRaw bs).toNat (by omega) h16
        rw [hnat, henc] at hsm
        have := hsingle (by rw [hsm]; rfl) _ hsm
        rw [hasPushNum_small _ (by omega) (by omega)] at this
        cases this
      · simp [hz, h16]
  · -- PUSHDATA1/2/4: at least 76 bytes, which `pushToken` refuses
    exfalso
    simp only [nextInstr, h75, if_false] at hn
    have big : ∀ a m, 76 ≤ m → pushDataLen a m rest = .ok (.push bs, rest') → False := by
      intro a m hm h
      unfold pushDataLen at h
      repeat' (first | split at h | (dsimp only at h))
      · cases h
      · cases h
      · rename_i hlt hge
        simp only [takeSlice] at h
        by_cases hle : leValue (List.take a rest) ≤ (List.drop a rest).length
        · simp only [hle, if_true, Except.ok.injEq, Prod.mk.injEq, Instr.push.injEq] at h
          have : bs.length = leValue (List.take a rest) := by
            rw [← h.1, List.length_take]; omega
          omega
        · simp only [hle, if_false] at h; cases h
    repeat' split at hn
    · exact big _ _ (by omega) hn
    · exact big _ _ (by omega) hn
    · exact big _ _ (by omega) hn
    · cases hn

/-- a non-push opcode goes through unchanged -/
theorem nextInstr_op_inv {b b' : UInt8} {rest rest' : Bytes}
    (hn : nextInstr b rest = .ok (.op b', rest')) : b' = b ∧ rest' = rest := by
  unfold nextInstr at hn
  dsimp only at hn
  have ts : ∀ n r, takeSlice n r ≠ .ok (.op b', rest') := by
    intro n r h; unfold takeSlice at h; split at h <;> cases h
  have pd : ∀ a m r, pushDataLen a m r ≠ .ok (.op b', rest') := by
    intro a m r h
    unfold pushDataLen at h
    repeat' (first | split at h | (dsimp only at h))
    · cases h
    · cases h
    · exact ts _ _ h
  repeat' split at hn
  all_goals first
    | (cases hn; done)
    | exact absurd hn (ts _ _)
    | exact absurd hn (pd _ _ _)
    | (cases hn; exact ⟨rfl, rfl⟩)

set_option hygiene false in
/-- one rung of the opcode ladder, opcode with a single token -/
local macro "op_single" lit:term : tactic => `(tactic|
  (by_cases hb : b = $lit
   · subst hb; rw [if_pos (by rfl)] at h; cases h; exact .inl ⟨_, rfl, rfl, by simp⟩
   rw [if_neg (by simpa using hb)] at h))

set_option hygiene false in
/-- one rung of the opcode ladder, a `*VERIFY` opcode -/
local macro "op_pair" lit:term : tactic => `(tactic|
  (by_cases hb : b = $lit
   · subst hb; rw [if_pos (by rfl)] at h; cases h; exact .inr ⟨_, rfl, rfl, by simp⟩
   rw [if_neg (by simpa using hb)] at h))

/-- shapes of what the strict lexer pushes for a non-push opcode -/
theorem op_canon {prev : Option Token} {b : UInt8} {toks : List Token}
    (h : opTokens true prev b = .ok toks) :
    (∃ t, toks = [t] ∧ t.bytes1 = [b] ∧
        (t = .verify → ∀ p, prev = some p → fusesVerify true p = false)) ∨
    (∃ t, toks = [t, .verify] ∧ t.fused = some b ∧ t ≠ .verify) := by
  unfold opTokens at h
  op_single 0x9a
  op_single 0x9b
  op_single 0x87
  op_pair 0x88
  op_single 0x9c
  op_pair 0x9d
  op_single 0xac
  op_pair 0xad
  op_single 0xba
  op_single 0xae
  op_pair 0xaf
  op_single 0xb2
  op_single 0xb1
  op_single 0x6c
  op_single 0x6b
  op_single 0x75
  op_single 0x76
  op_single 0x93
  op_single 0x63
  op_single 0x73
  op_single 0x64
  op_single 0x67
  op_single 0x68
  op_single 0x92
  op_single 0x82
  op_single 0x7c
  by_cases hb : b = 0x69
  · subst hb
    rw [if_pos (by rfl)] at h
    split at h
    · rename_i t
      split at h
      · cases h
      · rename_i hf
        cases h
        exact .inl ⟨_, rfl, rfl, fun _ p hp => by cases hp; simpa using hf⟩
    · cases h
      exact .inl ⟨_, rfl, rfl, fun _ p hp => by cases hp⟩
  rw [if_neg (by simpa using hb)] at h
  op_single 0xa6
  op_single 0xa9
  op_single 0xa8
  op_single 0xaa
  -- OP_1 … OP_16
  split at h
  · rename_i hr
    cases h
    simp only [Bool.and_eq_true, decide_eq_true_eq] at hr
    refine .inl ⟨_, rfl, ?_, by simp⟩
    have hlt := u8_toNat_lt b
    have h0 : ¬ (b.toNat - 0x50 = 0) := by omega
    have h16 : b.toNat - 0x50 ≤ 16 := by omega
    simp only [Token.bytes1, h0, if_false, h16, if_true]
    have : 0x50 + (b.toNat - 0x50) = b.toNat := by omega
    rw [this, ← u8_eq_ofNat]
  · cases h

/-! ### the strict lexer is canonical -/

theorem lexB_canon : ∀ (n : Nat) (bs : Bytes) (prev : Option Token) (ts : List Token),
    bs.length ≤ n → lexB true prev bs = .ok ts →
    (∀ p, prev = some p → fusesVerify true p = true → ts.head? ≠ some .verify) ∧ tokBytes ts = bs := by
  intro n
  induction n with
  | zero =>
    intro bs prev ts hl h
    have : bs = [] := by simpa using hl
    subst this
    rw [lexB_nil] at h; cases h
    exact ⟨fun _ _ _ => by simp, rfl⟩
  | succ n ih =>
    intro bs prev ts hl h
    cases bs with
    | nil => rw [lexB_nil] at h; cases h; exact ⟨fun _ _ _ => by simp, rfl⟩
    | cons b rest =>
      rw [lexB_cons] at h
      cases hn : nextInstr b rest with
      | error e => simp [hn] at h
      | ok p =>
        obtain ⟨ins, rest'⟩ := p
        simp only [hn] at h
        have hlen := nextInstr_len hn
        cases ht : instrTokens true prev ins with
        | error e => simp [ht] at h
        | ok toks =>
          simp only [ht] at h
          cases hr : lexB true (toks.getLast?.or prev) rest' with
          | error e => simp [hr] at h
          | ok ts' =>
            simp only [hr, Except.ok.injEq] at h
            subst h
            obtain ⟨ihh, ihb⟩ := ih rest' _ ts' (by simp at hl; omega) hr
            cases ins with
            | push pb =>
              simp only [instrTokens] at ht
              cases hp : pushToken pb with
              | error e => simp [hp, Except.map] at ht
              | ok t =>
                simp only [hp, Except.map, Except.ok.injEq] at ht
                subst ht
                obtain ⟨hbytes, hnf, hnv⟩ := push_canon hn hp
                refine ⟨fun _ _ _ => by simpa using hnv, ?_⟩
                simp only [List.singleton_append]
                rw [tokBytes_cons_nofuse hnf, ihb, hbytes]
            | op ob =>
              obtain ⟨rfl, rfl⟩ := nextInstr_op_inv hn
              simp only [instrTokens] at ht
              rcases op_canon ht with ⟨t, rfl, hb1, hver⟩ | ⟨t, rfl, hfu, hnv⟩
              · refine ⟨?_, ?_⟩
                · intro p hp hf
                  simp only [List.singleton_append, List.head?_cons, ne_eq, Option.some.injEq]
                  intro htv
                  have := hver htv p hp
                  rw [this] at hf; cases hf
                · simp only [List.singleton_append]
                  by_cases hfu : fusesVerify true t = true
                  · have := ihh t (by simp) hfu
                    rw [tokBytes_cons_nohead _ this, ihb, hb1]; rfl
                  · have hnf : t.fused = none := by
                      cases t <;> first | rfl | (exfalso; exact hfu rfl)
                    rw [tokBytes_cons_nofuse hnf, ihb, hb1]; rfl
              · refine ⟨?_, ?_⟩
                · intro p hp hf
                  simpa using hnv
                · simp only [List.cons_append, List.nil_append]
                  rw [tokBytes_fused hfu, ihb]

/-- T2b -/
theorem lexStrict_canonical (bs : Bytes) (ts : List Token) (h : lexG true bs = .ok ts) :
    tokBytes ts = bs :=
  (lexB_canon bs.length bs none ts (Nat.le_refl _) h).2

end LexL
end MsVerif

/-
Helper lemmas for C12 (finite tables): the library's whole-fragment type (`typeOf`, Model/TypeCheck.lean) agrees
with the specification's (`specTy`, Spec/CtxRules.lean) on every AST whose thresholds are in
range: same base type, same malleability letters; the correctness letters are the
specification's except that the specification may grant `u` where the library withholds it
(`d:` under Tapscript, C05.corr_d_tap).  Composition of the rule-by-rule theorems of C05.
-/
import MsVerif.Thm.C05
import MsVerif.Model.TypeCheck
import MsVerif.Spec.CtxRules

namespace MsVerif
open Spec

/-- pointwise relation of two lists (core Lean has no `All2`) -/
inductive All2 {α β : Type} (R : α → β → Prop) : List α → List β → Prop
  | nil : All2 R [] []
  | cons {a b l₁ l₂} : R a b → All2 R l₁ l₂ → All2 R (a :: l₁) (b :: l₂)

/-- grant `u` additionally -/
def upg (b : Bool) (s : SCorr) : SCorr := ⟨s.base, s.z, s.o, s.n, s.d, s.u || b⟩

/-- the specification's correctness letters are the library's, possibly with `u` added -/
def RelC (c : Corr) (τ : SCorr) : Prop := ∃ b, τ = upg b c.toSpec

structure Good (ty : Ty) (τ : STy) : Prop where
  reach : Reach ty.corr
  ksig : ty.corr.base = .K → ty.mall.signed = true
  relc : RelC ty.corr τ.c
  relm : τ.m = ty.mall.toSpec

theorem Bool.mem_all' (b : Bool) : b ∈ Bool.all' := by cases b <;> decide

/-! ### rule-level checks over the complete finite domain -/

def relB (y : Corr) (τ : SCorr) : Bool := τ == upg false y.toSpec || τ == upg true y.toSpec

theorem relB_sound {y τ} (h : relB y τ = true) : RelC y τ := by
  simp only [relB, Bool.or_eq_true, beq_iff_eq] at h
  rcases h with h | h
  · exact ⟨false, h⟩
  · exact ⟨true, h⟩

def unaryOK (noK : Bool) (fc : Corr → Option Corr) (gc : SCorr → Option SCorr) : Bool :=
  Corr.all.all fun x => Bool.all'.all fun b =>
    x.kz || match fc x with
      | none => true
      | some y => (!noK || y.base != .K) &&
        (match gc (upg b x.toSpec) with | some τ => relB y τ | none => false)

theorem unaryOK_sound {noK fc gc} (h : unaryOK noK fc gc = true) {x y} (b : Bool)
    (hx : x.kz = false) (e : fc x = some y) :
    (noK = true → y.base ≠ .K) ∧ ∃ τ, gc (upg b x.toSpec) = some τ ∧ RelC y τ := by
  have := List.all_eq_true.mp (List.all_eq_true.mp h x (Corr.mem_all x)) b (Bool.mem_all' b)
  simp only [hx, e, Bool.false_or, Bool.and_eq_true, Bool.or_eq_true, Bool.not_eq_true',
    bne_iff_ne, ne_eq] at this
  obtain ⟨h1, h2⟩ := this
  refine ⟨fun hn => by rcases h1 with h1 | h1 <;> simp_all, ?_⟩
  cases hg : gc (upg b x.toSpec) with
  | none => simp [hg] at h2
  | some τ => simp only [hg] at h2; exact ⟨τ, rfl, relB_sound h2⟩

def binaryOK (noK : Bool) (fc : Corr → Corr → Option Corr) (gc : SCorr → SCorr → Option SCorr) :
    Bool :=
  Corr.all.all fun x => Corr.all.all fun y => Bool.all'.all fun b => Bool.all'.all fun c =>
    x.kz || y.kz || match fc x y with
      | none => true
      | some r => (!noK || r.base != .K) &&
        (match gc (upg b x.toSpec) (upg c y.toSpec) with | some τ => relB r τ | none => false)

theorem binaryOK_sound {noK fc gc} (h : binaryOK noK fc gc = true) {x y r} (b c : Bool)
    (hx : x.kz = false) (hy : y.kz = false) (e : fc x y = some r) :
    (noK = true → r.base ≠ .K) ∧
      ∃ τ, gc (upg b x.toSpec) (upg c y.toSpec) = some τ ∧ RelC r τ := by
  have := List.all_eq_true.mp (List.all_eq_true.mp (List.all_eq_true.mp
    (List.all_eq_true.mp h x (Corr.mem_all x)) y (Corr.mem_all y)) b (Bool.mem_all' b)) c
    (Bool.mem_all' c)
  simp only [hx, hy, e, Bool.false_or, Bool.and_eq_true, Bool.or_eq_true, Bool.not_eq_true',
    bne_iff_ne, ne_eq] at this
  obtain ⟨h1, h2⟩ := this
  refine ⟨fun hn => by rcases h1 with h1 | h1 <;> simp_all, ?_⟩
  cases hg : gc (upg b x.toSpec) (upg c y.toSpec) with
  | none => simp [hg] at h2
  | some τ => simp only [hg] at h2; exact ⟨τ, rfl, relB_sound h2⟩

theorem ok_a : unaryOK true Corr.castAlt C.wrapA = true := by decide +kernel
theorem ok_s : unaryOK true Corr.castSwap C.wrapS = true := by decide +kernel
theorem ok_c : unaryOK true Corr.castCheck C.wrapC = true := by decide +kernel
theorem ok_d (tap : Bool) : unaryOK true Corr.castDupIf (C.wrapD tap) = true := by
  cases tap <;> decide +kernel
theorem ok_v : unaryOK true Corr.castVerify C.wrapV = true := by decide +kernel
theorem ok_j : unaryOK true Corr.castNonZero C.wrapJ = true := by decide +kernel
theorem ok_n : unaryOK true Corr.castZeroNotEqual C.wrapN = true := by decide +kernel
theorem ok_andB : binaryOK true Corr.andB C.andB = true := by decide +kernel
theorem ok_andV : binaryOK false Corr.andV C.andV = true := by decide +kernel
theorem ok_orB : binaryOK true Corr.orB C.orB = true := by decide +kernel
theorem ok_orC : binaryOK true Corr.orC C.orC = true := by decide +kernel
theorem ok_orD : binaryOK true Corr.orD C.orD = true := by decide +kernel
theorem ok_orI : binaryOK false Corr.orI C.orI = true := by decide +kernel

end MsVerif

import MsVerif.Model.Types
import MsVerif.Spec.MsSpecTypes
import MsVerif.Lemmas.TypesEnum

//! C20, descriptor level (module of c20.rs): `Descriptor::translate_pk` through every wrapper
//! incl. mappings into context-ILLEGAL key kinds and collapsing mappings, `Descriptor::iter_pk`,
//! and the output script of the translated descriptor — compared with the Lean model
//! (`C dtranslate`, `C diterpk`) and judged by the Lean specification (`J dtranslate-legal`:
//! refused iff the substituted descriptor is illegal; `J dtranslate-script` / `-leaves`: the
//! driver's encoder on the substituted shape; `J diterpk`: keys of the printed form in order).
use miniscript::descriptor::{ShInner, TapTree};

use super::*;

/// wire form of Driver/OpsDesc.lean
fn desc_wire<Pk: KeyId>(d: &Descriptor<Pk>) -> String {
    match d {
        Descriptor::Bare(b) => format!("bare({})", from_ms(b.as_inner()).wire()),
        Descriptor::Pkh(p) => format!("pkh({})", p.as_inner().id()),
        Descriptor::Wpkh(p) => format!("wpkh({})", p.as_inner().id()),
        Descriptor::Wsh(w) => format!("wsh({})", from_ms(w.as_inner()).wire()),
        Descriptor::Sh(s) => match s.as_inner() {
            ShInner::Wsh(w) => format!("sh(wsh({}))", from_ms(w.as_inner()).wire()),
            ShInner::Wpkh(p) => format!("sh(wpkh({}))", p.as_inner().id()),
            ShInner::Ms(m) => format!("sh({})", from_ms(m).wire()),
        },
        Descriptor::Tr(t) => {
            let mut s = format!("tr({}", t.internal_key().id());
            for l in t.leaves() { s.push_str(&format!(";{}:{}", l.depth(), from_ms(l.miniscript()).wire())); }
            s.push(')');
            s
        }
    }
}

fn dtr_run<P: KeyId, Q: KeyId>(d: &Descriptor<P>, mode: &Mode) -> Result<Descriptor<Q>, String> {
    let mut t = Tx::<Q>::new(mode.clone());
    match catch_unwind(AssertUnwindSafe(|| d.translate_pk(&mut t))) {
        Err(_) => Err("PANIC".to_string()),
        Ok(Ok(x)) => Ok(x),
        Ok(Err(e)) => err_text(e),
    }
}
/// (answer, script_pubkey hex, leaf scripts hex) of the translated descriptor
fn dtr<P: KeyId>(d: &Descriptor<P>, mode: &Mode) -> (String, Option<String>, Option<String>) {
    fn fin<Q: KeyId>(r: Result<Descriptor<Q>, String>) -> (String, Option<String>, Option<String>) {
        match r {
            Err(e) => (e, None, None),
            Ok(x) => {
                let w = guard(|| desc_wire(&x));
                let spk = catch_unwind(AssertUnwindSafe(|| hex(x.script_pubkey().as_bytes()))).ok();
                let leaves = catch_unwind(AssertUnwindSafe(|| leaf_hex(&x))).ok();
                (w, spk, leaves)
            }
        }
    }
    if mode.target_xonly(P::XONLY) { fin(dtr_run::<P, XOnlyPublicKey>(d, mode)) } else { fin(dtr_run::<P, PublicKey>(d, mode)) }
}
fn leaf_hex<Pk: KeyId>(d: &Descriptor<Pk>) -> String {
    match d {
        Descriptor::Tr(t) => {
            let v: Vec<String> = t.leaves().map(|l| hex(l.compute_script().as_bytes())).collect();
            if v.is_empty() { "-".into() } else { v.join(",") }
        }
        _ => "-".into(),
    }
}

fn ops_desc<P: KeyId>(out: &mut Out, d: &Descriptor<P>, thorough: bool) {
    let w = desc_wire(d);
    let is_tr = matches!(d, Descriptor::Tr(_));
    out.count(&format!("dinput {}", w.split('(').next().unwrap_or("")));
    // iter_pk
    let it = guard(|| show_ids(&d.iter_pk().map(|k| k.id()).collect::<Vec<_>>()));
    out.line(&format!("C diterpk {}", w), &it);
    let scanned = scan_keys(&guard(|| d.to_string()));
    out.line(&format!("J diterpk {} {} {}", w, it, show_ids(&scanned)), "ok");
    // for_each_key / for_any_key with every stop key
    {
        let mut sel: Vec<Option<u32>> = vec![None];
        let mut seen = BTreeSet::new();
        for k in scanned.iter() { if seen.insert(*k) { sel.push(Some(*k)); } }
        sel.push(Some(UNKNOWN));
        sel.truncate(if thorough { 12 } else { 6 });
        for s_ in sel {
            let tok = s_.map(|k| k.to_string()).unwrap_or("-".into());
            let each = guard(|| { let mut v = vec![]; let r = d.for_each_key(|k| { v.push(k.id()); Some(k.id()) != s_ }); format!("{}|{}", show_ids(&v), if r { 1 } else { 0 }) });
            let any = guard(|| { let mut v = vec![]; let r = d.for_any_key(|k| { v.push(k.id()); Some(k.id()) == s_ }); format!("{}|{}", show_ids(&v), if r { 1 } else { 0 }) });
            out.line(&format!("C dforeach {} {}", tok, w), &each);
            out.line(&format!("C dforany {} {}", tok, w), &any);
        }
    }
    // translate
    let distinct: Vec<u32> = { let mut s = BTreeSet::new(); scanned.iter().cloned().filter(|k| s.insert(*k)).collect() };
    let spk0 = catch_unwind(AssertUnwindSafe(|| hex(d.script_pubkey().as_bytes()))).ok();
    let leaves0 = leaf_hex(d);
    let pure = [MapK::Id, MapK::Ren, MapK::Ren2, MapK::Collapse, MapK::Comp, MapK::Unc, MapK::Xonly];
    for m in pure {
        let mode = Mode::pure1(m);
        let (ans, spk1, leaves1) = dtr(d, &mode);
        out.line(&format!("C dtranslate {} {}", m.name(), w), &ans);
        out.line(&format!("J dtranslate-legal {} {} {}", m.name(), w, ans), "ok");
        if ans.starts_with("ERR") || ans == "PANIC" { out.count(&format!("dtranslate refused {}", m.name())); continue; }
        // scripts: only where the target key kind is the context's own (the driver's key table
        // serialises ids < 200 as full keys and ids >= 200 as x-only keys)
        let tx = mode.target_xonly(P::XONLY);
        if !is_tr && !tx {
            if let (Some(a), Some(b)) = (&spk0, &spk1) { out.line(&format!("J dtranslate-script {} {} {} {}", m.name(), w, a, b), "ok"); }
        }
        if is_tr && tx {
            // a full-key source (`Tr<bitcoin::PublicKey>`) serialises its keys x-only in the leaf
            // scripts, which the driver's key table (ids < 200 = 33 bytes) does not: original skipped
            let l0 = if P::XONLY { leaves0.clone() } else { "skip".to_string() };
            if let Some(b) = &leaves1 { out.line(&format!("J dtranslate-leaves {} {} {} {}", m.name(), w, l0, b), "ok"); }
        }
    }
    for k in distinct.iter().take(if thorough { 8 } else { 3 }) {
        let (ans, _, _) = dtr(d, &Mode::Fail(*k));
        out.line(&format!("C dtranslate fail:{} {}", k, w), &ans);
    }
    for n in 0..=scanned.len().min(if thorough { 8 } else { 4 }) {
        let (ans, _, _) = dtr(d, &Mode::FailCall(n));
        out.line(&format!("C dtranslate failcall:{} {}", n, w), &ans);
    }
}

/// right comb `{0,{1,{2,…}}}` / left comb `{{{0,1},2},…}` of `n` leaves
fn comb<Pk: KeyId>(leaves: &[Miniscript<Pk, Tap>], n: usize, left: bool) -> Option<TapTree<Pk>> {
    let l = |i: usize| TapTree::leaf(leaves[i % leaves.len()].clone());
    if left {
        let mut t = l(0);
        for i in 1..n { t = TapTree::combine(t, l(i)).ok()?; }
        Some(t)
    } else {
        let mut t = l(n - 1);
        for i in (0..n - 1).rev() { t = TapTree::combine(l(i), t).ok()?; }
        Some(t)
    }
}

/// the same object through its OTHER construction routes and in the USED state (output script /
/// spend info computed): the key walkers and the translator must answer as for the fresh object
fn ops_routes<P: KeyId + ParseDesc>(out: &mut Out, d: &Descriptor<P>) {
    let w = desc_wire(d);
    let mut variants: Vec<(&'static str, Descriptor<P>)> = vec![];
    match catch_unwind(AssertUnwindSafe(|| P::parse(&d.to_string()))) {
        Ok(Some(p)) => variants.push(("parsed", p)),
        _ => out.count("route parsed: refused by from_str (consensus-only object)"),
    }
    let u = d.clone();
    let _ = catch_unwind(AssertUnwindSafe(|| u.script_pubkey()));
    if let Descriptor::Tr(t) = &u { let _ = catch_unwind(AssertUnwindSafe(|| t.spend_info())); }
    variants.push(("used", u.clone()));
    variants.push(("used-clone", u.clone()));
    for (name, x) in variants {
        out.count(&format!("droute {}", name));
        if desc_wire(&x) != w {
            out.count(&format!("observation: route {} gives another structure", name));
            out.note(&format!("observation route {} example", name), format!("{} -> {}", w, desc_wire(&x)));
            continue;
        }
        out.line(&format!("C diterpk {}", w), &guard(|| show_ids(&x.iter_pk().map(|k| k.id()).collect::<Vec<_>>())));
        out.line(&format!("C dforeach - {}", w), &guard(|| { let mut v = vec![]; let r = x.for_each_key(|k| { v.push(k.id()); true }); format!("{}|{}", show_ids(&v), if r { 1 } else { 0 }) }));
        for m in [MapK::Id, MapK::Ren] {
            let (ans, _, _) = dtr(&x, &Mode::pure1(m));
            out.line(&format!("C dtranslate {} {}", m.name(), w), &ans);
            out.line(&format!("J dtranslate-legal {} {} {}", m.name(), w, ans), "ok");
        }
    }
}

fn tree_of(leaves: &[Miniscript<XOnlyPublicKey, Tap>], shape: usize) -> Option<TapTree<XOnlyPublicKey>> {
    let l = |i: usize| TapTree::leaf(leaves[i % leaves.len()].clone());
    match shape {
        0 => Some(l(0)),
        1 => TapTree::combine(l(0), l(1)).ok(),
        2 => TapTree::combine(l(0), TapTree::combine(l(1), l(2)).ok()?).ok(),
        _ => TapTree::combine(TapTree::combine(l(0), l(1)).ok()?, l(2)).ok(),
    }
}

pub fn run(out: &mut Out, thorough: bool, rng: &mut Rng) {
    let no_raw = |n: &&Node| raws(n).is_empty();
    let mut n_desc = 0usize;
    // single-key wrappers: compressed and (where legal) uncompressed keys
    for k in [0u32, 1, 2] {
        for d in [Descriptor::new_pkh(full_key(k)).ok(), Descriptor::new_wpkh(full_key(k)).ok(), Descriptor::new_sh_wpkh(full_key(k)).ok(),
                  Descriptor::new_pkh(full_key(100 + k)).ok()].into_iter().flatten() {
            n_desc += 1; ops_desc(out, &d, thorough);
        }
        if let Ok(d) = Descriptor::<XOnlyPublicKey>::new_tr(xonly_key(200 + k), None) { n_desc += 1; ops_desc(out, &d, thorough); }
    }
    // miniscript wrappers
    // the WHOLE designated corpus (hand-written + dimension corpus + keyless / refused-by-sane
    // corpus) goes through every wrapper in every tier
    let cap = usize::MAX;
    let corpus = |ctx: CtxK| -> Vec<Node> {
        let mut v = hand(ctx); v.extend(ast::dimension_corpus(ctx)); v.extend(keyless_corpus(ctx));
        let mut seen = BTreeSet::new();
        v.into_iter().filter(|n| raws(n).is_empty() && atoms_ok(n) && seen.insert(n.wire())).collect()
    };
    let segs: Vec<Node> = corpus(CtxK::Segwitv0);
    let legs: Vec<Node> = corpus(CtxK::Legacy);
    let bares: Vec<Node> = corpus(CtxK::Bare);
    for n in segs.iter().take(cap) {
        if let Ok(ms) = to_ms::<PublicKey, Segwitv0>(n) {
            if let Ok(d) = Descriptor::new_wsh(ms.clone()) { n_desc += 1; ops_desc(out, &d, thorough); ops_routes(out, &d); }
            if let Ok(d) = Descriptor::new_sh_wsh(ms) { n_desc += 1; ops_desc(out, &d, thorough); ops_routes(out, &d); }
        }
    }
    for n in legs.iter().take(cap) {
        if let Ok(ms) = to_ms::<PublicKey, Legacy>(n) { if let Ok(d) = Descriptor::new_sh(ms) { n_desc += 1; ops_desc(out, &d, thorough); ops_routes(out, &d); } }
        // the same shape over uncompressed keys (legal under sh)
        if let Ok(ms) = to_ms::<PublicKey, Legacy>(&shift_keys(n, 100)) { if let Ok(d) = Descriptor::new_sh(ms) { n_desc += 1; ops_desc(out, &d, thorough); } }
    }
    for n in bares.iter().take(cap) {
        if let Ok(ms) = to_ms::<PublicKey, miniscript::BareCtx>(n) { if let Ok(d) = Descriptor::new_bare(ms) { n_desc += 1; ops_desc(out, &d, thorough); ops_routes(out, &d); } }
    }
    // tr: EVERY B-typed member of the tap corpus as a single leaf (incl. keyless leaves, which
    // only the constructors accept), through `new_tr` and through `Tr::new` + `Descriptor::Tr`
    {
        let tapc: Vec<Miniscript<XOnlyPublicKey, Tap>> = corpus(CtxK::Tap).iter()
            .filter_map(|n| to_ms::<XOnlyPublicKey, Tap>(n).ok()).filter(|m| m.ty.corr.base == miniscript::miniscript::types::Base::B).collect();
        for (i, m) in tapc.iter().enumerate() {
            if let Ok(d) = Descriptor::new_tr(xonly_key(200 + (i % 10) as u32), Some(TapTree::leaf(m.clone()))) { n_desc += 1; ops_desc(out, &d, thorough); ops_routes(out, &d); }
        }
        // keyless leaves at the first / middle / last position of trees with 3 and 4 leaves, and all-keyless trees
        use Node::*;
        let keyed = |i: u32| to_ms::<XOnlyPublicKey, Tap>(&Check(Box::new(PkK(200 + i)))).ok();
        let kl = |i: u32| to_ms::<XOnlyPublicKey, Tap>(&if i % 2 == 0 { Hash(HK::Sha256, i % 4) } else { Older(5 + i) }).ok();
        for n in [3usize, 4] {
            let mut patterns: Vec<Vec<bool>> = vec![vec![true; n]];          // true = keyless
            for pos in 0..n { let mut p = vec![false; n]; p[pos] = true; patterns.push(p); }
            let mut two = vec![false; n]; two[0] = true; two[n - 1] = true; patterns.push(two);
            for p in patterns {
                let leaves: Vec<Miniscript<XOnlyPublicKey, Tap>> = p.iter().enumerate().filter_map(|(i, k)| if *k { kl(i as u32) } else { keyed(i as u32) }).collect();
                if leaves.len() != n { continue; }
                for left in [false, true] {
                    if let Some(t) = comb(&leaves, n, left) {
                        if let Ok(d) = Descriptor::new_tr(xonly_key(209), Some(t.clone())) { n_desc += 1; ops_desc(out, &d, thorough); ops_routes(out, &d); }
                        if let Ok(tr) = miniscript::descriptor::Tr::new(xonly_key(208), Some(t)) { let d = Descriptor::Tr(tr); n_desc += 1; ops_desc(out, &d, thorough); ops_routes(out, &d); }
                    }
                }
            }
        }
    }
    // tr with trees of 1..3 leaves in both 3-leaf shapes
    let taps: Vec<Miniscript<XOnlyPublicKey, Tap>> = hand(CtxK::Tap).iter().filter(no_raw)
        .filter_map(|n| to_ms::<XOnlyPublicKey, Tap>(n).ok()).filter(|m| m.ty.corr.base == miniscript::miniscript::types::Base::B).collect();
    if !taps.is_empty() {
        for i in 0..(if thorough { 200 } else { 40 }) {
            let a = rng.below(taps.len()); let b = rng.below(taps.len()); let c = rng.below(taps.len());
            let leaves = vec![taps[a].clone(), taps[b].clone(), taps[c].clone()];
            if let Some(tree) = tree_of(&leaves, i % 4) {
                if let Ok(d) = Descriptor::new_tr(xonly_key(200 + (i % 4) as u32), Some(tree)) { n_desc += 1; ops_desc(out, &d, thorough); }
            }
        }
    }
    // deeper trees: combs of 4 and 5 leaves with a key-less (hash-only) leaf in the middle; the same
    // over FULL keys of mixed parity (`Tr<bitcoin::PublicKey>`) as source of the xonly / ren maps
    {
        use Node::*;
        let bx = |n: Node| Box::new(n);
        let hash_only = Hash(HK::Sha256, 0);
        let mk = |b: u32| -> Vec<Node> { vec![
            Check(bx(PkK(b))), hash_only.clone(), MultiA(2, vec![b + 2, b + 1, b + 3]),
            AndV(bx(Verify(bx(Check(bx(PkK(b + 4)))))), bx(Check(bx(PkH(b + 5))))), SortedMultiA(1, vec![b + 7, b + 6]),
        ] };
        let xl: Vec<Miniscript<XOnlyPublicKey, Tap>> = mk(200).iter().filter_map(|n| to_ms::<XOnlyPublicKey, Tap>(n).ok()).collect();
        let fl: Vec<Miniscript<PublicKey, Tap>> = mk(0).iter().filter_map(|n| to_ms::<PublicKey, Tap>(n).ok()).collect();
        for (n, left) in [(4usize, false), (4, true), (5, false), (5, true)] {
            if xl.len() == 5 { if let Some(t) = comb(&xl, n, left) { if let Ok(d) = Descriptor::new_tr(xonly_key(208), Some(t)) { n_desc += 1; ops_desc(out, &d, thorough); } } }
            if fl.len() == 5 { if let Some(t) = comb(&fl, n, left) { if let Ok(d) = Descriptor::new_tr(full_key(8), Some(t)) { n_desc += 1; ops_desc(out, &d, thorough); } } }
        }
        if fl.len() == 5 {
            if let Ok(d) = Descriptor::<PublicKey>::new_tr(full_key(9), None) { n_desc += 1; ops_desc(out, &d, thorough); }
            if let Ok(d) = Descriptor::new_tr(full_key(1), Some(TapTree::leaf(fl[0].clone()))) { n_desc += 1; ops_desc(out, &d, thorough); }
        } else { out.count("full-key tap leaves not buildable"); }
    }
    // scripts just under the Legacy 520-byte limit: `unc` must be refused although every key is legal
    for n in size_limit_inputs(CtxK::Legacy) {
        if let Ok(ms) = to_ms::<PublicKey, Legacy>(&n) { if let Ok(d) = Descriptor::new_sh(ms) { n_desc += 1; ops_desc(out, &d, thorough); } }
        if let Ok(ms) = to_ms::<PublicKey, Segwitv0>(&n) { if let Ok(d) = Descriptor::new_wsh(ms) { n_desc += 1; ops_desc(out, &d, thorough); } }
        if let Ok(ms) = to_ms::<PublicKey, miniscript::BareCtx>(&n) { if let Ok(d) = Descriptor::new_bare(ms) { n_desc += 1; ops_desc(out, &d, thorough); } }
    }
    out.note("descriptor inputs", n_desc.to_string());
}

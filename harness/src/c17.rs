//! C17: spending plans are faithful to the satisfier and report exact time locks.
//!
//! Definite descriptors (`Descriptor<DefiniteDescriptorKey>`, single keys with and without
//! origin, xpub-derived keys sharing one master fingerprint) x `plan::Assets` (key sources
//! related to the descriptor's keys as exact / parent / grand-parent / child / sibling /
//! other-fingerprint, every `CanSign` shape incl. per-leaf availability, preimage subsets,
//! absolute / relative maximum below / at / above every lock and in the other unit) x
//! {plan, plan_mall}.  The satisfier side (`PSat`) holds REAL signatures over a concrete
//! transaction for exactly the keys the assets make signable *according to the documented
//! meaning of a key source* (re-stated here, not taken from plan.rs).
use std::cell::RefCell;
use std::collections::{BTreeMap, BTreeSet};
use std::str::FromStr;
use std::sync::Arc;

use miniscript::bitcoin::bip32::{ChildNumber, DerivationPath, Fingerprint, Xpriv, Xpub};
use miniscript::bitcoin::hashes::{hash160, ripemd160, sha256, Hash};
use miniscript::bitcoin::key::TapTweak;
use miniscript::bitcoin::script::Instruction;
use miniscript::bitcoin::secp256k1::{self, Message, Secp256k1, SecretKey};
use miniscript::bitcoin::sighash::{EcdsaSighashType, Prevouts, SighashCache, TapSighashType};
use miniscript::bitcoin::taproot::{ControlBlock, LeafVersion, TapLeafHash, TapNodeHash};
use miniscript::bitcoin::psbt::Psbt;
use miniscript::bitcoin::secp256k1::XOnlyPublicKey;
use miniscript::psbt::PsbtExt;
use miniscript::bitcoin::{
    absolute, ecdsa, psbt, relative, taproot, Amount, Network, PublicKey, ScriptBuf, Transaction, TxOut,
};
use miniscript::descriptor::{DescriptorType, TapTree};
use miniscript::miniscript::satisfy::Placeholder;
use miniscript::miniscript::types::Base;
use miniscript::plan::{AssetProvider, Assets as PlanAssets, CanSign, Plan, TaprootAvailableLeaves, TaprootCanSign};
use miniscript::{
    hash256, BareCtx, DefiniteDescriptorKey, Descriptor, Legacy, Miniscript, Satisfier, Segwitv0, Tap,
};

use crate::ast::{self, hex, Atoms, CtxK, Node, HK};
use crate::common::{Out, Rng};
use crate::desc::{self, wit_wire, VALUE};
use crate::msops::{hash_id, rawpkh_id};

fn secp() -> &'static Secp256k1<secp256k1::All> {
    static S: std::sync::OnceLock<Secp256k1<secp256k1::All>> = std::sync::OnceLock::new();
    S.get_or_init(Secp256k1::new)
}

/* ---------------------------------------------------------------- key table */

pub struct KEnt {
    pub id: u32,
    pub def: DefiniteDescriptorKey,
    pub pk: PublicKey,
    pub sk: SecretKey,
    /// fingerprint / full derivation path as CONSTRUCTED (not read back from the library)
    pub fp: Fingerprint,
    pub path: Vec<ChildNumber>,
}

fn own_fp(pk: &PublicKey) -> Fingerprint {
    let h = hash160::Hash::hash(&pk.to_bytes());
    Fingerprint::from([h[0], h[1], h[2], h[3]])
}
fn cn(n: u32, hardened: bool) -> ChildNumber {
    if hardened { ChildNumber::from_hardened_idx(n).unwrap() } else { ChildNumber::from_normal_idx(n).unwrap() }
}
fn path_str(p: &[ChildNumber]) -> String {
    p.iter().map(|c| match c { ChildNumber::Normal { index } => format!("{}", index), ChildNumber::Hardened { index } => format!("{}h", index) })
        .collect::<Vec<_>>().join("/")
}
fn path_wire(p: &[ChildNumber]) -> String {
    if p.is_empty() { "-".into() } else { p.iter().map(|c| u32::from(*c).to_string()).collect::<Vec<_>>().join(",") }
}

/// ids 0..9 compressed / 100..103 uncompressed single keys (id % 3 == 0: origin of depth 3,
/// == 1: origin of depth 1, == 2: NO origin), 300..303 keys derived from one master xprv.
pub fn ktable() -> &'static Vec<KEnt> {
    static T: std::sync::OnceLock<Vec<KEnt>> = std::sync::OnceLock::new();
    T.get_or_init(|| {
        let mut v = vec![];
        for id in (0..10).chain(100..104) {
            let pk = ast::full_key(id);
            let sk = ast::secret(id % 100);
            let i = id % 100;
            let fpb = [0xc1u8, 0x70, (id / 100) as u8, i as u8];
            let (fp, path): (Fingerprint, Vec<ChildNumber>) = match id % 3 {
                2 => (own_fp(&pk), vec![]),
                0 => (Fingerprint::from(fpb), vec![cn(48, true), cn(0, false), cn(i, false)]),
                _ => (Fingerprint::from(fpb), vec![cn(i + 20, false)]),
            };
            let s = if id % 3 == 2 { format!("{}", pk) } else { format!("[{}/{}]{}", fp, path_str(&path), pk) };
            let def = DefiniteDescriptorKey::from_str(&s).expect("definite key");
            v.push(KEnt { id, def, pk, sk, fp, path });
        }
        // one master, account 48h/1h; an xpub WITHOUT origin from another master
        let master = Xpriv::new_master(Network::Bitcoin, &[0x17u8; 32]).unwrap();
        let mfp = master.fingerprint(secp());
        let acc_path = vec![cn(48, true), cn(1, true)];
        let acc = master.derive_priv(secp(), &DerivationPath::from(acc_path.clone())).unwrap();
        let acc_pub = Xpub::from_priv(secp(), &acc);
        let other = Xpriv::new_master(Network::Bitcoin, &[0x71u8; 32]).unwrap();
        let other_pub = Xpub::from_priv(secp(), &other);
        let mut add = |id: u32, origin: bool, base: &Xpriv, base_pub: &Xpub, steps: Vec<ChildNumber>| {
            let child = base.derive_priv(secp(), &DerivationPath::from(steps.clone())).unwrap();
            let sk = child.private_key;
            let pk = PublicKey::new(secp256k1::PublicKey::from_secret_key(secp(), &sk));
            let mut s = String::new();
            let (fp, mut path) = if origin { s.push_str(&format!("[{}/{}]", mfp, path_str(&acc_path))); (mfp, acc_path.clone()) }
                                 else { (base_pub.fingerprint(), vec![]) };
            s.push_str(&base_pub.to_string());
            if !steps.is_empty() { s.push('/'); s.push_str(&path_str(&steps)); }
            path.extend(steps);
            let def = DefiniteDescriptorKey::from_str(&s).expect("definite xpub key");
            v.push(KEnt { id, def, pk, sk, fp, path });
        };
        add(300, true, &acc, &acc_pub, vec![cn(0, false), cn(5, false)]);
        add(301, false, &other, &other_pub, vec![cn(1, false), cn(2, false)]);
        add(302, true, &acc, &acc_pub, vec![cn(0, false), cn(6, false)]);
        add(303, true, &acc, &acc_pub, vec![]);
        add(304, true, &acc, &acc_pub, vec![cn(1, false), cn(5, false)]);
        for e in &v {
            assert_eq!(e.def.master_fingerprint(), e.fp, "fingerprint of {}", e.def);
            assert_eq!(e.def.full_derivation_paths(), vec![DerivationPath::from(e.path.clone())]);
            assert_eq!(miniscript::ToPublicKey::to_public_key(&e.def), e.pk);
        }
        v
    })
}
/// key atoms: 0..9 / 100..103 / 300..303; tap atoms 200+k name the same entry as k
pub fn kent(id: u32) -> &'static KEnt {
    let id = if (200..300).contains(&id) { id - 200 } else { id };
    ktable().iter().find(|e| e.id == id).unwrap_or_else(|| panic!("no key {}", id))
}
fn kent_of(pk: &DefiniteDescriptorKey) -> Option<&'static KEnt> { ktable().iter().find(|e| e.def == *pk) }

impl ast::KeyOf for DefiniteDescriptorKey { fn of(id: u32) -> Self { kent(id).def.clone() } }

/* ---------------------------------------------------------------- assets at test level */

#[derive(Clone, Debug, PartialEq, Eq, PartialOrd, Ord)]
pub enum Leaves { None, Any, Only(Vec<usize>) }

#[derive(Clone, Debug, PartialEq, Eq, PartialOrd, Ord)]
pub struct Src {
    pub fp: Fingerprint,
    pub path: Vec<ChildNumber>,
    pub ecdsa: bool,
    pub key_spend: bool,
    /// indices into the descriptor's leaf list
    pub leaves: Leaves,
    pub sighash_default: bool,
}

#[derive(Clone, Copy, Debug, PartialEq, Eq)]
pub enum Rel { Exact, Parent, Grand, Child, Sibling, OtherFp }

impl Src {
    pub fn of(k: &KEnt, rel: Rel) -> Option<Src> {
        let n = k.path.len();
        let (fp, path) = match rel {
            Rel::Exact => (k.fp, k.path.clone()),
            Rel::Parent => { if n < 1 { return None; } (k.fp, k.path[..n - 1].to_vec()) }
            Rel::Grand => { if n < 2 { return None; } (k.fp, k.path[..n - 2].to_vec()) }
            Rel::Child => { let mut p = k.path.clone(); p.push(cn(7, false)); (k.fp, p) }
            Rel::Sibling => { if n < 1 { return None; } let mut p = k.path[..n - 1].to_vec(); p.push(cn(999, false)); (k.fp, p) }
            Rel::OtherFp => { let b = k.fp.to_bytes(); (Fingerprint::from([b[0], b[1], b[2], b[3] ^ 0x80]), k.path.clone()) }
        };
        Some(Src { fp, path, ecdsa: true, key_spend: true, leaves: Leaves::Any, sighash_default: true })
    }
    /// THE DOCUMENTED MEANING of a key source (plan.rs, `Assets::keys`): "the user can sign
    /// using the key with `fingerprint`, derived with either `derivation_path` or a derivation
    /// path that extends `derivation_path` by exactly one child number".
    pub fn covers(&self, k: &KEnt) -> bool {
        self.fp == k.fp && (self.path == k.path || (k.path.len() == self.path.len() + 1 && k.path[..self.path.len()] == self.path[..]))
    }
    fn leaf_ok(&self, i: Option<usize>) -> bool {
        match (&self.leaves, i) { (Leaves::None, _) => false, (Leaves::Any, _) => true, (Leaves::Only(v), Some(i)) => v.contains(&i), (Leaves::Only(_), None) => false }
    }
}

#[derive(Clone, Debug, Default, PartialEq, Eq, PartialOrd, Ord)]
pub struct PA {
    pub srcs: Vec<Src>,
    pub pre: BTreeSet<(HK, u32)>,
    pub abs: Option<u32>,
    pub rel: Option<u32>,
    /// raw key-hash atoms whose public key is known / for which a signature is available.
    /// `plan::Assets` cannot express these (its `provider_lookup_raw_pkh_*` are the trait
    /// defaults); when non-empty the case is planned through the blanket
    /// `impl AssetProvider for Satisfier` with the `PSat` itself as provider.
    pub rawpk: BTreeSet<u32>,
    pub rawsig: BTreeSet<u32>,
}

impl PA {
    pub fn has_raw(&self) -> bool { !self.rawpk.is_empty() || !self.rawsig.is_empty() }
    pub fn wire(&self) -> String {
        let ks: Vec<String> = self.srcs.iter().map(|s| {
            let lv = match &s.leaves { Leaves::None => "n".into(), Leaves::Any => "*".into(), Leaves::Only(v) => v.iter().map(|i| i.to_string()).collect::<Vec<_>>().join("+") };
            format!("{}/{}:e{}k{}l{}d{}", s.fp, path_wire(&s.path), s.ecdsa as u8, s.key_spend as u8, lv, s.sighash_default as u8)
        }).collect();
        let ps: Vec<String> = self.pre.iter().map(|(k, h)| format!("{}:{}", k.name(), h)).collect();
        let j = |v: Vec<String>| if v.is_empty() { "-".to_string() } else { v.join(",") };
        let base = format!("k={};p={};a={};o={}", j(ks), j(ps), self.abs.map(|x| x.to_string()).unwrap_or("-".into()),
            self.rel.map(|x| x.to_string()).unwrap_or("-".into()));
        if self.has_raw() {
            format!("{};rp={};rs={}", base, j(self.rawpk.iter().map(|x| x.to_string()).collect()), j(self.rawsig.iter().map(|x| x.to_string()).collect()))
        } else { base }
    }
    pub fn to_assets(&self, leaves: &[TapLeafHash]) -> PlanAssets {
        let mut a = PlanAssets::new();
        for s in &self.srcs {
            let script_spend = match &s.leaves {
                Leaves::None => TaprootAvailableLeaves::None,
                Leaves::Any => TaprootAvailableLeaves::Any,
                Leaves::Only(v) if v.len() == 1 => TaprootAvailableLeaves::Single(leaves.get(v[0]).cloned().unwrap_or(TapLeafHash::all_zeros())),
                Leaves::Only(v) => TaprootAvailableLeaves::Many(v.iter().map(|i| leaves.get(*i).cloned().unwrap_or(TapLeafHash::all_zeros())).collect()),
            };
            let can = CanSign { ecdsa: s.ecdsa, taproot: TaprootCanSign { key_spend: s.key_spend, script_spend, sighash_default: s.sighash_default } };
            a.keys.insert(((s.fp, DerivationPath::from(s.path.clone())), can));
        }
        for (k, h) in &self.pre {
            let v = ast::hash_value(*k, *h);
            match k {
                HK::Sha256 => { a.sha256_preimages.insert(sha256::Hash::from_slice(&v).unwrap()); }
                HK::Hash256 => { a.hash256_preimages.insert(hash256::Hash::from_slice(&v).unwrap()); }
                HK::Ripemd160 => { a.ripemd160_preimages.insert(ripemd160::Hash::from_slice(&v).unwrap()); }
                HK::Hash160 => { a.hash160_preimages.insert(hash160::Hash::from_slice(&v).unwrap()); }
            }
        }
        a.absolute_timelock = self.abs.map(absolute::LockTime::from_consensus);
        a.relative_timelock = self.rel.and_then(|r| relative::LockTime::from_consensus(r).ok());
        a
    }
}

impl PA {
    /// R4: the same assets assembled piece by piece through the builder API, in ANOTHER order
    /// (locks first, then the hashes, then one key source at a time, last to first)
    pub fn to_assets_incremental(&self, leaves: &[TapLeafHash]) -> PlanAssets {
        let whole = self.to_assets(leaves);
        let mut a = PlanAssets::new();
        if let Some(l) = whole.absolute_timelock { a = a.after(l); }
        if let Some(l) = whole.relative_timelock { a = a.older(l); }
        for h in whole.hash160_preimages.iter().rev() { a = a.add(*h); }
        for h in whole.ripemd160_preimages.iter().rev() { a = a.add(*h); }
        for h in whole.hash256_preimages.iter().rev() { a = a.add(*h); }
        for h in whole.sha256_preimages.iter().rev() { a = a.add(*h); }
        for k in whole.keys.iter().rev() {
            a = a.add(PlanAssets { keys: vec![k.clone()].into_iter().collect(), ..Default::default() });
        }
        a
    }
}

/// BIP65: does nLockTime = lt satisfy `after(n)`?   (independent of the library)
fn after_ok(lt: u32, n: u32) -> bool { (lt < 500_000_000) == (n < 500_000_000) && n <= lt }
/// BIP112: does nSequence = sq satisfy `older(n)`?
fn older_ok(sq: u32, n: u32) -> bool {
    sq & (1 << 31) == 0 && (sq & (1 << 22)) == (n & (1 << 22)) && (n & 0xffff) <= (sq & 0xffff)
}

/* ---------------------------------------------------------------- descriptors */

pub struct DD {
    pub desc: Descriptor<DefiniteDescriptorKey>,
    pub name: String,
    pub keys: Vec<u32>,
    pub hashes: Vec<(HK, u32)>,
    pub afters: Vec<u32>,
    pub olders: Vec<u32>,
    pub leaves: Vec<TapLeafHash>,
    /// taproot: internal key atom and, per leaf, the key atoms of that leaf
    pub internal: Option<u32>,
    pub leaf_keys: Vec<Vec<u32>>,
    pub rawpkhs: Vec<u32>,
    /// every miniscript passes `check_global_validity` + `validate(&Ctx::CONSENSUS)` (what the PSBT finalizer's `decode_consensus` insists on)
    pub sane: bool,
}

fn raws(nodes: &[&Node]) -> Vec<u32> { let mut v = vec![]; for n in nodes { n.rawpkhs(&mut v); } v.sort(); v.dedup(); v }

#[derive(Clone, Copy, Debug, PartialEq, Eq)]
pub enum Wrap { Wsh, ShWsh, Sh, Bare, Pkh, Wpkh, ShWpkh }

fn collect(nodes: &[&Node]) -> (Vec<u32>, Vec<(HK, u32)>, Vec<u32>, Vec<u32>) {
    let (mut ks, mut hs, mut af, mut ol) = (vec![], vec![], vec![], vec![]);
    for n in nodes { n.keys(&mut ks); n.hashes(&mut hs); n.locks(&mut af, &mut ol); }
    let norm = |k: u32| if (200..300).contains(&k) { k - 200 } else { k };
    let mut ks: Vec<u32> = ks.into_iter().map(norm).collect();
    ks.sort(); ks.dedup(); hs.sort(); hs.dedup(); af.sort(); af.dedup(); ol.sort(); ol.dedup();
    (ks, hs, af, ol)
}

pub fn dd_ms(wrap: Wrap, node: &Node) -> Option<DD> {
    type K = DefiniteDescriptorKey;
    use miniscript::ScriptContext;
    let (desc, sane) = match wrap {
        Wrap::Wsh => { let ms = ast::to_ms::<K, Segwitv0>(node).ok()?; let s = (Segwitv0::check_global_validity(&ms).is_ok() && ms.validate(&Segwitv0::CONSENSUS).is_ok()); (Descriptor::new_wsh(ms).ok()?, s) }
        Wrap::ShWsh => { let ms = ast::to_ms::<K, Segwitv0>(node).ok()?; let s = (Segwitv0::check_global_validity(&ms).is_ok() && ms.validate(&Segwitv0::CONSENSUS).is_ok()); (Descriptor::new_sh_wsh(ms).ok()?, s) }
        Wrap::Sh => { let ms = ast::to_ms::<K, Legacy>(node).ok()?; let s = (Legacy::check_global_validity(&ms).is_ok() && ms.validate(&Legacy::CONSENSUS).is_ok()); (Descriptor::new_sh(ms).ok()?, s) }
        Wrap::Bare => { let ms = ast::to_ms::<K, BareCtx>(node).ok()?; let s = (BareCtx::check_global_validity(&ms).is_ok() && ms.validate(&BareCtx::CONSENSUS).is_ok()); (Descriptor::new_bare(ms).ok()?, s) }
        _ => return None,
    };
    let (keys, hashes, afters, olders) = collect(&[node]);
    Some(DD { name: desc.to_string().split('#').next().unwrap().to_string(), desc, keys, hashes, afters, olders, leaves: vec![], internal: None, leaf_keys: vec![], rawpkhs: raws(&[node]), sane })
}
pub fn dd_key(wrap: Wrap, key: u32) -> Option<DD> {
    let k = kent(key).def.clone();
    let desc = match wrap {
        Wrap::Pkh => Descriptor::new_pkh(k).ok()?,
        Wrap::Wpkh => Descriptor::new_wpkh(k).ok()?,
        Wrap::ShWpkh => Descriptor::new_sh_wpkh(k).ok()?,
        _ => return None,
    };
    Some(DD { name: desc.to_string().split('#').next().unwrap().to_string(), desc, keys: vec![key], hashes: vec![], afters: vec![], olders: vec![], leaves: vec![], internal: None, leaf_keys: vec![], rawpkhs: vec![], sane: true })
}
/// tr(internal, leaves as a left-leaning comb)
#[derive(Clone, Copy, Debug, PartialEq, Eq)]
pub enum Shape { Left, Right, Balanced }

fn build_tree(leaves: &[TapTree<DefiniteDescriptorKey>], shape: Shape) -> Option<TapTree<DefiniteDescriptorKey>> {
    match leaves.len() {
        0 => None,
        1 => Some(leaves[0].clone()),
        n => match shape {
            Shape::Left => TapTree::combine(build_tree(&leaves[..n - 1], shape)?, leaves[n - 1].clone()).ok(),
            Shape::Right => TapTree::combine(leaves[0].clone(), build_tree(&leaves[1..], shape)?).ok(),
            Shape::Balanced => TapTree::combine(build_tree(&leaves[..n / 2], shape)?, build_tree(&leaves[n / 2..], shape)?).ok(),
        },
    }
}

pub fn dd_tr(internal: u32, leaf_nodes: &[Node]) -> Option<DD> { dd_tr_shape(internal, leaf_nodes, Shape::Left) }

/// tr(internal, leaves in the given order as a left comb / right comb / balanced tree)
pub fn dd_tr_shape(internal: u32, leaf_nodes: &[Node], shape: Shape) -> Option<DD> {
    type K = DefiniteDescriptorKey;
    let mut lhs = vec![];
    let mut sane = true;
    let mut tl = vec![];
    for n in leaf_nodes {
        use miniscript::ScriptContext;
        let ms: Miniscript<K, Tap> = ast::to_ms(n).ok()?;
        sane &= Tap::check_global_validity(&ms).is_ok() && ms.validate(&Tap::CONSENSUS).is_ok();
        lhs.push(TapLeafHash::from_script(&ms.encode(), miniscript::bitcoin::taproot::LeafVersion::TapScript));
        tl.push(TapTree::leaf(Arc::new(ms)));
    }
    let tree = if tl.is_empty() { None } else { Some(build_tree(&tl, shape)?) };
    let desc = Descriptor::new_tr(kent(internal).def.clone(), tree).ok()?;
    let refs: Vec<&Node> = leaf_nodes.iter().collect();
    let (mut keys, hashes, afters, olders) = collect(&refs);
    let leaf_keys = leaf_nodes.iter().map(|n| collect(&[n]).0).collect();
    if !keys.contains(&internal) { keys.push(internal); }
    Some(DD { name: desc.to_string().split('#').next().unwrap().to_string(), desc, keys, hashes, afters, olders, leaves: lhs, internal: Some(internal), leaf_keys, rawpkhs: raws(&refs), sane })
}

/* ---------------------------------------------------------------- the satisfier with real signatures */

pub struct PSat<'a> {
    pub pa: &'a PA,
    pub dd: &'a DD,
    pub tx: Transaction,
    pub prevout: TxOut,
    code: Option<(ScriptBuf, bool)>,
    tap_root: Option<Option<TapNodeHash>>,
    pub issued: RefCell<Vec<(Vec<u8>, Vec<u8>)>>,
    pub tap_key_sig: RefCell<Option<Vec<u8>>>,
    /// everything handed out, typed (for the PSBT checks)
    pub log: RefCell<Vec<Given>>,
}

#[derive(Clone, Debug)]
pub enum Given {
    Ecdsa { key: u32, pk: PublicKey, sig: ecdsa::Signature },
    RawEcdsa { pk: PublicKey, sig: ecdsa::Signature },
    TapKey { sig: taproot::Signature },
    TapLeaf { key: Option<u32>, x: XOnlyPublicKey, leaf: TapLeafHash, sig: taproot::Signature },
    Pre { kind: HK, id: u32 },
}

// Signing is deterministic (RFC 6979 / fixed auxiliary randomness): signatures are memoised per
// (digest, secret key, tweak kind); the digest commits to the transaction and the spent output.
thread_local! {
    static ECDSA_SIGS: RefCell<std::collections::HashMap<([u8; 32], [u8; 32]), secp256k1::ecdsa::Signature>> = RefCell::new(Default::default());
    static SCHNORR_SIGS: RefCell<std::collections::HashMap<([u8; 32], [u8; 32], bool), secp256k1::schnorr::Signature>> = RefCell::new(Default::default());
}
thread_local! { static PSAT_LAST: RefCell<Option<(String, (ScriptBuf, Option<(ScriptBuf, bool)>, Option<Option<TapNodeHash>>))>> = RefCell::new(None); }
fn ecdsa_cached(digest: [u8; 32], sk: &SecretKey) -> secp256k1::ecdsa::Signature {
    ECDSA_SIGS.with(|m| *m.borrow_mut().entry((digest, sk.secret_bytes())).or_insert_with(|| secp().sign_ecdsa(&Message::from_digest(digest), sk)))
}
/// `tweak`: Some(merkle root) for the key path (the output key's secret signs)
fn schnorr_cached(digest: [u8; 32], sk: &SecretKey, tweak: Option<Option<TapNodeHash>>) -> secp256k1::schnorr::Signature {
    SCHNORR_SIGS.with(|m| *m.borrow_mut().entry((digest, sk.secret_bytes(), tweak.is_some())).or_insert_with(|| {
        let kp = secp256k1::Keypair::from_secret_key(secp(), sk);
        let kp = match tweak { Some(root) => kp.tap_tweak(secp(), root).to_inner(), None => kp };
        secp().sign_schnorr_with_aux_rand(&Message::from_digest(digest), &kp, &[9u8; 32])
    }))
}

impl<'a> PSat<'a> {
    pub fn new(dd: &'a DD, pa: &'a PA, lt: u32, sq: u32) -> PSat<'a> {
        let tx = desc::make_tx(lt, sq);
        // consecutive satisfiers are for the same descriptor: its output data is computed once
        let (spk, code, tap_root) = PSAT_LAST.with(|c| {
            let mut c = c.borrow_mut();
            if c.as_ref().map(|(n, _)| *n != dd.name).unwrap_or(true) {
                let segwit = matches!(dd.desc.desc_type(), DescriptorType::Wsh | DescriptorType::ShWsh | DescriptorType::Wpkh | DescriptorType::ShWpkh);
                let code = dd.desc.script_code().ok().map(|c| (c, segwit));
                let tap_root = match &dd.desc { Descriptor::Tr(tr) => Some(tr.spend_info().merkle_root()), _ => None };
                *c = Some((dd.name.clone(), (dd.desc.script_pubkey(), code, tap_root)));
            }
            c.as_ref().unwrap().1.clone()
        });
        let prevout = TxOut { value: Amount::from_sat(VALUE), script_pubkey: spk };
        PSat { pa, dd, tx, prevout, code, tap_root, issued: Default::default(), tap_key_sig: Default::default(), log: Default::default() }
    }
    fn leaf_index(&self, lh: &TapLeafHash) -> Option<usize> { self.dd.leaves.iter().position(|l| l == lh) }
    fn ecdsa_over_code(&self, sk: &SecretKey) -> Option<ecdsa::Signature> {
        let (sc, segwit) = self.code.as_ref()?;
        let mut cache = SighashCache::new(&self.tx);
        let digest: [u8; 32] = if *segwit {
            cache.p2wsh_signature_hash(0, sc, self.prevout.value, EcdsaSighashType::All).ok()?.to_byte_array()
        } else {
            cache.legacy_signature_hash(0, sc, EcdsaSighashType::All.to_u32()).ok()?.to_byte_array()
        };
        let sig = ecdsa_cached(digest, sk);
        Some(ecdsa::Signature { signature: sig, sighash_type: EcdsaSighashType::All })
    }
    fn pre(&self, kind: HK, v: &[u8]) -> Option<[u8; 32]> {
        let id = hash_id(kind, v)?;
        if self.pa.pre.contains(&(kind, id)) { self.log.borrow_mut().push(Given::Pre { kind, id }); Some(ast::preimage(id)) } else { None }
    }
}

impl<'a> Satisfier<DefiniteDescriptorKey> for PSat<'a> {
    fn lookup_ecdsa_sig(&self, pk: &DefiniteDescriptorKey) -> Option<ecdsa::Signature> {
        let k = kent_of(pk)?;
        if !self.pa.srcs.iter().any(|s| s.ecdsa && s.covers(k)) { return None; }
        let s = self.ecdsa_over_code(&k.sk)?;
        self.issued.borrow_mut().push((k.pk.to_bytes(), s.to_vec()));
        self.log.borrow_mut().push(Given::Ecdsa { key: k.id, pk: k.pk, sig: s });
        Some(s)
    }
    fn lookup_raw_pkh_pk(&self, h: &hash160::Hash) -> Option<PublicKey> {
        let id = rawpkh_id(h)?;
        if id < 200 && self.pa.rawpk.contains(&id) { Some(ast::full_key(id)) } else { None }
    }
    fn lookup_raw_pkh_x_only_pk(&self, h: &hash160::Hash) -> Option<XOnlyPublicKey> {
        let id = rawpkh_id(h)?;
        if id >= 200 && self.pa.rawpk.contains(&id) { Some(ast::xonly_key(id)) } else { None }
    }
    fn lookup_raw_pkh_ecdsa_sig(&self, h: &hash160::Hash) -> Option<(PublicKey, ecdsa::Signature)> {
        let id = rawpkh_id(h)?;
        if !(id < 200 && self.pa.rawsig.contains(&id)) { return None; }
        let pk = ast::full_key(id);
        let s = self.ecdsa_over_code(&ast::secret(id % 100))?;
        self.issued.borrow_mut().push((pk.to_bytes(), s.to_vec()));
        self.log.borrow_mut().push(Given::RawEcdsa { pk, sig: s });
        Some((pk, s))
    }
    fn lookup_raw_pkh_tap_leaf_script_sig(&self, h: &(hash160::Hash, TapLeafHash)) -> Option<(XOnlyPublicKey, taproot::Signature)> {
        let id = rawpkh_id(&h.0)?;
        if !(id >= 200 && self.pa.rawsig.contains(&id)) { return None; }
        let x = ast::xonly_key(id);
        let mut cache = SighashCache::new(&self.tx);
        let digest = cache.taproot_script_spend_signature_hash(0, &Prevouts::All(&[self.prevout.clone()]), h.1, TapSighashType::Default).ok()?;
        let sig = schnorr_cached(digest.to_byte_array(), &ast::secret(id % 100), None);
        let s = taproot::Signature { signature: sig, sighash_type: TapSighashType::Default };
        self.issued.borrow_mut().push((x.serialize().to_vec(), s.to_vec()));
        self.log.borrow_mut().push(Given::TapLeaf { key: None, x, leaf: h.1, sig: s });
        Some((x, s))
    }
    fn lookup_tap_key_spend_sig(&self, pk: &DefiniteDescriptorKey) -> Option<taproot::Signature> {
        let k = kent_of(pk)?;
        let src = self.pa.srcs.iter().find(|s| s.key_spend && s.covers(k))?;
        let root = self.tap_root?;
        let ty = if src.sighash_default { TapSighashType::Default } else { TapSighashType::All };
        let mut cache = SighashCache::new(&self.tx);
        let digest = cache.taproot_key_spend_signature_hash(0, &Prevouts::All(&[self.prevout.clone()]), ty).ok()?;
        let sig = schnorr_cached(digest.to_byte_array(), &k.sk, Some(root));
        let s = taproot::Signature { signature: sig, sighash_type: ty };
        *self.tap_key_sig.borrow_mut() = Some(s.to_vec());
        self.log.borrow_mut().push(Given::TapKey { sig: s });
        Some(s)
    }
    fn lookup_tap_leaf_script_sig(&self, pk: &DefiniteDescriptorKey, leaf: &TapLeafHash) -> Option<taproot::Signature> {
        let k = kent_of(pk)?;
        let li = self.leaf_index(leaf);
        let src = self.pa.srcs.iter().find(|s| s.leaf_ok(li) && s.covers(k))?;
        let ty = if src.sighash_default { TapSighashType::Default } else { TapSighashType::All };
        let mut cache = SighashCache::new(&self.tx);
        let digest = cache.taproot_script_spend_signature_hash(0, &Prevouts::All(&[self.prevout.clone()]), *leaf, ty).ok()?;
        let sig = schnorr_cached(digest.to_byte_array(), &k.sk, None);
        let s = taproot::Signature { signature: sig, sighash_type: ty };
        self.issued.borrow_mut().push((k.pk.inner.x_only_public_key().0.serialize().to_vec(), s.to_vec()));
        self.log.borrow_mut().push(Given::TapLeaf { key: Some(k.id), x: k.pk.inner.x_only_public_key().0, leaf: *leaf, sig: s });
        Some(s)
    }
    fn lookup_sha256(&self, h: &sha256::Hash) -> Option<[u8; 32]> { self.pre(HK::Sha256, h.as_byte_array()) }
    fn lookup_hash256(&self, h: &hash256::Hash) -> Option<[u8; 32]> { self.pre(HK::Hash256, h.as_byte_array()) }
    fn lookup_ripemd160(&self, h: &ripemd160::Hash) -> Option<[u8; 32]> { self.pre(HK::Ripemd160, h.as_byte_array()) }
    fn lookup_hash160(&self, h: &hash160::Hash) -> Option<[u8; 32]> { self.pre(HK::Hash160, h.as_byte_array()) }
    fn check_older(&self, n: relative::LockTime) -> bool {
        match self.pa.rel { Some(r) => older_ok(r, n.to_consensus_u32()), None => false }
    }
    fn check_after(&self, n: absolute::LockTime) -> bool {
        match self.pa.abs { Some(a) => after_ok(a, n.to_consensus_u32()), None => false }
    }
}

/* ---------------------------------------------------------------- helpers */

fn varint(n: usize) -> usize { if n < 0xfd { 1 } else if n <= 0xffff { 3 } else if n <= 0xffff_ffff { 5 } else { 9 } }
fn measured_witness(w: &[Vec<u8>]) -> usize {
    if w.is_empty() { 0 } else { varint(w.len()) + w.iter().map(|e| varint(e.len()) + e.len()).sum::<usize>() }
}
fn measured_scriptsig(s: &ScriptBuf) -> usize { varint(s.len()) + s.len() }

/// items pushed by a push-only script, in order
fn pushed_items(s: &ScriptBuf) -> Option<Vec<Vec<u8>>> {
    let mut v = vec![];
    for ins in s.instructions() {
        match ins.ok()? {
            Instruction::PushBytes(b) => v.push(b.as_bytes().to_vec()),
            Instruction::Op(op) => {
                let c = op.to_u8();
                if (0x51..=0x60).contains(&c) { v.push(vec![c - 0x50]) } else if c == 0x4f { v.push(vec![0x81]) } else { return None; }
            }
        }
    }
    Some(v)
}
fn ph_wire(p: &Placeholder<DefiniteDescriptorKey>) -> String {
    use Placeholder::*;
    match p {
        Pubkey(_, s) => format!("pk:{}", s),
        PubkeyHash(_, s) => format!("pkh:{}", s),
        EcdsaSigPk(_) | EcdsaSigPkHash(_) => "sig".into(),
        SchnorrSigPk(_, _, s) | SchnorrSigPkHash(_, _, s) => format!("ssig:{}", s),
        Sha256Preimage(_) | Hash256Preimage(_) | Ripemd160Preimage(_) | Hash160Preimage(_) => "pre".into(),
        HashDissatisfaction => "z32".into(),
        PushOne => "1".into(),
        PushZero => "0".into(),
        TapScript(s) => format!("ts:{}", s.len()),
        TapControlBlock(cb) => format!("cb:{}", cb.serialize().len()),
    }
}

fn ty_name(t: DescriptorType) -> &'static str {
    match t {
        DescriptorType::Bare => "bare", DescriptorType::Pkh => "pkh", DescriptorType::Sh => "sh",
        DescriptorType::Wpkh => "wpkh", DescriptorType::ShWpkh => "shwpkh", DescriptorType::Wsh => "wsh",
        DescriptorType::ShWsh => "shwsh", DescriptorType::Tr => "tr",
        _ => "other",
    }
}

thread_local! { static RAW_BUDGET: RefCell<BTreeMap<String, u32>> = RefCell::new(BTreeMap::new()); }
/// The raw `J sizes` lines of the classes with a recorded (unfixed) finding — `wsh.*`,
/// `shwsh.*` (witness script not counted), `shwpkh.*` / `shwsh.*` (scriptSig 23 / 35 vs 24 / 36)
/// — are emitted for the first 25 cases of each tag only: every case of these classes is still
/// judged by its `J sizes-adj` line, and `bin/check` looks at the first 1000 judge failures only.
fn raw_budget(op: &str, tag: &str) -> bool {
    let known = match op {
        "sizes" => tag.starts_with("wsh.") || tag.starts_with("shwsh.") || tag.starts_with("shwpkh."),
        _ => false,
    };
    if !known { return true; }
    RAW_BUDGET.with(|b| { let mut b = b.borrow_mut(); let c = b.entry(format!("{} {}", op, tag)).or_insert(0); *c += 1; *c <= 25 })
}

fn catch<T>(f: impl FnOnce() -> T) -> Option<T> { std::panic::catch_unwind(std::panic::AssertUnwindSafe(f)).ok() }

type DPlan = Plan<DefiniteDescriptorKey>;
type DDesc = Descriptor<DefiniteDescriptorKey>;

/// `into_plan` / `into_plan_mall` (or the deprecated `plan` / `plan_mall`) with any provider;
/// `None` = panic
#[allow(deprecated)]
fn run_plan<Pr: AssetProvider<DefiniteDescriptorKey>>(dd: &DD, pr: &Pr, mall: bool, deprecated: bool) -> Option<Result<DPlan, DDesc>> {
    catch(|| match (mall, deprecated) {
        (false, false) => dd.desc.clone().into_plan(pr),
        (true, false) => dd.desc.clone().into_plan_mall(pr),
        (false, true) => dd.desc.clone().plan(pr),
        (true, true) => dd.desc.clone().plan_mall(pr),
    })
}

/// template with key / hash identities, for comparing two plans of the same descriptor
fn ph_id_wire(dd: &DD, p: &Placeholder<DefiniteDescriptorKey>) -> String {
    use miniscript::miniscript::satisfy::SchnorrSigType;
    use Placeholder::*;
    let kid = |k: &DefiniteDescriptorKey| kent_of(k).map(|e| e.id.to_string()).unwrap_or("?".into());
    let rid = |h: &hash160::Hash| rawpkh_id(h).map(|i| i.to_string()).unwrap_or("?".into());
    let lid = |l: &TapLeafHash| dd.leaves.iter().position(|x| x == l).map(|i| i.to_string()).unwrap_or("?".into());
    match p {
        Pubkey(k, s) => format!("pk{}:{}", kid(k), s),
        PubkeyHash(h, s) => format!("pkh{}:{}", rid(h), s),
        EcdsaSigPk(k) => format!("sig{}", kid(k)),
        EcdsaSigPkHash(h) => format!("sigh{}", rid(h)),
        SchnorrSigPk(k, SchnorrSigType::KeySpend { .. }, s) => format!("ssig{}:key:{}", kid(k), s),
        SchnorrSigPk(k, SchnorrSigType::ScriptSpend { leaf_hash }, s) => format!("ssig{}:l{}:{}", kid(k), lid(leaf_hash), s),
        SchnorrSigPkHash(h, l, s) => format!("ssigh{}:l{}:{}", rid(h), lid(l), s),
        Sha256Preimage(h) => format!("pre:sha256:{}", hash_id(HK::Sha256, h.as_byte_array()).map(|i| i.to_string()).unwrap_or("?".into())),
        Hash256Preimage(h) => format!("pre:hash256:{}", hash_id(HK::Hash256, h.as_byte_array()).map(|i| i.to_string()).unwrap_or("?".into())),
        Ripemd160Preimage(h) => format!("pre:ripemd160:{}", hash_id(HK::Ripemd160, h.as_byte_array()).map(|i| i.to_string()).unwrap_or("?".into())),
        Hash160Preimage(h) => format!("pre:hash160:{}", hash_id(HK::Hash160, h.as_byte_array()).map(|i| i.to_string()).unwrap_or("?".into())),
        HashDissatisfaction => "z32".into(),
        PushOne => "1".into(),
        PushZero => "0".into(),
        TapScript(sc) => format!("ts:{}", hex(sc.as_bytes())),
        TapControlBlock(cb) => format!("cb:{}", hex(&cb.serialize())),
    }
}
fn plan_desc<Pr: AssetProvider<DefiniteDescriptorKey>>(d: DDesc, pr: &Pr, mall: bool) -> Option<Result<DPlan, DDesc>> {
    catch(|| if mall { d.into_plan_mall(pr) } else { d.into_plan(pr) })
}
/// everything a caller can observe of a plan: template, locks, the three sizes
fn plan_sig(dd: &DD, p: &Option<DPlan>) -> String {
    match p {
        None => "none".into(),
        Some(p) => {
            let t: Vec<String> = p.witness_template().iter().map(|x| ph_id_wire(dd, x)).collect();
            format!("[{}]|a={}|r={}|{}/{}/{}", t.join(","),
                p.absolute_timelock.map(|l| l.to_consensus_u32().to_string()).unwrap_or("-".into()),
                p.relative_timelock.map(|l| l.to_consensus_u32().to_string()).unwrap_or("-".into()),
                p.witness_size(), p.scriptsig_size(), p.satisfaction_weight())
        }
    }
}

/// Does any key of the descriptor have an EMPTY derivation path while a source with the same
/// fingerprint has a different path?  (the class that panicked before the F7 fix)
fn f7_class(dd: &DD, pa: &PA) -> bool {
    dd.keys.iter().any(|k| { let k = kent(*k); k.path.is_empty() && pa.srcs.iter().any(|s| s.fp == k.fp && !s.path.is_empty()) })
}

pub struct Stats { pub plans: u64, pub noplans: u64 }

/// all checks for one (descriptor, assets, mode)
pub fn check_case(out: &mut Out, dd: &DD, pa: &PA, mall: bool, adversarial: bool) {
    check_case_api(out, dd, pa, None, mall, adversarial)
}

/// `api`: an `Assets` value built through the library's own construction API (label, value)
/// whose documented meaning is `pa`; everything is then planned with THAT value and judged
/// against the satisfier that embodies `pa`.
pub fn check_case_api(out: &mut Out, dd: &DD, pa: &PA, api: Option<(&str, &PlanAssets)>, mall: bool, adversarial: bool) {
    let mode = if mall { "mall" } else { "nonmall" };
    let assets = match api { Some((_, a)) => a.clone(), None => pa.to_assets(&dd.leaves) };
    let aw = match api { Some((l, _)) => format!("api:{};{}", l, pa.wire()), None => pa.wire() };
    let ty = dd.desc.desc_type();
    let class = if f7_class(dd, pa) { "emptypath" } else { "reg" };
    // (f) into_plan / into_plan_mall must not panic.  Cases with raw key-hash assets are planned
    // through the blanket `impl AssetProvider for Satisfier` (plan::Assets cannot express them).
    let psat0 = PSat::new(dd, pa, 0, 0xffff_fffe);
    let via_sat = pa.has_raw();
    let res = if via_sat { run_plan(dd, &psat0, mall, false) } else { run_plan(dd, &assets, mall, false) };
    let plan = match res {
        None => { out.line(&format!("J nopanic plan {}.{} {} {} {} PANIC", class, ty_name(ty), mode, dd.name, aw), "ok"); return; }
        Some(r) => {
            if adversarial { out.line(&format!("J nopanic plan {}.{} {} {} {} OK", class, ty_name(ty), mode, dd.name, aw), "ok"); }
            match r {
                Ok(p) => Some(p),
                Err(d) => {
                    // `Err` hands the ORIGINAL descriptor back
                    out.line(&format!("J planerr-desc {} {} {} {} eq={}", mode, aw, dd.desc, d, (d == dd.desc) as u8), "ok");
                    None
                }
            }
        }
    };
    // the deprecated `plan` / `plan_mall` are aliases
    let dep = if via_sat { run_plan(dd, &psat0, mall, true) } else { run_plan(dd, &assets, mall, true) };
    match dep {
        None => { out.line(&format!("J nopanic plan-deprecated {}.{} {} {} {} PANIC", class, ty_name(ty), mode, dd.name, aw), "ok"); }
        Some(d) => out.line(&format!("J plan-alias {} {} {} {} {} {}", ty_name(ty), mode, dd.name, aw, plan_sig(dd, &plan), plan_sig(dd, &d.ok())), "ok"),
    }
    // the same assets offered through `impl AssetProvider for Satisfier` (the satisfier signs for
    // exactly the keys the assets cover) must give the same plan
    if !via_sat {
        match run_plan(dd, &psat0, mall, false) {
            None => { out.line(&format!("J nopanic plan-via-satisfier {}.{} {} {} {} PANIC", class, ty_name(ty), mode, dd.name, aw), "ok"); }
            Some(r) => out.line(&format!("J plan-provider-same {} {} {} {} {} {}", ty_name(ty), mode, dd.name, aw, plan_sig(dd, &plan), plan_sig(dd, &r.ok())), "ok"),
        }
    }
    // R4 used objects.  `dd.desc` has its taproot spend-info cache filled (and `clone` carries
    // the cache along): the same descriptor REBUILT from its parts, never used, must plan alike
    if let Descriptor::Tr(tr) = &dd.desc {
        if let Ok(f) = miniscript::descriptor::Tr::new(tr.internal_key().clone(), tr.tap_tree().cloned()) {
            let r = if via_sat { plan_desc(Descriptor::Tr(f), &psat0, mall) } else { plan_desc(Descriptor::Tr(f), &assets, mall) };
            match r {
                None => { out.line(&format!("J nopanic plan-fresh {}.{} {} {} {} PANIC", class, ty_name(ty), mode, dd.name, aw), "ok"); }
                Some(r) => out.line(&format!("J plan-fresh-same {} {} {} {} {} {}", ty_name(ty), mode, dd.name, aw, plan_sig(dd, &plan), plan_sig(dd, &r.ok())), "ok"),
            }
        }
    }
    // R4 Assets assembled through the builder piece by piece, in another order
    if api.is_none() && !via_sat {
        let inc = pa.to_assets_incremental(&dd.leaves);
        if inc != assets { out.count("observation: Assets built incrementally compare unequal to the same Assets built at once"); }
        match run_plan(dd, &inc, mall, false) {
            None => { out.line(&format!("J nopanic plan-incremental-assets {}.{} {} {} {} PANIC", class, ty_name(ty), mode, dd.name, aw), "ok"); }
            Some(r) => out.line(&format!("J plan-assets-order-same {} {} {} {} {} {}", ty_name(ty), mode, dd.name, aw, plan_sig(dd, &plan), plan_sig(dd, &r.ok())), "ok"),
        }
    }
    // transaction fields: the plan's reported locks (else the assets' maxima)
    let (lt, sq) = match &plan {
        Some(p) => (p.absolute_timelock.map(|l| l.to_consensus_u32()).unwrap_or(0),
                    p.relative_timelock.map(|l| l.to_consensus_u32()).unwrap_or(0xffff_fffe)),
        None => (pa.abs.unwrap_or(0), pa.rel.unwrap_or(0xffff_fffe)),
    };
    let psat = PSat::new(dd, pa, lt, sq);
    let sat = match catch(|| if mall { dd.desc.get_satisfaction_mall(&psat).ok() } else { dd.desc.get_satisfaction(&psat).ok() }) {
        None => { out.line(&format!("J nopanic get_satisfaction {}.{} {} {} {} PANIC", class, ty_name(ty), mode, dd.name, aw), "ok"); return; }
        Some(s) => s,
    };
    let sn = |b: bool| if b { "some" } else { "none" };
    // tag: descriptor type (+ key / script path for taproot)
    let keypath = plan.as_ref().map(|p| p.witness_template().len() == 1 && ty == DescriptorType::Tr).unwrap_or(false);
    let tag = format!("{}.{}", ty_name(ty), if ty == DescriptorType::Tr { if keypath { "key" } else { "script" } }
        else { "std" });
    let head = format!("{} {} {} {}", tag, mode, dd.name, aw);
    // (a) plan exists <=> the satisfier succeeds
    out.line(&format!("J plan-iff-sat {} {} {}", head, sn(plan.is_some()), sn(sat.is_some())), "ok");
    out.count(&format!("case {} plan={} sat={}", ty_name(ty), sn(plan.is_some()), sn(sat.is_some())));
    let plan = match plan {
        Some(p) => p,
        None => { if ty == DescriptorType::Tr && dd.leaves.len() >= 2 && !via_sat { tr_choice(out, dd, pa, None, mall, &head); } return; }
    };
    // model of the size formulas
    let tmpl: Vec<String> = plan.witness_template().iter().map(ph_wire).collect();
    let tw = if tmpl.is_empty() { "-".to_string() } else { tmpl.join(",") };
    let script_len = dd.desc.explicit_script().map(|s| s.len()).unwrap_or(0);
    out.line(&format!("C plansize {} {} {}", ty_name(ty), tw, script_len),
        &format!("{} {} {}", plan.witness_size(), plan.scriptsig_size(), plan.satisfaction_weight()));
    // complete the plan with the same satisfier
    let plan_copy = plan.clone();
    let psat_p = PSat::new(dd, pa, lt, sq);
    let done = match catch(|| plan.satisfy(&psat_p).ok()) {
        None => { out.line(&format!("J nopanic plan-satisfy {}.{} {} {} {} PANIC", class, ty_name(ty), mode, dd.name, aw), "ok"); return; }
        Some(d) => d,
    };
    let (pwit, pss) = match done {
        Some(x) => x,
        None => { out.line(&format!("J plan-same {} planerr - {} -", head, if sat.is_some() { "some" } else { "none" }), "ok"); return; }
    };
    // (b) byte equality with the satisfier's output
    if let Some((swit, sss)) = &sat {
        out.line(&format!("J plan-same {} {} {} {} {}", head, wit_wire(&pwit), hex(pss.as_bytes()), wit_wire(swit), hex(sss.as_bytes())), "ok");
        // glue model: both assemblies from the completed stack
        let stack: Option<Vec<Vec<u8>>> = plan.witness_template().iter().map(|p| p.satisfy_self(&psat)).collect();
        if let Some(stack) = stack {
            let script = dd.desc.explicit_script().map(|s| s.into_bytes()).unwrap_or_default();
            let inner = pushed_items(&dd.desc.unsigned_script_sig()).and_then(|v| v.into_iter().next()).unwrap_or_default();
            out.line(&format!("C planglue {} {} {} {}", ty_name(ty), hex(&script), hex(&inner), wit_wire(&stack)),
                &format!("P:{}/{} G:{}/{}", wit_wire(&pwit), hex(pss.as_bytes()), wit_wire(swit), hex(sss.as_bytes())));
        }
    }
    // (e) announced sizes are upper bounds of the real ones (real = the spend that validates)
    let (mw, mss) = (measured_witness(&pwit), measured_scriptsig(&pss));
    if raw_budget("sizes", &tag) {
        out.line(&format!("J sizes {} {} {} {} {} {}", head, plan.witness_size(), plan.scriptsig_size(), plan.satisfaction_weight(), mw, mss), "ok");
    }
    // the same with the parts the size functions are KNOWN to leave out discounted
    // (witness script item of wsh / sh-wsh; the push opcode of the witness program in
    // sh-wpkh / sh-wsh), so that every other contribution stays checked
    let (dw, dss) = match ty {
        DescriptorType::Wsh => (varint(script_len) + script_len, 0),
        DescriptorType::ShWsh => (varint(script_len) + script_len, 1),
        DescriptorType::ShWpkh => (0, 1),
        _ => (0, 0),
    };
    if dw + dss > 0 {
        out.line(&format!("J sizes-adj {} {} {} {} {} {} discount={}+{}", head, plan.witness_size(), plan.scriptsig_size(), plan.satisfaction_weight(), mw - dw, mss - dss, dw, dss), "ok");
    }
    // (c) sufficiency: the spend validates at nLockTime / nSequence EQUAL to the reported locks
    let info = format!("{} lt={} sq={}", head, lt, sq);
    emit_spend_std(out, "spend", &info, &psat_p, &pss, &pwit);
    // the template's per-item sizes against the items Plan::satisfy really produced
    {
        let n = plan.witness_template().len();
        let (kind, items): (&str, Vec<Vec<u8>>) = match ty {
            DescriptorType::Bare | DescriptorType::Pkh | DescriptorType::Sh => ("s", pushed_items(&pss).unwrap_or_default()),
            _ => ("w", pwit.clone()),
        };
        let extra = matches!(ty, DescriptorType::Sh | DescriptorType::Wsh | DescriptorType::ShWsh) as usize;
        let lens: Vec<String> = items.iter().map(|i| i.len().to_string()).collect();
        out.line(&format!("J tmpl-items {} {} {} {} {} {}", head, tw, kind, n + extra, extra, if lens.is_empty() { "-".into() } else { lens.join(",") }), "ok");
    }
    // what update_psbt_input writes, and finalization of the updated + signed PSBT
    psbt_check(out, dd, &plan, &psat_p, &pwit, &pss, &head, mall, class);
    // R4 used objects: the SAME Plan completed a second time, after update_psbt_input ran on it,
    // and (every 4th case) a clone taken before the first use: identical output every time
    {
        let nth = REUSE_CTR.with(|c| { let v = c.get(); c.set(v + 1); v });
        let first = format!("{}/{}", wit_wire(&pwit), hex(pss.as_bytes()));
        let mut uses: Vec<(&str, &DPlan)> = vec![("second-use-after-update_psbt_input", &plan)];
        if nth % 4 == 0 { uses.push(("clone-taken-before-use", &plan_copy)); }
        for (which, p) in uses {
            let ps_r = PSat::new(dd, pa, lt, sq);
            match catch(|| p.satisfy(&ps_r).ok()) {
                None => { out.line(&format!("J nopanic plan-satisfy-again {}.{} {} {} {} PANIC", class, ty_name(ty), mode, dd.name, aw), "ok"); }
                Some(r) => {
                    let again = r.map(|(w, s)| format!("{}/{}", wit_wire(&w), hex(s.as_bytes()))).unwrap_or("none".into());
                    out.line(&format!("J plan-reuse-same {} {} {} {}", head, which, first, again), "ok");
                }
            }
        }
    }
    // taproot: the cheapest available path is chosen
    if ty == DescriptorType::Tr && dd.leaves.len() >= 2 && !via_sat { tr_choice(out, dd, pa, Some(&plan), mall, &head); }
    // (d) necessity: any smaller value, the other unit, or no lock at all must fail
    let mut variants: Vec<(u32, u32, &'static str)> = vec![];
    if let Some(a) = plan.absolute_timelock.map(|l| l.to_consensus_u32()) {
        variants.push((a - 1, sq, "abs-1"));
        variants.push((if a < 500_000_000 { 0xffff_ffff } else { 499_999_999 }, sq, "abs-other-unit"));
        variants.push((0, sq, "abs-none"));
        variants.push((a, 0xffff_ffff, "abs-final-sequence"));
    }
    if let Some(r) = plan.relative_timelock.map(|l| l.to_consensus_u32()) {
        variants.push((lt, r - 1, "rel-1"));
        variants.push((lt, (r ^ 0x0040_0000) | 0xffff, "rel-other-unit"));
        variants.push((lt, r | 0x8000_0000, "rel-disabled"));
        variants.push((lt, 0xffff_fffe, "rel-none"));
    }
    for (l2, s2, what) in variants {
        let ps2 = PSat::new(dd, pa, l2, s2);
        if let Some(Some((w2, ss2))) = catch(|| plan.satisfy(&ps2).ok()) {
            emit_spend_std(out, "spendfail", &format!("{} {} lt={} sq={}", head, what, l2, s2), &ps2, &ss2, &w2);
            out.count(&format!("necessity {}", what));
        }
    }
}

/// taproot choice: key path whenever a covering source can key-spend, otherwise the cheapest of
/// the leaves that can be satisfied on their own (each leaf planned separately with the assets
/// restricted to it)
fn tr_choice(out: &mut Out, dd: &DD, pa: &PA, plan: Option<&DPlan>, mall: bool, head: &str) {
    let ik = kent(dd.internal.unwrap());
    let key_avail = pa.srcs.iter().any(|s| s.key_spend && s.covers(ik));
    let mut sizes = vec![];
    for li in 0..dd.leaves.len() {
        let mut p = pa.clone();
        for s in p.srcs.iter_mut() {
            s.key_spend = false;
            s.leaves = if s.leaf_ok(Some(li)) { Leaves::Only(vec![li]) } else { Leaves::None };
        }
        let a = p.to_assets(&dd.leaves);
        match run_plan(dd, &a, mall, false) {
            Some(Ok(pl)) => sizes.push(pl.witness_size().to_string()),
            _ => sizes.push("-".into()),
        }
    }
    let (kind, chosen) = match plan {
        None => ("none", "-".to_string()),
        Some(p) => (if p.witness_template().len() == 1 { "key" } else { "script" }, p.witness_size().to_string()),
    };
    out.line(&format!("J tr-choice {} key={} {} {} {}", head, key_avail as u8, kind, chosen, sizes.join(",")), "ok");
}

fn origin_wire(k: &KEnt) -> String { format!("{}:{}", k.fp, path_wire(&k.path)) }

/// (1) fields written by `Plan::update_psbt_input` against an independent expectation (the keys
/// whose signatures `Plan::satisfy` asked for, with the origins of the key table; scripts are
/// judged by the Lean side against the scriptPubKey / the produced witness);
/// (2) the updated PSBT + exactly those signatures / preimages finalizes to the plan's spend.
fn psbt_check(out: &mut Out, dd: &DD, plan: &DPlan, ps: &PSat, pwit: &[Vec<u8>], pss: &ScriptBuf, head: &str, mall: bool, class: &str) {
    let ty = dd.desc.desc_type();
    let mut psbt = match Psbt::from_unsigned_tx(ps.tx.clone()) { Ok(p) => p, Err(_) => return };
    psbt.inputs[0].witness_utxo = Some(ps.prevout.clone());
    if catch(|| plan.update_psbt_input(&mut psbt.inputs[0])).is_none() {
        out.line(&format!("J nopanic update_psbt_input {}.{} {} PANIC", class, ty_name(ty), head), "ok");
        return;
    }
    let log = ps.log.borrow().clone();
    let j = |mut v: Vec<String>| { v.sort(); v.dedup(); if v.is_empty() { "-".to_string() } else { v.join(",") } };
    let tr = ty == DescriptorType::Tr;
    // ---- actual
    let inp = &psbt.inputs[0];
    let a_b32 = j(inp.bip32_derivation.iter().map(|(pk, (fp, path))| format!("{}:{}:{}", hex(&pk.serialize()), fp, path_wire(path.as_ref()))).collect());
    let a_tko = j(inp.tap_key_origins.iter().map(|(x, (_, (fp, path)))| format!("{}:{}:{}", hex(&x.serialize()), fp, path_wire(path.as_ref()))).collect());
    let a_lh = j(inp.tap_key_origins.iter().map(|(x, (lhs, _))| {
        let mut l: Vec<String> = lhs.iter().map(|h| hex(h.as_byte_array())).collect(); l.sort();
        format!("{}:{}", hex(&x.serialize()), if l.is_empty() { "-".into() } else { l.join("+") })
    }).collect());
    let a_ts = j(inp.tap_scripts.iter().map(|(cb, (sc, ver))| format!("{}:{}:{:02x}", hex(&cb.serialize()), hex(sc.as_bytes()), ver.to_consensus())).collect());
    let a_mr = inp.tap_merkle_root.map(|r| hex(r.as_byte_array())).unwrap_or("-".into());
    let a_ik = inp.tap_internal_key.map(|k| hex(&k.serialize())).unwrap_or("-".into());
    let a_ws = inp.witness_script.as_ref().map(|s| hex(s.as_bytes())).unwrap_or("-".into());
    let a_rs = inp.redeem_script.as_ref().map(|s| hex(s.as_bytes())).unwrap_or("-".into());
    // ---- expected key metadata: the keys whose SIGNATURE the plan asked for, and the keys whose
    // PUBLIC KEY appears in what Plan::satisfy produced (pk_h dissatisfied), with the origins of
    // the key table
    let items: Vec<Vec<u8>> = match ty {
        DescriptorType::Bare | DescriptorType::Pkh | DescriptorType::Sh => pushed_items(pss).unwrap_or_default(),
        _ => pwit.to_vec(),
    };
    let mut sig_keys: BTreeSet<u32> = BTreeSet::new();
    let mut leaf_of: BTreeMap<u32, TapLeafHash> = BTreeMap::new();
    let mut key_spend = false;
    for g in &log {
        match g {
            Given::Ecdsa { key, .. } => { sig_keys.insert(*key); }
            Given::TapKey { .. } => { key_spend = true; sig_keys.insert(dd.internal.unwrap()); }
            Given::TapLeaf { key: Some(key), leaf, .. } => { sig_keys.insert(*key); leaf_of.insert(*key, *leaf); }
            _ => {}
        }
    }
    let mut needed = sig_keys.clone();
    // (descriptors with raw key hashes: a pushed key may belong to the raw fragment)
    for id in dd.keys.iter().filter(|_| dd.rawpkhs.is_empty()) {
        let k = kent(*id);
        let ser = if tr { k.pk.inner.x_only_public_key().0.serialize().to_vec() } else { k.pk.to_bytes() };
        if items.iter().any(|i| *i == ser) { needed.insert(*id); }
    }
    let pkh_dissat = needed.iter().any(|k| !sig_keys.contains(k));
    // a raw key hash that is dissatisfied: the key is known to the satisfier only, no PSBT field
    // written from a plan can carry it
    let raw_pk_only = plan.witness_template().iter().any(|p| match p {
        Placeholder::PubkeyHash(h, _) => !plan.witness_template().iter().any(|q| matches!(q, Placeholder::EcdsaSigPkHash(h2) if h2 == h) || matches!(q, Placeholder::SchnorrSigPkHash(h2, _, _) if h2 == h)),
        _ => false,
    });
    let class = if pkh_dissat { "pkhdissat" } else { "std" };
    let (mut e_b32, mut e_tko, mut e_lh) = (vec![], vec![], vec![]);
    for id in &needed {
        let k = kent(*id);
        if tr {
            let x = hex(&k.pk.inner.x_only_public_key().0.serialize());
            e_tko.push(format!("{}:{}", x, origin_wire(k)));
            // leaf hashes are judged for the keys that sign (a missing key is `J psbt-keys`'s business)
            if sig_keys.contains(id) { e_lh.push(format!("{}:{}", x, leaf_of.get(id).map(|l| hex(l.as_byte_array())).unwrap_or("-".into()))); }
        } else {
            e_b32.push(format!("{}:{}", hex(&k.pk.inner.serialize()), origin_wire(k)));
        }
    }
    let (mode, aw) = { let t: Vec<&str> = head.splitn(4, ' ').collect(); (t[1].to_string(), t[3].to_string()) };
    let tag = head.split(' ').next().unwrap().to_string();
    // two descriptor keys over the same curve point (compressed + uncompressed atom of one
    // secret) share one bip32_derivation slot: which origin survives is not specified
    let mut points: Vec<Vec<u8>> = needed.iter().map(|id| kent(*id).pk.inner.serialize().to_vec()).collect();
    points.sort(); let np = points.len(); points.dedup();
    if points.len() != np { out.count("psbt-keys skipped: two needed keys share a curve point"); }
    else if pkh_dissat {
        // beyond C17's statement (SCOPE RULE): counted, not judged
        out.count("observation: update_psbt_input writes no origin for a key whose PUBLIC KEY the plan pushes (pk_h dissatisfied)");
    } else {
        out.line(&format!("J psbt-keys {}.{} {} {} {} A:b32={};tko={} E:b32={};tko={}", class, tag, mode, dd.name, aw, a_b32, a_tko, j(e_b32), j(e_tko)), "ok");
    }
    if tr {
        let sub = if leaf_of.is_empty() { "nokeys" } else { "withkeys" };
        let signing: BTreeSet<String> = sig_keys.iter().map(|id| hex(&kent(*id).pk.inner.x_only_public_key().0.serialize())).collect();
        let a_lh = j(a_lh.split(',').filter(|e| signing.contains(e.split(':').next().unwrap_or(""))).map(|e| e.to_string()).collect());
        if !leaf_of.is_empty() {
            if a_lh != j(e_lh.clone()) { out.count("observation: update_psbt_input records a script-path key in tap_key_origins with an empty leaf-hash list"); }
        } else {
            out.line(&format!("J psbt-leafhashes {}.{} {} {} {} A:{} E:{}", sub, tag, mode, dd.name, aw, a_lh, j(e_lh)), "ok");
        }
    }
    // taproot oracle (rust-bitcoin): output key = internal key tweaked by the recorded merkle root
    let (ikx, tw) = match (&dd.desc, dd.internal) {
        (Descriptor::Tr(_), Some(ik)) => {
            let x = kent(ik).pk.inner.x_only_public_key().0;
            let spk = ps.prevout.script_pubkey.as_bytes();
            let ok = spk.len() == 34 && XOnlyPublicKey::from_slice(&spk[2..34]).map(|o| x.tap_tweak(secp(), inp.tap_merkle_root).0.to_x_only_public_key() == o).unwrap_or(false);
            (hex(&x.serialize()), ok as u8)
        }
        _ => ("-".to_string(), 0),
    };
    let path = if !tr { "-" } else if key_spend { "key" } else { "script" };
    out.line(&format!("J psbt-scripts {} {} {} {} path={} ikx={} tw={} ts={} mr={} ik={} ws={} rs={}",
        head, hex(ps.prevout.script_pubkey.as_bytes()), hex(pss.as_bytes()), wit_wire(pwit), path, ikx, tw,
        a_ts, a_mr, a_ik, a_ws, a_rs), "ok");
    // ---- sign + finalize (the finalizer re-parses the script with the sanity rules: sane
    // descriptors only; a dissatisfied RAW key hash cannot be carried by the PSBT)
    if !dd.sane { out.count("psbt-finalize skipped: script rejected by decode_consensus rules"); return; }
    if raw_pk_only { out.count("psbt-finalize skipped: raw key hash dissatisfied (key known to the satisfier only)"); return; }
    let once = psbt.inputs[0].clone();
    sign_input(&mut psbt.inputs[0], &log);
    let (res, fw, fs) = finalize(&mut psbt, mall);
    if pkh_dissat {
        if res != "ok" { out.count("observation: PSBT updated by the plan + all requested signatures does not finalize (pushed key without origin)"); }
    } else {
        out.line(&format!("J psbt-finalize {}.{} {} {} {} {} {} {} {} {}", class, tag, mode, dd.name, aw, res, fw, fs, wit_wire(pwit), hex(pss.as_bytes())), "ok");
    }
    // ---- update_psbt_input on a PRE-POPULATED input (every 3rd plan): the same plan applied
    // twice, and the plan applied after PsbtExt::update_input_with_descriptor; both must still
    // finalize to the plan's spend.  What the second update changes is an observation.
    let nth = VARIANT_CTR.with(|c| { let v = c.get(); c.set(v + 1); v });
    if nth % 3 != 0 && nth % 6 != 1 { return; }
    let fresh = || -> Option<Psbt> { let mut p = Psbt::from_unsigned_tx(ps.tx.clone()).ok()?; p.inputs[0].witness_utxo = Some(ps.prevout.clone()); Some(p) };
    if nth % 3 != 0 {
    // R4: a finalize attempt BEFORE the signatures are there fails; the same Psbt object, signed
    // afterwards, must still finalize to the plan's spend
    if let Some(mut p4) = fresh() {
        if catch(|| plan.update_psbt_input(&mut p4.inputs[0])).is_some() {
            let (early, _, _) = finalize(&mut p4, mall);
            if early == "ok" { out.count("psbt afterfail: finalizes without any signature (nothing to observe)"); }
            else {
                sign_input(&mut p4.inputs[0], &log);
                let (res, fw, fs) = finalize(&mut p4, mall);
                if !pkh_dissat {
                    out.line(&format!("J psbt-finalize afterfail.{}.{} {} {} {} {} {} {} {} {}", class, tag, mode, dd.name, aw, res, fw, fs, wit_wire(pwit), hex(pss.as_bytes())), "ok");
                }
            }
        }
    }
    return;
    }
    if let Some(mut p2) = fresh() {
        if catch(|| { plan.update_psbt_input(&mut p2.inputs[0]); plan.update_psbt_input(&mut p2.inputs[0]); }).is_none() {
            out.line(&format!("J nopanic update_psbt_input-twice {}.{} {} PANIC", class, ty_name(ty), head), "ok");
        } else {
            if tr && !leaf_of.is_empty() {
                let all_have = p2.inputs[0].tap_key_origins.iter().filter(|(x, _)| leaf_of.keys().any(|id| kent(*id).pk.inner.x_only_public_key().0 == **x)).all(|(_, (l, _))| !l.is_empty());
                out.count(if all_have { "observation: a SECOND update_psbt_input adds the leaf hash the first one left out" } else { "observation: leaf hash still missing after a second update_psbt_input" });
            }
            if p2.inputs[0].bip32_derivation != once.bip32_derivation || p2.inputs[0].tap_scripts != once.tap_scripts
                || p2.inputs[0].witness_script != once.witness_script || p2.inputs[0].redeem_script != once.redeem_script
                || p2.inputs[0].tap_merkle_root != once.tap_merkle_root || p2.inputs[0].tap_internal_key != once.tap_internal_key {
                out.count("observation: update_psbt_input is not idempotent on scripts / bip32_derivation");
            }
            sign_input(&mut p2.inputs[0], &log);
            let (res, fw, fs) = finalize(&mut p2, mall);
            if !pkh_dissat {
                out.line(&format!("J psbt-finalize twice.{}.{} {} {} {} {} {} {} {} {}", class, tag, mode, dd.name, aw, res, fw, fs, wit_wire(pwit), hex(pss.as_bytes())), "ok");
            }
        }
    }
    if let Some(mut p3) = fresh() {
        match catch(|| p3.update_input_with_descriptor(0, &dd.desc).is_ok()) {
            None => { out.line(&format!("J nopanic update_input_with_descriptor {}.{} {} PANIC", class, ty_name(ty), head), "ok"); }
            Some(false) => { out.count(&format!("update_input_with_descriptor refused: {}", ty_name(ty))); }
            Some(true) => {
                if catch(|| plan.update_psbt_input(&mut p3.inputs[0])).is_none() {
                    out.line(&format!("J nopanic update_psbt_input-after-descriptor {}.{} {} PANIC", class, ty_name(ty), head), "ok");
                } else {
                    sign_input(&mut p3.inputs[0], &log);
                    let (res, fw, fs) = finalize(&mut p3, mall);
                    if tr && !key_spend {
                        // every leaf is on the input now: the finalizer may legitimately pick
                        // another leaf of the same cost; it must finalize to a VALID spend
                        out.line(&format!("J psbt-finalizes afterdesc.{}.{} {} {} {} {}", class, tag, mode, dd.name, aw, res), "ok");
                        if res == "ok" && (fw != wit_wire(pwit)) {
                            let w: Vec<Vec<u8>> = p3.inputs[0].final_script_witness.as_ref().map(|w| w.to_vec()).unwrap_or_default();
                            // signatures for the other leaf were not requested by the plan: the
                            // finalizer can only have used what `log` holds
                            desc::register_valid(out, &ps.tx, &ps.prevout, &ScriptBuf::new(), &w, &candidates(ps));
                            out.line(&format!("J spend {} {} {} - {} | afterdesc {} {} {}", ps.tx.lock_time.to_consensus_u32(), ps.tx.input[0].sequence.to_consensus_u32(),
                                hex(ps.prevout.script_pubkey.as_bytes()), fw, mode, dd.name, aw), "ok");
                        }
                    } else {
                        // every key origin is present now, so the pushed-key class finalizes too
                        out.line(&format!("J psbt-finalize afterdesc.{}.{} {} {} {} {} {} {} {} {}", class, tag, mode, dd.name, aw, res, fw, fs, wit_wire(pwit), hex(pss.as_bytes())), "ok");
                    }
                }
            }
        }
    }
}

thread_local! { static VARIANT_CTR: std::cell::Cell<u64> = std::cell::Cell::new(0); }
thread_local! { static REUSE_CTR: std::cell::Cell<u64> = std::cell::Cell::new(0); }

fn sign_input(inp: &mut psbt::Input, log: &[Given]) {
    for g in log {
        match g {
            Given::Ecdsa { pk, sig, .. } | Given::RawEcdsa { pk, sig } => { inp.partial_sigs.insert(*pk, *sig); }
            Given::TapKey { sig } => { inp.tap_key_sig = Some(*sig); }
            Given::TapLeaf { x, leaf, sig, .. } => { inp.tap_script_sigs.insert((*x, *leaf), *sig); }
            Given::Pre { kind, id } => {
                let (v, p) = (ast::hash_value(*kind, *id), ast::preimage(*id).to_vec());
                match kind {
                    HK::Sha256 => { inp.sha256_preimages.insert(sha256::Hash::from_slice(&v).unwrap(), p); }
                    HK::Hash256 => { inp.hash256_preimages.insert(miniscript::bitcoin::hashes::sha256d::Hash::from_slice(&v).unwrap(), p); }
                    HK::Ripemd160 => { inp.ripemd160_preimages.insert(ripemd160::Hash::from_slice(&v).unwrap(), p); }
                    HK::Hash160 => { inp.hash160_preimages.insert(hash160::Hash::from_slice(&v).unwrap(), p); }
                }
            }
        }
    }
}

fn finalize(psbt: &mut Psbt, mall: bool) -> (String, String, String) {
    let r = catch(|| if mall { psbt.finalize_mall_mut(secp()) } else { psbt.finalize_mut(secp()) });
    match r {
        None => ("panic".to_string(), ".".to_string(), "-".to_string()),
        Some(Err(e)) => (format!("err:{}", e.iter().map(|x| x.to_string()).collect::<Vec<_>>().join("/").replace(' ', "_")), ".".to_string(), "-".to_string()),
        Some(Ok(())) => {
            let w: Vec<Vec<u8>> = psbt.inputs[0].final_script_witness.as_ref().map(|w| w.to_vec()).unwrap_or_default();
            let ss = psbt.inputs[0].final_script_sig.clone().unwrap_or_default();
            ("ok".to_string(), wit_wire(&w), hex(ss.as_bytes()))
        }
    }
}

/// two plans for DIFFERENT leaves that share a key, applied to the same input one after the
/// other (the and_modify branch of update_psbt_input): observations on what is recorded, and the
/// input — given both plans' signatures — must finalize to a spend the Lean verifier accepts
fn psbt_two_leaves(out: &mut Out) {
    let leaves = vec![and_v(vpk(200), Node::Older(10)), pk(200), and_v(vpk(200), Node::After(100))];
    let dd = match dd_tr(3, &leaves) { Some(d) => d, None => return };
    let base = full_pa(&dd);
    let plan_for = |li: usize| -> Option<(PA, DPlan)> {
        let mut pa = base.clone();
        for s in pa.srcs.iter_mut() { s.key_spend = false; s.leaves = Leaves::Only(vec![li]); }
        let a = pa.to_assets(&dd.leaves);
        match run_plan(&dd, &a, false, false) { Some(Ok(p)) => Some((pa, p)), _ => None }
    };
    for (i, j) in [(0usize, 1usize), (1, 0), (0, 2)] {
        let (pa_i, plan_i) = match plan_for(i) { Some(x) => x, None => continue };
        let (pa_j, plan_j) = match plan_for(j) { Some(x) => x, None => continue };
        // one transaction meeting both plans' locks
        let lt = [&plan_i, &plan_j].iter().filter_map(|p| p.absolute_timelock.map(|l| l.to_consensus_u32())).max().unwrap_or(0);
        let sq = [&plan_i, &plan_j].iter().filter_map(|p| p.relative_timelock.map(|l| l.to_consensus_u32())).max().unwrap_or(0xffff_fffe);
        let (ps_i, ps_j) = (PSat::new(&dd, &pa_i, lt, sq), PSat::new(&dd, &pa_j, lt, sq));
        if plan_i.satisfy(&ps_i).is_err() || plan_j.satisfy(&ps_j).is_err() { continue; }
        let mut psbt = match Psbt::from_unsigned_tx(ps_i.tx.clone()) { Ok(p) => p, Err(_) => continue };
        psbt.inputs[0].witness_utxo = Some(ps_i.prevout.clone());
        if catch(|| { plan_i.update_psbt_input(&mut psbt.inputs[0]); plan_j.update_psbt_input(&mut psbt.inputs[0]); }).is_none() {
            out.line(&format!("J nopanic update_psbt_input-two-leaves {} {}+{} PANIC", dd.name, i, j), "ok");
            continue;
        }
        let x = kent(0).pk.inner.x_only_public_key().0;
        let n_lh = psbt.inputs[0].tap_key_origins.get(&x).map(|(l, _)| l.len()).unwrap_or(0);
        out.count(&format!("observation: two plans sharing a key on one input: {} leaf hash(es) recorded for the key, {} tap_scripts", n_lh, psbt.inputs[0].tap_scripts.len()));
        sign_input(&mut psbt.inputs[0], &ps_i.log.borrow());
        sign_input(&mut psbt.inputs[0], &ps_j.log.borrow());
        let (res, fw, fs) = finalize(&mut psbt, false);
        out.line(&format!("J psbt-finalizes two-leaves.tr.script nonmall {} {}+{} {}", dd.name, i, j, res), "ok");
        if res == "ok" {
            let w: Vec<Vec<u8>> = psbt.inputs[0].final_script_witness.as_ref().map(|w| w.to_vec()).unwrap_or_default();
            let mut cands = ps_i.issued.borrow().clone(); cands.extend(ps_j.issued.borrow().iter().cloned());
            desc::register_valid(out, &ps_i.tx, &ps_i.prevout, &ScriptBuf::new(), &w, &cands);
            out.line(&format!("J spend {} {} {} - {} | two-leaves {} {}+{}", lt, sq, hex(ps_i.prevout.script_pubkey.as_bytes()), fw, dd.name, i, j), "ok");
            let _ = fs;
        }
    }
}

fn candidates(ps: &PSat) -> Vec<(Vec<u8>, Vec<u8>)> {
    let mut c = ps.issued.borrow().clone();
    if let Some(s) = ps.tap_key_sig.borrow().as_ref() { c.push((vec![], s.clone())); }
    c
}
/// `J spend` / `J spendfail` in the format of Driver/OpsSpend.lean
fn emit_spend_std(out: &mut Out, op: &str, info: &str, ps: &PSat, ss: &ScriptBuf, wit: &[Vec<u8>]) {
    desc::register_valid(out, &ps.tx, &ps.prevout, ss, wit, &candidates(ps));
    let (lt, sq) = (ps.tx.lock_time.to_consensus_u32(), ps.tx.input[0].sequence.to_consensus_u32());
    out.line(&format!("J {} {} {} {} {} {} | {}", op, lt, sq, hex(ps.prevout.script_pubkey.as_bytes()), hex(ss.as_bytes()), wit_wire(wit), info), "ok");
}
/* ---------------------------------------------------------------- asset enumeration */

fn lock_options_abs(afters: &[u32]) -> Vec<Option<u32>> {
    let mut v = vec![None];
    for n in afters {
        v.push(Some(*n)); v.push(Some(n + 1));
        if *n > 1 { v.push(Some(n - 1)); }
        v.push(Some(if *n < 500_000_000 { 500_000_000 + n } else { 499_999_999 }));
    }
    v.sort(); v.dedup(); v
}
fn lock_options_rel(olders: &[u32]) -> Vec<Option<u32>> {
    let mut v = vec![None];
    for n in olders {
        let c = (n & 0x0040_0000) | (n & 0xffff);
        v.push(Some(c)); if c & 0xffff < 0xffff { v.push(Some(c + 1)); }
        if c & 0xffff > 1 { v.push(Some(c - 1)); }
        v.push(Some((c ^ 0x0040_0000) | 0xffff));
    }
    v.sort(); v.dedup(); v
}

/// the "everything" assets of a descriptor: every key by an exact source, every preimage,
/// the largest lock of the first unit seen
fn full_pa(dd: &DD) -> PA {
    let mut pa = PA::default();
    for k in &dd.keys { pa.srcs.push(Src::of(kent(*k), Rel::Exact).unwrap()); }
    for h in &dd.hashes { pa.pre.insert(*h); }
    if let Some(f) = dd.afters.first() { pa.abs = dd.afters.iter().filter(|x| (**x < 500_000_000) == (*f < 500_000_000)).max().cloned(); }
    if let Some(f) = dd.olders.first() {
        pa.rel = dd.olders.iter().filter(|x| (**x & 0x400000) == (*f & 0x400000)).map(|x| (x & 0x400000) | (x & 0xffff)).max();
    }
    pa
}

/// one-dimensional variations around the full assets, then random combinations
fn pa_variants(dd: &DD, cap: usize, rng: &mut Rng) -> Vec<PA> {
    let full = full_pa(dd);
    let mut v = vec![full.clone()];
    for i in 0..full.srcs.len() {
        let k = kent(dd.keys[i]);
        { let mut a = full.clone(); a.srcs.remove(i); v.push(a); }
        for rel in [Rel::Parent, Rel::Grand, Rel::Sibling, Rel::OtherFp, Rel::Child] {
            if let Some(s) = Src::of(k, rel) { let mut a = full.clone(); a.srcs[i] = s; v.push(a); }
        }
        { let mut a = full.clone(); a.srcs[i].ecdsa = false; a.srcs[i].leaves = Leaves::None; v.push(a); }
        { let mut a = full.clone(); a.srcs[i].key_spend = false; a.srcs[i].sighash_default = false; v.push(a); }
    }
    for p in full.pre.iter() { let mut a = full.clone(); a.pre.remove(p); v.push(a); }
    for o in lock_options_abs(&dd.afters) { let mut a = full.clone(); a.abs = o; v.push(a); }
    for o in lock_options_rel(&dd.olders) { let mut a = full.clone(); a.rel = o; v.push(a); }
    v.push(PA::default());
    // random combinations
    let (la, lr) = (lock_options_abs(&dd.afters), lock_options_rel(&dd.olders));
    for _ in 0..cap {
        let mut a = PA::default();
        for k in &dd.keys {
            let k = kent(*k);
            let rel = *rng.pick(&[Rel::Exact, Rel::Exact, Rel::Parent, Rel::Parent, Rel::Grand, Rel::OtherFp, Rel::Sibling]);
            if rng.below(4) == 0 { continue; }
            if let Some(mut s) = Src::of(k, rel) {
                s.ecdsa = rng.below(5) != 0;
                a.srcs.push(s);
            }
        }
        for h in &dd.hashes { if rng.coin() { a.pre.insert(*h); } }
        a.abs = *rng.pick(&la);
        a.rel = *rng.pick(&lr);
        v.push(a);
    }
    let mut seen = BTreeSet::new();
    v.retain(|a| seen.insert(a.clone()));
    if v.len() > cap {
        // keep the full set and an evenly spread selection …
        let step = v.len() as f64 / cap as f64;
        let mut w = vec![];
        for i in 0..cap { w.push(v[(i as f64 * step) as usize].clone()); }
        // … and, for EVERY descriptor, each lock at / one below / one above / other unit / none
        for o in lock_options_abs(&dd.afters) { let mut a = full.clone(); a.abs = o; w.push(a); }
        for o in lock_options_rel(&dd.olders) { let mut a = full.clone(); a.rel = o; w.push(a); }
        // … and, when the script has locks, every "one key missing" set (forces the other paths)
        if !dd.afters.is_empty() || !dd.olders.is_empty() {
            for i in 0..full.srcs.len() { let mut a = full.clone(); a.srcs.remove(i); w.push(a); }
        }
        let mut seen = BTreeSet::new();
        w.retain(|a| seen.insert(a.clone()));
        v = w;
    }
    v
}

/// taproot-specific variations: key-path ability, per-leaf availability, signature size
fn pa_variants_tr(dd: &DD, cap: usize, rng: &mut Rng) -> Vec<PA> {
    let mut v = pa_variants(dd, cap / 2, rng);
    let full = full_pa(dd);
    let nl = dd.leaves.len();
    let ik = dd.internal.unwrap();
    let ii = dd.keys.iter().position(|k| *k == ik).unwrap();
    // no key path
    { let mut a = full.clone(); a.srcs[ii].key_spend = false; v.push(a.clone());
      for li in 0..nl {
          let mut b = a.clone();
          for s in b.srcs.iter_mut() { s.leaves = Leaves::Only(vec![li]); }
          v.push(b);
      }
      if nl >= 2 {
          let mut b = a.clone();
          for s in b.srcs.iter_mut() { s.leaves = Leaves::Only(vec![0, nl - 1]); }
          v.push(b);
          // a leaf hash that is not in the tree
          let mut c = a.clone();
          for s in c.srcs.iter_mut() { s.leaves = Leaves::Only(vec![nl + 3]); }
          v.push(c);
      }
      let mut b = a.clone(); for s in b.srcs.iter_mut() { s.leaves = Leaves::None; } v.push(b);
      let mut b = a.clone(); for s in b.srcs.iter_mut() { s.sighash_default = false; } v.push(b);
      for _ in 0..cap / 2 {
          let mut b = a.clone();
          for s in b.srcs.iter_mut() {
              s.leaves = match rng.below(4) { 0 => Leaves::None, 1 => Leaves::Any, 2 => Leaves::Only(vec![rng.below(nl.max(1))]), _ => Leaves::Only((0..nl).filter(|_| rng.coin()).collect()) };
          }
          let sd = rng.coin(); for s in b.srcs.iter_mut() { s.sighash_default = sd; }
          b.srcs[ii].key_spend = rng.below(4) == 0;
          v.push(b);
      }
    }
    { let mut a = full.clone(); a.srcs[ii].sighash_default = false; v.push(a); }
    let mut seen = BTreeSet::new();
    v.retain(|a| seen.insert(a.clone()));
    v.truncate(cap + 8);
    v
}

/* ---------------------------------------------------------------- corpus */

fn pk(i: u32) -> Node { Node::Check(Box::new(Node::PkK(i))) }
fn vpk(i: u32) -> Node { Node::Verify(Box::new(pk(i))) }
fn bx(n: Node) -> Box<Node> { Box::new(n) }
fn and_v(a: Node, b: Node) -> Node { Node::AndV(bx(a), bx(b)) }
/// `sln:X` = s:or_i(0, n:X)
fn sln(x: Node) -> Node { Node::Swap(bx(Node::OrI(bx(Node::False), bx(Node::ZeroNotEqual(bx(x)))))) }

/// hand-written scripts around time locks (k = key atom offset: 0 / 200 for tap / 300 xpub)
fn lock_corpus(k: &dyn Fn(u32) -> u32, tap: bool) -> Vec<Node> {
    let mut v = vec![
        Node::OrD(bx(pk(k(0))), bx(and_v(vpk(k(1)), Node::After(100)))),
        Node::OrD(bx(pk(k(0))), bx(and_v(vpk(k(1)), Node::Older(10)))),
        and_v(vpk(k(0)), and_v(Node::Verify(bx(Node::After(100))), Node::After(200))),
        and_v(vpk(k(0)), and_v(Node::Verify(bx(Node::After(200))), Node::After(100))),
        and_v(vpk(k(0)), and_v(Node::Verify(bx(Node::Older(10))), Node::Older(20))),
        and_v(vpk(k(0)), and_v(Node::Verify(bx(Node::Older(20))), Node::Older(10))),
        and_v(vpk(k(0)), and_v(Node::Verify(bx(Node::After(100))), Node::Older(10))),
        and_v(vpk(k(0)), and_v(Node::Verify(bx(Node::After(500_000_001))), Node::After(500_000_100))),
        and_v(vpk(k(0)), and_v(Node::Verify(bx(Node::After(100))), Node::After(500_000_001))),
        and_v(vpk(k(0)), and_v(Node::Verify(bx(Node::Older(4_194_305))), Node::Older(4_194_400))),
        and_v(vpk(k(0)), and_v(Node::Verify(bx(Node::Older(10))), Node::Older(4_194_305))),
        Node::AndOr(bx(pk(k(0))), bx(Node::After(100)), bx(and_v(vpk(k(1)), Node::After(200)))),
        Node::AndOr(bx(pk(k(0))), bx(Node::Older(20)), bx(and_v(vpk(k(1)), Node::Older(10)))),
        Node::OrI(bx(and_v(vpk(k(0)), Node::After(200))), bx(and_v(vpk(k(1)), Node::After(100)))),
        Node::OrI(bx(and_v(vpk(k(0)), Node::Older(10))), bx(and_v(vpk(k(1)), Node::After(100)))),
        // two EQUAL locks on one path; older() values with bits outside the consensus mask
        and_v(Node::Verify(bx(Node::After(100))), Node::After(100)),
        and_v(Node::Verify(bx(Node::Older(10))), Node::Older(10)),
        and_v(Node::Verify(bx(Node::Older(65_546))), Node::Older(20)),
        and_v(Node::Verify(bx(Node::Older(4_259_850))), Node::Older(4_194_324)),
        and_v(vpk(k(0)), and_v(Node::Verify(bx(Node::After(100))), Node::After(100))),
        and_v(vpk(k(0)), and_v(Node::Verify(bx(Node::Older(10))), Node::Older(10))),
        and_v(vpk(k(0)), and_v(Node::Verify(bx(Node::Older(65_546))), Node::Older(20))),
        and_v(vpk(k(0)), and_v(Node::Verify(bx(Node::Older(20))), Node::Older(65_546))),
        and_v(vpk(k(0)), and_v(Node::Verify(bx(Node::Older(4_259_850))), Node::Older(4_194_324))),
        Node::Thresh(2, vec![pk(k(0)), Node::Swap(bx(pk(k(1)))), sln(Node::After(100))]),
        Node::Thresh(2, vec![pk(k(0)), Node::Swap(bx(pk(k(1)))), sln(Node::Older(10)), sln(Node::After(200))]),
        Node::Thresh(3, vec![pk(k(0)), sln(Node::After(100)), sln(Node::After(200)), sln(Node::Older(20))]),
        Node::Thresh(2, vec![pk(k(0)), sln(Node::After(100)), sln(Node::After(500_000_001))]),
        Node::AndB(bx(pk(k(0))), bx(Node::Alt(bx(Node::AndB(bx(Node::After(100)), bx(Node::Alt(bx(Node::Older(10))))))))),
        Node::OrD(bx(pk(k(0))), bx(and_v(Node::Verify(bx(Node::Hash(HK::Sha256, 0))), Node::Older(20)))),
        and_v(Node::Verify(bx(Node::Hash(HK::Sha256, 0))), pk(k(0))),
        Node::OrB(bx(pk(k(0))), bx(Node::Alt(bx(and_v(vpk(k(1)), Node::Older(10)))))),
        Node::OrC(bx(pk(k(0))), bx(Node::Verify(bx(and_v(vpk(k(1)), Node::After(100)))))),
    ];
    // or_c is V-typed: wrap
    if let Some(Node::OrC(..)) = v.last() { let x = v.pop().unwrap(); v.push(and_v(x, Node::True)); }
    if tap {
        v.push(Node::MultiA(2, vec![k(0), k(1), k(2)]));
        v.push(and_v(Node::Verify(bx(Node::MultiA(1, vec![k(0), k(1)]))), Node::After(100)));
    } else {
        v.push(Node::SortedMulti(2, vec![k(2), k(0), k(1)]));
        v.push(Node::Multi(2, vec![k(0), k(1), k(2)]));
        v.push(and_v(Node::Verify(bx(Node::Multi(1, vec![k(0), k(1)]))), Node::Older(10)));
    }
    v
}

/// one script per hash kind (all four `Assets` preimage sets are read in every tier)
fn hash_corpus(k: &dyn Fn(u32) -> u32) -> Vec<Node> {
    let mut v = vec![];
    for (kind, h) in [(HK::Sha256, 0u32), (HK::Hash160, 1), (HK::Hash256, 2), (HK::Ripemd160, 3)] {
        v.push(and_v(Node::Verify(bx(Node::Hash(kind, h))), pk(k(0))));
        v.push(Node::OrD(bx(pk(k(1))), bx(and_v(Node::Verify(bx(Node::Hash(kind, h))), Node::Older(10)))));
    }
    v.push(Node::Thresh(2, vec![Node::Hash(HK::Hash256, 2), Node::Alt(bx(Node::Hash(HK::Ripemd160, 3))), Node::Alt(bx(Node::Hash(HK::Hash160, 1))), Node::Swap(bx(pk(k(0))))]));
    v
}
/// raw key-hash fragments (`expr_raw_pkh`): satisfied, dissatisfied and unavailable
fn raw_corpus(k: &dyn Fn(u32) -> u32) -> Vec<Node> {
    let r = |h: u32| Node::Check(bx(Node::RawPkH(k(h))));
    vec![
        r(0),
        and_v(Node::Verify(bx(r(1))), pk(k(0))),
        Node::OrD(bx(pk(k(0))), bx(and_v(Node::Verify(bx(r(1))), Node::Older(10)))),
        Node::AndOr(bx(r(0)), bx(pk(k(1))), bx(pk(k(2)))),
        Node::OrB(bx(r(2)), bx(Node::Alt(bx(r(3))))),
        Node::Thresh(2, vec![r(0), Node::Swap(bx(r(1))), Node::Swap(bx(pk(k(2))))]),
    ]
}
/// asset sets with raw key-hash knowledge (planned through the Satisfier provider)
fn raw_variants(dd: &DD) -> Vec<PA> {
    if dd.rawpkhs.is_empty() { return vec![]; }
    let full = full_pa(dd);
    let all: BTreeSet<u32> = dd.rawpkhs.iter().cloned().collect();
    let mut v = vec![];
    { let mut a = full.clone(); a.rawpk = all.clone(); a.rawsig = all.clone(); v.push(a); }
    { let mut a = full.clone(); a.rawpk = all.clone(); v.push(a); }
    { let mut a = full.clone(); a.rawsig = all.clone(); v.push(a); }
    for h in &dd.rawpkhs {
        let mut a = full.clone(); a.rawpk = all.clone(); a.rawsig = all.clone(); a.rawsig.remove(h); v.push(a.clone());
        a.rawpk.remove(h); v.push(a);
        let mut b = full.clone(); b.rawsig.insert(*h); v.push(b);
    }
    { let mut a = PA::default(); a.rawpk = all.clone(); a.rawsig = all; a.abs = full.abs; a.rel = full.rel; v.push(a); }
    // taproot: without the key path, so that the raw-key-hash leaves are really used
    if dd.internal.is_some() {
        let more: Vec<PA> = v.iter().map(|a| { let mut b = a.clone(); for s in b.srcs.iter_mut() { s.key_spend = false; } b }).collect();
        v.extend(more);
    }
    let mut seen = BTreeSet::new();
    v.retain(|a| seen.insert(a.clone()));
    v
}

/// R5: a lock-carrying child below EVERY fragment kind (each wrapper, each combinator position,
/// thresh), on a path the satisfier must take when key `k(1)` (the "other branch") is missing,
/// incl. satisfactions that run through a DISSATISFIED neighbour (or_b / or_c / or_d / andor /
/// thresh).  `lk` = older(10) or after(100).
fn lock_towers(k: &dyn Fn(u32) -> u32, lk: &Node) -> Vec<Node> {
    let v = |n: Node| Node::Verify(bx(n));
    let l = || lk.clone();
    // lock-carrying children of the needed base types
    let lb = || and_v(vpk(k(0)), l());                                    // B, needs key 0
    let lk_k = || and_v(v(l()), Node::PkK(k(0)));                         // K
    let lo = || and_v(v(l()), pk(k(0)));                                  // B, one-arg (for s:)
    let ld = || Node::OrI(bx(Node::False), bx(Node::ZeroNotEqual(bx(l()))));   // B, dissatisfiable, unit (l:n:lock)
    let ldk = || Node::AndB(bx(pk(k(0))), bx(Node::Alt(bx(ld()))));       // B, dissatisfiable, unit, needs key 0
    let alt = || pk(k(1));
    vec![
        // wrappers
        Node::AndB(bx(pk(k(2))), bx(Node::Alt(bx(lb())))),                // a:
        Node::AndB(bx(pk(k(2))), bx(Node::Swap(bx(lo())))),               // s:
        Node::Check(bx(lk_k())),                                          // c:
        and_v(vpk(k(0)), Node::DupIf(bx(v(l())))),                        // d:v:
        and_v(v(lb()), pk(k(2))),                                         // v:
        Node::NonZero(bx(lo())),                                          // j:
        Node::ZeroNotEqual(bx(lb())),                                     // n:
        and_v(vpk(k(0)), Node::ZeroNotEqual(bx(Node::ZeroNotEqual(bx(l()))))),
        Node::AndB(bx(pk(k(0))), bx(Node::Alt(bx(Node::DupIf(bx(v(Node::ZeroNotEqual(bx(l()))))))))),  // a:d:v:n:
        // and_*: lock on either side
        and_v(v(l()), pk(k(0))),
        and_v(vpk(k(0)), l()),
        Node::AndB(bx(lb()), bx(Node::Alt(bx(pk(k(2)))))),
        Node::AndB(bx(pk(k(0))), bx(Node::Alt(bx(l())))),
        // or_*: lock branch chosen; the other child DISSATISFIED next to it
        Node::OrB(bx(alt()), bx(Node::Alt(bx(ldk())))),
        Node::OrB(bx(ldk()), bx(Node::Alt(bx(alt())))),
        and_v(Node::OrC(bx(alt()), bx(v(lb()))), Node::True),
        Node::OrD(bx(alt()), bx(lb())),
        Node::OrD(bx(ldk()), bx(alt())),
        Node::OrI(bx(lb()), bx(alt())),
        Node::OrI(bx(alt()), bx(lb())),
        // andor: lock in each of the three positions
        Node::AndOr(bx(alt()), bx(pk(k(2))), bx(lb())),                   // a dissatisfied, z has the lock
        Node::AndOr(bx(pk(k(0))), bx(l()), bx(alt())),                    // b is the lock
        Node::AndOr(bx(ldk()), bx(pk(k(2))), bx(alt())), // a has the lock
        // thresh: lock child among the satisfied ones; and next to a dissatisfied one
        Node::Thresh(2, vec![pk(k(0)), Node::Swap(bx(alt())), Node::Swap(bx(ld()))]),
        Node::Thresh(2, vec![ldk(), Node::Swap(bx(alt())), Node::Swap(bx(pk(k(2))))]),
        Node::Thresh(3, vec![pk(k(0)), Node::Swap(bx(pk(k(2)))), Node::Swap(bx(ld()))]),
        Node::Thresh(1, vec![ldk(), Node::Swap(bx(alt()))]),
        // combinator over a cast: t:or_c, u-sugar (or_i(X,0)) over a lock
        and_v(Node::OrC(bx(alt()), bx(v(Node::OrI(bx(lb()), bx(Node::False))))), Node::True),
        Node::OrD(bx(alt()), bx(Node::OrI(bx(lb()), bx(Node::False)))),
    ]
}

/// scripts whose malleable and non-malleable plans differ (a plan exists only in malleable
/// mode, or another witness is chosen): every `_mall` arm of every wrapper must be taken
fn mode_corpus(k: &dyn Fn(u32) -> u32) -> Vec<Node> {
    let h = |i: u32| Node::Hash(if i % 2 == 0 { HK::Sha256 } else { HK::Hash256 }, if i % 2 == 0 { 0 } else { 2 });
    vec![
        and_v(vpk(k(0)), Node::OrI(bx(h(0)), bx(h(1)))),
        Node::OrB(bx(h(0)), bx(Node::Alt(bx(h(1))))),
        Node::OrD(bx(pk(k(0))), bx(Node::OrI(bx(h(0)), bx(h(1))))),
        Node::AndOr(bx(h(0)), bx(pk(k(0))), bx(h(1))),
        Node::Thresh(1, vec![h(0), Node::Alt(bx(h(1))), Node::Swap(bx(pk(k(0))))]),
        Node::OrI(bx(and_v(Node::Verify(bx(h(0))), Node::Older(10))), bx(and_v(Node::Verify(bx(h(1))), Node::After(100)))),
    ]
}

/// one key in two places (pk / pkh / multisig member, on one path and on two paths): accepted by
/// the constructors, refused by the sanity rules; plans must stay faithful all the same
fn repeated_key_corpus(k: &dyn Fn(u32) -> u32, tap: bool) -> Vec<Node> {
    let pkh = |i: u32| Node::Check(bx(Node::PkH(i)));
    let mut v = vec![
        Node::OrD(bx(pk(k(0))), bx(and_v(Node::Verify(bx(pkh(k(0)))), Node::Older(10)))),
        Node::OrI(bx(pk(k(0))), bx(and_v(vpk(k(0)), Node::After(100)))),
        and_v(vpk(k(0)), pk(k(0))),
        and_v(vpk(k(0)), pkh(k(0))),
        Node::Thresh(2, vec![pk(k(0)), Node::Swap(bx(pk(k(0)))), Node::Swap(bx(pk(k(1))))]),
        Node::OrB(bx(pkh(k(0))), bx(Node::Alt(bx(pkh(k(0)))))),
    ];
    if tap { v.push(Node::MultiA(2, vec![k(0), k(0), k(1)])); v.push(Node::OrD(bx(Node::MultiA(1, vec![k(0), k(1)])), bx(pk(k(0))))); }
    else { v.push(Node::Multi(2, vec![k(0), k(0), k(1)])); v.push(Node::OrD(bx(Node::Multi(1, vec![k(0), k(1)])), bx(pk(k(0))))); }
    v
}

/// R2: inputs the library REFUSES today, one reason each (label, wrap, script).  Whatever is
/// accepted one day runs through every judge like any other descriptor.
fn refused_corpus() -> Vec<(&'static str, Wrap, Node)> {
    let v = |n: Node| Node::Verify(bx(n));
    vec![
        ("uncompressed key in wsh", Wrap::Wsh, pk(100)),
        ("uncompressed key in sh(wsh)", Wrap::ShWsh, and_v(vpk(0), pk(101))),
        ("uncompressed pkh in wsh", Wrap::Wsh, Node::Check(bx(Node::PkH(100)))),
        ("multi_a outside tapscript", Wrap::Wsh, Node::MultiA(1, vec![0, 1])),
        ("multi_a in sh", Wrap::Sh, Node::MultiA(1, vec![0, 1])),
        ("multi with 21 keys", Wrap::Wsh, Node::Multi(1, (0..21).map(|i| i % 10).collect())),
        ("bare: not pk / pkh / multi", Wrap::Bare, and_v(vpk(0), pk(1))),
        ("bare: multi with 4 keys", Wrap::Bare, Node::Multi(1, vec![0, 1, 2, 3])),
        ("bare: lock", Wrap::Bare, and_v(vpk(0), Node::Older(10))),
        ("sh: redeem script over 520 bytes", Wrap::Sh, Node::Multi(1, (0..16).map(|i| i % 10).collect())),
        ("top level V", Wrap::Wsh, vpk(0)),
        ("top level K", Wrap::Wsh, Node::PkK(0)),
        ("top level W", Wrap::Wsh, Node::Alt(bx(pk(0)))),
        ("top level V in sh", Wrap::Sh, v(and_v(vpk(0), Node::Older(10)))),
        ("older(0)", Wrap::Wsh, and_v(vpk(0), Node::Older(0))),
        ("older with the disable flag", Wrap::Wsh, and_v(vpk(0), Node::Older(0x8000_000a))),
        ("after(0)", Wrap::Wsh, and_v(vpk(0), Node::After(0))),
        ("after above 2^31", Wrap::Wsh, and_v(vpk(0), Node::After(0x8000_0000))),
        ("thresh k = 0", Wrap::Wsh, Node::Thresh(0, vec![pk(0), Node::Swap(bx(pk(1)))])),
        ("thresh k > n", Wrap::Wsh, Node::Thresh(3, vec![pk(0), Node::Swap(bx(pk(1)))])),
        ("multi k > n", Wrap::Wsh, Node::Multi(3, vec![0, 1])),
        ("d: over a non-zero-arg child", Wrap::Wsh, Node::DupIf(bx(vpk(0)))),
        ("s: over a two-element child", Wrap::Wsh, Node::AndB(bx(pk(0)), bx(Node::Swap(bx(Node::Multi(1, vec![1, 2])))))),
    ]
}

/// uncompressed keys inside sh() / bare() miniscripts (every tier): satisfied, dissatisfied
/// (the 65-byte key is pushed without a signature), mixed with compressed keys, raw key hash
fn unc_corpus(bare: bool) -> Vec<Node> {
    let pkh = |i: u32| Node::Check(bx(Node::PkH(i)));
    let mut v = vec![pk(100), pkh(100), Node::Multi(1, vec![100, 0]), Node::Multi(2, vec![0, 101, 1])];
    if !bare {
        v.extend(vec![
            Node::OrB(bx(pkh(100)), bx(Node::Alt(bx(pk(1))))),
            Node::OrB(bx(pkh(101)), bx(Node::Swap(bx(Node::OrI(bx(Node::False), bx(Node::ZeroNotEqual(bx(Node::Hash(HK::Ripemd160, 3))))))))),
            and_v(vpk(0), pk(100)),
            and_v(Node::Verify(bx(pkh(100))), pk(1)),
            Node::Check(bx(Node::RawPkH(100))),
            Node::OrD(bx(Node::Check(bx(Node::RawPkH(100)))), bx(pk(1))),
            Node::OrD(bx(pk(100)), bx(pk(0))),
            Node::SortedMulti(1, vec![100, 1, 102]),
        ]);
    }
    v
}

/// legacy scripts whose ENCODED length is exactly `target` bytes (the push-opcode edges 75/76
/// and 255/256 of the redeem-script push): a chain of `n` keys (35 bytes each) padded with
/// `v:older(10)` (3 bytes) and `v:older(200)` (5 bytes)
fn sized_script(target: usize) -> Option<Node> {
    for n in 1..=7usize {
        for k5 in 0..=3usize {
            for k3 in 0..=3usize {
                if 35 * n + 5 * k5 + 3 * k3 != target { continue; }
                let mut node = pk((n - 1) as u32);
                for i in (0..n - 1).rev() { node = and_v(vpk(i as u32), node); }
                for _ in 0..k5 { node = and_v(Node::Verify(bx(Node::Older(200))), node); }
                for _ in 0..k3 { node = and_v(Node::Verify(bx(Node::Older(10))), node); }
                let len = ast::to_ms::<DefiniteDescriptorKey, Legacy>(&node).ok()?.encode().len();
                if len == target { return Some(node); }
            }
        }
    }
    None
}

/// two sources COVER the same key with different taproot abilities; exactly one of them can
/// do what the plan needs (so the expected signature size does not depend on iteration order)
fn dual_source_pas(dd: &DD, key: u32) -> Vec<PA> {
    let k = kent(key);
    let (p, e) = match (Src::of(k, Rel::Parent), Src::of(k, Rel::Exact)) { (Some(p), Some(e)) => (p, e), _ => return vec![] };
    let full = full_pa(dd);
    let others: Vec<Src> = full.srcs.iter().filter(|s| !s.covers(k)).cloned().collect();
    let mut v = vec![];
    for capable_is_parent in [false, true] {
        for cap_default in [true, false] {
            for what in ["leaf", "key", "ecdsa"] {
                let (mut cap, mut not) = if capable_is_parent { (p.clone(), e.clone()) } else { (e.clone(), p.clone()) };
                cap.sighash_default = cap_default; not.sighash_default = !cap_default;
                match what {
                    "leaf" => { not.leaves = Leaves::None; cap.leaves = Leaves::Any; cap.key_spend = false; not.key_spend = false; }
                    "key" => { not.key_spend = false; cap.key_spend = true; not.leaves = Leaves::None; cap.leaves = Leaves::None; }
                    // ECDSA ability only: the taproot abilities of the incapable source are off
                    // as well, so that no choice depends on the iteration order
                    _ => { not.ecdsa = false; cap.ecdsa = true; not.key_spend = false; not.leaves = Leaves::None; }
                }
                let mut a = full.clone();
                a.srcs = others.clone();
                if what != "key" { for s in a.srcs.iter_mut() { s.key_spend = false; } }
                a.srcs.push(not); a.srcs.push(cap);
                v.push(a);
            }
        }
    }
    let mut seen = BTreeSet::new();
    v.retain(|a| seen.insert(a.clone()));
    v
}

fn dd_from_desc(desc: Descriptor<DefiniteDescriptorKey>, keys: Vec<u32>, hashes: Vec<(HK, u32)>, afters: Vec<u32>, olders: Vec<u32>) -> DD {
    DD { name: desc.to_string().split('#').next().unwrap().to_string(), desc, keys, hashes, afters, olders,
         leaves: vec![], internal: None, leaf_keys: vec![], rawpkhs: vec![], sane: true }
}

/// `Assets` values built through the library's own API (`Assets::new().add(..)`, `IntoAssets`
/// of keys / hashes / other `Assets`, `.after()` / `.older()`, `LoggerAssetProvider`), each with
/// the meaning the documentation gives it (`PA`), planned and judged like every other case
fn api_cases(out: &mut Out) {
    use miniscript::plan::LoggerAssetProvider;
    use miniscript::DescriptorPublicKey;
    let k300 = kent(300);
    let s300 = k300.def.to_string();
    let base = s300[..s300.rfind('/').unwrap()].to_string();              // [fp/48'/1']xpub…/0
    let acct = base[..base.rfind('/').unwrap()].to_string();              // [fp/48'/1']xpub…
    let n = k300.path.len();
    let src_of = |path: Vec<ChildNumber>| Src { fp: k300.fp, path, ecdsa: true, key_spend: true, leaves: Leaves::Any, sighash_default: true };
    // (a) wildcard key source, descriptor derived at index 5
    let wild = format!("{}/*", base);
    if let (Ok(wkey), true) = (DescriptorPublicKey::from_str(&wild), true) {
        for (tmpl, olders) in [("wsh(pk(@))", vec![]), ("wpkh(@)", vec![]), ("tr(@)", vec![]), ("sh(wsh(and_v(v:pk(@),older(10))))", vec![10u32]), ("pkh(@)", vec![])] {
            let d = match Descriptor::<DescriptorPublicKey>::from_str(&tmpl.replace('@', &wild)) { Ok(d) => d, Err(_) => continue };
            for (idx, kid) in [(5u32, 300u32), (6, 302)] {
                let def = match d.at_derivation_index(idx) { Ok(x) => x, Err(_) => continue };
                let mut dd = dd_from_desc(def, vec![kid], vec![], vec![], olders.clone());
                if tmpl.starts_with("tr(") { dd.internal = Some(kid); }
                let api = catch(|| { let mut a = PlanAssets::new().add(wkey.clone()); if !olders.is_empty() { a = a.older(relative::LockTime::from_consensus(10).unwrap()); } a });
                let pa = PA { srcs: vec![src_of(k300.path[..n - 1].to_vec())], rel: olders.first().cloned(), ..Default::default() };
                match api {
                    None => out.line(&format!("J nopanic assets-add wildcard {} PANIC", dd.name), "ok"),
                    Some(a) => { out.line(&format!("J nopanic assets-add wildcard {} OK", dd.name), "ok");
                        for mall in [false, true] { check_case_api(out, &dd, &pa, Some(("add-wildcard-xpub", &a)), mall, false); } }
                }
            }
        }
    }
    // (b) multipath key source <0;1>/*: both branches become sources
    let multi = format!("{}/<0;1>/*", acct);
    if let Ok(mkey) = DescriptorPublicKey::from_str(&multi) {
        let api = catch(|| PlanAssets::new().add(mkey.clone()));
        let mut acc_path = k300.path[..n - 2].to_vec();
        let pa = PA { srcs: vec![{ let mut p = acc_path.clone(); p.push(cn(0, false)); src_of(p) }, { acc_path.push(cn(1, false)); src_of(acc_path.clone()) }], ..Default::default() };
        match api {
            None => out.line(&format!("J nopanic assets-add multipath {} PANIC", multi), "ok"),
            Some(a) => {
                out.line(&format!("J nopanic assets-add multipath {} OK", multi), "ok");
                for tmpl in ["wsh(pk(@))", "wpkh(@)"] {
                    let d = match Descriptor::<DescriptorPublicKey>::from_str(&tmpl.replace('@', &multi)) { Ok(d) => d, Err(_) => continue };
                    let singles = match catch(|| d.into_single_descriptors().ok()) { Some(Some(v)) => v, _ => { out.line(&format!("J nopanic into_single_descriptors {} PANIC", multi), "ok"); continue } };
                    for (bi, sd) in singles.iter().enumerate() {
                        let kid = if bi == 0 { 300 } else { 304 };
                        if let Ok(def) = sd.at_derivation_index(5) {
                            let dd = dd_from_desc(def, vec![kid], vec![], vec![], vec![]);
                            for mall in [false, true] { check_case_api(out, &dd, &pa, Some(("add-multipath-xpub", &a)), mall, false); }
                        }
                    }
                }
            }
        }
    }
    // (c) IntoAssets of every hash kind (right hash, and a hash of the same kind that is not in the script)
    let k0 = kent(0);
    let key0 = k0.def.clone().into_descriptor_public_key();
    for (kind, h) in [(HK::Sha256, 0u32), (HK::Hash160, 1), (HK::Hash256, 2), (HK::Ripemd160, 3)] {
        let node = and_v(Node::Verify(bx(Node::Hash(kind, h))), pk(0));
        for w in [Wrap::Wsh, Wrap::Sh] {
            let dd = match dd_ms(w, &node) { Some(d) => d, None => continue };
            for (hid, label) in [(h, "add-hash"), ((h + 1) % 4, "add-other-hash")] {
                let v = ast::hash_value(kind, hid);
                let base = PlanAssets::new().add(key0.clone());
                let a = match kind {
                    HK::Sha256 => base.add(sha256::Hash::from_slice(&v).unwrap()),
                    HK::Hash256 => base.add(hash256::Hash::from_slice(&v).unwrap()),
                    HK::Ripemd160 => base.add(ripemd160::Hash::from_slice(&v).unwrap()),
                    HK::Hash160 => base.add(hash160::Hash::from_slice(&v).unwrap()),
                };
                let mut pa = PA { srcs: vec![Src::of(k0, Rel::Exact).unwrap()], ..Default::default() };
                pa.pre.insert((kind, hid));
                for mall in [false, true] { check_case_api(out, &dd, &pa, Some((label, &a)), mall, false); }
            }
        }
    }
    // (d) precedence of locks when Assets are added to Assets: the ADDED value wins when it has
    // a lock, otherwise the existing one stays
    for (node, is_abs) in [(and_v(vpk(0), Node::After(100)), true), (and_v(vpk(0), Node::Older(10)), false)] {
        let dd = match dd_ms(Wrap::Wsh, &node) { Some(d) => d, None => continue };
        let lock = if is_abs { 100u32 } else { 10 };
        let with = |a: PlanAssets, v: u32| if is_abs { a.after(absolute::LockTime::from_consensus(v)) } else { a.older(relative::LockTime::from_consensus(v).unwrap()) };
        for (first, second, label) in [(Some(lock / 2), Some(lock), "lock-then-add-lock"), (Some(lock), Some(lock / 2), "lock-then-add-smaller"), (Some(lock), None, "lock-then-add-none"), (None, Some(lock), "none-then-add-lock")] {
            let mut a = PlanAssets::new().add(key0.clone());
            if let Some(v) = first { a = with(a, v); }
            let b = match second { Some(v) => with(PlanAssets::new(), v), None => PlanAssets::new() };
            let a = a.add(b);
            let eff = second.or(first);
            let mut pa = PA { srcs: vec![Src::of(k0, Rel::Exact).unwrap()], ..Default::default() };
            if is_abs { pa.abs = eff; } else { pa.rel = eff; }
            for mall in [false, true] { check_case_api(out, &dd, &pa, Some((label, &a)), mall, false); }
        }
    }
    // (e) LoggerAssetProvider delegates every query: same plan as the plain Assets
    let mut lnodes: Vec<(Wrap, Node)> = vec![
        (Wrap::Wsh, Node::OrD(bx(pk(0)), bx(and_v(vpk(1), Node::After(100))))),
        (Wrap::Wsh, and_v(Node::Verify(bx(Node::Hash(HK::Hash256, 2))), pk(0))),
        (Wrap::Sh, and_v(Node::Verify(bx(Node::Hash(HK::Ripemd160, 3))), pk(0))),
        (Wrap::Wsh, and_v(Node::Verify(bx(Node::Hash(HK::Hash160, 1))), and_v(vpk(0), Node::Older(10)))),
        (Wrap::ShWsh, and_v(Node::Verify(bx(Node::Hash(HK::Sha256, 0))), pk(1))),
        (Wrap::Wsh, Node::Multi(2, vec![0, 1, 2])),
    ];
    lnodes.push((Wrap::Bare, pk(0)));
    let mut dds: Vec<DD> = lnodes.iter().filter_map(|(w, n)| dd_ms(*w, n)).collect();
    for w in [Wrap::Pkh, Wrap::Wpkh, Wrap::ShWpkh] { if let Some(d) = dd_key(w, 0) { dds.push(d); } }
    if let Some(d) = dd_tr(3, &[pk(200), and_v(vpk(201), Node::Older(10))]) { dds.push(d); }
    if let Some(d) = dd_tr(3, &[]) { dds.push(d); }
    for dd in &dds {
        let full = full_pa(dd);
        let mut nokey = full.clone();
        for s in nokey.srcs.iter_mut() { s.key_spend = false; }
        for pa in [full, nokey, PA::default()] {
            let assets = pa.to_assets(&dd.leaves);
            for mall in [false, true] {
                let plain = run_plan(dd, &assets, mall, false);
                let logged = run_plan(dd, &LoggerAssetProvider(&assets), mall, false);
                match (plain, logged) {
                    (Some(p), Some(l)) => out.line(&format!("J plan-logger-same {} {} {} {} {} {}", ty_name(dd.desc.desc_type()), if mall { "mall" } else { "nonmall" }, dd.name, pa.wire(),
                        plan_sig(dd, &p.ok()), plan_sig(dd, &l.ok())), "ok"),
                    _ => out.line(&format!("J nopanic plan-logger {} {} PANIC", dd.name, pa.wire()), "ok"),
                }
            }
        }
    }
}

pub fn run(out: &mut Out, thorough: bool, seed: u64) {
    let mut rng = Rng(seed ^ 0xC17);
    let _ = ktable();
    // panics of the library are caught and reported as `J nopanic … PANIC` lines
    let old_hook = std::panic::take_hook();
    std::panic::set_hook(Box::new(|_| {}));
    let mut n_desc = 0u64;
    let cap = if thorough { 40 } else { 12 };
    // ---- T5 correspondence: key-source matching, complete over a small path universe
    emit_assetsquery(out);
    // ---- miniscript descriptors: enumerated + corpus
    for (ctx, wraps) in [(CtxK::Segwitv0, vec![Wrap::Wsh, Wrap::ShWsh]), (CtxK::Legacy, vec![Wrap::Sh]), (CtxK::Bare, vec![Wrap::Bare])] {
        let atoms = Atoms {
            keys: vec![0, 1, 2],
            unc_keys: if thorough && ctx != CtxK::Segwitv0 { vec![100] } else { vec![] },
            hashes: if thorough { vec![(HK::Sha256, 0), (HK::Hash160, 1), (HK::Hash256, 2), (HK::Ripemd160, 3)] } else { vec![(HK::Sha256, 0), (HK::Ripemd160, 1)] },
            afters: if thorough { vec![100, 200, 500_000_001] } else { vec![100, 200] },
            olders: if thorough { vec![10, 20, 4_194_305] } else { vec![10, 20] },
        };
        let mut nodes: Vec<Node> = ast::enumerate(ctx, &atoms, if thorough { 4 } else { 3 }, if thorough { 30 } else { 6 }, &mut rng)
            .into_iter().filter(|t| t.base == Base::B).map(|t| t.node).collect();
        let n_enum = nodes.len();
        nodes.extend(lock_corpus(&|i| i, false));
        nodes.extend(lock_corpus(&|i| 300 + i, false));
        nodes.extend(hash_corpus(&|i| i));
        if ctx != CtxK::Bare { nodes.extend(raw_corpus(&|i| i)); }
        // the designated input classes, in every tier
        nodes.extend(ast::dimension_corpus(ctx));
        if ctx != CtxK::Bare {
            // a lock below every fragment kind on the forced path; mode-distinguishing scripts
            let designated: Vec<Node> = lock_towers(&|i| i, &Node::Older(10)).into_iter()
                .chain(lock_towers(&|i| i, &Node::After(100))).chain(mode_corpus(&|i| i)).chain(repeated_key_corpus(&|i| i, false)).collect();
            for n in &designated {
                let ok = match ctx { CtxK::Segwitv0 => ast::to_ms::<DefiniteDescriptorKey, Segwitv0>(n).is_ok(), _ => ast::to_ms::<DefiniteDescriptorKey, Legacy>(n).is_ok() };
                if !ok { out.count(&format!("designated script not constructible in {}: {}", ctx.name(), n.wire())); }
            }
            nodes.extend(designated);
        }
        if ctx == CtxK::Legacy || ctx == CtxK::Bare { nodes.extend(unc_corpus(ctx == CtxK::Bare)); }
        if ctx == CtxK::Legacy {
            // redeem scripts at the push-opcode edges and a wide one (343 bytes: 3-byte push)
            for t in [75usize, 76, 255, 256] {
                match sized_script(t) { Some(n) => nodes.push(n), None => out.count("sized script not constructible") }
            }
            nodes.push(Node::Multi(1, (0..10).collect()));
            nodes.push(Node::Multi(3, (0..10).collect()));
        }
        // every hand-made / designated script goes through EVERY wrapper; only the machine
        // enumeration is thinned under sh(wsh) (every third script)
        let designated: BTreeSet<Node> = nodes[n_enum..].iter().cloned().collect();
        let mut seen_nodes = BTreeSet::new();
        nodes.retain(|n| seen_nodes.insert(n.clone()));
        let mut n_thin = 0u64;
        for node in &nodes {
            for w in &wraps {
                if *w == Wrap::ShWsh && !designated.contains(node) { n_thin += 1; if n_thin % 3 != 0 { continue; } }
                if let Some(dd) = dd_ms(*w, node) {
                    n_desc += 1;
                    node.count_frags(out);
                    let mut pas = pa_variants(&dd, cap, &mut rng);
                    pas.extend(raw_variants(&dd));
                    for pa in pas {
                        for mall in [false, true] { check_case(out, &dd, &pa, mall, false); }
                    }
                }
            }
        }
    }
    // ---- single-key descriptors, every key style x every source relation x ecdsa flag
    for w in [Wrap::Pkh, Wrap::Wpkh, Wrap::ShWpkh] {
        for key in [0u32, 1, 2, 3, 100, 101, 300, 301, 302, 303] {
            if let Some(dd) = dd_key(w, key) {
                n_desc += 1;
                let k = kent(key);
                let mut pas = vec![PA::default()];
                for rel in [Rel::Exact, Rel::Parent, Rel::Grand, Rel::Sibling, Rel::OtherFp, Rel::Child] {
                    if let Some(s) = Src::of(k, rel) {
                        pas.push(PA { srcs: vec![s.clone()], ..Default::default() });
                        let mut s2 = s.clone(); s2.ecdsa = false;
                        pas.push(PA { srcs: vec![s2.clone()], ..Default::default() });
                        // a non-signing source first, a signing one later
                        if let Some(p) = Src::of(k, Rel::Parent) { pas.push(PA { srcs: vec![s2, p], ..Default::default() }); }
                    }
                }
                // sources made for OTHER keys of the same master
                for other in [300u32, 302, 303] {
                    for rel in [Rel::Exact, Rel::Parent] {
                        if let Some(s) = Src::of(kent(other), rel) { pas.push(PA { srcs: vec![s], ..Default::default() }); }
                    }
                }
                for pa in pas { for mall in [false, true] { check_case(out, &dd, &pa, mall, false); } }
            }
        }
    }
    // ---- taproot
    {
        let atoms = Atoms { keys: vec![200, 201, 202], unc_keys: vec![],
            hashes: if thorough { vec![(HK::Sha256, 0), (HK::Hash160, 1), (HK::Hash256, 2), (HK::Ripemd160, 3)] } else { vec![(HK::Sha256, 0), (HK::Ripemd160, 1)] },
            afters: vec![100, 200], olders: vec![10, 20] };
        let mut frags: Vec<Node> = ast::enumerate(CtxK::Tap, &atoms, if thorough { 3 } else { 2 }, if thorough { 20 } else { 8 }, &mut rng)
            .into_iter().filter(|t| t.base == Base::B).map(|t| t.node).collect();
        frags.extend(lock_corpus(&|i| 200 + i, true));
        frags.extend(hash_corpus(&|i| 200 + i));
        let xfrags = lock_corpus(&|i| 300 + i, true);
        // leaves of clearly different cost, multi_a / sortedmulti_a over FULL keys of mixed parity
        // (8 and 9: the x-only order and the compressed-encoding order differ), raw key hashes
        let costly: Vec<Node> = vec![
            pk(200),
            and_v(vpk(201), pk(202)),
            Node::MultiA(2, vec![208, 201, 209]),
            Node::SortedMultiA(2, vec![208, 201, 209]),
            Node::SortedMultiA(2, vec![209, 208, 201]),
            Node::SortedMultiA(1, vec![209, 208]),
            Node::MultiA(3, vec![209, 208, 201]),
            and_v(Node::Verify(bx(Node::SortedMultiA(2, vec![208, 209, 202]))), Node::Older(10)),
            Node::Thresh(2, vec![pk(208), Node::Swap(bx(pk(209))), Node::Swap(bx(pk(201)))]),
            and_v(Node::Verify(bx(Node::Hash(HK::Hash256, 2))), pk(209)),
            Node::OrD(bx(pk(208)), bx(and_v(vpk(209), Node::After(100)))),
            Node::Check(bx(Node::RawPkH(200))),
            and_v(Node::Verify(bx(Node::Check(bx(Node::RawPkH(201))))), pk(200)),
            Node::AndOr(bx(Node::Check(bx(Node::RawPkH(200)))), bx(pk(201)), bx(pk(202))),
        ];
        for ik in [3u32, 2, 303] {
            if let Some(dd) = dd_tr(ik, &[]) {
                n_desc += 1;
                for pa in pa_variants_tr(&dd, cap, &mut rng) { check_case(out, &dd, &pa, false, false); check_case(out, &dd, &pa, true, false); }
            }
        }
        // designated classes as single leaves and inside small trees of every shape
        let dim = ast::dimension_corpus(CtxK::Tap);
        let mut wide: Vec<Node> = vec![
            Node::MultiA(2, (200..208).collect()),                                   // leaf script >= 253 bytes
            Node::MultiA(1, (0..260u32).map(|i| 200 + i % 10).collect()),           // > 252 witness items
            and_v(Node::Verify(bx(Node::MultiA(2, (200..208).collect()))), Node::Older(10)),
        ];
        wide.extend(dim.iter().cloned());
        for (i, node) in wide.iter().enumerate() {
            let trees: Vec<(Vec<Node>, Shape)> = match i % 3 {
                0 => vec![(vec![node.clone()], Shape::Left)],
                1 => vec![(vec![pk(201), node.clone(), and_v(vpk(202), Node::After(100))], Shape::Right)],
                _ => vec![(vec![node.clone(), pk(202), Node::Hash(HK::Sha256, 0), and_v(vpk(201), Node::Older(20))], Shape::Balanced)],
            };
            for (leaves, shape) in trees {
                if let Some(dd) = dd_tr_shape(3, &leaves, shape) {
                    let mut l = dd.leaves.clone(); l.sort(); l.dedup();
                    if l.len() != dd.leaves.len() { continue; }
                    n_desc += 1;
                    let mut pas = pa_variants_tr(&dd, if i < 3 { 4 } else { cap / 2 }, &mut rng);
                    pas.extend(raw_variants(&dd));
                    for pa in pas { for mall in [false, true] { check_case(out, &dd, &pa, mall, false); } }
                }
            }
        }
        // R1/R5: the lock towers and the mode-distinguishing scripts as tapscript leaves at depth
        // 0, 1 and 3 (left comb: the LAST leaf is at depth 1, the FIRST at depth n-1)
        let designated: Vec<Node> = lock_towers(&|i| 200 + i, &Node::Older(10)).into_iter()
            .chain(lock_towers(&|i| 200 + i, &Node::After(100))).chain(mode_corpus(&|i| 200 + i)).chain(repeated_key_corpus(&|i| 200 + i, true)).collect();
        for (i, node) in designated.iter().enumerate() {
            if ast::to_ms::<DefiniteDescriptorKey, Tap>(node).is_err() { out.count(&format!("designated script not constructible in tap: {}", node.wire())); continue; }
            let filler = [pk(205), and_v(vpk(206), Node::Hash(HK::Hash160, 1)), pk(207)];
            let trees: Vec<Vec<Node>> = match i % 3 {
                0 => vec![vec![node.clone()]],
                1 => vec![vec![filler[0].clone(), node.clone()]],
                _ => vec![vec![node.clone(), filler[0].clone(), filler[1].clone(), filler[2].clone()]],
            };
            for leaves in trees {
                if let Some(dd) = dd_tr(4, &leaves) {
                    n_desc += 1;
                    // key path off, and every "one key missing" set: the designated leaf is used
                    let mut full = full_pa(&dd);
                    for s in full.srcs.iter_mut() { s.key_spend = false; }
                    let mut pas = vec![full.clone()];
                    for j in 0..full.srcs.len() { let mut a = full.clone(); a.srcs.remove(j); pas.push(a); }
                    for o in lock_options_abs(&dd.afters) { let mut a = full.clone(); a.abs = o; pas.push(a); }
                    for o in lock_options_rel(&dd.olders) { let mut a = full.clone(); a.rel = o; pas.push(a); }
                    for h in full.pre.iter() { let mut a = full.clone(); a.pre.remove(h); pas.push(a); }
                    let mut seen = BTreeSet::new();
                    pas.retain(|a| seen.insert(a.clone()));
                    for pa in pas { for mall in [false, true] { check_case(out, &dd, &pa, mall, false); } }
                }
            }
        }
        // two sources covering ONE key with different taproot abilities (leaf / key path / size)
        for (ik, leaves) in [(3u32, vec![pk(200)]), (3, vec![pk(200), and_v(vpk(203), Node::Older(10))]), (0, vec![pk(203)]), (300, vec![pk(201)])] {
            if let Some(dd) = dd_tr(ik, &leaves) {
                n_desc += 1;
                let leaf_key = match leaves[0] { Node::Check(ref x) => match **x { Node::PkK(k) => if k >= 300 { k } else { k - 200 }, _ => 0 }, _ => 0 };
                let mut pas = dual_source_pas(&dd, leaf_key);
                pas.extend(dual_source_pas(&dd, ik));
                for pa in pas { for mall in [false, true] { check_case(out, &dd, &pa, mall, false); } }
            }
        }
        for w in [Wrap::Wpkh, Wrap::Pkh] {
            for key in [0u32, 3, 300] {
                if let Some(dd) = dd_key(w, key) { for pa in dual_source_pas(&dd, key) { check_case(out, &dd, &pa, false, false); } }
            }
        }
        let n_tr = if thorough { 600 } else { 110 };
        for i in 0..n_tr {
            let nl = if i % 3 == 2 { 3 + rng.below(3) } else { 1 + rng.below(3) };
            let pool = if i % 5 == 4 { &xfrags } else if i % 3 == 2 { &costly } else { &frags };
            let mut leaves: Vec<Node> = (0..nl).map(|_| pool[rng.below(pool.len())].clone()).collect();
            if i % 6 == 2 { leaves.push(frags[rng.below(frags.len())].clone()); }
            let ik = *rng.pick(&[3u32, 4, 0, 303]);
            let shape = match i % 4 { 1 => Shape::Right, 3 => Shape::Balanced, _ => Shape::Left };
            if let Some(dd) = dd_tr_shape(ik, &leaves, shape) {
                // leaf hashes must be pairwise distinct for per-leaf availability to be meaningful
                let mut l = dd.leaves.clone(); l.sort(); l.dedup();
                if l.len() != dd.leaves.len() { continue; }
                n_desc += 1;
                let mut pas = pa_variants_tr(&dd, cap, &mut rng);
                pas.extend(raw_variants(&dd));
                for pa in pas { for mall in [false, true] { check_case(out, &dd, &pa, mall, false); } }
            }
        }
    }
    // ---- R2: refused-today inputs, one reason each: judged like everything else once accepted
    for (why, w, node) in refused_corpus() {
        match dd_ms(w, &node) {
            None => out.count(&format!("refused today: {}", why)),
            Some(dd) => {
                out.count(&format!("refused-today input ACCEPTED: {}", why));
                for pa in pa_variants(&dd, cap, &mut rng) { for mall in [false, true] { check_case(out, &dd, &pa, mall, false); } }
            }
        }
    }
    for (why, ik, leaves) in [("uncompressed internal key", 100u32, vec![]), ("uncompressed key in a tapscript leaf", 3, vec![pk(100)]),
                              ("multi inside tapscript", 3, vec![Node::Multi(1, vec![200, 201])]), ("top level V tapscript leaf", 3, vec![vpk(200)])] {
        match dd_tr(ik, &leaves) {
            None => out.count(&format!("refused today: {}", why)),
            Some(dd) => {
                out.count(&format!("refused-today input ACCEPTED: {}", why));
                for pa in pa_variants_tr(&dd, cap, &mut rng) { for mall in [false, true] { check_case(out, &dd, &pa, mall, false); } }
            }
        }
    }
    // ---- Assets built through the library's construction API
    api_cases(out);
    psbt_two_leaves(out);
    // ---- adversarial assets: no panic (origin-less keys vs same-fingerprint sources of any depth)
    adversarial(out);
    std::panic::set_hook(old_hook);
    out.note("observations", "beyond the statement of C17, counted only (hist keys `observation: …`): Plan::update_psbt_input (1) inserts a script-path key into tap_key_origins with an EMPTY leaf-hash list on first insertion, e.g. tr(K,pk(A)) without key-path signing; (2) writes no bip32_derivation / tap_key_origins entry for a key whose public key (not signature) the plan pushes, e.g. sh(or_b(pkh(A),sn:ripemd160(H))) with only the preimage of H, (3) whereupon the updated and fully signed PSBT does not finalize".into());
    out.note("descriptors", n_desc.to_string());
    out.note("distinct_nontrivial", n_desc.to_string());
    out.note("domain", "definite descriptors (bare/pkh/sh/wpkh/sh-wpkh/wsh/sh-wsh/tr; single keys with/without origin, xpub-derived keys of one master) x plan::Assets (key sources exact/parent/grand-parent/child/sibling/other-fingerprint, CanSign shapes, per-leaf availability, preimage subsets, max abs/rel lock below/at/above each lock and other unit) x {plan, plan_mall}.  ROUTES: into_plan / into_plan_mall / deprecated plan / plan_mall / impl AssetProvider for Satisfier / LoggerAssetProvider / Plan::satisfy / Plan::update_psbt_input; every hand-made and designated script (ast::dimension_corpus incl. wrapper towers, lock / hash / raw-pkh corpora, lock towers, mode-distinguishing scripts, repeated keys) goes through wsh, sh(wsh), sh (bare where the context allows) and, with x-only keys, through tapscript leaves at depth 0, 1 and 3; only the machine enumeration is thinned (every third script) under sh(wsh).  LOCK TOWERS: older(10) / after(100) below every wrapper (a s c d v j n, towers n:n: and a:d:v:n:), on either side of and_v / and_b, in the satisfied branch of or_b / or_c / or_d / or_i / andor next to a DISSATISFIED sibling, in each andor position, among the satisfied and next to the dissatisfied children of thresh, below t:or_c and or_i(X,0) casts; the path through the lock is forced by every one-key-missing asset set; the reported locks are judged by executing the produced witness at exactly those locks (J spend) and at lock-1 / other unit / none / final sequence / disable flag (J spendfail), both modes.  STATES: the same Plan completed again after update_psbt_input and a clone taken before use (J plan-reuse-same); taproot descriptors rebuilt from their parts (empty spend-info cache) against the used object (J plan-fresh-same); Assets assembled through new()/after()/older()/add() piece by piece in another order against the struct built at once (J plan-assets-order-same); a Psbt on which finalize already failed, signed afterwards (J psbt-finalize afterfail.*).  REFUSED TODAY (27 inputs, one reason each: uncompressed keys in segwit / tapscript, multi_a outside tapscript, multi in tapscript, 21-key multi, bare shapes, 520-byte redeem script, top-level V / K / W, older(0) / disable flag, after(0) / 2^31, thresh k = 0 / k > n, d: / s: child types): run through every judge the day a constructor accepts them".into());
}

/// `C assetsquery <key fp> <key path> <src fp> <src path> <ecdsa 0/1>`: AssetProvider answer
/// of an `Assets` holding exactly that source, for a key with that origin
fn emit_assetsquery(out: &mut Out) {
    let fps = [Fingerprint::from([1u8, 2, 3, 4]), Fingerprint::from([1u8, 2, 3, 5])];
    let universe: Vec<Vec<ChildNumber>> = {
        let mut v = vec![vec![]];
        let steps = [cn(0, false), cn(1, false), cn(0, true)];
        for a in steps { v.push(vec![a]); for b in steps { v.push(vec![a, b]); for c in steps { v.push(vec![a, b, c]); } } }
        v
    };
    let pkhex = ast::full_key(5).to_string();
    for kp in &universe {
        let s = if kp.is_empty() { format!("[{}]{}", fps[0], pkhex) } else { format!("[{}/{}]{}", fps[0], path_str(kp), pkhex) };
        let key = match DefiniteDescriptorKey::from_str(&s) { Ok(k) => k, Err(_) => continue };
        for sp in &universe {
            for (fi, fp) in fps.iter().enumerate() {
                for ecdsa in [true, false] {
                    if (fi == 1 || !ecdsa) && sp.len() > 1 && kp.len() > 1 { continue; }
                    let mut a = PlanAssets::new();
                    let mut can = CanSign::default(); can.ecdsa = ecdsa;
                    a.keys.insert(((*fp, DerivationPath::from(sp.clone())), can));
                    let r = catch(|| AssetProvider::<DefiniteDescriptorKey>::provider_lookup_ecdsa_sig(&a, &key));
                    out.line(&format!("C assetsquery {} {} {} {} {}", fps[0], path_wire(kp), fp, path_wire(sp), ecdsa as u8),
                        match r { Some(true) => "true", Some(false) => "false", None => "PANIC" });
                }
            }
        }
    }
}

fn adversarial(out: &mut Out) {
    // keys without origin (id 2, 5, 101), with a depth-1 origin (1, 4), xpub without steps (303)
    for key in [2u32, 5, 101, 1, 4, 303, 301] {
        let k = kent(key);
        let mut dds = vec![];
        for w in [Wrap::Wpkh, Wrap::Pkh, Wrap::ShWpkh] { if key == 101 && w != Wrap::Pkh { continue; } if let Some(d) = dd_key(w, key) { dds.push(d); } }
        if key != 101 {
            if let Some(d) = dd_ms(Wrap::Wsh, &pk(key)) { dds.push(d); }
            if let Some(d) = dd_tr(key, &[]) { dds.push(d); }
            if let Some(d) = dd_tr(3, &[pk(if key < 100 { 200 + key } else { key })]) { dds.push(d); }
        }
        let mut srcs: Vec<Src> = vec![];
        for rel in [Rel::Exact, Rel::Parent, Rel::Grand, Rel::Child, Rel::Sibling, Rel::OtherFp] { if let Some(s) = Src::of(k, rel) { srcs.push(s); } }
        // same fingerprint, assorted depths
        for p in [vec![], vec![cn(0, false)], vec![cn(1, false), cn(2, false)], vec![cn(0, true), cn(0, true), cn(0, true), cn(0, true)]] {
            srcs.push(Src { fp: k.fp, path: p, ecdsa: true, key_spend: true, leaves: Leaves::Any, sighash_default: true });
        }
        for dd in &dds {
            for s in &srcs {
                for flip in [false, true] {
                    let mut s = s.clone();
                    if flip { s.ecdsa = false; s.key_spend = false; s.leaves = Leaves::None; }
                    let pa = PA { srcs: vec![s], ..Default::default() };
                    for mall in [false, true] { check_case(out, dd, &pa, mall, true); }
                }
            }
        }
    }
}

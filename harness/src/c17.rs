//! C17: spending plans are faithful to the satisfier and report exact time locks.
//!
//! Definite descriptors (`Descriptor<DefiniteDescriptorKey>`, single keys with and without
//! origin, xpub-derived keys sharing one master fingerprint) x `plan::Assets` (key sources
//! related to the descriptor's keys as exact / parent / grand-parent / child / sibling /
//! other-fingerprint, every `CanSign` shape incl. per-leaf availability, preimage subsets,
//! absolute / relative maximum below / at / above every lock and in the other unit) x
//! {plan, plan_mall}.  The satisfier side (`PSat`) holds REAL signatures over a concrete
//! transaction for exactly the keys the assets make signable *according to the documented
//! meaning of a key source* (re-stated here, not taken from plan.rs).
use std::cell::RefCell;
use std::collections::{BTreeMap, BTreeSet};
use std::str::FromStr;
use std::sync::Arc;

use miniscript::bitcoin::bip32::{ChildNumber, DerivationPath, Fingerprint, Xpriv, Xpub};
use miniscript::bitcoin::hashes::{hash160, ripemd160, sha256, Hash};
use miniscript::bitcoin::key::TapTweak;
use miniscript::bitcoin::script::Instruction;
use miniscript::bitcoin::secp256k1::{self, Message, Secp256k1, SecretKey};
use miniscript::bitcoin::sighash::{EcdsaSighashType, Prevouts, SighashCache, TapSighashType};
use miniscript::bitcoin::taproot::{TapLeafHash, TapNodeHash};
use miniscript::bitcoin::{
    absolute, ecdsa, psbt, relative, taproot, Amount, Network, PublicKey, ScriptBuf, Transaction, TxOut,
};
use miniscript::descriptor::{DescriptorType, TapTree};
use miniscript::miniscript::satisfy::Placeholder;
use miniscript::miniscript::types::Base;
use miniscript::plan::{AssetProvider, Assets as PlanAssets, CanSign, Plan, TaprootAvailableLeaves, TaprootCanSign};
use miniscript::{
    hash256, BareCtx, DefiniteDescriptorKey, Descriptor, Legacy, Miniscript, Satisfier, Segwitv0, Tap,
};

use crate::ast::{self, hex, Atoms, CtxK, Node, HK};
use crate::common::{Out, Rng};
use crate::desc::{self, wit_wire, VALUE};
use crate::msops::hash_id;

fn secp() -> &'static Secp256k1<secp256k1::All> {
    static S: std::sync::OnceLock<Secp256k1<secp256k1::All>> = std::sync::OnceLock::new();
    S.get_or_init(Secp256k1::new)
}

/* ---------------------------------------------------------------- key table */

pub struct KEnt {
    pub id: u32,
    pub def: DefiniteDescriptorKey,
    pub pk: PublicKey,
    pub sk: SecretKey,
    /// fingerprint / full derivation path as CONSTRUCTED (not read back from the library)
    pub fp: Fingerprint,
    pub path: Vec<ChildNumber>,
}

fn own_fp(pk: &PublicKey) -> Fingerprint {
    let h = hash160::Hash::hash(&pk.to_bytes());
    Fingerprint::from([h[0], h[1], h[2], h[3]])
}
fn cn(n: u32, hardened: bool) -> ChildNumber {
    if hardened { ChildNumber::from_hardened_idx(n).unwrap() } else { ChildNumber::from_normal_idx(n).unwrap() }
}
fn path_str(p: &[ChildNumber]) -> String {
    p.iter().map(|c| match c { ChildNumber::Normal { index } => format!("{}", index), ChildNumber::Hardened { index } => format!("{}h", index) })
        .collect::<Vec<_>>().join("/")
}
fn path_wire(p: &[ChildNumber]) -> String {
    if p.is_empty() { "-".into() } else { p.iter().map(|c| u32::from(*c).to_string()).collect::<Vec<_>>().join(",") }
}

/// ids 0..9 compressed / 100..103 uncompressed single keys (id % 3 == 0: origin of depth 3,
/// == 1: origin of depth 1, == 2: NO origin), 300..303 keys derived from one master xprv.
pub fn ktable() -> &'static Vec<KEnt> {
    static T: std::sync::OnceLock<Vec<KEnt>> = std::sync::OnceLock::new();
    T.get_or_init(|| {
        let mut v = vec![];
        for id in (0..10).chain(100..104) {
            let pk = ast::full_key(id);
            let sk = ast::secret(id % 100);
            let i = id % 100;
            let fpb = [0xc1u8, 0x70, (id / 100) as u8, i as u8];
            let (fp, path): (Fingerprint, Vec<ChildNumber>) = match id % 3 {
                2 => (own_fp(&pk), vec![]),
                0 => (Fingerprint::from(fpb), vec![cn(48, true), cn(0, false), cn(i, false)]),
                _ => (Fingerprint::from(fpb), vec![cn(i + 20, false)]),
            };
            let s = if id % 3 == 2 { format!("{}", pk) } else { format!("[{}/{}]{}", fp, path_str(&path), pk) };
            let def = DefiniteDescriptorKey::from_str(&s).expect("definite key");
            v.push(KEnt { id, def, pk, sk, fp, path });
        }
        // one master, account 48h/1h; an xpub WITHOUT origin from another master
        let master = Xpriv::new_master(Network::Bitcoin, &[0x17u8; 32]).unwrap();
        let mfp = master.fingerprint(secp());
        let acc_path = vec![cn(48, true), cn(1, true)];
        let acc = master.derive_priv(secp(), &DerivationPath::from(acc_path.clone())).unwrap();
        let acc_pub = Xpub::from_priv(secp(), &acc);
        let other = Xpriv::new_master(Network::Bitcoin, &[0x71u8; 32]).unwrap();
        let other_pub = Xpub::from_priv(secp(), &other);
        let mut add = |id: u32, origin: bool, base: &Xpriv, base_pub: &Xpub, steps: Vec<ChildNumber>| {
            let child = base.derive_priv(secp(), &DerivationPath::from(steps.clone())).unwrap();
            let sk = child.private_key;
            let pk = PublicKey::new(secp256k1::PublicKey::from_secret_key(secp(), &sk));
            let mut s = String::new();
            let (fp, mut path) = if origin { s.push_str(&format!("[{}/{}]", mfp, path_str(&acc_path))); (mfp, acc_path.clone()) }
                                 else { (base_pub.fingerprint(), vec![]) };
            s.push_str(&base_pub.to_string());
            if !steps.is_empty() { s.push('/'); s.push_str(&path_str(&steps)); }
            path.extend(steps);
            let def = DefiniteDescriptorKey::from_str(&s).expect("definite xpub key");
            v.push(KEnt { id, def, pk, sk, fp, path });
        };
        add(300, true, &acc, &acc_pub, vec![cn(0, false), cn(5, false)]);
        add(301, false, &other, &other_pub, vec![cn(1, false), cn(2, false)]);
        add(302, true, &acc, &acc_pub, vec![cn(0, false), cn(6, false)]);
        add(303, true, &acc, &acc_pub, vec![]);
        for e in &v {
            assert_eq!(e.def.master_fingerprint(), e.fp, "fingerprint of {}", e.def);
            assert_eq!(e.def.full_derivation_paths(), vec![DerivationPath::from(e.path.clone())]);
            assert_eq!(miniscript::ToPublicKey::to_public_key(&e.def), e.pk);
        }
        v
    })
}
/// key atoms: 0..9 / 100..103 / 300..303; tap atoms 200+k name the same entry as k
pub fn kent(id: u32) -> &'static KEnt {
    let id = if (200..300).contains(&id) { id - 200 } else { id };
    ktable().iter().find(|e| e.id == id).unwrap_or_else(|| panic!("no key {}", id))
}
fn kent_of(pk: &DefiniteDescriptorKey) -> Option<&'static KEnt> { ktable().iter().find(|e| e.def == *pk) }

impl ast::KeyOf for DefiniteDescriptorKey { fn of(id: u32) -> Self { kent(id).def.clone() } }

/* ---------------------------------------------------------------- assets at test level */

#[derive(Clone, Debug, PartialEq, Eq, PartialOrd, Ord)]
pub enum Leaves { None, Any, Only(Vec<usize>) }

#[derive(Clone, Debug, PartialEq, Eq, PartialOrd, Ord)]
pub struct Src {
    pub fp: Fingerprint,
    pub path: Vec<ChildNumber>,
    pub ecdsa: bool,
    pub key_spend: bool,
    /// indices into the descriptor's leaf list
    pub leaves: Leaves,
    pub sighash_default: bool,
}

#[derive(Clone, Copy, Debug, PartialEq, Eq)]
pub enum Rel { Exact, Parent, Grand, Child, Sibling, OtherFp }

impl Src {
    pub fn of(k: &KEnt, rel: Rel) -> Option<Src> {
        let n = k.path.len();
        let (fp, path) = match rel {
            Rel::Exact => (k.fp, k.path.clone()),
            Rel::Parent => { if n < 1 { return None; } (k.fp, k.path[..n - 1].to_vec()) }
            Rel::Grand => { if n < 2 { return None; } (k.fp, k.path[..n - 2].to_vec()) }
            Rel::Child => { let mut p = k.path.clone(); p.push(cn(7, false)); (k.fp, p) }
            Rel::Sibling => { if n < 1 { return None; } let mut p = k.path[..n - 1].to_vec(); p.push(cn(999, false)); (k.fp, p) }
            Rel::OtherFp => { let b = k.fp.to_bytes(); (Fingerprint::from([b[0], b[1], b[2], b[3] ^ 0x80]), k.path.clone()) }
        };
        Some(Src { fp, path, ecdsa: true, key_spend: true, leaves: Leaves::Any, sighash_default: true })
    }
    /// THE DOCUMENTED MEANING of a key source (plan.rs, `Assets::keys`): "the user can sign
    /// using the key with `fingerprint`, derived with either `derivation_path` or a derivation
    /// path that extends `derivation_path` by exactly one child number".
    pub fn covers(&self, k: &KEnt) -> bool {
        self.fp == k.fp && (self.path == k.path || (k.path.len() == self.path.len() + 1 && k.path[..self.path.len()] == self.path[..]))
    }
    fn leaf_ok(&self, i: Option<usize>) -> bool {
        match (&self.leaves, i) { (Leaves::None, _) => false, (Leaves::Any, _) => true, (Leaves::Only(v), Some(i)) => v.contains(&i), (Leaves::Only(_), None) => false }
    }
}

#[derive(Clone, Debug, Default, PartialEq, Eq, PartialOrd, Ord)]
pub struct PA {
    pub srcs: Vec<Src>,
    pub pre: BTreeSet<(HK, u32)>,
    pub abs: Option<u32>,
    pub rel: Option<u32>,
}

impl PA {
    pub fn wire(&self) -> String {
        let ks: Vec<String> = self.srcs.iter().map(|s| {
            let lv = match &s.leaves { Leaves::None => "n".into(), Leaves::Any => "*".into(), Leaves::Only(v) => v.iter().map(|i| i.to_string()).collect::<Vec<_>>().join("+") };
            format!("{}/{}:e{}k{}l{}d{}", s.fp, path_wire(&s.path), s.ecdsa as u8, s.key_spend as u8, lv, s.sighash_default as u8)
        }).collect();
        let ps: Vec<String> = self.pre.iter().map(|(k, h)| format!("{}:{}", k.name(), h)).collect();
        let j = |v: Vec<String>| if v.is_empty() { "-".to_string() } else { v.join(",") };
        format!("k={};p={};a={};o={}", j(ks), j(ps), self.abs.map(|x| x.to_string()).unwrap_or("-".into()),
            self.rel.map(|x| x.to_string()).unwrap_or("-".into()))
    }
    pub fn to_assets(&self, leaves: &[TapLeafHash]) -> PlanAssets {
        let mut a = PlanAssets::new();
        for s in &self.srcs {
            let script_spend = match &s.leaves {
                Leaves::None => TaprootAvailableLeaves::None,
                Leaves::Any => TaprootAvailableLeaves::Any,
                Leaves::Only(v) if v.len() == 1 => TaprootAvailableLeaves::Single(leaves.get(v[0]).cloned().unwrap_or(TapLeafHash::all_zeros())),
                Leaves::Only(v) => TaprootAvailableLeaves::Many(v.iter().map(|i| leaves.get(*i).cloned().unwrap_or(TapLeafHash::all_zeros())).collect()),
            };
            let can = CanSign { ecdsa: s.ecdsa, taproot: TaprootCanSign { key_spend: s.key_spend, script_spend, sighash_default: s.sighash_default } };
            a.keys.insert(((s.fp, DerivationPath::from(s.path.clone())), can));
        }
        for (k, h) in &self.pre {
            let v = ast::hash_value(*k, *h);
            match k {
                HK::Sha256 => { a.sha256_preimages.insert(sha256::Hash::from_slice(&v).unwrap()); }
                HK::Hash256 => { a.hash256_preimages.insert(hash256::Hash::from_slice(&v).unwrap()); }
                HK::Ripemd160 => { a.ripemd160_preimages.insert(ripemd160::Hash::from_slice(&v).unwrap()); }
                HK::Hash160 => { a.hash160_preimages.insert(hash160::Hash::from_slice(&v).unwrap()); }
            }
        }
        a.absolute_timelock = self.abs.map(absolute::LockTime::from_consensus);
        a.relative_timelock = self.rel.and_then(|r| relative::LockTime::from_consensus(r).ok());
        a
    }
}

/// BIP65: does nLockTime = lt satisfy `after(n)`?   (independent of the library)
fn after_ok(lt: u32, n: u32) -> bool { (lt < 500_000_000) == (n < 500_000_000) && n <= lt }
/// BIP112: does nSequence = sq satisfy `older(n)`?
fn older_ok(sq: u32, n: u32) -> bool {
    sq & (1 << 31) == 0 && (sq & (1 << 22)) == (n & (1 << 22)) && (n & 0xffff) <= (sq & 0xffff)
}

/* ---------------------------------------------------------------- descriptors */

pub struct DD {
    pub desc: Descriptor<DefiniteDescriptorKey>,
    pub name: String,
    pub keys: Vec<u32>,
    pub hashes: Vec<(HK, u32)>,
    pub afters: Vec<u32>,
    pub olders: Vec<u32>,
    pub leaves: Vec<TapLeafHash>,
    /// taproot: internal key atom and, per leaf, the key atoms of that leaf
    pub internal: Option<u32>,
    pub leaf_keys: Vec<Vec<u32>>,
}

#[derive(Clone, Copy, Debug, PartialEq, Eq)]
pub enum Wrap { Wsh, ShWsh, Sh, Bare, Pkh, Wpkh, ShWpkh }

fn collect(nodes: &[&Node]) -> (Vec<u32>, Vec<(HK, u32)>, Vec<u32>, Vec<u32>) {
    let (mut ks, mut hs, mut af, mut ol) = (vec![], vec![], vec![], vec![]);
    for n in nodes { n.keys(&mut ks); n.hashes(&mut hs); n.locks(&mut af, &mut ol); }
    let norm = |k: u32| if (200..300).contains(&k) { k - 200 } else { k };
    let mut ks: Vec<u32> = ks.into_iter().map(norm).collect();
    ks.sort(); ks.dedup(); hs.sort(); hs.dedup(); af.sort(); af.dedup(); ol.sort(); ol.dedup();
    (ks, hs, af, ol)
}

pub fn dd_ms(wrap: Wrap, node: &Node) -> Option<DD> {
    type K = DefiniteDescriptorKey;
    let desc = match wrap {
        Wrap::Wsh => Descriptor::new_wsh(ast::to_ms::<K, Segwitv0>(node).ok()?).ok()?,
        Wrap::ShWsh => Descriptor::new_sh_wsh(ast::to_ms::<K, Segwitv0>(node).ok()?).ok()?,
        Wrap::Sh => Descriptor::new_sh(ast::to_ms::<K, Legacy>(node).ok()?).ok()?,
        Wrap::Bare => Descriptor::new_bare(ast::to_ms::<K, BareCtx>(node).ok()?).ok()?,
        _ => return None,
    };
    let (keys, hashes, afters, olders) = collect(&[node]);
    Some(DD { name: desc.to_string().split('#').next().unwrap().to_string(), desc, keys, hashes, afters, olders, leaves: vec![], internal: None, leaf_keys: vec![] })
}
pub fn dd_key(wrap: Wrap, key: u32) -> Option<DD> {
    let k = kent(key).def.clone();
    let desc = match wrap {
        Wrap::Pkh => Descriptor::new_pkh(k).ok()?,
        Wrap::Wpkh => Descriptor::new_wpkh(k).ok()?,
        Wrap::ShWpkh => Descriptor::new_sh_wpkh(k).ok()?,
        _ => return None,
    };
    Some(DD { name: desc.to_string().split('#').next().unwrap().to_string(), desc, keys: vec![key], hashes: vec![], afters: vec![], olders: vec![], leaves: vec![], internal: None, leaf_keys: vec![] })
}
/// tr(internal, leaves as a left-leaning comb)
pub fn dd_tr(internal: u32, leaf_nodes: &[Node]) -> Option<DD> {
    type K = DefiniteDescriptorKey;
    let mut tree: Option<TapTree<K>> = None;
    let mut lhs = vec![];
    for n in leaf_nodes {
        let ms: Miniscript<K, Tap> = ast::to_ms(n).ok()?;
        lhs.push(TapLeafHash::from_script(&ms.encode(), miniscript::bitcoin::taproot::LeafVersion::TapScript));
        let leaf = TapTree::leaf(Arc::new(ms));
        tree = Some(match tree { None => leaf, Some(t) => TapTree::combine(t, leaf).ok()? });
    }
    let desc = Descriptor::new_tr(kent(internal).def.clone(), tree).ok()?;
    let refs: Vec<&Node> = leaf_nodes.iter().collect();
    let (mut keys, hashes, afters, olders) = collect(&refs);
    let leaf_keys = leaf_nodes.iter().map(|n| collect(&[n]).0).collect();
    if !keys.contains(&internal) { keys.push(internal); }
    Some(DD { name: desc.to_string().split('#').next().unwrap().to_string(), desc, keys, hashes, afters, olders, leaves: lhs, internal: Some(internal), leaf_keys })
}

/* ---------------------------------------------------------------- the satisfier with real signatures */

pub struct PSat<'a> {
    pub pa: &'a PA,
    pub dd: &'a DD,
    pub tx: Transaction,
    pub prevout: TxOut,
    code: Option<(ScriptBuf, bool)>,
    tap_root: Option<Option<TapNodeHash>>,
    pub issued: RefCell<Vec<(Vec<u8>, Vec<u8>)>>,
    pub tap_key_sig: RefCell<Option<Vec<u8>>>,
}

impl<'a> PSat<'a> {
    pub fn new(dd: &'a DD, pa: &'a PA, lt: u32, sq: u32) -> PSat<'a> {
        let tx = desc::make_tx(lt, sq);
        let prevout = TxOut { value: Amount::from_sat(VALUE), script_pubkey: dd.desc.script_pubkey() };
        let segwit = matches!(dd.desc.desc_type(), DescriptorType::Wsh | DescriptorType::ShWsh | DescriptorType::Wpkh | DescriptorType::ShWpkh);
        let code = dd.desc.script_code().ok().map(|c| (c, segwit));
        let tap_root = match &dd.desc { Descriptor::Tr(tr) => Some(tr.spend_info().merkle_root()), _ => None };
        PSat { pa, dd, tx, prevout, code, tap_root, issued: Default::default(), tap_key_sig: Default::default() }
    }
    fn leaf_index(&self, lh: &TapLeafHash) -> Option<usize> { self.dd.leaves.iter().position(|l| l == lh) }
}

impl<'a> Satisfier<DefiniteDescriptorKey> for PSat<'a> {
    fn lookup_ecdsa_sig(&self, pk: &DefiniteDescriptorKey) -> Option<ecdsa::Signature> {
        let k = kent_of(pk)?;
        if !self.pa.srcs.iter().any(|s| s.ecdsa && s.covers(k)) { return None; }
        let (sc, segwit) = self.code.as_ref()?;
        let mut cache = SighashCache::new(&self.tx);
        let digest: [u8; 32] = if *segwit {
            cache.p2wsh_signature_hash(0, sc, self.prevout.value, EcdsaSighashType::All).ok()?.to_byte_array()
        } else {
            cache.legacy_signature_hash(0, sc, EcdsaSighashType::All.to_u32()).ok()?.to_byte_array()
        };
        let sig = secp().sign_ecdsa(&Message::from_digest(digest), &k.sk);
        let s = ecdsa::Signature { signature: sig, sighash_type: EcdsaSighashType::All };
        self.issued.borrow_mut().push((k.pk.to_bytes(), s.to_vec()));
        Some(s)
    }
    fn lookup_tap_key_spend_sig(&self, pk: &DefiniteDescriptorKey) -> Option<taproot::Signature> {
        let k = kent_of(pk)?;
        let src = self.pa.srcs.iter().find(|s| s.key_spend && s.covers(k))?;
        let root = self.tap_root?;
        let ty = if src.sighash_default { TapSighashType::Default } else { TapSighashType::All };
        let mut cache = SighashCache::new(&self.tx);
        let digest = cache.taproot_key_spend_signature_hash(0, &Prevouts::All(&[self.prevout.clone()]), ty).ok()?;
        let kp = secp256k1::Keypair::from_secret_key(secp(), &k.sk).tap_tweak(secp(), root);
        let sig = secp().sign_schnorr_with_aux_rand(&Message::from_digest(digest.to_byte_array()), &kp.to_inner(), &[9u8; 32]);
        let s = taproot::Signature { signature: sig, sighash_type: ty };
        *self.tap_key_sig.borrow_mut() = Some(s.to_vec());
        Some(s)
    }
    fn lookup_tap_leaf_script_sig(&self, pk: &DefiniteDescriptorKey, leaf: &TapLeafHash) -> Option<taproot::Signature> {
        let k = kent_of(pk)?;
        let li = self.leaf_index(leaf);
        let src = self.pa.srcs.iter().find(|s| s.leaf_ok(li) && s.covers(k))?;
        let ty = if src.sighash_default { TapSighashType::Default } else { TapSighashType::All };
        let mut cache = SighashCache::new(&self.tx);
        let digest = cache.taproot_script_spend_signature_hash(0, &Prevouts::All(&[self.prevout.clone()]), *leaf, ty).ok()?;
        let kp = secp256k1::Keypair::from_secret_key(secp(), &k.sk);
        let sig = secp().sign_schnorr_with_aux_rand(&Message::from_digest(digest.to_byte_array()), &kp, &[9u8; 32]);
        let s = taproot::Signature { signature: sig, sighash_type: ty };
        self.issued.borrow_mut().push((k.pk.inner.x_only_public_key().0.serialize().to_vec(), s.to_vec()));
        Some(s)
    }
    fn lookup_sha256(&self, h: &sha256::Hash) -> Option<[u8; 32]> {
        let id = hash_id(HK::Sha256, h.as_byte_array())?;
        if self.pa.pre.contains(&(HK::Sha256, id)) { Some(ast::preimage(id)) } else { None }
    }
    fn lookup_hash256(&self, h: &hash256::Hash) -> Option<[u8; 32]> {
        let id = hash_id(HK::Hash256, h.as_byte_array())?;
        if self.pa.pre.contains(&(HK::Hash256, id)) { Some(ast::preimage(id)) } else { None }
    }
    fn lookup_ripemd160(&self, h: &ripemd160::Hash) -> Option<[u8; 32]> {
        let id = hash_id(HK::Ripemd160, h.as_byte_array())?;
        if self.pa.pre.contains(&(HK::Ripemd160, id)) { Some(ast::preimage(id)) } else { None }
    }
    fn lookup_hash160(&self, h: &hash160::Hash) -> Option<[u8; 32]> {
        let id = hash_id(HK::Hash160, h.as_byte_array())?;
        if self.pa.pre.contains(&(HK::Hash160, id)) { Some(ast::preimage(id)) } else { None }
    }
    fn check_older(&self, n: relative::LockTime) -> bool {
        match self.pa.rel { Some(r) => older_ok(r, n.to_consensus_u32()), None => false }
    }
    fn check_after(&self, n: absolute::LockTime) -> bool {
        match self.pa.abs { Some(a) => after_ok(a, n.to_consensus_u32()), None => false }
    }
}

/* ---------------------------------------------------------------- helpers */

fn varint(n: usize) -> usize { if n < 0xfd { 1 } else if n <= 0xffff { 3 } else if n <= 0xffff_ffff { 5 } else { 9 } }
fn measured_witness(w: &[Vec<u8>]) -> usize {
    if w.is_empty() { 0 } else { varint(w.len()) + w.iter().map(|e| varint(e.len()) + e.len()).sum::<usize>() }
}
fn measured_scriptsig(s: &ScriptBuf) -> usize { varint(s.len()) + s.len() }

/// items pushed by a push-only script, in order
fn pushed_items(s: &ScriptBuf) -> Option<Vec<Vec<u8>>> {
    let mut v = vec![];
    for ins in s.instructions() {
        match ins.ok()? {
            Instruction::PushBytes(b) => v.push(b.as_bytes().to_vec()),
            Instruction::Op(op) => {
                let c = op.to_u8();
                if (0x51..=0x60).contains(&c) { v.push(vec![c - 0x50]) } else if c == 0x4f { v.push(vec![0x81]) } else { return None; }
            }
        }
    }
    Some(v)
}
fn ph_wire(p: &Placeholder<DefiniteDescriptorKey>) -> String {
    use Placeholder::*;
    match p {
        Pubkey(_, s) => format!("pk:{}", s),
        PubkeyHash(_, s) => format!("pkh:{}", s),
        EcdsaSigPk(_) | EcdsaSigPkHash(_) => "sig".into(),
        SchnorrSigPk(_, _, s) | SchnorrSigPkHash(_, _, s) => format!("ssig:{}", s),
        Sha256Preimage(_) | Hash256Preimage(_) | Ripemd160Preimage(_) | Hash160Preimage(_) => "pre".into(),
        HashDissatisfaction => "z32".into(),
        PushOne => "1".into(),
        PushZero => "0".into(),
        TapScript(s) => format!("ts:{}", s.len()),
        TapControlBlock(cb) => format!("cb:{}", cb.serialize().len()),
    }
}

fn ty_name(t: DescriptorType) -> &'static str {
    match t {
        DescriptorType::Bare => "bare", DescriptorType::Pkh => "pkh", DescriptorType::Sh => "sh",
        DescriptorType::Wpkh => "wpkh", DescriptorType::ShWpkh => "shwpkh", DescriptorType::Wsh => "wsh",
        DescriptorType::ShWsh => "shwsh", DescriptorType::Tr => "tr",
        _ => "other",
    }
}

thread_local! { static RAW_BUDGET: RefCell<BTreeMap<String, u32>> = RefCell::new(BTreeMap::new()); }
/// The raw `J sizes` lines of the classes with a recorded (unfixed) finding — `wsh.*`,
/// `shwsh.*` (witness script not counted), `shwpkh.*` / `shwsh.*` (scriptSig 23 / 35 vs 24 / 36)
/// — are emitted for the first 25 cases of each tag only: every case of these classes is still
/// judged by its `J sizes-adj` line, and `bin/check` looks at the first 1000 judge failures only.
fn raw_budget(op: &str, tag: &str) -> bool {
    let known = op == "sizes" && (tag.starts_with("wsh.") || tag.starts_with("shwsh.") || tag.starts_with("shwpkh."));
    if !known { return true; }
    RAW_BUDGET.with(|b| { let mut b = b.borrow_mut(); let c = b.entry(format!("{} {}", op, tag)).or_insert(0); *c += 1; *c <= 25 })
}

fn catch<T>(f: impl FnOnce() -> T) -> Option<T> { std::panic::catch_unwind(std::panic::AssertUnwindSafe(f)).ok() }

#[allow(deprecated)]
fn make_plan(dd: &DD, assets: &PlanAssets, mall: bool) -> Option<Option<Plan<DefiniteDescriptorKey>>> {
    catch(|| if mall { dd.desc.clone().plan_mall(assets).ok() } else { dd.desc.clone().plan(assets).ok() })
}

/// Does any key of the descriptor have an EMPTY derivation path while a source with the same
/// fingerprint has a different path?  (the class that panicked before the F7 fix)
fn f7_class(dd: &DD, pa: &PA) -> bool {
    dd.keys.iter().any(|k| { let k = kent(*k); k.path.is_empty() && pa.srcs.iter().any(|s| s.fp == k.fp && !s.path.is_empty()) })
}

pub struct Stats { pub plans: u64, pub noplans: u64 }

/// all checks for one (descriptor, assets, mode)
pub fn check_case(out: &mut Out, dd: &DD, pa: &PA, mall: bool, adversarial: bool) {
    let mode = if mall { "mall" } else { "nonmall" };
    let assets = pa.to_assets(&dd.leaves);
    let aw = pa.wire();
    let ty = dd.desc.desc_type();
    let class = if f7_class(dd, pa) { "emptypath" } else { "reg" };
    // (f) plan / plan_mall must not panic
    let plan = match make_plan(dd, &assets, mall) {
        None => { out.line(&format!("J nopanic plan {}.{} {} {} {} PANIC", class, ty_name(ty), mode, dd.name, aw), "ok"); return; }
        Some(p) => { if adversarial { out.line(&format!("J nopanic plan {}.{} {} {} {} OK", class, ty_name(ty), mode, dd.name, aw), "ok"); } p }
    };
    // transaction fields: the plan's reported locks (else the assets' maxima)
    let (lt, sq) = match &plan {
        Some(p) => (p.absolute_timelock.map(|l| l.to_consensus_u32()).unwrap_or(0),
                    p.relative_timelock.map(|l| l.to_consensus_u32()).unwrap_or(0xffff_fffe)),
        None => (pa.abs.unwrap_or(0), pa.rel.unwrap_or(0xffff_fffe)),
    };
    let psat = PSat::new(dd, pa, lt, sq);
    let sat = match catch(|| if mall { dd.desc.get_satisfaction_mall(&psat).ok() } else { dd.desc.get_satisfaction(&psat).ok() }) {
        None => { out.line(&format!("J nopanic get_satisfaction {}.{} {} {} {} PANIC", class, ty_name(ty), mode, dd.name, aw), "ok"); return; }
        Some(s) => s,
    };
    let sn = |b: bool| if b { "some" } else { "none" };
    // tag: descriptor type (+ key / script path for taproot)
    let keypath = plan.as_ref().map(|p| p.witness_template().len() == 1 && ty == DescriptorType::Tr).unwrap_or(false);
    let tag = format!("{}.{}", ty_name(ty), if ty == DescriptorType::Tr { if keypath { "key" } else { "script" } }
        else { "std" });
    let head = format!("{} {} {} {}", tag, mode, dd.name, aw);
    // (a) plan exists <=> the satisfier succeeds
    out.line(&format!("J plan-iff-sat {} {} {}", head, sn(plan.is_some()), sn(sat.is_some())), "ok");
    out.count(&format!("case {} plan={} sat={}", ty_name(ty), sn(plan.is_some()), sn(sat.is_some())));
    let plan = match plan { Some(p) => p, None => return };
    // model of the size formulas
    let tmpl: Vec<String> = plan.witness_template().iter().map(ph_wire).collect();
    let tw = if tmpl.is_empty() { "-".to_string() } else { tmpl.join(",") };
    let script_len = dd.desc.explicit_script().map(|s| s.len()).unwrap_or(0);
    out.line(&format!("C plansize {} {} {}", ty_name(ty), tw, script_len),
        &format!("{} {} {}", plan.witness_size(), plan.scriptsig_size(), plan.satisfaction_weight()));
    // complete the plan with the same satisfier
    let done = match catch(|| plan.satisfy(&psat).ok()) {
        None => { out.line(&format!("J nopanic plan-satisfy {}.{} {} {} {} PANIC", class, ty_name(ty), mode, dd.name, aw), "ok"); return; }
        Some(d) => d,
    };
    if catch(|| { let mut inp = psbt::Input::default(); plan.update_psbt_input(&mut inp); }).is_none() {
        out.line(&format!("J nopanic update_psbt_input {}.{} {} {} {} PANIC", class, ty_name(ty), mode, dd.name, aw), "ok");
    }
    let (pwit, pss) = match done {
        Some(x) => x,
        None => { out.line(&format!("J plan-same {} planerr - {}", head, if sat.is_some() { "some" } else { "none" }), "ok"); return; }
    };
    // (b) byte equality with the satisfier's output
    if let Some((swit, sss)) = &sat {
        out.line(&format!("J plan-same {} {} {} {} {}", head, wit_wire(&pwit), hex(pss.as_bytes()), wit_wire(swit), hex(sss.as_bytes())), "ok");
        // glue model: both assemblies from the completed stack
        let stack: Option<Vec<Vec<u8>>> = plan.witness_template().iter().map(|p| p.satisfy_self(&psat)).collect();
        if let Some(stack) = stack {
            let script = dd.desc.explicit_script().map(|s| s.into_bytes()).unwrap_or_default();
            let inner = pushed_items(&dd.desc.unsigned_script_sig()).and_then(|v| v.into_iter().next()).unwrap_or_default();
            out.line(&format!("C planglue {} {} {} {}", ty_name(ty), hex(&script), hex(&inner), wit_wire(&stack)),
                &format!("P:{}/{} G:{}/{}", wit_wire(&pwit), hex(pss.as_bytes()), wit_wire(swit), hex(sss.as_bytes())));
        }
    }
    // (e) announced sizes are upper bounds of the real ones (real = the spend that validates)
    let (mw, mss) = (measured_witness(&pwit), measured_scriptsig(&pss));
    if raw_budget("sizes", &tag) {
        out.line(&format!("J sizes {} {} {} {} {} {}", head, plan.witness_size(), plan.scriptsig_size(), plan.satisfaction_weight(), mw, mss), "ok");
    }
    // the same with the parts the size functions are KNOWN to leave out discounted
    // (witness script item of wsh / sh-wsh; the push opcode of the witness program in
    // sh-wpkh / sh-wsh), so that every other contribution stays checked
    let (dw, dss) = match ty {
        DescriptorType::Wsh => (varint(script_len) + script_len, 0),
        DescriptorType::ShWsh => (varint(script_len) + script_len, 1),
        DescriptorType::ShWpkh => (0, 1),
        _ => (0, 0),
    };
    if dw + dss > 0 {
        out.line(&format!("J sizes-adj {} {} {} {} {} {} discount={}+{}", head, plan.witness_size(), plan.scriptsig_size(), plan.satisfaction_weight(), mw - dw, mss - dss, dw, dss), "ok");
    }
    // (c) sufficiency: the spend validates at nLockTime / nSequence EQUAL to the reported locks
    let info = format!("{} lt={} sq={}", head, lt, sq);
    emit_spend_std(out, "spend", &info, &psat, &pss, &pwit);
    // (d) necessity: any smaller value, the other unit, or no lock at all must fail
    let mut variants: Vec<(u32, u32, &'static str)> = vec![];
    if let Some(a) = plan.absolute_timelock.map(|l| l.to_consensus_u32()) {
        variants.push((a - 1, sq, "abs-1"));
        variants.push((if a < 500_000_000 { 0xffff_ffff } else { 499_999_999 }, sq, "abs-other-unit"));
        variants.push((0, sq, "abs-none"));
        variants.push((a, 0xffff_ffff, "abs-final-sequence"));
    }
    if let Some(r) = plan.relative_timelock.map(|l| l.to_consensus_u32()) {
        variants.push((lt, r - 1, "rel-1"));
        variants.push((lt, (r ^ 0x0040_0000) | 0xffff, "rel-other-unit"));
        variants.push((lt, r | 0x8000_0000, "rel-disabled"));
        variants.push((lt, 0xffff_fffe, "rel-none"));
    }
    for (l2, s2, what) in variants {
        let ps2 = PSat::new(dd, pa, l2, s2);
        if let Some(Some((w2, ss2))) = catch(|| plan.satisfy(&ps2).ok()) {
            emit_spend_std(out, "spendfail", &format!("{} {} lt={} sq={}", head, what, l2, s2), &ps2, &ss2, &w2);
            out.count(&format!("necessity {}", what));
        }
    }
}

fn candidates(ps: &PSat) -> Vec<(Vec<u8>, Vec<u8>)> {
    let mut c = ps.issued.borrow().clone();
    if let Some(s) = ps.tap_key_sig.borrow().as_ref() { c.push((vec![], s.clone())); }
    c
}
/// `J spend` / `J spendfail` in the format of Driver/OpsSpend.lean
fn emit_spend_std(out: &mut Out, op: &str, info: &str, ps: &PSat, ss: &ScriptBuf, wit: &[Vec<u8>]) {
    desc::register_valid(out, &ps.tx, &ps.prevout, ss, wit, &candidates(ps));
    let (lt, sq) = (ps.tx.lock_time.to_consensus_u32(), ps.tx.input[0].sequence.to_consensus_u32());
    out.line(&format!("J {} {} {} {} {} {} | {}", op, lt, sq, hex(ps.prevout.script_pubkey.as_bytes()), hex(ss.as_bytes()), wit_wire(wit), info), "ok");
}
/* ---------------------------------------------------------------- asset enumeration */

fn lock_options_abs(afters: &[u32]) -> Vec<Option<u32>> {
    let mut v = vec![None];
    for n in afters {
        v.push(Some(*n)); v.push(Some(n + 1));
        if *n > 1 { v.push(Some(n - 1)); }
        v.push(Some(if *n < 500_000_000 { 500_000_000 + n } else { 499_999_999 }));
    }
    v.sort(); v.dedup(); v
}
fn lock_options_rel(olders: &[u32]) -> Vec<Option<u32>> {
    let mut v = vec![None];
    for n in olders {
        let c = (n & 0x0040_0000) | (n & 0xffff);
        v.push(Some(c)); if c & 0xffff < 0xffff { v.push(Some(c + 1)); }
        if c & 0xffff > 1 { v.push(Some(c - 1)); }
        v.push(Some((c ^ 0x0040_0000) | 0xffff));
    }
    v.sort(); v.dedup(); v
}

/// the "everything" assets of a descriptor: every key by an exact source, every preimage,
/// the largest lock of the first unit seen
fn full_pa(dd: &DD) -> PA {
    let mut pa = PA::default();
    for k in &dd.keys { pa.srcs.push(Src::of(kent(*k), Rel::Exact).unwrap()); }
    for h in &dd.hashes { pa.pre.insert(*h); }
    if let Some(f) = dd.afters.first() { pa.abs = dd.afters.iter().filter(|x| (**x < 500_000_000) == (*f < 500_000_000)).max().cloned(); }
    if let Some(f) = dd.olders.first() {
        pa.rel = dd.olders.iter().filter(|x| (**x & 0x400000) == (*f & 0x400000)).map(|x| (x & 0x400000) | (x & 0xffff)).max();
    }
    pa
}

/// one-dimensional variations around the full assets, then random combinations
fn pa_variants(dd: &DD, cap: usize, rng: &mut Rng) -> Vec<PA> {
    let full = full_pa(dd);
    let mut v = vec![full.clone()];
    for i in 0..full.srcs.len() {
        let k = kent(dd.keys[i]);
        { let mut a = full.clone(); a.srcs.remove(i); v.push(a); }
        for rel in [Rel::Parent, Rel::Grand, Rel::Sibling, Rel::OtherFp, Rel::Child] {
            if let Some(s) = Src::of(k, rel) { let mut a = full.clone(); a.srcs[i] = s; v.push(a); }
        }
        { let mut a = full.clone(); a.srcs[i].ecdsa = false; a.srcs[i].leaves = Leaves::None; v.push(a); }
        { let mut a = full.clone(); a.srcs[i].key_spend = false; a.srcs[i].sighash_default = false; v.push(a); }
    }
    for p in full.pre.iter() { let mut a = full.clone(); a.pre.remove(p); v.push(a); }
    for o in lock_options_abs(&dd.afters) { let mut a = full.clone(); a.abs = o; v.push(a); }
    for o in lock_options_rel(&dd.olders) { let mut a = full.clone(); a.rel = o; v.push(a); }
    v.push(PA::default());
    // random combinations
    let (la, lr) = (lock_options_abs(&dd.afters), lock_options_rel(&dd.olders));
    for _ in 0..cap {
        let mut a = PA::default();
        for k in &dd.keys {
            let k = kent(*k);
            let rel = *rng.pick(&[Rel::Exact, Rel::Exact, Rel::Parent, Rel::Parent, Rel::Grand, Rel::OtherFp, Rel::Sibling]);
            if rng.below(4) == 0 { continue; }
            if let Some(mut s) = Src::of(k, rel) {
                s.ecdsa = rng.below(5) != 0;
                a.srcs.push(s);
            }
        }
        for h in &dd.hashes { if rng.coin() { a.pre.insert(*h); } }
        a.abs = *rng.pick(&la);
        a.rel = *rng.pick(&lr);
        v.push(a);
    }
    let mut seen = BTreeSet::new();
    v.retain(|a| seen.insert(a.clone()));
    if v.len() > cap {
        // keep the full set, then an evenly spread selection
        let step = v.len() as f64 / cap as f64;
        let mut w = vec![];
        for i in 0..cap { w.push(v[(i as f64 * step) as usize].clone()); }
        v = w;
    }
    v
}

/// taproot-specific variations: key-path ability, per-leaf availability, signature size
fn pa_variants_tr(dd: &DD, cap: usize, rng: &mut Rng) -> Vec<PA> {
    let mut v = pa_variants(dd, cap / 2, rng);
    let full = full_pa(dd);
    let nl = dd.leaves.len();
    let ik = dd.internal.unwrap();
    let ii = dd.keys.iter().position(|k| *k == ik).unwrap();
    // no key path
    { let mut a = full.clone(); a.srcs[ii].key_spend = false; v.push(a.clone());
      for li in 0..nl {
          let mut b = a.clone();
          for s in b.srcs.iter_mut() { s.leaves = Leaves::Only(vec![li]); }
          v.push(b);
      }
      if nl >= 2 {
          let mut b = a.clone();
          for s in b.srcs.iter_mut() { s.leaves = Leaves::Only(vec![0, nl - 1]); }
          v.push(b);
          // a leaf hash that is not in the tree
          let mut c = a.clone();
          for s in c.srcs.iter_mut() { s.leaves = Leaves::Only(vec![nl + 3]); }
          v.push(c);
      }
      let mut b = a.clone(); for s in b.srcs.iter_mut() { s.leaves = Leaves::None; } v.push(b);
      let mut b = a.clone(); for s in b.srcs.iter_mut() { s.sighash_default = false; } v.push(b);
      for _ in 0..cap / 2 {
          let mut b = a.clone();
          for s in b.srcs.iter_mut() {
              s.leaves = match rng.below(4) { 0 => Leaves::None, 1 => Leaves::Any, 2 => Leaves::Only(vec![rng.below(nl.max(1))]), _ => Leaves::Only((0..nl).filter(|_| rng.coin()).collect()) };
          }
          let sd = rng.coin(); for s in b.srcs.iter_mut() { s.sighash_default = sd; }
          b.srcs[ii].key_spend = rng.below(4) == 0;
          v.push(b);
      }
    }
    { let mut a = full.clone(); a.srcs[ii].sighash_default = false; v.push(a); }
    let mut seen = BTreeSet::new();
    v.retain(|a| seen.insert(a.clone()));
    v.truncate(cap + 8);
    v
}

/* ---------------------------------------------------------------- corpus */

fn pk(i: u32) -> Node { Node::Check(Box::new(Node::PkK(i))) }
fn vpk(i: u32) -> Node { Node::Verify(Box::new(pk(i))) }
fn bx(n: Node) -> Box<Node> { Box::new(n) }
fn and_v(a: Node, b: Node) -> Node { Node::AndV(bx(a), bx(b)) }
/// `sln:X` = s:or_i(0, n:X)
fn sln(x: Node) -> Node { Node::Swap(bx(Node::OrI(bx(Node::False), bx(Node::ZeroNotEqual(bx(x)))))) }

/// hand-written scripts around time locks (k = key atom offset: 0 / 200 for tap / 300 xpub)
fn lock_corpus(k: &dyn Fn(u32) -> u32, tap: bool) -> Vec<Node> {
    let mut v = vec![
        Node::OrD(bx(pk(k(0))), bx(and_v(vpk(k(1)), Node::After(100)))),
        Node::OrD(bx(pk(k(0))), bx(and_v(vpk(k(1)), Node::Older(10)))),
        and_v(vpk(k(0)), and_v(Node::Verify(bx(Node::After(100))), Node::After(200))),
        and_v(vpk(k(0)), and_v(Node::Verify(bx(Node::After(200))), Node::After(100))),
        and_v(vpk(k(0)), and_v(Node::Verify(bx(Node::Older(10))), Node::Older(20))),
        and_v(vpk(k(0)), and_v(Node::Verify(bx(Node::Older(20))), Node::Older(10))),
        and_v(vpk(k(0)), and_v(Node::Verify(bx(Node::After(100))), Node::Older(10))),
        and_v(vpk(k(0)), and_v(Node::Verify(bx(Node::After(500_000_001))), Node::After(500_000_100))),
        and_v(vpk(k(0)), and_v(Node::Verify(bx(Node::After(100))), Node::After(500_000_001))),
        and_v(vpk(k(0)), and_v(Node::Verify(bx(Node::Older(4_194_305))), Node::Older(4_194_400))),
        and_v(vpk(k(0)), and_v(Node::Verify(bx(Node::Older(10))), Node::Older(4_194_305))),
        Node::AndOr(bx(pk(k(0))), bx(Node::After(100)), bx(and_v(vpk(k(1)), Node::After(200)))),
        Node::AndOr(bx(pk(k(0))), bx(Node::Older(20)), bx(and_v(vpk(k(1)), Node::Older(10)))),
        Node::OrI(bx(and_v(vpk(k(0)), Node::After(200))), bx(and_v(vpk(k(1)), Node::After(100)))),
        Node::OrI(bx(and_v(vpk(k(0)), Node::Older(10))), bx(and_v(vpk(k(1)), Node::After(100)))),
        Node::Thresh(2, vec![pk(k(0)), Node::Swap(bx(pk(k(1)))), sln(Node::After(100))]),
        Node::Thresh(2, vec![pk(k(0)), Node::Swap(bx(pk(k(1)))), sln(Node::Older(10)), sln(Node::After(200))]),
        Node::Thresh(3, vec![pk(k(0)), sln(Node::After(100)), sln(Node::After(200)), sln(Node::Older(20))]),
        Node::Thresh(2, vec![pk(k(0)), sln(Node::After(100)), sln(Node::After(500_000_001))]),
        Node::AndB(bx(pk(k(0))), bx(Node::Alt(bx(Node::AndB(bx(Node::After(100)), bx(Node::Alt(bx(Node::Older(10))))))))),
        Node::OrD(bx(pk(k(0))), bx(and_v(Node::Verify(bx(Node::Hash(HK::Sha256, 0))), Node::Older(20)))),
        and_v(Node::Verify(bx(Node::Hash(HK::Sha256, 0))), pk(k(0))),
        Node::OrB(bx(pk(k(0))), bx(Node::Alt(bx(and_v(vpk(k(1)), Node::Older(10)))))),
        Node::OrC(bx(pk(k(0))), bx(Node::Verify(bx(and_v(vpk(k(1)), Node::After(100)))))),
    ];
    // or_c is V-typed: wrap
    if let Some(Node::OrC(..)) = v.last() { let x = v.pop().unwrap(); v.push(and_v(x, Node::True)); }
    if tap {
        v.push(Node::MultiA(2, vec![k(0), k(1), k(2)]));
        v.push(and_v(Node::Verify(bx(Node::MultiA(1, vec![k(0), k(1)]))), Node::After(100)));
    } else {
        v.push(Node::SortedMulti(2, vec![k(2), k(0), k(1)]));
        v.push(Node::Multi(2, vec![k(0), k(1), k(2)]));
        v.push(and_v(Node::Verify(bx(Node::Multi(1, vec![k(0), k(1)]))), Node::Older(10)));
    }
    v
}

pub fn run(out: &mut Out, thorough: bool, seed: u64) {
    let mut rng = Rng(seed ^ 0xC17);
    let _ = ktable();
    // panics of the library are caught and reported as `J nopanic … PANIC` lines
    let old_hook = std::panic::take_hook();
    std::panic::set_hook(Box::new(|_| {}));
    let mut n_desc = 0u64;
    let cap = if thorough { 40 } else { 12 };
    // ---- T5 correspondence: key-source matching, complete over a small path universe
    emit_assetsquery(out);
    // ---- miniscript descriptors: enumerated + corpus
    for (ctx, wraps) in [(CtxK::Segwitv0, vec![Wrap::Wsh, Wrap::ShWsh]), (CtxK::Legacy, vec![Wrap::Sh]), (CtxK::Bare, vec![Wrap::Bare])] {
        let atoms = Atoms {
            keys: vec![0, 1, 2],
            unc_keys: if thorough && ctx != CtxK::Segwitv0 { vec![100] } else { vec![] },
            hashes: vec![(HK::Sha256, 0)],
            afters: if thorough { vec![100, 200, 500_000_001] } else { vec![100, 200] },
            olders: if thorough { vec![10, 20, 4_194_305] } else { vec![10, 20] },
        };
        let mut nodes: Vec<Node> = ast::enumerate(ctx, &atoms, if thorough { 4 } else { 3 }, if thorough { 30 } else { 6 }, &mut rng)
            .into_iter().filter(|t| t.base == Base::B).map(|t| t.node).collect();
        nodes.extend(lock_corpus(&|i| i, false));
        nodes.extend(lock_corpus(&|i| 300 + i, false));
        for node in &nodes {
            for w in &wraps {
                // sh-wsh: every third script only (same satisfier as wsh)
                if *w == Wrap::ShWsh && n_desc % 3 != 0 { n_desc += 1; continue; }
                if let Some(dd) = dd_ms(*w, node) {
                    n_desc += 1;
                    node.count_frags(out);
                    for pa in pa_variants(&dd, cap, &mut rng) {
                        for mall in [false, true] { check_case(out, &dd, &pa, mall, false); }
                    }
                }
            }
        }
    }
    // ---- single-key descriptors, every key style x every source relation x ecdsa flag
    for w in [Wrap::Pkh, Wrap::Wpkh, Wrap::ShWpkh] {
        for key in [0u32, 1, 2, 3, 100, 101, 300, 301, 302, 303] {
            if let Some(dd) = dd_key(w, key) {
                n_desc += 1;
                let k = kent(key);
                let mut pas = vec![PA::default()];
                for rel in [Rel::Exact, Rel::Parent, Rel::Grand, Rel::Sibling, Rel::OtherFp, Rel::Child] {
                    if let Some(s) = Src::of(k, rel) {
                        pas.push(PA { srcs: vec![s.clone()], ..Default::default() });
                        let mut s2 = s.clone(); s2.ecdsa = false;
                        pas.push(PA { srcs: vec![s2.clone()], ..Default::default() });
                        // a non-signing source first, a signing one later
                        if let Some(p) = Src::of(k, Rel::Parent) { pas.push(PA { srcs: vec![s2, p], ..Default::default() }); }
                    }
                }
                // sources made for OTHER keys of the same master
                for other in [300u32, 302, 303] {
                    for rel in [Rel::Exact, Rel::Parent] {
                        if let Some(s) = Src::of(kent(other), rel) { pas.push(PA { srcs: vec![s], ..Default::default() }); }
                    }
                }
                for pa in pas { for mall in [false, true] { check_case(out, &dd, &pa, mall, false); } }
            }
        }
    }
    // ---- taproot
    {
        let atoms = Atoms { keys: vec![200, 201, 202], unc_keys: vec![], hashes: vec![(HK::Sha256, 0)],
            afters: vec![100, 200], olders: vec![10, 20] };
        let mut frags: Vec<Node> = ast::enumerate(CtxK::Tap, &atoms, if thorough { 3 } else { 2 }, if thorough { 20 } else { 8 }, &mut rng)
            .into_iter().filter(|t| t.base == Base::B).map(|t| t.node).collect();
        frags.extend(lock_corpus(&|i| 200 + i, true));
        let xfrags = lock_corpus(&|i| 300 + i, true);
        for ik in [3u32, 2, 303] {
            if let Some(dd) = dd_tr(ik, &[]) {
                n_desc += 1;
                for pa in pa_variants_tr(&dd, cap, &mut rng) { check_case(out, &dd, &pa, false, false); check_case(out, &dd, &pa, true, false); }
            }
        }
        let n_tr = if thorough { 600 } else { 110 };
        for i in 0..n_tr {
            let nl = 1 + rng.below(3);
            let pool = if i % 5 == 4 { &xfrags } else { &frags };
            let leaves: Vec<Node> = (0..nl).map(|_| pool[rng.below(pool.len())].clone()).collect();
            let ik = *rng.pick(&[3u32, 4, 0, 303]);
            if let Some(dd) = dd_tr(ik, &leaves) {
                // leaf hashes must be pairwise distinct for per-leaf availability to be meaningful
                let mut l = dd.leaves.clone(); l.sort(); l.dedup();
                if l.len() != dd.leaves.len() { continue; }
                n_desc += 1;
                for pa in pa_variants_tr(&dd, cap, &mut rng) { for mall in [false, true] { check_case(out, &dd, &pa, mall, false); } }
            }
        }
    }
    // ---- adversarial assets: no panic (origin-less keys vs same-fingerprint sources of any depth)
    adversarial(out);
    std::panic::set_hook(old_hook);
    out.note("descriptors", n_desc.to_string());
    out.note("distinct_nontrivial", n_desc.to_string());
    out.note("domain", "definite descriptors (bare/pkh/sh/wpkh/sh-wpkh/wsh/sh-wsh/tr; single keys with/without origin, xpub-derived keys of one master) x plan::Assets (key sources exact/parent/grand-parent/child/sibling/other-fingerprint, CanSign shapes, per-leaf availability, preimage subsets, max abs/rel lock below/at/above each lock and other unit) x {plan, plan_mall}".into());
}

/// `C assetsquery <key fp> <key path> <src fp> <src path> <ecdsa 0/1>`: AssetProvider answer
/// of an `Assets` holding exactly that source, for a key with that origin
fn emit_assetsquery(out: &mut Out) {
    let fps = [Fingerprint::from([1u8, 2, 3, 4]), Fingerprint::from([1u8, 2, 3, 5])];
    let universe: Vec<Vec<ChildNumber>> = {
        let mut v = vec![vec![]];
        let steps = [cn(0, false), cn(1, false), cn(0, true)];
        for a in steps { v.push(vec![a]); for b in steps { v.push(vec![a, b]); for c in steps { v.push(vec![a, b, c]); } } }
        v
    };
    let pkhex = ast::full_key(5).to_string();
    for kp in &universe {
        let s = if kp.is_empty() { format!("[{}]{}", fps[0], pkhex) } else { format!("[{}/{}]{}", fps[0], path_str(kp), pkhex) };
        let key = match DefiniteDescriptorKey::from_str(&s) { Ok(k) => k, Err(_) => continue };
        for sp in &universe {
            for (fi, fp) in fps.iter().enumerate() {
                for ecdsa in [true, false] {
                    if (fi == 1 || !ecdsa) && sp.len() > 1 && kp.len() > 1 { continue; }
                    let mut a = PlanAssets::new();
                    let mut can = CanSign::default(); can.ecdsa = ecdsa;
                    a.keys.insert(((*fp, DerivationPath::from(sp.clone())), can));
                    let r = catch(|| AssetProvider::<DefiniteDescriptorKey>::provider_lookup_ecdsa_sig(&a, &key));
                    out.line(&format!("C assetsquery {} {} {} {} {}", fps[0], path_wire(kp), fp, path_wire(sp), ecdsa as u8),
                        match r { Some(true) => "true", Some(false) => "false", None => "PANIC" });
                }
            }
        }
    }
}

fn adversarial(out: &mut Out) {
    // keys without origin (id 2, 5, 101), with a depth-1 origin (1, 4), xpub without steps (303)
    for key in [2u32, 5, 101, 1, 4, 303, 301] {
        let k = kent(key);
        let mut dds = vec![];
        for w in [Wrap::Wpkh, Wrap::Pkh, Wrap::ShWpkh] { if key == 101 && w != Wrap::Pkh { continue; } if let Some(d) = dd_key(w, key) { dds.push(d); } }
        if key != 101 {
            if let Some(d) = dd_ms(Wrap::Wsh, &pk(key)) { dds.push(d); }
            if let Some(d) = dd_tr(key, &[]) { dds.push(d); }
            if let Some(d) = dd_tr(3, &[pk(if key < 100 { 200 + key } else { key })]) { dds.push(d); }
        }
        let mut srcs: Vec<Src> = vec![];
        for rel in [Rel::Exact, Rel::Parent, Rel::Grand, Rel::Child, Rel::Sibling, Rel::OtherFp] { if let Some(s) = Src::of(k, rel) { srcs.push(s); } }
        // same fingerprint, assorted depths
        for p in [vec![], vec![cn(0, false)], vec![cn(1, false), cn(2, false)], vec![cn(0, true), cn(0, true), cn(0, true), cn(0, true)]] {
            srcs.push(Src { fp: k.fp, path: p, ecdsa: true, key_spend: true, leaves: Leaves::Any, sighash_default: true });
        }
        for dd in &dds {
            for s in &srcs {
                for flip in [false, true] {
                    let mut s = s.clone();
                    if flip { s.ecdsa = false; s.key_spend = false; s.leaves = Leaves::None; }
                    let pa = PA { srcs: vec![s], ..Default::default() };
                    for mall in [false, true] { check_case(out, dd, &pa, mall, true); }
                }
            }
        }
    }
}

//! msverif-harness: drives the real rust-miniscript library in-process and writes, for each
//! property, a request file (`ops.txt`, one operation per line) together with the
//! implementation's answers (`impl.txt`, same line numbering).  The Lean driver answers the
//! same `ops.txt`; `bin/check` diffs the two streams.
//!
//! Line kinds:  `C <op> <args..>`  correspondence (model must equal implementation)
//!              `J <op> <args..>`  judge (a *specification* function is applied to an
//!                                 implementation output; expected answer is on the impl side)
mod common;
mod ast;
mod msops;
mod desc;
mod c01;
mod c02;
mod c03;
mod c04;
mod c05;
mod c06;
mod c07;
mod c08;
mod c09;
mod c10;
mod c10b;
mod c12;
mod c13;
mod c14;
mod c11expr;
mod c11;
mod c15;
mod c16;
mod c17;
mod c18;
mod c19;
mod c20;

use std::env;

fn main() {
    let args: Vec<String> = env::args().collect();
    if args.len() < 5 {
        eprintln!("usage: msverif-harness <prop> <outdir> <quick|thorough> <seed>");
        std::process::exit(2);
    }
    let prop = args[1].as_str();
    let outdir = args[2].as_str();
    let thorough = args[3] == "thorough";
    let seed: u64 = args[4].parse().unwrap_or(1);
    let mut out = common::Out::new(outdir);
    match prop {
        "C01" => c01::run(&mut out, thorough, seed),
        "C02" => c02::run(&mut out, thorough, seed),
        "C03" => c03::run(&mut out, thorough, seed),
        "C04" => c04::run(&mut out, thorough, seed),
        "C05" => c05::run(&mut out, thorough, seed),
        "C06" => c06::run(&mut out, thorough, seed),
        "C07" => c07::run(&mut out, thorough, seed),
        "C08" => c08::run(&mut out, thorough, seed),
        "C09" => c09::run(&mut out, thorough, seed),
        "C10" => c10::run(&mut out, thorough, seed),
        "C11" => c11::run(&mut out, thorough, seed),
        "C12" => c12::run(&mut out, thorough, seed),
        "C13" => c13::run(&mut out, thorough, seed),
        "C14" => c14::run(&mut out, thorough, seed),
        "C15" => c15::run(&mut out, thorough, seed),
        "C16" => c16::run(&mut out, thorough, seed),
        "C17" => c17::run(&mut out, thorough, seed),
        "C18" => c18::run(&mut out, thorough, seed),
        "C19" => c19::run(&mut out, thorough, seed),
        "C20" => c20::run(&mut out, thorough, seed),
        _ => {
            eprintln!("unknown property {}", prop);
            std::process::exit(2);
        }
    }
    out.finish();
}

//! C20: key translation and key iteration preserve structure.
//!
//! Rust side of `Driver/OpsCmp.lean` (translate / iterpk / foreachkey / foranykey / substraw and
//! the judges translate-id / translate-compose / translate-script / keys-multiset).
//!
//! Every input is a neutral `Node` that the real library accepted (`to_ms`).  Real keys and
//! hashes are mapped back to ids through reverse tables, so every answer is again a wire AST.
//! The translators are the named maps of `pureMapOf` / `translatorOf` in OpsCmp.lean; the
//! stateful one (`failcall:<n>`) counts ALL translator calls, which makes the library's
//! traversal order observable.  The TARGET key type is chosen by the map: `PublicKey` for
//! target ids < 200, `XOnlyPublicKey` for ids >= 200.
use std::collections::{BTreeMap, BTreeSet, HashMap};
use std::marker::PhantomData;
use std::panic::{catch_unwind, AssertUnwindSafe};
use std::str::FromStr;
use std::sync::{Arc, OnceLock};

use miniscript::bitcoin::hashes::{hash160, ripemd160, sha256, Hash};
use miniscript::bitcoin::secp256k1::XOnlyPublicKey;
use miniscript::bitcoin::PublicKey;
use miniscript::{
    hash256, Descriptor, ForEachKey, Legacy, Miniscript, ScriptContext, Segwitv0, Tap,
    Terminal, TranslateErr, Translator,
};

use crate::ast::{
    self, default_atoms, full_key, hash_value, hex, raw_pkh, to_ms, xonly_key, CtxK, KeyOf, Node, HK,
};
use crate::common::{Out, Rng};
use crate::with_ctx;

#[path = "c20p.rs"]
pub(crate) mod c20p;
#[path = "c20d.rs"]
mod c20d;

const UNKNOWN: u32 = 9999;

/* ------------------------------------------------------------ reverse tables */

fn full_ids() -> impl Iterator<Item = u32> { (0..10).chain(100..110) }
fn xonly_ids() -> impl Iterator<Item = u32> { 200..210 }

fn full_table() -> &'static HashMap<PublicKey, u32> {
    static T: OnceLock<HashMap<PublicKey, u32>> = OnceLock::new();
    T.get_or_init(|| full_ids().map(|i| (full_key(i), i)).collect())
}
fn xonly_table() -> &'static HashMap<XOnlyPublicKey, u32> {
    static T: OnceLock<HashMap<XOnlyPublicKey, u32>> = OnceLock::new();
    T.get_or_init(|| xonly_ids().map(|i| (xonly_key(i), i)).collect())
}
fn hash_table() -> &'static HashMap<(HK, Vec<u8>), u32> {
    static T: OnceLock<HashMap<(HK, Vec<u8>), u32>> = OnceLock::new();
    T.get_or_init(|| {
        let mut m = HashMap::new();
        for kind in HK::ALL { for h in 0..4 { m.insert((kind, hash_value(kind, h)), h); } }
        m
    })
}
fn raw_table() -> &'static HashMap<hash160::Hash, u32> {
    static T: OnceLock<HashMap<hash160::Hash, u32>> = OnceLock::new();
    T.get_or_init(|| (0..4).chain(100..104).chain(200..204).map(|h| (raw_pkh(h), h)).collect())
}
/// string form of every known key ↦ id (for the scan of `to_string()`)
fn text_table() -> &'static HashMap<String, u32> {
    static T: OnceLock<HashMap<String, u32>> = OnceLock::new();
    T.get_or_init(|| {
        let mut m = HashMap::new();
        for i in full_ids() { m.insert(full_key(i).to_string(), i); }
        for i in xonly_ids() { m.insert(xonly_key(i).to_string(), i); }
        m
    })
}
fn hash_id(kind: HK, bytes: &[u8]) -> u32 { *hash_table().get(&(kind, bytes.to_vec())).unwrap_or(&UNKNOWN) }

pub trait KeyId: KeyOf {
    const XONLY: bool;
    fn id(&self) -> u32;
}
impl KeyId for PublicKey {
    const XONLY: bool = false;
    fn id(&self) -> u32 { *full_table().get(self).unwrap_or(&UNKNOWN) }
}
impl KeyId for XOnlyPublicKey {
    const XONLY: bool = true;
    fn id(&self) -> u32 { *xonly_table().get(self).unwrap_or(&UNKNOWN) }
}

/// real miniscript ↦ neutral AST
pub(crate) fn from_ms<Pk: KeyId, Ctx: ScriptContext>(ms: &Miniscript<Pk, Ctx>) -> Node {
    let b = |x: &Arc<Miniscript<Pk, Ctx>>| Box::new(from_ms(x));
    let ks = |v: &[Pk]| -> Vec<u32> { v.iter().map(|k| k.id()).collect() };
    match &ms.node {
        Terminal::True => Node::True,
        Terminal::False => Node::False,
        Terminal::PkK(k) => Node::PkK(k.id()),
        Terminal::PkH(k) => Node::PkH(k.id()),
        Terminal::RawPkH(h) => Node::RawPkH(*raw_table().get(h).unwrap_or(&UNKNOWN)),
        Terminal::After(n) => Node::After(n.to_consensus_u32()),
        Terminal::Older(n) => Node::Older(n.to_consensus_u32()),
        Terminal::Sha256(h) => { let h: &sha256::Hash = h; Node::Hash(HK::Sha256, hash_id(HK::Sha256, h.as_byte_array())) }
        Terminal::Hash256(h) => { let h: &hash256::Hash = h; Node::Hash(HK::Hash256, hash_id(HK::Hash256, h.as_byte_array())) }
        Terminal::Ripemd160(h) => { let h: &ripemd160::Hash = h; Node::Hash(HK::Ripemd160, hash_id(HK::Ripemd160, h.as_byte_array())) }
        Terminal::Hash160(h) => { let h: &hash160::Hash = h; Node::Hash(HK::Hash160, hash_id(HK::Hash160, h.as_byte_array())) }
        Terminal::Alt(x) => Node::Alt(b(x)),
        Terminal::Swap(x) => Node::Swap(b(x)),
        Terminal::Check(x) => Node::Check(b(x)),
        Terminal::DupIf(x) => Node::DupIf(b(x)),
        Terminal::Verify(x) => Node::Verify(b(x)),
        Terminal::NonZero(x) => Node::NonZero(b(x)),
        Terminal::ZeroNotEqual(x) => Node::ZeroNotEqual(b(x)),
        Terminal::AndV(x, y) => Node::AndV(b(x), b(y)),
        Terminal::AndB(x, y) => Node::AndB(b(x), b(y)),
        Terminal::AndOr(x, y, z) => Node::AndOr(b(x), b(y), b(z)),
        Terminal::OrB(x, y) => Node::OrB(b(x), b(y)),
        Terminal::OrD(x, y) => Node::OrD(b(x), b(y)),
        Terminal::OrC(x, y) => Node::OrC(b(x), b(y)),
        Terminal::OrI(x, y) => Node::OrI(b(x), b(y)),
        Terminal::Thresh(t) => Node::Thresh(t.k(), t.data().iter().map(|x| from_ms(x)).collect()),
        Terminal::Multi(t) => Node::Multi(t.k(), ks(t.data())),
        Terminal::SortedMulti(t) => Node::SortedMulti(t.k(), ks(t.data())),
        Terminal::MultiA(t) => Node::MultiA(t.k(), ks(t.data())),
        Terminal::SortedMultiA(t) => Node::SortedMultiA(t.k(), ks(t.data())),
    }
}

/* ------------------------------------------------------------ the named maps */

#[derive(Clone, Copy, Debug, PartialEq, Eq)]
enum MapK { Id, Ren, Ren2, Comp, Unc, Xonly, RenInv, Collapse }
impl MapK {
    fn name(self) -> &'static str {
        match self {
            MapK::Id => "id", MapK::Ren => "ren", MapK::Ren2 => "ren2", MapK::Comp => "comp",
            MapK::Unc => "unc", MapK::Xonly => "xonly", MapK::RenInv => "reninv", MapK::Collapse => "kcollapse",
        }
    }
    fn key(self, k: u32) -> u32 {
        match self {
            MapK::Id => k,
            MapK::Ren => k / 100 * 100 + (k % 100 + 3) % 10,
            MapK::Ren2 | MapK::RenInv => k / 100 * 100 + (k % 100 + 7) % 10,
            MapK::Comp => k % 100,
            MapK::Unc => k % 100 + 100,
            MapK::Xonly => k % 100 + 200,
            MapK::Collapse => k / 100 * 100 + k % 2,
        }
    }
    fn hash(self, h: u32) -> u32 {
        match self {
            MapK::Ren => (h + 1) % 4,
            MapK::Ren2 => (h + 2) % 4,
            MapK::RenInv => (h + 3) % 4,
            MapK::Collapse => h % 2,
            _ => h,
        }
    }
    fn target_xonly(self, src: bool) -> bool {
        match self { MapK::Comp | MapK::Unc => false, MapK::Xonly => true, _ => src }
    }
}

#[derive(Clone, Debug)]
enum Mode { Pure(Vec<MapK>), Fail(u32), FailCall(usize), UncFail(u32) }
impl Mode {
    fn pure1(m: MapK) -> Mode { Mode::Pure(vec![m]) }
    fn name(&self) -> String {
        match self {
            Mode::Pure(v) => v.iter().map(|m| m.name()).collect::<Vec<_>>().join("+"),
            Mode::Fail(i) => format!("fail:{}", i),
            Mode::FailCall(n) => format!("failcall:{}", n),
            Mode::UncFail(i) => format!("uncfail:{}", i),
        }
    }
    fn target_xonly(&self, src: bool) -> bool {
        match self { Mode::Pure(v) => v.iter().fold(src, |s, m| m.target_xonly(s)), Mode::UncFail(_) => false, _ => src }
    }
}

#[derive(Clone, Copy, Debug, PartialEq, Eq)]
enum Atom { K(u32), H(HK, u32) }

/// the translator: `calls` counts every method call (keys and all four hash kinds)
struct Tx<Q> { mode: Mode, calls: usize, log: Vec<Atom>, _q: PhantomData<Q> }
impl<Q> Tx<Q> {
    fn new(mode: Mode) -> Self { Tx { mode, calls: 0, log: vec![], _q: PhantomData } }
    fn step(&mut self, a: Atom) -> Result<Atom, Atom> {
        self.log.push(a);
        match &self.mode {
            Mode::Pure(v) => {
                self.calls += 1;
                Ok(match a {
                    Atom::K(k) => Atom::K(v.iter().fold(k, |k, m| m.key(k))),
                    Atom::H(kind, h) => Atom::H(kind, v.iter().fold(h, |h, m| m.hash(h))),
                })
            }
            Mode::Fail(i) => match a { Atom::K(k) if k == *i => Err(a), _ => Ok(a) },
            Mode::FailCall(n) => if self.calls == *n { Err(a) } else { self.calls += 1; Ok(a) },
            // every key becomes its uncompressed form, except key `i`, on which the translator fails
            Mode::UncFail(i) => match a { Atom::K(k) if k == *i => Err(a), Atom::K(k) => Ok(Atom::K(k % 100 + 100)), _ => Ok(a) },
        }
    }
    fn do_hash(&mut self, kind: HK, bytes: &[u8]) -> Result<Vec<u8>, Atom> {
        match self.step(Atom::H(kind, hash_id(kind, bytes)))? {
            Atom::H(kind, h) => Ok(hash_value(kind, h)),
            a => Err(a),
        }
    }
}
impl<P: KeyId, Q: KeyId> Translator<P> for Tx<Q> {
    type TargetPk = Q;
    type Error = Atom;
    fn pk(&mut self, pk: &P) -> Result<Q, Atom> {
        match self.step(Atom::K(pk.id()))? { Atom::K(k) => Ok(Q::of(k)), a => Err(a) }
    }
    fn sha256(&mut self, h: &sha256::Hash) -> Result<sha256::Hash, Atom> {
        Ok(sha256::Hash::from_slice(&self.do_hash(HK::Sha256, h.as_byte_array())?).unwrap())
    }
    fn hash256(&mut self, h: &hash256::Hash) -> Result<hash256::Hash, Atom> {
        Ok(hash256::Hash::from_slice(&self.do_hash(HK::Hash256, h.as_byte_array())?).unwrap())
    }
    fn ripemd160(&mut self, h: &ripemd160::Hash) -> Result<ripemd160::Hash, Atom> {
        Ok(ripemd160::Hash::from_slice(&self.do_hash(HK::Ripemd160, h.as_byte_array())?).unwrap())
    }
    fn hash160(&mut self, h: &hash160::Hash) -> Result<hash160::Hash, Atom> {
        Ok(hash160::Hash::from_slice(&self.do_hash(HK::Hash160, h.as_byte_array())?).unwrap())
    }
}

fn err_text<E>(e: TranslateErr<Atom>) -> Result<E, String> {
    Err(match e {
        TranslateErr::TranslatorErr(Atom::K(k)) => format!("ERR:K{}", k),
        TranslateErr::TranslatorErr(Atom::H(kind, h)) => format!("ERR:H{}:{}", kind.name(), h),
        TranslateErr::OuterError(_) => "ERR:outer".to_string(),
    })
}

fn guard(f: impl FnOnce() -> String) -> String {
    catch_unwind(AssertUnwindSafe(f)).unwrap_or_else(|_| "PANIC".to_string())
}

/// `ms.translate_pk(&mut t)` into key type Q; errors already in answer format
fn tr_run<P: KeyId, Ctx: ScriptContext, Q: KeyId>(ms: &Miniscript<P, Ctx>, mode: &Mode) -> Result<Miniscript<Q, Ctx>, String> {
    let mut t = Tx::<Q>::new(mode.clone());
    match catch_unwind(AssertUnwindSafe(|| ms.translate_pk(&mut t))) {
        Err(_) => Err("PANIC".to_string()),
        Ok(Ok(m)) => Ok(m),
        Ok(Err(e)) => err_text(e),
    }
}
fn show<Q: KeyId, Ctx: ScriptContext>(r: &Result<Miniscript<Q, Ctx>, String>) -> String {
    match r { Ok(m) => guard(|| from_ms(m).wire()), Err(e) => e.clone() }
}
/// translate with the target key type chosen by the map
fn tr_wire<P: KeyId, Ctx: ScriptContext>(ms: &Miniscript<P, Ctx>, mode: &Mode) -> String {
    if mode.target_xonly(P::XONLY) { show(&tr_run::<P, Ctx, XOnlyPublicKey>(ms, mode)) } else { show(&tr_run::<P, Ctx, PublicKey>(ms, mode)) }
}
fn seq2<P: KeyId, Ctx: ScriptContext, Q1: KeyId, Q2: KeyId>(ms: &Miniscript<P, Ctx>, f: MapK, g: MapK) -> String {
    match tr_run::<P, Ctx, Q1>(ms, &Mode::pure1(f)) {
        Err(e) => e,
        Ok(mid) => show(&tr_run::<Q1, Ctx, Q2>(&mid, &Mode::pure1(g))),
    }
}
/// translate with f, then translate the result with g
fn tr_seq<P: KeyId, Ctx: ScriptContext>(ms: &Miniscript<P, Ctx>, f: MapK, g: MapK) -> String {
    let x1 = f.target_xonly(P::XONLY);
    let x2 = g.target_xonly(x1);
    match (x1, x2) {
        (false, false) => seq2::<P, Ctx, PublicKey, PublicKey>(ms, f, g),
        (false, true) => seq2::<P, Ctx, PublicKey, XOnlyPublicKey>(ms, f, g),
        (true, false) => seq2::<P, Ctx, XOnlyPublicKey, PublicKey>(ms, f, g),
        (true, true) => seq2::<P, Ctx, XOnlyPublicKey, XOnlyPublicKey>(ms, f, g),
    }
}
fn enc2<P: KeyId, Ctx: ScriptContext, Q: KeyId>(ms: &Miniscript<P, Ctx>, m: MapK) -> Option<String> {
    let r = tr_run::<P, Ctx, Q>(ms, &Mode::pure1(m)).ok()?;
    Some(guard(|| hex(r.encode().as_bytes())))
}
/// script of the translated miniscript (None if the translation did not succeed)
fn tr_script<P: KeyId, Ctx: ScriptContext>(ms: &Miniscript<P, Ctx>, m: MapK) -> Option<String> {
    if m.target_xonly(P::XONLY) { enc2::<P, Ctx, XOnlyPublicKey>(ms, m) } else { enc2::<P, Ctx, PublicKey>(ms, m) }
}

fn show_ids(v: &[u32]) -> String {
    if v.is_empty() { "-".to_string() } else { v.iter().map(|k| k.to_string()).collect::<Vec<_>>().join(",") }
}
/// key ids found in a string form, in order of appearance
fn scan_keys(s: &str) -> Vec<u32> {
    let s = s.split('#').next().unwrap_or("");
    s.split(|c| "(),:{}".contains(c)).filter_map(|tok| text_table().get(tok).cloned()).collect()
}

/* ------------------------------------------------------------ inputs */

fn walk(n: &Node, f: &mut dyn FnMut(&Node)) {
    use Node::*;
    f(n);
    match n {
        Alt(x) | Swap(x) | Check(x) | DupIf(x) | Verify(x) | NonZero(x) | ZeroNotEqual(x) => walk(x, f),
        AndV(a, b) | AndB(a, b) | OrB(a, b) | OrD(a, b) | OrC(a, b) | OrI(a, b) => { walk(a, f); walk(b, f) }
        AndOr(a, b, c) => { walk(a, f); walk(b, f); walk(c, f) }
        Thresh(_, xs) => for x in xs { walk(x, f) },
        _ => {}
    }
}
fn raws(n: &Node) -> Vec<u32> {
    let mut v = vec![];
    walk(n, &mut |x| if let Node::RawPkH(h) = x { v.push(*h) });
    v
}
/// number of keys that are serialised into the script (pk_k / multi*, not pk_h)
fn script_keys(n: &Node) -> usize {
    let mut c = 0;
    walk(n, &mut |x| match x {
        Node::PkK(_) => c += 1,
        Node::Multi(_, v) | Node::SortedMulti(_, v) | Node::MultiA(_, v) | Node::SortedMultiA(_, v) => c += v.len(),
        _ => {}
    });
    c
}
fn shift_keys(n: &Node, o: u32) -> Node {
    use Node::*;
    let b = |x: &Node| Box::new(shift_keys(x, o));
    let ks = |v: &Vec<u32>| v.iter().map(|k| k + o).collect::<Vec<_>>();
    match n {
        PkK(k) => PkK(k + o), PkH(k) => PkH(k + o), RawPkH(h) => RawPkH(h + o),
        Alt(x) => Alt(b(x)), Swap(x) => Swap(b(x)), Check(x) => Check(b(x)), DupIf(x) => DupIf(b(x)),
        Verify(x) => Verify(b(x)), NonZero(x) => NonZero(b(x)), ZeroNotEqual(x) => ZeroNotEqual(b(x)),
        AndV(x, y) => AndV(b(x), b(y)), AndB(x, y) => AndB(b(x), b(y)), AndOr(x, y, z) => AndOr(b(x), b(y), b(z)),
        OrB(x, y) => OrB(b(x), b(y)), OrD(x, y) => OrD(b(x), b(y)), OrC(x, y) => OrC(b(x), b(y)), OrI(x, y) => OrI(b(x), b(y)),
        Thresh(k, xs) => Thresh(*k, xs.iter().map(|x| shift_keys(x, o)).collect()),
        Multi(k, v) => Multi(*k, ks(v)), SortedMulti(k, v) => SortedMulti(*k, ks(v)),
        MultiA(k, v) => MultiA(*k, ks(v)), SortedMultiA(k, v) => SortedMultiA(*k, ks(v)),
        t => t.clone(),
    }
}

/// hand-written ASYMMETRIC fragments: every n-ary node has pairwise distinct children with
/// distinct keys, so that any swap / drop / duplication of children or keys is visible.
/// Written with key ids 0.. (and 100.. for uncompressed); shifted by 200 for Tap.
fn hand(ctx: CtxK) -> Vec<Node> {
    use Node::*;
    fn bx(n: Node) -> Box<Node> { Box::new(n) }
    let pk = |k: u32| Check(bx(PkK(k)));
    let pkh = |k: u32| Check(bx(PkH(k)));
    let raw = |h: u32| Check(bx(RawPkH(h)));
    let v = |n: Node| Verify(bx(n));
    let s = |n: Node| Swap(bx(n));
    let a = |n: Node| Alt(bx(n));
    let and_v = |x: Node, y: Node| AndV(bx(x), bx(y));
    let and_b = |x: Node, y: Node| AndB(bx(x), bx(y));
    let or_b = |x: Node, y: Node| OrB(bx(x), bx(y));
    let or_d = |x: Node, y: Node| OrD(bx(x), bx(y));
    let or_c = |x: Node, y: Node| OrC(bx(x), bx(y));
    let or_i = |x: Node, y: Node| OrI(bx(x), bx(y));
    let andor = |x: Node, y: Node, z: Node| AndOr(bx(x), bx(y), bx(z));
    let sha = |h: u32| Hash(HK::Sha256, h);
    let h256 = |h: u32| Hash(HK::Hash256, h);
    let rip = |h: u32| Hash(HK::Ripemd160, h);
    let h160 = |h: u32| Hash(HK::Hash160, h);
    let tap = ctx == CtxK::Tap;
    let multi = |k: usize, ks: Vec<u32>| if tap { MultiA(k, ks) } else { Multi(k, ks) };
    let smulti = |k: usize, ks: Vec<u32>| if tap { SortedMultiA(k, ks) } else { SortedMulti(k, ks) };
    let mut l = vec![
        pk(0), pkh(1), PkK(2), PkH(3),
        and_v(v(pk(0)), pk(1)),
        and_b(pk(0), s(pk(1))),
        or_b(pk(0), s(pk(1))),
        or_d(pk(0), pk(1)),
        or_c(pk(0), v(pk(1))),
        or_i(pk(0), pk(1)),
        or_i(PkK(0), PkH(1)),
        andor(pk(0), pk(1), pk(2)),
        andor(pk(2), pkh(0), pk(1)),
        Thresh(2, vec![pk(0), s(pk(1)), s(pk(2))]),
        Thresh(1, vec![pk(0), s(pk(1)), s(pk(2)), s(pk(3))]),
        Thresh(3, vec![pk(2), s(pk(0)), a(pkh(1))]),
        Thresh(2, vec![pk(4), a(pk(3)), s(pk(2)), a(pkh(1)), s(pk(0))]),
        multi(2, vec![2, 0, 1]),
        smulti(2, vec![2, 0, 1]),
        multi(1, vec![5, 3, 4]),
        smulti(3, vec![1, 2, 0]),
        multi(3, vec![9, 8, 7, 6, 5]),
        // all four multi kinds in every context (only the legal ones survive `to_ms`)
        Multi(2, vec![2, 0, 1]), SortedMulti(2, vec![2, 0, 1]), MultiA(2, vec![2, 0, 1]), SortedMultiA(2, vec![2, 0, 1]),
        and_v(v(sha(0)), and_v(v(h256(1)), and_v(v(rip(2)), h160(3)))),
        and_v(v(h160(3)), and_v(v(rip(2)), and_v(v(h256(1)), sha(0)))),
        and_v(v(sha(0)), sha(1)),
        or_d(sha(2), h256(2)),
        andor(sha(0), pk(1), h160(2)),
        andor(pk(0), and_v(v(sha(1)), pk(2)), and_v(v(pk(3)), rip(0))),
        or_i(and_v(v(pk(0)), sha(1)), and_v(v(h256(2)), pk(3))),
        and_v(v(pkh(0)), pkh(1)),
        or_d(pkh(0), pkh(1)),
        and_v(v(pk(0)), and_v(v(pkh(1)), and_v(v(pk(2)), pkh(3)))),
        and_v(and_v(and_v(v(pk(0)), v(pk(1))), v(pk(2))), pk(3)),
        or_d(or_d(or_d(pk(0), pk(1)), pk(2)), pk(3)),
        or_i(pk(0), or_i(pk(1), or_i(pk(2), pk(3)))),
        andor(or_d(pk(0), pk(1)), and_v(v(pk(2)), pk(3)), or_i(pk(4), pk(5))),
        andor(andor(pk(0), pk(1), pk(2)), andor(pk(3), pk(4), pk(5)), andor(pk(6), pk(7), pk(8))),
        and_b(or_b(pk(0), s(pk(1))), a(and_b(pk(2), s(pk(3))))),
        or_b(and_b(pk(3), s(pk(2))), a(or_d(pk(1), pk(0)))),
        Thresh(2, vec![multi(1, vec![0, 1]), s(pk(2)), a(multi(2, vec![5, 3, 4]))]),
        Thresh(2, vec![or_d(pk(0), pk(1)), a(and_v(v(pk(2)), pk(3))), a(andor(pk(4), pk(5), pk(6))), s(pk(7))]),
        Thresh(1, vec![Thresh(2, vec![pk(0), s(pk(1)), s(pk(2))]), a(Thresh(1, vec![pk(3), s(pk(4))])), s(pk(5))]),
        and_v(v(multi(2, vec![1, 0, 2])), or_c(pk(3), v(smulti(1, vec![6, 5, 4])))),
        and_v(or_c(pk(0), v(pk(1))), and_v(or_c(sha(2), v(pk(3))), pk(4))),
        and_v(v(pk(0)), After(100)), and_v(v(pk(1)), Older(10)),
        andor(pk(0), Older(10), and_v(v(pk(1)), After(500_000_001))),
        or_i(and_v(v(After(100)), pk(0)), and_v(v(Older(4_194_305)), pkh(1))),
        DupIf(bx(v(pk(0)))), NonZero(bx(pk(1))), ZeroNotEqual(bx(pk(2))),
        or_i(False, pk(0)), or_i(pk(1), False), and_v(v(pk(2)), True),
        // repeated keys (multiset, not set)
        and_v(v(pk(0)), pk(0)), or_i(pk(1), pkh(1)), andor(pk(0), pk(1), pk(0)), multi(2, vec![1, 1, 0]),
        // raw_pkh leaves
        raw(0), RawPkH(1),
        and_v(v(raw(0)), raw(1)),
        or_d(raw(2), pk(0)),
        andor(raw(0), pkh(1), raw(3)),
        Thresh(2, vec![raw(3), s(raw(1)), a(pkh(2)), s(raw(0))]),
        or_i(and_v(v(raw(1)), pk(1)), and_v(v(pkh(0)), raw(0))),
        and_v(v(raw(2)), raw(2)),
    ];
    if matches!(ctx, CtxK::Bare | CtxK::Legacy) {
        l.extend(vec![
            pk(100), pkh(101),
            and_v(v(pk(100)), pk(1)),
            or_d(pk(2), pk(102)),
            andor(pk(100), pk(1), pkh(102)),
            Multi(1, vec![101, 2, 100]),
            SortedMulti(2, vec![3, 103, 1]),
            Thresh(2, vec![pk(103), s(pk(3)), a(pkh(100))]),
        ]);
    }
    if tap { l.iter().map(|n| shift_keys(n, 200)).collect() } else { l }
}

fn atoms_ok(n: &Node) -> bool {
    let mut ks = vec![]; n.keys(&mut ks);
    let mut hs = vec![]; n.hashes(&mut hs);
    ks.iter().all(|k| k % 100 < 10 && *k < 300) && hs.iter().all(|(_, h)| *h < 4) && raws(n).iter().all(|h| h % 100 < 4)
}

fn accepts<Pk: KeyId, Ctx: ScriptContext>(n: &Node) -> bool { to_ms::<Pk, Ctx>(n).is_ok() }

/// scripts just under a context size limit (Legacy: 520 bytes on `pk_cost`): translating the keys
/// to their uncompressed form crosses the limit although every key is legal by kind
fn size_limit_inputs(ctx: CtxK) -> Vec<Node> {
    use Node::*;
    if ctx == CtxK::Tap { return vec![]; }
    let ks = |n: u32| -> Vec<u32> { (0..n).map(|i| i % 10).collect() };
    let pkc = |k: u32| Check(Box::new(PkK(k)));
    let th = |k: usize, n: u32| Thresh(k, (0..n).map(|i| if i == 0 { pkc(0) } else { Swap(Box::new(pkc(i % 10))) }).collect());
    vec![Multi(1, ks(15)), Multi(2, ks(14)), SortedMulti(1, ks(15)), Multi(15, ks(15)), Multi(1, ks(8)),
         th(1, 14), th(2, 13), th(14, 14),
         OrD(Box::new(Multi(1, ks(14))), Box::new(pkc(3)))]
}

/// KEYLESS fragments (hash-only, lock-only) at the first / middle / last position of every
/// container, whole keyless scripts, and scripts the sane parser refuses for exactly one reason
/// (a repeated key in every pair of occurrence kinds, mixed lock units, no signature) but
/// `from_ast` accepts - the key walkers and the translator must handle them all
pub(super) fn keyless_corpus(ctx: CtxK) -> Vec<Node> {
    use Node::*;
    let b = if ctx == CtxK::Tap { 200 } else { 0 };
    let bx = |n: Node| Box::new(n);
    let pk = |i: u32| Check(bx(PkK(b + i)));
    let pkh = |i: u32| Check(bx(PkH(b + i)));
    let h = |i: u32| Hash(HK::Sha256, i % 4);
    let h2 = |i: u32| Hash(HK::Hash160, i % 4);
    let s = |n: Node| Swap(bx(n));
    let a = |n: Node| Alt(bx(n));
    let v = |n: Node| Verify(bx(n));
    let mut out = vec![
        // thresh: keyless child first / middle / last / all
        Thresh(2, vec![h(0), s(pk(1)), s(pk(2))]), Thresh(2, vec![pk(0), a(h(1)), s(pk(2))]), Thresh(2, vec![pk(0), s(pk(1)), a(h(2))]),
        Thresh(1, vec![h(0), a(h(1)), a(h2(2))]), Thresh(2, vec![h(0), s(pk(1)), a(h(2))]), Thresh(3, vec![pk(0), a(h(1)), a(h2(2)), s(pk(3))]),
        // and_v / and_b / or_b / or_d / or_i / andor: keyless left, right, both
        AndV(bx(v(h(0))), bx(pk(1))), AndV(bx(v(pk(0))), bx(h(1))), AndV(bx(v(h(0))), bx(h2(1))),
        AndV(bx(v(pk(0))), bx(Older(5))), AndV(bx(v(pk(0))), bx(After(100))), AndV(bx(v(h(0))), bx(Older(5))),
        AndB(bx(h(0)), bx(s(pk(1)))), AndB(bx(pk(0)), bx(a(h(1)))), AndB(bx(h(0)), bx(a(h2(1)))),
        OrB(bx(h(0)), bx(s(pk(1)))), OrB(bx(pk(0)), bx(a(h(1)))), OrB(bx(h(0)), bx(a(h2(1)))),
        OrD(bx(h(0)), bx(pk(1))), OrD(bx(pk(0)), bx(h(1))), OrD(bx(h(0)), bx(h2(1))),
        OrI(bx(h(0)), bx(pk(1))), OrI(bx(pk(0)), bx(h(1))), OrI(bx(Older(5)), bx(pk(1))), OrI(bx(pk(0)), bx(After(100))), OrI(bx(h(0)), bx(Older(5))),
        OrC(bx(h(0)), bx(v(pk(1)))), OrC(bx(pk(0)), bx(v(h(1)))),
        AndOr(bx(h(0)), bx(pk(1)), bx(pk(2))), AndOr(bx(pk(0)), bx(h(1)), bx(pk(2))), AndOr(bx(pk(0)), bx(pk(1)), bx(h(2))), AndOr(bx(h(0)), bx(h2(1)), bx(Older(5))),
        // whole keyless scripts
        h(0), Older(5), After(100), True, AndV(bx(v(Older(5))), bx(After(100))),
        // refused by the sane parser, accepted by from_ast: a repeated key in every pair of kinds
        AndV(bx(v(pk(0))), bx(pk(0))), AndV(bx(v(pk(0))), bx(pkh(0))), AndV(bx(v(pkh(0))), bx(pkh(0))), OrD(bx(pk(0)), bx(AndV(bx(v(pkh(0))), bx(Older(10))))),
        OrI(bx(pk(1)), bx(pk(1))), Thresh(2, vec![pk(0), s(pk(0)), s(pk(1))]),
        // mixed lock units on one path, both orders
        AndV(bx(v(After(100))), bx(AndV(bx(v(After(500000001))), bx(pk(0))))), AndV(bx(v(Older(4194305))), bx(AndV(bx(v(Older(5))), bx(pk(0))))),
    ];
    if ctx == CtxK::Tap {
        out.extend(vec![AndV(bx(v(MultiA(1, vec![b, b]))), bx(pk(1))), AndV(bx(v(MultiA(2, vec![b + 1, b, b + 2]))), bx(h(0))), OrI(bx(h(0)), bx(SortedMultiA(1, vec![b + 2, b + 1])))]);
    } else {
        out.extend(vec![AndV(bx(v(Multi(1, vec![b, b]))), bx(pk(1))), AndV(bx(v(Multi(2, vec![b + 1, b, b + 2]))), bx(h(0))), OrI(bx(h(0)), bx(SortedMulti(1, vec![b + 2, b + 1]))),
                        AndV(bx(v(pk(0))), bx(Multi(1, vec![b, b + 1])))]);
    }
    out
}

fn inputs(ctx: CtxK, thorough: bool, rng: &mut Rng) -> Vec<Node> {
    let (depth, quota, nrand) = if thorough { (3, 20, 200) } else { (2, 3, 10) };
    let mut v = hand(ctx);
    v.extend(ast::dimension_corpus(ctx));
    v.extend(size_limit_inputs(ctx));
    v.extend(keyless_corpus(ctx));
    let atoms = default_atoms(ctx, false);
    v.extend(ast::enumerate(ctx, &atoms, depth, quota, rng).into_iter().map(|t| t.node));
    for i in 0..nrand {
        if let Some(n) = ast::random_b(ctx, rng, 6 + (i % 4) * 4) { v.push(n); }
    }
    let mut seen = BTreeSet::new();
    v.into_iter()
        .filter(|n| atoms_ok(n) && with_ctx!(ctx, accepts(n)))
        .filter(|n| seen.insert(n.wire()))
        .collect()
}

/* ------------------------------------------------------------ per-input ops */

fn seen_nodes() -> &'static std::sync::Mutex<BTreeSet<String>> {
    static S: OnceLock<std::sync::Mutex<BTreeSet<String>>> = OnceLock::new();
    S.get_or_init(|| std::sync::Mutex::new(BTreeSet::new()))
}
fn seen_tyext() -> &'static std::sync::Mutex<BTreeSet<String>> {
    static S: OnceLock<std::sync::Mutex<BTreeSet<String>>> = OnceLock::new();
    S.get_or_init(|| std::sync::Mutex::new(BTreeSet::new()))
}
/// `C typeof` / `C ext` on the `ty` / `ext` fields an object CARRIES (once per distinct result):
/// the Lean model computes them from the node
fn ty_ext_lines<Q: KeyId, Ctx: ScriptContext>(out: &mut Out, ctx: CtxK, r: &Miniscript<Q, Ctx>, via: &str) {
    let w = guard(|| from_ms(r).wire());
    if w.contains("9999") || !seen_tyext().lock().unwrap().insert(format!("{} {} {}", ctx.name(), Q::XONLY, w)) { return; }
    // the driver's key table serialises ids < 200 as full keys: in Tap only x-only results, elsewhere only full keys
    if Q::XONLY != (ctx == CtxK::Tap) { return; }
    out.count(&format!("tyext via {}", via));
    out.line(&format!("C typeof {} {}", ctx.name(), w), &crate::c05::ts(&r.ty));
    // `substitute_raw_pkh` gives the substituted `pk_h` node the ext data of the raw key hash it
    // replaces.  In Bare / Legacy a raw key hash is sized for the largest key the context allows
    // (fix 9c3524ba), a `pk_h` for its actual key, so with a COMPRESSED key the carried figures
    // (139) exceed what `from_ast` computes for the node (107): an upper bound, not a claim of C20 -
    // an observation.  Every other carried ext is judged by the model.
    if via == "substraw" && matches!(ctx, CtxK::Bare | CtxK::Legacy) && w.contains("pk_h(") {
        // rebuilt bottom-up from the neutral AST (the children of `r.node` carry their own stale ext)
        let fresh = catch_unwind(AssertUnwindSafe(|| to_ms::<Q, Ctx>(&from_ms(r)).map(|m| m.ext))).ok().and_then(|x| x.ok());
        if fresh.map(|e| crate::msops::show_ext(&e)) != Some(crate::msops::show_ext(&r.ext)) {
            out.count("observation: substituted pk_h(compressed key) carries the raw-pkh worst-case ext in Bare/Legacy");
            return;
        }
    }
    out.line(&format!("C ext {} {}", ctx.name(), w), &crate::msops::show_ext(&r.ext));
}
fn ty_ext_of_translated<P: KeyId, Ctx: ScriptContext>(out: &mut Out, ctx: CtxK, ms: &Miniscript<P, Ctx>, mode: &Mode) {
    if mode.target_xonly(P::XONLY) {
        if let Ok(r) = tr_run::<P, Ctx, XOnlyPublicKey>(ms, mode) { ty_ext_lines(out, ctx, &r, "translate"); }
    } else if let Ok(r) = tr_run::<P, Ctx, PublicKey>(ms, mode) { ty_ext_lines(out, ctx, &r, "translate"); }
}

const PURE: [MapK; 6] = [MapK::Id, MapK::Ren, MapK::Ren2, MapK::Comp, MapK::Unc, MapK::Xonly];

fn ops_for<Pk: KeyId, Ctx: ScriptContext>(out: &mut Out, ctx: CtxK, n: &Node, thorough: bool) {
    let ms = match to_ms::<Pk, Ctx>(n) { Ok(m) => m, Err(_) => return };
    let c = ctx.name();
    let w = n.wire();
    let mut keys = vec![]; n.keys(&mut keys);
    let mut hashes = vec![]; n.hashes(&mut hashes);
    let distinct: Vec<u32> = { let mut s = BTreeSet::new(); keys.iter().cloned().filter(|k| s.insert(*k)).collect() };
    let base = if Pk::XONLY { 200 } else { 0 };
    let absent = (0..10).rev().map(|i| base + i).find(|k| !distinct.contains(k)).unwrap_or(base + 99);
    let map_ok = |_m: MapK| true;

    // C translate
    let mut modes: Vec<Mode> = PURE.iter().filter(|m| map_ok(**m)).map(|m| Mode::pure1(*m)).collect();
    for k in distinct.iter().chain(std::iter::once(&absent)) { modes.push(Mode::Fail(*k)); }
    let ncalls = keys.len() + hashes.len();
    let cap = if thorough { 24 } else { 8 };
    for i in 0..=ncalls.min(cap) { modes.push(Mode::FailCall(i)); }
    if ncalls > cap { modes.push(Mode::FailCall(ncalls - 1)); modes.push(Mode::FailCall(ncalls)); }
    // error precedence: a translator that fails on ONE key and makes every other key illegal
    if distinct.len() <= 6 { for k in &distinct { modes.push(Mode::UncFail(*k)); } }
    for mode in &modes {
        out.line(&format!("C translate {} {} {}", c, mode.name(), w), &tr_wire(&ms, mode));
    }
    // the type and ext data CARRIED by a translated object are those of its node
    for m in PURE { ty_ext_of_translated(out, ctx, &ms, &Mode::pure1(m)); }
    // the three child / key tables of src/miniscript/iter.rs, on every node
    out.line(&format!("C msiter {} {}", c, w), &guard(|| ms.iter().map(|x| from_ms(x).wire()).collect::<Vec<_>>().join(";")));
    for sub in ms.iter() {
        let sw = guard(|| from_ms(sub).wire());
        if !seen_nodes().lock().unwrap().insert(format!("{} {}", c, sw)) { continue; }
        let br = guard(|| { let b = sub.branches(); if b.is_empty() { "-".to_string() } else { b.iter().map(|x| from_ms(*x).wire()).collect::<Vec<_>>().join(";") } });
        out.line(&format!("C msbranches {} {}", c, sw), &br);
        let nb = sub.branches().len();
        for i in 0..=(nb + 1).min(6) {
            out.line(&format!("C msnthchild {} {} {}", c, i, sw), &guard(|| sub.get_nth_child(i).map(|x| from_ms(x).wire()).unwrap_or("-".to_string())));
        }
        let mut nk = 0; while sub.get_nth_pk(nk).is_some() && nk < 25 { nk += 1; }
        for i in 0..=(nk + 1).min(6).max(if nk > 6 { 1 } else { 0 }) {
            out.line(&format!("C msnthpk {} {} {}", c, i, sw), &guard(|| sub.get_nth_pk(i).map(|k| k.id().to_string()).unwrap_or("-".to_string())));
        }
        if nk > 6 { for i in [nk - 1, nk] { out.line(&format!("C msnthpk {} {} {}", c, i, sw), &guard(|| sub.get_nth_pk(i).map(|k| k.id().to_string()).unwrap_or("-".to_string()))); } }
    }

    // J translate-id
    {
        let r = tr_run::<Pk, Ctx, Pk>(&ms, &Mode::pure1(MapK::Id));
        let eq = match &r { Ok(m) => if *m == ms { "1" } else { "0" }, Err(_) => "0" };
        out.line(&format!("J translate-id {} {} {} {}", c, w, show(&r), eq), "ok");
    }

    // J translate-compose
    let pairs: &[(MapK, MapK)] = &[
        (MapK::Ren, MapK::Ren2), (MapK::Ren2, MapK::Ren), (MapK::Id, MapK::Ren), (MapK::Ren, MapK::Ren),
        (MapK::Unc, MapK::Comp), (MapK::Comp, MapK::Unc), (MapK::Ren, MapK::Unc), (MapK::Unc, MapK::Ren2),
        (MapK::Xonly, MapK::Ren), (MapK::Ren2, MapK::Xonly), (MapK::Xonly, MapK::Comp), (MapK::Comp, MapK::Xonly),
    ];
    for (f, g) in pairs {
        if !map_ok(*f) || !map_ok(*g) { continue; }
        let comp = tr_wire(&ms, &Mode::Pure(vec![*f, *g]));
        let seq = tr_seq(&ms, *f, *g);
        out.line(&format!("J translate-compose {} {} {} {} {} {}", c, f.name(), g.name(), w, comp, seq), "ok");
    }

    // J translate-script
    let orig = guard(|| hex(ms.encode().as_bytes()));
    let mut smaps = vec![MapK::Id, MapK::Ren, MapK::Ren2];
    if matches!(ctx, CtxK::Bare | CtxK::Legacy) { smaps.push(MapK::Unc); }
    for m in smaps {
        if let Some(s1) = tr_script(&ms, m) {
            out.line(&format!("J translate-script {} {} {} {} {}", c, m.name(), w, orig, s1), "ok");
        } else {
            out.count("translate-script skipped (translation failed)");
        }
    }

    // C iterpk
    let it = guard(|| show_ids(&ms.iter_pk().map(|k| k.id()).collect::<Vec<_>>()));
    out.line(&format!("C iterpk {} {}", c, w), &it);

    // C foreachkey / foranykey
    let each = |stop: Option<u32>| -> String {
        guard(|| {
            let mut visited = vec![];
            let r = ms.for_each_key(|k| { let i = k.id(); visited.push(i); Some(i) != stop });
            format!("{}|{}", show_ids(&visited), if r { 1 } else { 0 })
        })
    };
    let any = |hit: Option<u32>| -> String {
        guard(|| {
            let mut visited = vec![];
            let r = ms.for_any_key(|k| { let i = k.id(); visited.push(i); Some(i) == hit });
            format!("{}|{}", show_ids(&visited), if r { 1 } else { 0 })
        })
    };
    let mut sel: Vec<Option<u32>> = vec![None];
    sel.extend(distinct.iter().map(|k| Some(*k)));
    sel.push(Some(absent));
    for s in &sel {
        let t = s.map(|k| k.to_string()).unwrap_or_else(|| "-".to_string());
        out.line(&format!("C foreachkey {} {} {}", c, t, w), &each(*s));
        out.line(&format!("C foranykey {} {} {}", c, t, w), &any(*s));
    }

    // J keys-multiset
    {
        let fe = guard(|| {
            let mut visited = vec![];
            ms.for_each_key(|k| { visited.push(k.id()); true });
            show_ids(&visited)
        });
        let sc = guard(|| show_ids(&scan_keys(&ms.to_string())));
        out.line(&format!("J keys-multiset {} {} {} {} {}", c, w, it, fe, sc), "ok");
    }

    // C substraw
    let rs: Vec<u32> = { let mut s = BTreeSet::new(); raws(n).into_iter().filter(|h| s.insert(*h)).collect() };
    if !rs.is_empty() {
        let mut maps: Vec<Vec<(u32, u32)>> = vec![vec![]];
        maps.push(rs.iter().map(|h| (*h, *h)).collect());                         // every hash ↦ "its" key
        maps.push(vec![(rs[0], base + 5)]);                                       // partial, unrelated key
        maps.push(rs.iter().rev().enumerate().map(|(i, h)| (*h, base + 6 + i as u32 % 4)).collect());
        let other = (0..4).map(|h| base + h).find(|h| !rs.contains(h));
        if let Some(o) = other { maps.push(vec![(o, base + 7)]); }                // hash that does not occur
        if rs.len() > 1 { maps.push(vec![(rs[rs.len() - 1], base + 8)]); }
        let mut seen = BTreeSet::new();
        for m in maps {
            let name = if m.is_empty() { "-".to_string() } else { m.iter().map(|(h, k)| format!("{}:{}", h, k)).collect::<Vec<_>>().join(",") };
            if !seen.insert(name.clone()) { continue; }
            let ans = guard(|| {
                let pk_map: BTreeMap<hash160::Hash, Pk> = m.iter().map(|(h, k)| (raw_pkh(*h), Pk::of(*k))).collect();
                from_ms(&ms.substitute_raw_pkh(&pk_map)).wire()
            });
            out.line(&format!("C substraw {} {} {}", c, name, w), &ans);
            // `substitute_raw_pkh` rebuilds through `from_components_unchecked(term, item.ty, item.ext)`
            let r = catch_unwind(AssertUnwindSafe(|| {
                let pk_map: BTreeMap<hash160::Hash, Pk> = m.iter().map(|(h, k)| (raw_pkh(*h), Pk::of(*k))).collect();
                ms.substitute_raw_pkh(&pk_map)
            }));
            // every node of the result carries its own ty / ext
            if let Ok(r) = r { for sub in r.iter() { ty_ext_lines(out, ctx, sub, "substraw"); } }
        }
    }
}

/* ------------------------------------------------------------ descriptors (self-checks) */

fn desc_fail(out: &mut Out, what: &str, s: &str) {
    out.line(&format!("J desc-check {}:{} fail", what, s.replace(' ', "_")), "ok");
}

fn desc_tr<P: KeyId, Q: KeyId>(d: &Descriptor<P>, mode: Mode) -> Result<(Descriptor<Q>, Vec<Atom>), String> {
    let mut t = Tx::<Q>::new(mode);
    match catch_unwind(AssertUnwindSafe(|| d.translate_pk(&mut t))) {
        Err(_) => Err("PANIC".to_string()),
        Ok(Ok(x)) => Ok((x, t.log)),
        Ok(Err(e)) => err_text(e),
    }
}

/// `Descriptor::<Pk>::from_str` for the two concrete key types
trait ParseDesc: KeyId { fn parse(s: &str) -> Option<Descriptor<Self>>; }
impl ParseDesc for PublicKey { fn parse(s: &str) -> Option<Descriptor<Self>> { Descriptor::<PublicKey>::from_str(s).ok() } }
impl ParseDesc for XOnlyPublicKey { fn parse(s: &str) -> Option<Descriptor<Self>> { Descriptor::<XOnlyPublicKey>::from_str(s).ok() } }

fn check_desc<Pk: ParseDesc>(out: &mut Out, s: &str, is_tr: bool) {
    let d = match catch_unwind(|| Pk::parse(s)) {
        Ok(Some(d)) => d,
        _ => { out.count("desc-skip (not accepted by from_str)"); return; }
    };
    let mut ok = true;
    let mut fail = |out: &mut Out, what: &str| { ok = false; desc_fail(out, what, s); };
    let text = d.to_string();
    let scanned = scan_keys(&text);
    // identity
    match desc_tr::<Pk, Pk>(&d, Mode::pure1(MapK::Id)) {
        Ok((t, log)) => {
            if t != d { fail(out, "identity-not-equal"); }
            if t.to_string() != text { fail(out, "identity-string"); }
            let asked: Vec<u32> = log.iter().filter_map(|a| if let Atom::K(k) = a { Some(*k) } else { None }).collect();
            let (mut a, mut b) = (asked.clone(), scanned.clone());
            a.sort(); b.sort();
            if a != b { fail(out, "translator-calls-multiset"); }
            // Tr: the tree is translated first, the internal key last
            if is_tr && asked.last() != scanned.first() { fail(out, "tr-internal-key-not-last"); }
        }
        Err(e) => fail(out, &format!("identity-{}", e)),
    }
    // ren, then its inverse
    match desc_tr::<Pk, Pk>(&d, Mode::pure1(MapK::Ren)) {
        Ok((r, _)) => {
            if !scanned.is_empty() && r == d { fail(out, "ren-no-effect"); }
            let rtext = r.to_string();
            let want: Vec<u32> = scanned.iter().map(|k| MapK::Ren.key(*k)).collect();
            if scan_keys(&rtext) != want { fail(out, "ren-string-keys"); }
            match Pk::parse(&rtext) {
                Some(rp) => {
                    if rp != r { fail(out, "ren-reparse-not-equal"); }
                    let a = catch_unwind(AssertUnwindSafe(|| r.script_pubkey()));
                    let b = catch_unwind(AssertUnwindSafe(|| rp.script_pubkey()));
                    match (a, b) { (Ok(a), Ok(b)) if a == b => {}, _ => fail(out, "ren-script-pubkey") }
                }
                None => fail(out, "ren-reparse"),
            }
            match desc_tr::<Pk, Pk>(&r, Mode::pure1(MapK::RenInv)) {
                Ok((back, _)) => { if back != d { fail(out, "ren-inverse-not-equal"); } if back.to_string() != text { fail(out, "ren-inverse-string"); } }
                Err(e) => fail(out, &format!("ren-inverse-{}", e)),
            }
            // composite in one pass
            match desc_tr::<Pk, Pk>(&d, Mode::Pure(vec![MapK::Ren, MapK::RenInv])) {
                Ok((t, _)) => if t != d { fail(out, "ren-composite-not-equal"); },
                Err(e) => fail(out, &format!("ren-composite-{}", e)),
            }
        }
        Err(e) => fail(out, &format!("ren-{}", e)),
    }
    // a failing translator is reported as such
    if let Some(k) = scanned.last() {
        match desc_tr::<Pk, Pk>(&d, Mode::Fail(*k)) {
            Err(e) if e == format!("ERR:K{}", k) => {}
            _ => fail(out, "fail-not-reported"),
        }
    }
    // for_each_key / for_any_key
    let r = catch_unwind(AssertUnwindSafe(|| {
        let mut visited = vec![];
        let all = d.for_each_key(|k| { visited.push(k.id()); true });
        let mut first = vec![];
        let none = d.for_each_key(|k| { first.push(k.id()); false });
        let anys: Vec<bool> = scanned.iter().map(|x| d.for_any_key(|k| k.id() == *x)).collect();
        let absent = d.for_any_key(|k| k.id() == UNKNOWN);
        (visited, all, first, none, anys, absent)
    }));
    match r {
        Err(_) => fail(out, "for-each-key-panic"),
        Ok((visited, all, first, none, anys, absent)) => {
            if !all { fail(out, "for-each-key-result"); }
            let (mut a, mut b) = (visited.clone(), scanned.clone());
            a.sort(); b.sort();
            if a != b { fail(out, "for-each-key-multiset"); }
            if is_tr {
                // leaves' keys in leaf order, then the internal key (the string has it first)
                let mut want = scanned[1..].to_vec();
                want.push(scanned[0]);
                if visited != want { fail(out, "tr-for-each-key-order"); }
            } else if visited != scanned { fail(out, "for-each-key-order"); }
            if !scanned.is_empty() && (none || first.len() != 1 || first[0] != visited[0]) { fail(out, "for-each-key-short-circuit"); }
            if anys.iter().any(|x| !*x) || absent { fail(out, "for-any-key"); }
        }
    }
    if ok {
        out.line(&format!("J desc-check all:{} pass", s.replace(' ', "_")), "ok");
        out.count("desc-check-ok");
        let fam = ["sh(wsh", "sh(wpkh"].iter().find(|p| s.starts_with(**p)).cloned().unwrap_or_else(|| s.split('(').next().unwrap_or(""));
        out.count(&format!("desc-check-ok {}", fam));
    }
}

fn desc_checks(out: &mut Out) {
    let str_of = |ctx: CtxK, n: &Node| -> Option<String> {
        match ctx {
            CtxK::Legacy => to_ms::<PublicKey, Legacy>(n).ok().map(|m| m.to_string()),
            CtxK::Segwitv0 => to_ms::<PublicKey, Segwitv0>(n).ok().map(|m| m.to_string()),
            CtxK::Tap => to_ms::<XOnlyPublicKey, Tap>(n).ok().map(|m| m.to_string()),
            CtxK::Bare => None,
        }
    };
    let no_raw = |n: &&Node| raws(n).is_empty();
    for n in hand(CtxK::Segwitv0).iter().filter(no_raw) {
        if let Some(m) = str_of(CtxK::Segwitv0, n) {
            check_desc::<PublicKey>(out, &format!("wsh({})", m), false);
            check_desc::<PublicKey>(out, &format!("sh(wsh({}))", m), false);
        }
    }
    for n in hand(CtxK::Legacy).iter().filter(no_raw) {
        if let Some(m) = str_of(CtxK::Legacy, n) { check_desc::<PublicKey>(out, &format!("sh({})", m), false); }
    }
    for k in [0u32, 3, 9] {
        let key = full_key(k).to_string();
        for f in ["wpkh({})", "pkh({})", "sh(wpkh({}))", "pk({})"] { check_desc::<PublicKey>(out, &f.replace("{}", &key), false); }
    }
    check_desc::<PublicKey>(out, &format!("pkh({})", full_key(101)), false);
    // taproot: x-only keys; leaves from the hand-written list
    let leaves: Vec<String> = hand(CtxK::Tap).iter().filter(no_raw).filter_map(|n| str_of(CtxK::Tap, n)).collect();
    let ik = |i: usize| xonly_key(200 + (i as u32 * 7 + 9) % 10).to_string();
    check_desc::<XOnlyPublicKey>(out, &format!("tr({})", ik(0)), true);
    for (i, l) in leaves.iter().enumerate() {
        check_desc::<XOnlyPublicKey>(out, &format!("tr({},{})", ik(i), l), true);
        let l2 = &leaves[(i + 1) % leaves.len()];
        let l3 = &leaves[(i + 5) % leaves.len()];
        check_desc::<XOnlyPublicKey>(out, &format!("tr({},{{{},{}}})", ik(i), l, l2), true);
        if i % 3 == 0 {
            check_desc::<XOnlyPublicKey>(out, &format!("tr({},{{{},{{{},{}}}}})", ik(i), l, l2, l3), true);
            check_desc::<XOnlyPublicKey>(out, &format!("tr({},{{{{{},{}}},{}}})", ik(i), l3, l, l2), true);
        }
    }
    // taproot with full (compressed) keys
    let k = |i: u32| full_key(i).to_string();
    check_desc::<PublicKey>(out, &format!("tr({},{{pk({}),and_v(v:pk({}),multi_a(2,{},{},{}))}})", k(0), k(1), k(2), k(5), k(3), k(4)), true);
}

/* ------------------------------------------------------------ entry point */

fn extra_defs(out: &mut Out) {
    // `emit_defs` defines 0..9, 100..103, 200..209; `ren`/`ren2`/`unc` reach 104..109 as well
    for id in 104..110 {
        let k = full_key(id);
        let ser = k.to_bytes();
        let sort = crate::ast::bip67_sort(&k);
        let pkh = hash160::Hash::hash(&ser);
        out.line(&format!("D key {} {} {} {}", id, hex(&ser), hex(&sort), hex(pkh.as_byte_array())), "ok");
    }
}

/// `Threshold::{map, translate, translate_by_index, map_from_post_order_iter}` on plain numbers
/// with identity-like and failing closures and asymmetric data
fn threshold_ops(out: &mut Out) {
    use miniscript::Threshold;
    let show = |t: &Threshold<u32, 0>| format!("{}|{}", t.k(), show_ids(t.data()));
    let datas: Vec<(usize, Vec<u32>)> = vec![(1, vec![7]), (1, vec![5, 9]), (2, vec![5, 9]), (2, vec![3, 1, 2]), (3, vec![4, 4, 8, 1]), (1, vec![9, 8, 7, 6, 5])];
    for (k, xs) in &datas {
        let t: Threshold<u32, 0> = match Threshold::new(*k, xs.clone()) { Ok(t) => t, Err(_) => continue };
        let xs_s = show_ids(xs);
        for c in [0u32, 10] {
            out.line(&format!("C thrmap {} {} {}", k, xs_s, c), &guard(|| show(&t.clone().map(|x| x + c))));
            out.line(&format!("C thrmap {} {} {}", k, xs_s, c), &guard(|| show(&t.map_ref(|x| *x + c))));
        }
        let mut fails: Vec<Option<u32>> = vec![None];
        fails.extend(xs.iter().map(|x| Some(*x)));
        for f in fails {
            let tok = f.map(|x| x.to_string()).unwrap_or("-".into());
            for by_ref in [false, true] {
                let ans = guard(|| {
                    let mut calls = 0;
                    let clo = |x: u32| -> Result<u32, u32> { calls += 1; if Some(x) == f { Err(x) } else { Ok(x * 2 + 1) } };
                    let mut clo = clo;
                    let r = if by_ref { t.translate_ref(|x| clo(*x)) } else { t.clone().translate(|x| clo(x)) };
                    match r { Ok(r) => format!("ok:{}|{}", show(&r), calls), Err(e) => format!("err:{}|{}", e, calls) }
                });
                out.line(&format!("C thrtranslate {} {} {}", k, xs_s, tok), &ans);
            }
        }
        for f in std::iter::once(None).chain((0..xs.len()).map(Some)) {
            let tok = f.map(|x| x.to_string()).unwrap_or("-".into());
            let ans = guard(|| {
                let mut calls = 0;
                let r: Result<Threshold<u32, 0>, u32> = t.translate_by_index(|i| { calls += 1; if Some(i) == f { Err(i as u32) } else { Ok(i as u32 * 3 + 1) } });
                match r { Ok(r) => format!("ok:{}|{}", show(&r), calls), Err(e) => format!("err:{}|{}", e, calls) }
            });
            out.line(&format!("C thrbyindex {} {} {}", k, xs_s, tok), &ans);
        }
        // child indices: reversed, rotated, constant
        let n = xs.len();
        let processed: Vec<u32> = (0..(n as u32 + 2)).map(|i| 100 + i * i).collect();
        let idxs: Vec<Vec<usize>> = vec![(0..n).collect(), (0..n).rev().collect(), (0..n).map(|i| (i + 1) % (n + 1)).collect(), vec![n + 1; n]];
        for idx in idxs {
            let ans = guard(|| show(&t.map_from_post_order_iter(&idx, &processed)));
            out.line(&format!("C thrpost {} {} {} {}", k, xs_s, show_ids(&idx.iter().map(|i| *i as u32).collect::<Vec<_>>()), show_ids(&processed)), &ans);
        }
    }
}

pub fn run(out: &mut Out, thorough: bool, seed: u64) {
    std::panic::set_hook(Box::new(|_| {}));
    let mut rng = Rng(seed ^ 0xC20);
    ast::emit_defs(out);
    extra_defs(out);
    let mut total = 0usize;
    for ctx in CtxK::ALL {
        let ins = inputs(ctx, thorough, &mut rng);
        out.note(&format!("inputs {}", ctx.name()), ins.len().to_string());
        total += ins.len();
        for n in &ins {
            n.count_frags(out);
            out.count(&format!("input size {}", match n.size() { 0..=1 => "1", 2..=3 => "2-3", 4..=7 => "4-7", 8..=15 => "8-15", _ => "16+" }));
            with_ctx!(ctx, ops_for(out, ctx, n, thorough));
        }
    }
    desc_checks(out);
    threshold_ops(out);
    c20d::run(out, thorough, &mut rng);
    c20p::run(out, thorough, &mut rng);
    let _ = std::panic::take_hook();
    out.note("domain", format!(
        "4 contexts; hand-written asymmetric fragments + enumerate depth {} + random_b; maps id/ren/ren2/comp/unc/xonly/fail:i/failcall:n; descriptors wsh/sh/sh(wsh)/wpkh/pkh/pk/tr self-checked; keyless / refused-by-sane corpus (keyless fragment first/middle/last in every container, repeated keys, mixed lock units); the whole corpus through wsh / sh(wsh) / sh / bare / single-leaf tr, each also via the parsed route, USED and clone-of-used; keyless tap leaves at every position via new_tr and Tr::new; Descriptor::for_each_key / for_any_key vs model",
        if thorough { 3 } else { 2 }));
    out.note("distinct_nontrivial", total.to_string());
}

//! Descriptor-level helpers shared by C01 / C13 / C14 / C17: real transactions, real
//! sighashes, real signatures, and the independent registration of what is cryptographically
//! valid (`D dsig`, `D tapcommit`) for the Lean `verifySpend` judge.
use std::collections::{BTreeMap, BTreeSet};

use miniscript::bitcoin::hashes::{hash160, ripemd160, sha256, Hash};
use miniscript::bitcoin::key::TapTweak;
use miniscript::bitcoin::secp256k1::{self, Message, Secp256k1, XOnlyPublicKey};
use miniscript::bitcoin::sighash::{EcdsaSighashType, Prevouts, SighashCache, TapSighashType};
use miniscript::bitcoin::taproot::{ControlBlock, LeafVersion, TapLeafHash};
use miniscript::bitcoin::{
    absolute, ecdsa, relative, taproot, transaction, Amount, OutPoint, PublicKey, ScriptBuf,
    Sequence, Transaction, TxIn, TxOut, Txid, Witness,
};
use miniscript::descriptor::TapTree;
use miniscript::{hash256, BareCtx, Descriptor, Legacy, Miniscript, Satisfier, Segwitv0, Tap};

use crate::ast::{self, hex, Node, HK};
use crate::common::Out;
use crate::msops::{hash_id, key_id_full, rel_canon};

pub const DOM_LEGACY: u32 = 0;
pub const DOM_SEGWITV0: u32 = 1;
pub const DOM_TAPKEY: u32 = 2;
pub const DOM_TAPSCRIPT: u32 = 3;
pub const VALUE: u64 = 100_000;

/// what the spender holds, at descriptor level
#[derive(Clone, Debug, Default, PartialEq, Eq, Hash, PartialOrd, Ord)]
pub struct DAssets {
    /// key ids (0..10) whose ECDSA / Schnorr-script signatures are available
    pub keys: BTreeSet<u32>,
    /// taproot key-path signature available
    pub tapkey: bool,
    pub pre: BTreeSet<(HK, u32)>,
    /// available absolute locks (single unit) / relative locks (canonical, single unit)
    pub after: BTreeSet<u32>,
    pub older: BTreeSet<u32>,
    /// 65-byte (SIGHASH_ALL) instead of 64-byte (default) schnorr signatures
    pub schnorr_all: bool,
    /// raw key-hash atoms: the key behind atom `h` is known (`lookup_raw_pkh_pk` /
    /// `lookup_raw_pkh_x_only_pk`); its signature is available iff `h % 100` is in `keys`
    /// (`lookup_raw_pkh_ecdsa_sig` / `lookup_raw_pkh_tap_leaf_script_sig`).  Empty = the
    /// satisfier has no raw-pkh lookups at all (the behaviour other modules rely on).
    pub rawpk: BTreeSet<u32>,
}

impl DAssets {
    pub fn wire(&self) -> String {
        fn j<T: ToString>(i: impl Iterator<Item = T>) -> String {
            let v: Vec<String> = i.map(|x| x.to_string()).collect();
            if v.is_empty() { "-".into() } else { v.join(",") }
        }
        let base = format!("k={};tk={};p={};o={};a={};sa={}", j(self.keys.iter()), self.tapkey as u8,
            j(self.pre.iter().map(|(k, h)| format!("{}:{}", k.name(), h))), j(self.older.iter()),
            j(self.after.iter()), self.schnorr_all as u8);
        if self.rawpk.is_empty() { base } else { format!("{};rk={}", base, j(self.rawpk.iter())) }
    }
    /// nLockTime / nSequence meeting every lock the assets declare available
    pub fn tx_fields(&self) -> (u32, u32) {
        let lt = self.after.iter().cloned().max().unwrap_or(0);
        let sq = self.older.iter().cloned().max().unwrap_or(0xffff_fffe);
        (lt, sq)
    }
    pub fn full(nodes: &[&Node]) -> DAssets {
        let mut a = DAssets::default();
        for n in nodes {
            let mut ks = vec![];
            n.keys(&mut ks);
            for k in ks { a.keys.insert(k % 100); }
            let mut hs = vec![];
            n.hashes(&mut hs);
            for h in hs { a.pre.insert(h); }
            let (mut af, mut ol) = (vec![], vec![]);
            n.locks(&mut af, &mut ol);
            // keep one unit only (the unit of the first lock seen)
            for x in af { if a.after.iter().all(|y| (*y < 500_000_000) == (x < 500_000_000)) { a.after.insert(x); } }
            for x in ol { let c = rel_canon(x); if a.older.iter().all(|y| (*y & 0x400000) == (c & 0x400000)) { a.older.insert(c); } }
        }
        a
    }
}

pub fn make_tx(lt: u32, sq: u32) -> Transaction {
    Transaction {
        version: transaction::Version::TWO,
        lock_time: absolute::LockTime::from_consensus(lt),
        input: vec![TxIn {
            previous_output: OutPoint { txid: Txid::from_byte_array([0x11; 32]), vout: 1 },
            script_sig: ScriptBuf::new(),
            sequence: Sequence::from_consensus(sq),
            witness: Witness::new(),
        }],
        output: vec![TxOut { value: Amount::from_sat(VALUE - 1000), script_pubkey: ScriptBuf::from_bytes(vec![0x51]) }],
    }
}

/// A `Satisfier` holding REAL signatures over a concrete transaction.
pub struct TxSat {
    pub assets: DAssets,
    pub tx: Transaction,
    pub prevout: TxOut,
    /// script code the ECDSA signatures were made for, and the sighash domain
    pub ecdsa: BTreeMap<u32, ecdsa::Signature>,
    pub tap_key_sig: Option<taproot::Signature>,
    /// every signature handed out, as (domain, pubkey bytes, sig bytes), for later validation
    pub issued: std::cell::RefCell<Vec<(Vec<u8>, Vec<u8>)>>,
}

fn secp() -> &'static Secp256k1<secp256k1::All> {
    static S: std::sync::OnceLock<Secp256k1<secp256k1::All>> = std::sync::OnceLock::new();
    S.get_or_init(Secp256k1::new)
}

impl TxSat {
    /// `code`: (script code, is_segwit_v0) used for the ECDSA signatures, if the output type
    /// uses ECDSA; `tap_merkle_root`: Some(root) to prepare a key-path signature.
    pub fn new(assets: DAssets, tx: Transaction, prevout: TxOut, code: Option<(ScriptBuf, bool)>,
               tap_internal: Option<(u32, Option<miniscript::bitcoin::taproot::TapNodeHash>)>) -> TxSat {
        let mut ecdsa_sigs = BTreeMap::new();
        if let Some((sc, segwit)) = &code {
            let mut cache = SighashCache::new(&tx);
            for k in &assets.keys {
                let digest: [u8; 32] = if *segwit {
                    cache.p2wsh_signature_hash(0, sc, prevout.value, EcdsaSighashType::All).unwrap().to_byte_array()
                } else {
                    cache.legacy_signature_hash(0, sc, EcdsaSighashType::All.to_u32()).unwrap().to_byte_array()
                };
                let sig = secp().sign_ecdsa(&Message::from_digest(digest), &ast::secret(*k));
                ecdsa_sigs.insert(*k, ecdsa::Signature { signature: sig, sighash_type: EcdsaSighashType::All });
            }
        }
        let mut tap_key_sig = None;
        if let (true, Some((ik, root))) = (assets.tapkey, tap_internal) {
            let ty = if assets.schnorr_all { TapSighashType::All } else { TapSighashType::Default };
            let mut cache = SighashCache::new(&tx);
            let digest = cache.taproot_key_spend_signature_hash(0, &Prevouts::All(&[prevout.clone()]), ty).unwrap();
            let kp = secp256k1::Keypair::from_secret_key(secp(), &ast::secret(ik)).tap_tweak(secp(), root);
            let sig = secp().sign_schnorr_with_aux_rand(&Message::from_digest(digest.to_byte_array()), &kp.to_inner(), &[9u8; 32]);
            tap_key_sig = Some(taproot::Signature { signature: sig, sighash_type: ty });
        }
        TxSat { assets, tx, prevout, ecdsa: ecdsa_sigs, tap_key_sig, issued: Default::default() }
    }
}

impl Satisfier<PublicKey> for TxSat {
    fn lookup_ecdsa_sig(&self, pk: &PublicKey) -> Option<ecdsa::Signature> {
        let id = key_id_full(pk)? % 100;
        let s = self.ecdsa.get(&id).cloned()?;
        self.issued.borrow_mut().push((pk.to_bytes(), s.to_vec()));
        Some(s)
    }
    fn lookup_tap_key_spend_sig(&self, _pk: &PublicKey) -> Option<taproot::Signature> {
        let s = self.tap_key_sig?;
        Some(s)
    }
    fn lookup_tap_leaf_script_sig(&self, pk: &PublicKey, leaf: &TapLeafHash) -> Option<taproot::Signature> {
        let id = key_id_full(pk)? % 100;
        if !self.assets.keys.contains(&id) { return None; }
        let ty = if self.assets.schnorr_all { TapSighashType::All } else { TapSighashType::Default };
        let mut cache = SighashCache::new(&self.tx);
        let digest = cache.taproot_script_spend_signature_hash(0, &Prevouts::All(&[self.prevout.clone()]), *leaf, ty).ok()?;
        let kp = secp256k1::Keypair::from_secret_key(secp(), &ast::secret(id));
        let sig = secp().sign_schnorr_with_aux_rand(&Message::from_digest(digest.to_byte_array()), &kp, &[9u8; 32]);
        let s = taproot::Signature { signature: sig, sighash_type: ty };
        self.issued.borrow_mut().push((pk.inner.x_only_public_key().0.serialize().to_vec(), s.to_vec()));
        Some(s)
    }
    fn lookup_raw_pkh_pk(&self, h: &hash160::Hash) -> Option<PublicKey> {
        let id = crate::msops::rawpkh_id(h)?;
        if id < 200 && self.assets.rawpk.contains(&id) { Some(ast::full_key(id)) } else { None }
    }
    fn lookup_raw_pkh_x_only_pk(&self, h: &hash160::Hash) -> Option<XOnlyPublicKey> {
        let id = crate::msops::rawpkh_id(h)?;
        if id >= 200 && self.assets.rawpk.contains(&id) { Some(ast::xonly_key(id)) } else { None }
    }
    fn lookup_raw_pkh_ecdsa_sig(&self, h: &hash160::Hash) -> Option<(PublicKey, ecdsa::Signature)> {
        let id = crate::msops::rawpkh_id(h)?;
        if id >= 200 || !self.assets.rawpk.contains(&id) { return None; }
        let pk = ast::full_key(id);
        let s = self.ecdsa.get(&(id % 100)).cloned()?;
        self.issued.borrow_mut().push((pk.to_bytes(), s.to_vec()));
        Some((pk, s))
    }
    fn lookup_raw_pkh_tap_leaf_script_sig(&self, h: &(hash160::Hash, TapLeafHash)) -> Option<(XOnlyPublicKey, taproot::Signature)> {
        let id = crate::msops::rawpkh_id(&h.0)?;
        if id < 200 || !self.assets.rawpk.contains(&id) { return None; }
        let s = self.lookup_tap_leaf_script_sig(&ast::full_key(id), &h.1)?;
        Some((ast::xonly_key(id), s))
    }
    fn lookup_sha256(&self, h: &sha256::Hash) -> Option<[u8; 32]> {
        let id = hash_id(HK::Sha256, h.as_byte_array())?;
        if self.assets.pre.contains(&(HK::Sha256, id)) { Some(ast::preimage(id)) } else { None }
    }
    fn lookup_hash256(&self, h: &hash256::Hash) -> Option<[u8; 32]> {
        let id = hash_id(HK::Hash256, h.as_byte_array())?;
        if self.assets.pre.contains(&(HK::Hash256, id)) { Some(ast::preimage(id)) } else { None }
    }
    fn lookup_ripemd160(&self, h: &ripemd160::Hash) -> Option<[u8; 32]> {
        let id = hash_id(HK::Ripemd160, h.as_byte_array())?;
        if self.assets.pre.contains(&(HK::Ripemd160, id)) { Some(ast::preimage(id)) } else { None }
    }
    fn lookup_hash160(&self, h: &hash160::Hash) -> Option<[u8; 32]> {
        let id = hash_id(HK::Hash160, h.as_byte_array())?;
        if self.assets.pre.contains(&(HK::Hash160, id)) { Some(ast::preimage(id)) } else { None }
    }
    fn check_older(&self, n: relative::LockTime) -> bool { self.assets.older.contains(&n.to_consensus_u32()) }
    fn check_after(&self, n: absolute::LockTime) -> bool { self.assets.after.contains(&n.to_consensus_u32()) }
}

/* ---------------------------------------------------------------- descriptors from ASTs */

#[derive(Clone, Copy, Debug, PartialEq, Eq)]
pub enum Wrap { Wsh, ShWsh, Sh, Bare, Pkh, Wpkh, ShWpkh }

pub fn build_desc(wrap: Wrap, node: &Node, key: u32) -> Option<Descriptor<PublicKey>> {
    match wrap {
        Wrap::Wsh => Descriptor::new_wsh(ast::to_ms::<PublicKey, Segwitv0>(node).ok()?).ok(),
        Wrap::ShWsh => Descriptor::new_sh_wsh(ast::to_ms::<PublicKey, Segwitv0>(node).ok()?).ok(),
        Wrap::Sh => Descriptor::new_sh(ast::to_ms::<PublicKey, Legacy>(node).ok()?).ok(),
        Wrap::Bare => Descriptor::new_bare(ast::to_ms::<PublicKey, BareCtx>(node).ok()?).ok(),
        Wrap::Pkh => Descriptor::new_pkh(ast::full_key(key)).ok(),
        Wrap::Wpkh => Descriptor::new_wpkh(ast::full_key(key)).ok(),
        Wrap::ShWpkh => Descriptor::new_sh_wpkh(ast::full_key(key)).ok(),
    }
}

/// tr(internal, tree) with leaves given left to right as a left-leaning comb
pub fn build_tr(internal: u32, leaves: &[Node]) -> Option<Descriptor<PublicKey>> {
    let mut tree: Option<TapTree<PublicKey>> = None;
    for n in leaves {
        let ms: Miniscript<PublicKey, Tap> = ast::to_ms(n).ok()?;
        let leaf = TapTree::leaf(std::sync::Arc::new(ms));
        tree = Some(match tree { None => leaf, Some(t) => TapTree::combine(t, leaf).ok()? });
    }
    Descriptor::new_tr(ast::full_key(internal), tree).ok()
}

/// tr(internal, tree) with the leaves (left to right) arranged as a right-leaning comb
/// (`shape` 1) or as a balanced tree (`shape` 2); `shape` 0 = `build_tr`'s left comb
pub fn build_tr_shaped(internal: u32, leaves: &[Node], shape: u8) -> Option<Descriptor<PublicKey>> {
    fn leaf(n: &Node) -> Option<TapTree<PublicKey>> {
        let ms: Miniscript<PublicKey, Tap> = ast::to_ms(n).ok()?;
        Some(TapTree::leaf(std::sync::Arc::new(ms)))
    }
    fn right(ls: &[Node]) -> Option<TapTree<PublicKey>> {
        if ls.len() == 1 { return leaf(&ls[0]); }
        TapTree::combine(leaf(&ls[0])?, right(&ls[1..])?).ok()
    }
    fn bal(ls: &[Node]) -> Option<TapTree<PublicKey>> {
        if ls.len() == 1 { return leaf(&ls[0]); }
        let m = ls.len() / 2;
        TapTree::combine(bal(&ls[..m])?, bal(&ls[m..])?).ok()
    }
    if leaves.is_empty() || shape == 0 { return build_tr(internal, leaves); }
    let tree = if shape == 1 { right(leaves)? } else { bal(leaves)? };
    Descriptor::new_tr(ast::full_key(internal), Some(tree)).ok()
}

/// the script code ECDSA signatures must commit to BEFORE satisfaction (the harness re-derives
/// it from the produced data afterwards, see `register_valid`)
pub fn presign_code(desc: &Descriptor<PublicKey>) -> Option<(ScriptBuf, bool)> {
    use miniscript::descriptor::DescriptorType::*;
    match desc.desc_type() {
        Bare | Pkh => Some((desc.script_pubkey(), false)),
        Sh => Some((desc.explicit_script().ok()?, false)),
        Wsh | ShWsh => Some((desc.explicit_script().ok()?, true)),
        Wpkh | ShWpkh => {
            // BIP143: the P2PKH script of the key hash
            let pk = match desc { Descriptor::Wpkh(w) => *w.as_inner(), Descriptor::Sh(s) => match s.as_inner() { miniscript::descriptor::ShInner::Wpkh(w) => *w.as_inner(), _ => return None }, _ => return None };
            Some((ScriptBuf::new_p2pkh(&pk.pubkey_hash()), true))
        }
        Tr => None,
    }
}

pub fn tx_sat_for(desc: &Descriptor<PublicKey>, assets: &DAssets) -> TxSat {
    let (lt, sq) = assets.tx_fields();
    let tx = make_tx(lt, sq);
    let prevout = TxOut { value: Amount::from_sat(VALUE), script_pubkey: desc.script_pubkey() };
    let tap = match desc {
        Descriptor::Tr(tr) => key_id_full(tr.internal_key()).map(|id| (id % 100, tr.spend_info().merkle_root())),
        _ => None,
    };
    TxSat::new(assets.clone(), tx, prevout, presign_code(desc), tap)
}

/* ---------------------------------------------------------------- independent validation */

fn last_push(script: &ScriptBuf) -> Option<Vec<u8>> {
    let mut last = None;
    for ins in script.instructions() {
        match ins { Ok(miniscript::bitcoin::script::Instruction::PushBytes(b)) => last = Some(b.as_bytes().to_vec()), Ok(_) => {}, Err(_) => return None }
    }
    last
}

/// Work out, from the PRODUCED data only (spk, scriptSig, witness — not from library
/// accessors), which digest each signature must verify against, verify every candidate
/// signature with libsecp256k1, and register the valid ones (and a verified taproot
/// commitment) for the Lean judge.
pub fn register_valid(out: &mut Out, tx: &Transaction, prevout: &TxOut, script_sig: &ScriptBuf,
                      witness: &[Vec<u8>], candidates: &[(Vec<u8>, Vec<u8>)]) {
    out.line("D clearsigs", "ok");
    let spk = &prevout.script_pubkey;
    let mut cache = SighashCache::new(tx);
    // ECDSA domains
    let mut ecdsa_digest: Option<(u32, [u8; 32])> = None;
    let mut inner = spk.clone();
    if spk.is_p2sh() {
        if let Some(r) = last_push(script_sig) { inner = ScriptBuf::from_bytes(r); }
    }
    if inner.is_p2wpkh() {
        if let Ok(h) = cache.p2wpkh_signature_hash(0, &inner, prevout.value, EcdsaSighashType::All) {
            ecdsa_digest = Some((DOM_SEGWITV0, h.to_byte_array()));
        }
    } else if inner.is_p2wsh() {
        if let Some(ws) = witness.last() {
            if let Ok(h) = cache.p2wsh_signature_hash(0, &ScriptBuf::from_bytes(ws.clone()), prevout.value, EcdsaSighashType::All) {
                ecdsa_digest = Some((DOM_SEGWITV0, h.to_byte_array()));
            }
        }
    } else if !spk.is_p2tr() {
        if let Ok(h) = cache.legacy_signature_hash(0, &inner, EcdsaSighashType::All.to_u32()) {
            ecdsa_digest = Some((DOM_LEGACY, h.to_byte_array()));
        }
    }
    if let Some((dom, digest)) = ecdsa_digest {
        for (pk, sig) in candidates {
            if let (Ok(pk_), Ok(sig_)) = (PublicKey::from_slice(pk), ecdsa::Signature::from_slice(sig)) {
                if sig_.sighash_type == EcdsaSighashType::All
                    && secp().verify_ecdsa(&Message::from_digest(digest), &sig_.signature, &pk_.inner).is_ok() {
                    out.line(&format!("D dsig {} {} {}", dom, hex(pk), hex(sig)), "ok");
                }
            }
        }
    }
    if spk.is_p2tr() {
        let prevouts = [prevout.clone()];
        let outkey = XOnlyPublicKey::from_slice(&spk.as_bytes()[2..34]).ok();
        if witness.len() == 1 {
            if let (Some(ok), Ok(sig)) = (outkey, taproot::Signature::from_slice(&witness[0])) {
                if let Ok(d) = cache.taproot_key_spend_signature_hash(0, &Prevouts::All(&prevouts), sig.sighash_type) {
                    if secp().verify_schnorr(&sig.signature, &Message::from_digest(d.to_byte_array()), &ok).is_ok() {
                        out.line(&format!("D dsig {} {} {}", DOM_TAPKEY, hex(&ok.serialize()), hex(&witness[0])), "ok");
                    }
                }
            }
        } else if witness.len() >= 2 {
            let script = ScriptBuf::from_bytes(witness[witness.len() - 2].clone());
            let cb_bytes = &witness[witness.len() - 1];
            if let (Some(ok), Ok(cb)) = (outkey, ControlBlock::decode(cb_bytes)) {
                if cb.verify_taproot_commitment(secp(), ok, &script) {
                    out.line(&format!("D tapcommit {} {} {}", hex(cb_bytes), hex(script.as_bytes()), hex(&ok.serialize())), "ok");
                }
            }
            let leaf = TapLeafHash::from_script(&script, LeafVersion::TapScript);
            for (pk, sig) in candidates {
                if let (Ok(x), Ok(s)) = (XOnlyPublicKey::from_slice(pk), taproot::Signature::from_slice(sig)) {
                    if let Ok(d) = cache.taproot_script_spend_signature_hash(0, &Prevouts::All(&prevouts), leaf, s.sighash_type) {
                        if secp().verify_schnorr(&s.signature, &Message::from_digest(d.to_byte_array()), &x).is_ok() {
                            out.line(&format!("D dsig {} {} {}", DOM_TAPSCRIPT, hex(pk), hex(sig)), "ok");
                        }
                    }
                }
            }
        }
    }
}

pub fn wit_wire(w: &[Vec<u8>]) -> String {
    if w.is_empty() { ".".into() } else { w.iter().map(|e| hex(e)).collect::<Vec<_>>().join(",") }
}

/// Judge one produced spend with the Lean `verifySpend`.
pub fn judge_spend(out: &mut Out, info: &str, sat: &TxSat, script_sig: &ScriptBuf, witness: &[Vec<u8>]) {
    let mut cands = sat.issued.borrow().clone();
    cands.sort(); cands.dedup();
    if let Some(s) = &sat.tap_key_sig {
        // key-path candidate is checked against the output key inside register_valid
        cands.push((vec![], s.to_vec()));
    }
    register_valid(out, &sat.tx, &sat.prevout, script_sig, witness, &cands);
    let (lt, sq) = (sat.tx.lock_time.to_consensus_u32(), sat.tx.input[0].sequence.to_consensus_u32());
    out.line(
        &format!("J spend {} {} {} {} {} | {}", lt, sq, hex(sat.prevout.script_pubkey.as_bytes()),
            hex(script_sig.as_bytes()), wit_wire(witness), info),
        "ok",
    );
}

/// run the descriptor's satisfier in one mode and judge the result; returns whether a
/// satisfaction was produced
pub fn satisfy_and_judge(out: &mut Out, desc: &Descriptor<PublicKey>, assets: &DAssets, mall: bool) -> bool {
    let sat = tx_sat_for(desc, assets);
    let res = std::panic::catch_unwind(std::panic::AssertUnwindSafe(|| {
        if mall { desc.get_satisfaction_mall(&sat) } else { desc.get_satisfaction(&sat) }
    }));
    let mode = if mall { "mall" } else { "nonmall" };
    let info = format!("{} {} {}", desc, mode, assets.wire());
    match res {
        Err(_) => { out.line(&format!("J nopanic get_satisfaction {} PANIC", info), "ok"); false }
        Ok(Err(_)) => { out.count("desc sat: none"); false }
        Ok(Ok((witness, script_sig))) => {
            out.count(&format!("desc sat: {:?}", desc.desc_type()));
            judge_spend(out, &info, &sat, &script_sig, &witness);
            // Descriptor::satisfy writes into a TxIn (non-malleable mode only): what it wrote
            // is judged like any other spend
            if !mall {
                let mut txin = sat.tx.input[0].clone();
                let r = std::panic::catch_unwind(std::panic::AssertUnwindSafe(|| desc.satisfy(&mut txin, &sat).is_ok()));
                match r {
                    Err(_) => out.line(&format!("J nopanic Descriptor::satisfy {} PANIC", info), "ok"),
                    Ok(false) => out.line(&format!("J consistent satisfy-fails-but-get_satisfaction-ok {}", info), "ok"),
                    Ok(true) => {
                        let w: Vec<Vec<u8>> = txin.witness.to_vec();
                        if w != witness || txin.script_sig != script_sig {
                            let info2 = format!("{} via=Descriptor::satisfy", info);
                            judge_spend(out, &info2, &sat, &txin.script_sig, &w);
                        } else { out.count("Descriptor::satisfy wrote the get_satisfaction result"); }
                    }
                }
            }
            // the library's stock Satisfier impls: (key -> signature map, nSequence, nLockTime) tuple;
            // whatever it produces must spend the output too
            if !matches!(desc, Descriptor::Tr(_)) {
                let mut m: std::collections::HashMap<PublicKey, ecdsa::Signature> = std::collections::HashMap::new();
                for (id, sig) in &sat.ecdsa {
                    for kid in [*id, *id + 100] {
                        let pk = ast::full_key(kid);
                        sat.issued.borrow_mut().push((pk.to_bytes(), sig.to_vec()));
                        m.insert(pk, *sig);
                    }
                }
                let stock = (&m, sat.tx.input[0].sequence, sat.tx.lock_time);
                let r = std::panic::catch_unwind(std::panic::AssertUnwindSafe(|| {
                    if mall { desc.get_satisfaction_mall(&stock) } else { desc.get_satisfaction(&stock) }
                }));
                match r {
                    Err(_) => out.line(&format!("J nopanic get_satisfaction(stock satisfier) {} PANIC", info), "ok"),
                    Ok(Err(_)) => out.count("stock satisfier: none"),
                    Ok(Ok((w, ss))) => {
                        if w != witness || ss != script_sig {
                            judge_spend(out, &format!("{} via=stock-tuple-satisfier", info), &sat, &ss, &w);
                        } else { out.count("stock satisfier: same as TxSat"); }
                    }
                }
            }
            true
        }
    }
}

/* ---------------------------------------------------------------- the PSBT route */

/// `Descriptor<PublicKey>` -> `Descriptor<DefiniteDescriptorKey>` with plain single keys (no
/// origin), as `update_input_with_descriptor` wants it
pub struct ToDefSingle;
impl miniscript::Translator<PublicKey> for ToDefSingle {
    type TargetPk = miniscript::DefiniteDescriptorKey;
    type Error = ();
    fn pk(&mut self, pk: &PublicKey) -> Result<miniscript::DefiniteDescriptorKey, ()> {
        use miniscript::descriptor::{DescriptorPublicKey, SinglePub, SinglePubKey};
        miniscript::DefiniteDescriptorKey::new(DescriptorPublicKey::Single(SinglePub { origin: None, key: SinglePubKey::FullKey(*pk) })).map_err(|_| ())
    }
    fn sha256(&mut self, h: &sha256::Hash) -> Result<sha256::Hash, ()> { Ok(*h) }
    fn hash256(&mut self, h: &hash256::Hash) -> Result<hash256::Hash, ()> { Ok(*h) }
    fn ripemd160(&mut self, h: &ripemd160::Hash) -> Result<ripemd160::Hash, ()> { Ok(*h) }
    fn hash160(&mut self, h: &hash160::Hash) -> Result<hash160::Hash, ()> { Ok(*h) }
}

/// a satisfier over a transaction whose input really spends output 1 of `prev` (needed by
/// `update_input_with_descriptor` for pre-segwit outputs: `non_witness_utxo`)
pub fn tx_sat_psbt(desc: &Descriptor<PublicKey>, assets: &DAssets) -> (TxSat, Transaction) {
    let (lt, sq) = assets.tx_fields();
    let prevout = TxOut { value: Amount::from_sat(VALUE), script_pubkey: desc.script_pubkey() };
    let prev = Transaction {
        version: transaction::Version::TWO,
        lock_time: absolute::LockTime::ZERO,
        input: vec![TxIn { previous_output: OutPoint { txid: Txid::from_byte_array([0x22; 32]), vout: 0 },
            script_sig: ScriptBuf::new(), sequence: Sequence::MAX, witness: Witness::new() }],
        output: vec![TxOut { value: Amount::from_sat(5000), script_pubkey: ScriptBuf::from_bytes(vec![0x51]) }, prevout.clone()],
    };
    let mut tx = make_tx(lt, sq);
    tx.input[0].previous_output = OutPoint { txid: prev.compute_txid(), vout: 1 };
    let tap = match desc {
        Descriptor::Tr(tr) => key_id_full(tr.internal_key()).map(|id| (id % 100, tr.spend_info().merkle_root())),
        _ => None,
    };
    (TxSat::new(assets.clone(), tx, prevout, presign_code(desc), tap), prev)
}

/// PSBT route: fill a one-input PSBT from what `sat` holds (through
/// `update_input_with_descriptor` + signature / preimage fields), finalize it in the given mode
/// and return what the finalizer wrote.  `None` = the route did not produce a spend.
pub fn psbt_finalize_route(desc: &Descriptor<PublicKey>, sat: &TxSat, prev: &Transaction, mall: bool)
    -> Option<(Vec<Vec<u8>>, ScriptBuf)> {
    use miniscript::psbt::PsbtExt;
    use miniscript::bitcoin::psbt::Psbt;
    use miniscript::{ForEachKey, TranslatePk};
    let dd = desc.translate_pk(&mut ToDefSingle).ok()?;
    let mut psbt = Psbt::from_unsigned_tx(sat.tx.clone()).ok()?;
    if desc.desc_type().segwit_version().is_some() { psbt.inputs[0].witness_utxo = Some(sat.prevout.clone()); }
    else { psbt.inputs[0].non_witness_utxo = Some(prev.clone()); }
    psbt.update_input_with_descriptor(0, &dd).ok()?;
    // signatures
    let mut keys: Vec<PublicKey> = vec![];
    desc.for_each_key(|k| { keys.push(*k); true });
    match desc {
        Descriptor::Tr(tr) => {
            psbt.inputs[0].tap_key_sig = sat.tap_key_sig;
            let info = tr.spend_info();
            for leaf in info.leaves() {
                let lh = leaf.leaf_hash();
                let mut lk: Vec<PublicKey> = vec![];
                leaf.miniscript().for_each_key(|k| { lk.push(*k); true });
                for k in lk {
                    if let Some(s) = sat.lookup_tap_leaf_script_sig(&k, &lh) {
                        psbt.inputs[0].tap_script_sigs.insert((k.inner.x_only_public_key().0, lh), s);
                    }
                }
            }
        }
        _ => {
            for k in keys {
                if let Some(s) = sat.lookup_ecdsa_sig(&k) { psbt.inputs[0].partial_sigs.insert(k, s); }
            }
        }
    }
    for (kind, id) in &sat.assets.pre {
        let v = ast::hash_value(*kind, *id);
        let p = ast::preimage(*id).to_vec();
        match kind {
            HK::Sha256 => { psbt.inputs[0].sha256_preimages.insert(sha256::Hash::from_slice(&v).ok()?, p); }
            HK::Hash256 => { psbt.inputs[0].hash256_preimages.insert(miniscript::bitcoin::hashes::sha256d::Hash::from_slice(&v).ok()?, p); }
            HK::Ripemd160 => { psbt.inputs[0].ripemd160_preimages.insert(ripemd160::Hash::from_slice(&v).ok()?, p); }
            HK::Hash160 => { psbt.inputs[0].hash160_preimages.insert(hash160::Hash::from_slice(&v).ok()?, p); }
        }
    }
    let r = if mall { psbt.finalize_mall_mut(secp()) } else { psbt.finalize_mut(secp()) };
    r.ok()?;
    let inp = &psbt.inputs[0];
    let ss = inp.final_script_sig.clone().unwrap_or_default();
    let w: Vec<Vec<u8>> = inp.final_script_witness.as_ref().map(|w| w.to_vec()).unwrap_or_default();
    Some((w, ss))
}

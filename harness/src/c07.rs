//! C07: the lifted policy is exactly the script's spending condition.
//!
//! For every fragment / descriptor the library's `lift()` runs under `catch_unwind`; its answer
//! (policy in C18's wire format, or `ERR:<kind>`, or `PANIC`) is
//!   * compared with the Lean model's `lift` (`C lift`, `C liftdesc`), and
//!   * judged by the specification (`J liftsem`, `J liftdesc-sem`): the Lean driver parses the
//!     library's policy and compares `holds W policy`, over every world relevant to the script
//!     (all subsets of its keys and preimages x (nLockTime, nSequence) on both sides of every
//!     lock), with "a canonical satisfaction exists from W's assets" (`Spec/SatTable.lean`),
//!     executing the table's witness with the Script semantics wherever one exists.
//!   * `J nf`: a lifted miniscript is in C18's normal form.
use std::panic::{catch_unwind, AssertUnwindSafe};

use miniscript::bitcoin::secp256k1::XOnlyPublicKey;
use miniscript::bitcoin::PublicKey;
use miniscript::descriptor::TapTree;
use miniscript::miniscript::types::Base;
use miniscript::policy::{LiftError, Liftable, Semantic};
use miniscript::{BareCtx, Descriptor, Legacy, Miniscript, ScriptContext, Segwitv0, Tap};

use crate::ast::{self, CtxK, Node, HK};
use crate::common::{Out, Rng};
use crate::msops::{self, HKey};
use crate::with_ctx;

/// canonical wire form (C18's) of a lifted policy over real keys / hashes
pub fn sem_wire<Pk: HKey>(p: &Semantic<Pk>) -> String {
    let kid = |k: &Pk| k.id().map(|i| i.to_string()).unwrap_or("?".into());
    let hid = |kind: HK, v: &[u8]| msops::hash_id(kind, v).map(|i| i.to_string()).unwrap_or("?".into());
    use miniscript::bitcoin::hashes::Hash;
    match p {
        Semantic::Unsatisfiable => "UNSATISFIABLE".into(),
        Semantic::Trivial => "TRIVIAL".into(),
        Semantic::Key(k) => format!("pk({})", kid(k)),
        Semantic::After(t) => format!("after({})", t.to_consensus_u32()),
        Semantic::Older(t) => format!("older({})", t.to_consensus_u32()),
        Semantic::Sha256(h) => format!("sha256({})", hid(HK::Sha256, h.as_byte_array())),
        Semantic::Hash256(h) => format!("hash256({})", hid(HK::Hash256, h.as_byte_array())),
        Semantic::Ripemd160(h) => format!("ripemd160({})", hid(HK::Ripemd160, h.as_byte_array())),
        Semantic::Hash160(h) => format!("hash160({})", hid(HK::Hash160, h.as_byte_array())),
        Semantic::Thresh(t) => {
            let mut s = format!("thresh({}", t.k());
            for x in t.iter() {
                s.push(',');
                s.push_str(&sem_wire(x));
            }
            s.push(')');
            s
        }
    }
}

fn lift_answer<Pk: HKey>(r: std::thread::Result<Result<Semantic<Pk>, miniscript::Error>>) -> String {
    match r {
        Err(_) => "PANIC".into(),
        Ok(Ok(p)) => sem_wire(&p),
        Ok(Err(miniscript::Error::LiftError(LiftError::HeightTimelockCombination))) => "ERR:timelock".into(),
        Ok(Err(miniscript::Error::LiftError(LiftError::BranchExceedResourceLimits))) => "ERR:limits".into(),
        Ok(Err(miniscript::Error::LiftError(LiftError::RawDescriptorLift))) => "ERR:rawpkh".into(),
        Ok(Err(_)) => "ERR:other".into(),
    }
}

fn answer_class(a: &str) -> &'static str {
    if a == "PANIC" { "panic" } else if a.starts_with("ERR:") { "refused" }
    else if a == "UNSATISFIABLE" || a == "TRIVIAL" { "constant" } else { "policy" }
}

fn one_ms<Pk: HKey, Ctx: ScriptContext>(out: &mut Out, ctx: CtxK, node: &Node) -> bool {
    let ms: Miniscript<Pk, Ctx> = match ast::to_ms(node) { Ok(m) => m, Err(_) => { out.count("skipped not-accepted-by-from_ast"); return false } };
    let w = node.wire();
    let ans = lift_answer(catch_unwind(AssertUnwindSafe(|| ms.lift())));
    out.count(&format!("lift {} {}", ctx.name(), if ans.starts_with("ERR:") { ans.as_str() } else { answer_class(&ans) }));
    out.line(&format!("C lift {} {}", ctx.name(), w), &ans);
    out.line(&format!("J liftsem {} {} {}", ctx.name(), w, ans), "ok");
    if !ans.starts_with("ERR:") && ans != "PANIC" {
        out.line(&format!("J nf lift:{}:{} {}", ctx.name(), w, ans), "ok");
    }
    true
}

/* ------------------------------------------------------------------ corpus */

fn bx(n: Node) -> Box<Node> { Box::new(n) }

fn corpus(ctx: CtxK, thorough: bool) -> Vec<Node> {
    use Node::*;
    let k = |i: u32| if ctx == CtxK::Tap { 200 + i } else { i };
    let pk = |i: u32| Check(bx(PkK(k(i))));
    let pkh = |i: u32| Check(bx(PkH(k(i))));
    let apk = |i: u32| Alt(bx(pk(i)));
    let spk = |i: u32| Swap(bx(pk(i)));
    let v = |n: Node| Verify(bx(n));
    let multi = |kk: usize, ks: Vec<u32>| {
        let ks: Vec<u32> = ks.into_iter().map(k).collect();
        if ctx == CtxK::Tap { MultiA(kk, ks) } else { Multi(kk, ks) }
    };
    let smulti = |kk: usize, ks: Vec<u32>| {
        let ks: Vec<u32> = ks.into_iter().map(k).collect();
        if ctx == CtxK::Tap { SortedMultiA(kk, ks) } else { SortedMulti(kk, ks) }
    };
    let sha = Hash(HK::Sha256, 0);
    let h160 = Hash(HK::Hash160, 1);
    let mut c = vec![
        // andor: the three arms must not be permuted
        AndOr(bx(pk(0)), bx(pk(1)), bx(pk(2))),
        AndOr(bx(pk(0)), bx(Older(10)), bx(pk(1))),
        AndOr(bx(pk(0)), bx(pk(1)), bx(Older(10))),
        AndOr(bx(pk(0)), bx(sha.clone()), bx(After(100))),
        AndOr(bx(sha.clone()), bx(pk(0)), bx(pk(1))),
        AndOr(bx(pk(0)), bx(pk(1)), bx(False)),
        AndOr(bx(pk(0)), bx(False), bx(pk(1))),
        AndOr(bx(pk(0)), bx(True), bx(pk(1))),
        AndOr(bx(multi(2, vec![0, 1])), bx(Older(10)), bx(AndV(bx(v(pk(2))), bx(After(100))))),
        // or family (all lift to a 1-of-2), and family (2-of-2)
        OrB(bx(pk(0)), bx(apk(1))), OrD(bx(pk(0)), bx(pk(1))), OrI(bx(pk(0)), bx(pk(1))),
        AndV(bx(OrC(bx(pk(0)), bx(v(pk(1))))), bx(pk(2))),
        AndV(bx(OrC(bx(pk(0)), bx(v(Older(10))))), bx(True)),
        AndB(bx(pk(0)), bx(apk(1))), AndV(bx(v(pk(0))), bx(pk(1))),
        OrD(bx(pk(0)), bx(AndV(bx(v(pk(1))), bx(Older(10))))),
        OrD(bx(multi(1, vec![0, 1])), bx(AndV(bx(v(pkh(2))), bx(After(500_000_001))))),
        // constants
        OrI(bx(False), bx(pk(0))), OrI(bx(pk(0)), bx(False)), OrI(bx(False), bx(False)),
        OrI(bx(True), bx(pk(0))), OrI(bx(False), bx(True)),
        AndV(bx(v(pk(0))), bx(True)), AndV(bx(v(pk(0))), bx(False)),
        AndV(bx(v(sha.clone())), bx(True)),
        OrD(bx(False), bx(pk(0))), OrB(bx(False), bx(apk(0))), OrB(bx(pk(0)), bx(Alt(bx(False)))),
        AndB(bx(pk(0)), bx(Alt(bx(False)))), AndB(bx(True), bx(apk(0))),
        True, False,
        // thresholds: every k, constants among the children, nesting
        Thresh(1, vec![pk(0), apk(1)]), Thresh(2, vec![pk(0), apk(1)]),
        Thresh(1, vec![pk(0), apk(1), apk(2)]), Thresh(2, vec![pk(0), apk(1), apk(2)]), Thresh(3, vec![pk(0), apk(1), apk(2)]),
        Thresh(2, vec![pk(0), spk(1), Alt(bx(sha.clone()))]),
        Thresh(1, vec![pk(0), Alt(bx(False))]), Thresh(2, vec![pk(0), Alt(bx(False))]),
        Thresh(1, vec![False, apk(0)]), Thresh(2, vec![False, apk(0), apk(1)]), Thresh(3, vec![False, apk(0), apk(1)]),
        Thresh(1, vec![False, Alt(bx(False))]),
        Thresh(1, vec![pk(0)]), Thresh(1, vec![False]),
        Thresh(2, vec![Thresh(1, vec![pk(0), apk(1)]), apk(2), Alt(bx(Thresh(2, vec![pk(0), Alt(bx(False))])))]),
        Thresh(2, vec![Thresh(2, vec![pk(0), apk(1)]), Alt(bx(Thresh(1, vec![pk(2), apk(3)]))), Alt(bx(h160.clone()))]),
        Thresh(1, vec![OrI(bx(False), bx(pk(0))), Alt(bx(OrI(bx(pk(1)), bx(False))))]),
        Thresh(2, vec![multi(1, vec![0, 1]), Alt(bx(multi(2, vec![2, 3]))), apk(0)]),
        Thresh(2, vec![pk(0), Alt(bx(DupIf(bx(v(Older(10))))))]),
        Thresh(2, vec![pk(0), Alt(bx(DupIf(bx(v(Older(10)))))), Alt(bx(DupIf(bx(v(After(100))))))]),
        // multi: k and key order
        multi(1, vec![0]), multi(1, vec![0, 1, 2]), multi(2, vec![0, 1, 2]), multi(3, vec![0, 1, 2]),
        smulti(2, vec![2, 0, 1]), smulti(1, vec![1, 0]),
        // repeated keys
        AndV(bx(v(pk(0))), bx(pk(0))), OrB(bx(pk(0)), bx(apk(0))), multi(2, vec![0, 0]), multi(2, vec![0, 0, 1]),
        Thresh(2, vec![pk(0), apk(0), apk(1)]), AndOr(bx(pk(0)), bx(pk(0)), bx(pk(1))),
        OrD(bx(pk(0)), bx(AndV(bx(v(pk(0))), bx(pk(1))))),
        // wrappers
        NonZero(bx(pk(0))), ZeroNotEqual(bx(pk(0))), DupIf(bx(v(pk(0)))), AndV(bx(v(NonZero(bx(multi(1, vec![0]))))), bx(True)),
        OrD(bx(NonZero(bx(pk(0)))), bx(pk(1))), OrB(bx(NonZero(bx(pk(0)))), bx(apk(1))),
        OrD(bx(DupIf(bx(v(Older(10))))), bx(pk(0))),
        // locks: same unit (liftable), both units in OR position (liftable), in AND position (refused)
        AndV(bx(v(Older(1))), bx(Older(10))), AndV(bx(v(After(100))), bx(After(101))),
        OrI(bx(Older(1)), bx(Older(4_194_305))), OrI(bx(After(100)), bx(After(500_000_001))),
        AndOr(bx(pk(0)), bx(Older(1)), bx(Older(4_194_305))),
        AndV(bx(v(Older(1))), bx(Older(4_194_305))), AndV(bx(v(After(100))), bx(After(500_000_001))),
        AndB(bx(Older(10)), bx(Alt(bx(Older(4_194_305))))),
        AndV(bx(v(Older(10))), bx(After(500_000_001))), AndV(bx(v(Older(4_194_305))), bx(After(100))),
        OrD(bx(pk(0)), bx(AndV(bx(v(Older(1))), bx(Older(4_194_305))))),
        AndV(bx(v(OrI(bx(Older(1)), bx(Older(4_194_305))))), bx(Older(2))),
        Thresh(2, vec![pk(0), Alt(bx(DupIf(bx(v(Older(10)))))), Alt(bx(DupIf(bx(v(Older(4_194_305))))))]),
        Thresh(1, vec![pk(0), Alt(bx(DupIf(bx(v(Older(10)))))), Alt(bx(DupIf(bx(v(Older(4_194_305))))))]),
        AndV(bx(v(Older(65_536 + 5))), bx(pk(0))), AndV(bx(v(Older(65_535))), bx(pk(0))),
        AndV(bx(v(After(499_999_999))), bx(pk(0))), AndV(bx(v(After(500_000_000))), bx(pk(0))),
        AndV(bx(v(After(1))), bx(pk(0))), AndV(bx(v(After(2_147_483_647))), bx(pk(0))),
        // raw key hashes
        Check(bx(RawPkH(k(0)))), OrD(bx(pk(0)), bx(Check(bx(RawPkH(k(1)))))),
        AndV(bx(v(Check(bx(RawPkH(k(0)))))), bx(pk(1))),
        Thresh(1, vec![pk(0), Alt(bx(Check(bx(RawPkH(k(1))))))]),
        AndV(bx(v(Check(bx(RawPkH(k(0)))))), bx(AndV(bx(v(Older(1))), bx(Older(4_194_305))))),
        // hashes, all four kinds
        AndV(bx(v(pk(0))), bx(Hash(HK::Sha256, 0))), AndV(bx(v(pk(0))), bx(Hash(HK::Hash256, 1))),
        AndV(bx(v(pk(0))), bx(Hash(HK::Ripemd160, 2))), AndV(bx(v(pk(0))), bx(Hash(HK::Hash160, 3))),
        OrD(bx(Hash(HK::Sha256, 0)), bx(Hash(HK::Sha256, 1))),
        Thresh(2, vec![Hash(HK::Sha256, 0), Alt(bx(Hash(HK::Hash256, 0))), Alt(bx(Hash(HK::Ripemd160, 0)))]),
    ];
    if matches!(ctx, CtxK::Bare | CtxK::Legacy) {
        c.push(Check(bx(PkK(100))));
        c.push(OrD(bx(Check(bx(PkK(100)))), bx(Check(bx(PkH(101))))));
        c.push(Multi(1, vec![100, 0]));
    }
    // resource-limit boundaries: wide thresholds (ops, scriptSig size, stack items)
    let wide = |n: usize, kk: usize| {
        let mut xs = vec![pk(0)];
        for i in 1..n { xs.push(apk((i % 4) as u32)); }
        Thresh(kk, xs)
    };
    let ns: Vec<usize> = if thorough { (18..=30).chain(45..=55).chain(64..=70).chain([99, 100, 101]).collect() }
        else { vec![20, 22, 23, 24, 49, 50, 51, 66, 67, 68] };
    for n in ns { c.push(wide(n, n)); c.push(wide(n, 1)); c.push(wide(n, n / 2)); }
    // Tap: max_witness_stack_count + max_exec_stack_count > 1000
    if ctx == CtxK::Tap {
        let ns: Vec<usize> = if thorough { (990..=1003).collect() } else { vec![997, 998, 999, 1000] };
        for n in ns { c.push(wide(n, 2)); c.push(wide(n, n)); }
    }
    // Legacy: scriptSig > 1650 bytes with a redeem script <= 520 bytes needs pk_h children
    let wide_h = |n: usize, kk: usize| {
        let mut xs = vec![pkh(0)];
        for i in 1..n { xs.push(Alt(bx(pkh((i % 4) as u32)))); }
        Thresh(kk, xs)
    };
    for n in 10..=20 { c.push(wide_h(n, n)); c.push(wide_h(n, 1)); c.push(wide_h(n, n - 1)); }
    // Segwitv0: more than 100 witness items within 201 ops needs wide multis
    if ctx != CtxK::Tap {
        let m20 = |kk: usize| Multi(kk, (0..20).map(|i| (i % 4) as u32).collect());
        for last in [1usize, 13, 14, 15, 16, 20] {
            let mut n = m20(20);
            for _ in 0..3 { n = AndB(bx(n), bx(Alt(bx(m20(20))))); }
            c.push(AndB(bx(n), bx(Alt(bx(m20(last))))));
        }
    }
    c
}

/* ------------------------------------------------------------------ descriptors */

#[derive(Clone, Debug)]
enum Shape { Leaf, Node(Box<Shape>, Box<Shape>) }

fn rand_shape(rng: &mut Rng, n: usize) -> Shape {
    if n == 1 { return Shape::Leaf; }
    let l = 1 + rng.below(n - 1);
    Shape::Node(Box::new(rand_shape(rng, l)), Box::new(rand_shape(rng, n - l)))
}

fn build_tree(s: &Shape, leaves: &[Miniscript<XOnlyPublicKey, Tap>], next: &mut usize) -> Option<TapTree<XOnlyPublicKey>> {
    match s {
        Shape::Leaf => { let t = TapTree::leaf(leaves[*next].clone()); *next += 1; Some(t) }
        Shape::Node(l, r) => {
            let lt = build_tree(l, leaves, next)?;
            let rt = build_tree(r, leaves, next)?;
            TapTree::combine(lt, rt).ok()
        }
    }
}

fn desc_lines<Pk: HKey>(out: &mut Out, kind: &str, args: &str, d: Result<Descriptor<Pk>, miniscript::Error>) {
    let d = match d { Ok(d) => d, Err(_) => { out.count(&format!("skipped descriptor-constructor-refused {}", kind)); return } };
    let ans = lift_answer(catch_unwind(AssertUnwindSafe(|| d.lift())));
    out.count(&format!("liftdesc {} {}", kind, if ans.starts_with("ERR:") { ans.as_str() } else { answer_class(&ans) }));
    out.line(&format!("C liftdesc {} {}", kind, args), &ans);
    out.line(&format!("J liftdesc-sem {} {} {}", kind, args, ans), "ok");
}

fn descriptors(out: &mut Out, thorough: bool, rng: &mut Rng, pools: &[(CtxK, Vec<Node>)]) {
    let pool = |c: CtxK| -> &Vec<Node> { &pools.iter().find(|(x, _)| *x == c).unwrap().1 };
    // single-key outputs
    for k in [0u32, 1, 2, 100] {
        desc_lines(out, "pkh", &k.to_string(), Descriptor::<PublicKey>::new_pkh(ast::full_key(k)));
        desc_lines(out, "wpkh", &k.to_string(), Descriptor::<PublicKey>::new_wpkh(ast::full_key(k)));
        desc_lines(out, "shwpkh", &k.to_string(), Descriptor::<PublicKey>::new_sh_wpkh(ast::full_key(k)));
        desc_lines(out, "bare", &format!("c(pk_k({}))", k), Ok(Descriptor::<PublicKey>::new_pk(ast::full_key(k))));
    }
    // script outputs
    let take = if thorough { 400 } else { 120 };
    let pick = |rng: &mut Rng, v: &Vec<Node>, n: usize| -> Vec<Node> {
        if v.len() <= n { v.clone() } else { (0..n).map(|_| v[rng.below(v.len())].clone()).collect() }
    };
    for n in pick(rng, pool(CtxK::Segwitv0), take) {
        if let Ok(ms) = ast::to_ms::<PublicKey, Segwitv0>(&n) {
            desc_lines(out, "wsh", &n.wire(), Descriptor::new_wsh(ms.clone()));
            desc_lines(out, "shwsh", &n.wire(), Descriptor::new_sh_wsh(ms));
        }
    }
    for n in pick(rng, pool(CtxK::Legacy), take) {
        if let Ok(ms) = ast::to_ms::<PublicKey, Legacy>(&n) { desc_lines(out, "sh", &n.wire(), Descriptor::new_sh(ms)); }
    }
    for n in pool(CtxK::Bare).iter() {
        if let Ok(ms) = ast::to_ms::<PublicKey, BareCtx>(n) { desc_lines(out, "bare", &n.wire(), Descriptor::new_bare(ms)); }
    }
    // taproot: no tree, then 1..4 (6) leaves in random shapes
    for k in [200u32, 201] {
        desc_lines(out, "tr", &k.to_string(), Descriptor::<XOnlyPublicKey>::new_tr(ast::xonly_key(k), None));
    }
    let tp = pool(CtxK::Tap);
    // leaves that are easy to get wrong at the tree level: constants, refused leaves, the
    // internal key repeated in a leaf
    use Node::*;
    let special = vec![
        False, True, Check(bx(PkK(200))), Check(bx(PkK(209))),
        AndV(bx(Verify(bx(Older(1)))), bx(Older(4_194_305))),
        Check(bx(RawPkH(200))),
        OrI(bx(False), bx(Check(bx(PkK(201))))),
        MultiA(2, vec![200, 201, 202]),
        AndV(bx(Verify(bx(Check(bx(PkK(201)))))), bx(False)),
    ];
    let max_leaves = if thorough { 6 } else { 4 };
    let rounds = if thorough { 8000 } else { 600 };
    for r in 0..rounds {
        let n = 1 + (r % max_leaves);
        let mut nodes = vec![];
        let mut mss = vec![];
        while nodes.len() < n {
            let cand = if rng.below(4) == 0 { special[rng.below(special.len())].clone() } else { tp[rng.below(tp.len())].clone() };
            if cand.size() > 14 { continue; }
            if let Ok(ms) = ast::to_ms::<XOnlyPublicKey, Tap>(&cand) { nodes.push(cand); mss.push(ms); }
        }
        let shape = rand_shape(rng, n);
        let tree = match build_tree(&shape, &mss, &mut 0) { Some(t) => t, None => continue };
        // internal key: sometimes one that also occurs in a leaf
        let ik = if rng.below(3) == 0 { 200 + rng.below(3) as u32 } else { 209 };
        let args = format!("{} {}", ik, nodes.iter().map(|x| x.wire()).collect::<Vec<_>>().join(" "));
        out.count(&format!("tr leaves={}", n));
        desc_lines(out, "tr", &args, Descriptor::<XOnlyPublicKey>::new_tr(ast::xonly_key(ik), Some(tree)));
    }
}

pub fn run(out: &mut Out, thorough: bool, seed: u64) {
    let hook = std::panic::take_hook();
    std::panic::set_hook(Box::new(|_| {}));
    let mut rng = Rng(seed ^ 0xC07);
    ast::emit_defs(out);
    msops::emit_sig_defs(out);
    let mut n_frag = 0u64;
    let mut pools: Vec<(CtxK, Vec<Node>)> = vec![];
    for ctx in CtxK::ALL {
        let atoms = ast::default_atoms(ctx, !thorough);
        let mut nodes: Vec<Node> = ast::enumerate(ctx, &atoms, if thorough { 4 } else { 3 }, if thorough { 160 } else { 40 }, &mut rng)
            .into_iter().filter(|t| t.base == Base::B).map(|t| t.node).collect();
        // richer alphabet (both lock units, two hashes, three keys) at depth 2
        if !thorough {
            let atoms2 = ast::default_atoms(ctx, false);
            nodes.extend(ast::enumerate(ctx, &atoms2, 3, 15, &mut rng).into_iter().filter(|t| t.base == Base::B).map(|t| t.node));
        }
        for _ in 0..(if thorough { 2000 } else { 150 }) {
            let sz = 10 + rng.below(30);
            if let Some(n) = ast::random_b(ctx, &mut rng, sz) { nodes.push(n); }
        }
        nodes.sort(); nodes.dedup();
        let enumerated = nodes.len();
        let corp = corpus(ctx, thorough);
        let n_corp = corp.len();
        nodes.extend(corp);
        nodes.sort(); nodes.dedup();
        out.note(&format!("fragments_{}", ctx.name()), format!("{} distinct ({} enumerated+random, {} corpus entries)", nodes.len(), enumerated, n_corp));
        let mut accepted = vec![];
        for node in nodes {
            if with_ctx!(ctx, one_ms(out, ctx, &node)) {
                n_frag += 1;
                node.count_frags(out);
                if node.size() <= 40 { accepted.push(node); }
            }
        }
        pools.push((ctx, accepted));
    }
    descriptors(out, thorough, &mut rng, &pools);
    out.note("distinct_nontrivial", n_frag.to_string());
    out.note("domain", "B-typed fragments of every context (enumerated depth 3/4 + richer alphabet depth 2, random to ~60 nodes, corpus: andor arms, constants in or_i/and_v/thresh, nested thresholds every k, repeated keys, sorted/unsorted multi, both lock units in AND and OR position, raw pkh, resource-limit boundaries) and descriptors (pkh, wpkh, sh(wpkh), bare, wsh, sh, sh(wsh), tr with 0-4(6) leaves in random tree shapes incl. constant/refused leaves and a repeated internal key); judged over all subsets of <=5 keys and <=3 preimages x (nLockTime,nSequence) on both sides of every lock".into());
    std::panic::set_hook(hook);
}

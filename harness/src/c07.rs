//! C07: the lifted policy is exactly the script's spending condition.
//!
//! For every fragment / descriptor the library's `lift()` runs under `catch_unwind`; its answer
//! (policy in C18's wire format, or `ERR:<kind>`, or `PANIC`) is
//!   * compared with the Lean model's `lift` (`C lift`, `C liftdesc`), and
//!   * judged by the specification (`J liftsem`, `J liftdesc-sem`): the Lean driver parses the
//!     library's policy and compares `holds W policy`, over every world relevant to the script
//!     (all subsets of its keys and preimages x (nLockTime, nSequence) on both sides of every
//!     lock), with "a canonical satisfaction exists from W's assets" (`Spec/SatTable.lean`),
//!     executing the table's witness with the Script semantics wherever one exists.
//!   * `J nf`: a lifted miniscript is in C18's normal form.
//!   * `J liftrefusal`: refusals are what the lifter documents (raw key hashes are refused, a
//!     timelock refusal needs a path mixing units, no policy for a satisfiable mixed path).
//!   * `C lifttree` / `J lifttree-sem`: `TapTree::lift` called directly; `trdirect`: `Tr::lift`.
//!   * `J liftcompile`: `lift(compile(p))` has the truth table of `p` (every compile target).
use std::panic::{catch_unwind, AssertUnwindSafe};

use miniscript::bitcoin::secp256k1::XOnlyPublicKey;
use miniscript::bitcoin::PublicKey;
use miniscript::descriptor::{TapTree, Tr};
use miniscript::policy::concrete::DescriptorCtx;
use miniscript::miniscript::types::Base;
use miniscript::policy::{LiftError, Liftable, Semantic};
use miniscript::{BareCtx, Descriptor, Legacy, Miniscript, ScriptContext, Segwitv0, Tap};

use crate::ast::{self, CtxK, Node, HK};
use crate::c18::{self, A, CA};
use crate::common::{Out, Rng};
use crate::msops::{self, HKey};
use crate::with_ctx;

/// canonical wire form (C18's) of a lifted policy over real keys / hashes
pub fn sem_wire<Pk: HKey>(p: &Semantic<Pk>) -> String {
    let kid = |k: &Pk| k.id().map(|i| i.to_string()).unwrap_or("?".into());
    let hid = |kind: HK, v: &[u8]| msops::hash_id(kind, v).map(|i| i.to_string()).unwrap_or("?".into());
    use miniscript::bitcoin::hashes::Hash;
    match p {
        Semantic::Unsatisfiable => "UNSATISFIABLE".into(),
        Semantic::Trivial => "TRIVIAL".into(),
        Semantic::Key(k) => format!("pk({})", kid(k)),
        Semantic::After(t) => format!("after({})", t.to_consensus_u32()),
        Semantic::Older(t) => format!("older({})", t.to_consensus_u32()),
        Semantic::Sha256(h) => format!("sha256({})", hid(HK::Sha256, h.as_byte_array())),
        Semantic::Hash256(h) => format!("hash256({})", hid(HK::Hash256, h.as_byte_array())),
        Semantic::Ripemd160(h) => format!("ripemd160({})", hid(HK::Ripemd160, h.as_byte_array())),
        Semantic::Hash160(h) => format!("hash160({})", hid(HK::Hash160, h.as_byte_array())),
        Semantic::Thresh(t) => {
            let mut s = format!("thresh({}", t.k());
            for x in t.iter() {
                s.push(',');
                s.push_str(&sem_wire(x));
            }
            s.push(')');
            s
        }
    }
}

fn lift_answer<Pk: HKey>(r: std::thread::Result<Result<Semantic<Pk>, miniscript::Error>>) -> String {
    match r {
        Err(_) => "PANIC".into(),
        Ok(Ok(p)) => sem_wire(&p),
        Ok(Err(miniscript::Error::LiftError(LiftError::HeightTimelockCombination))) => "ERR:timelock".into(),
        Ok(Err(miniscript::Error::LiftError(LiftError::BranchExceedResourceLimits))) => "ERR:limits".into(),
        Ok(Err(miniscript::Error::LiftError(LiftError::RawDescriptorLift))) => "ERR:rawpkh".into(),
        Ok(Err(_)) => "ERR:other".into(),
    }
}

fn answer_class(a: &str) -> &'static str {
    if a == "PANIC" { "panic" } else if a.starts_with("ERR:") { "refused" }
    else if a == "UNSATISFIABLE" || a == "TRIVIAL" { "constant" } else { "policy" }
}

fn one_ms<Pk: HKey, Ctx: ScriptContext>(out: &mut Out, ctx: CtxK, node: &Node, states: bool) -> bool {
    let ms: Miniscript<Pk, Ctx> = match ast::to_ms(node) { Ok(m) => m, Err(_) => { out.count("skipped not-accepted-by-from_ast"); return false } };
    let w = node.wire();
    let r = catch_unwind(AssertUnwindSafe(|| ms.lift()));
    let lifted: Option<Semantic<Pk>> = match &r { Ok(Ok(p)) => Some(p.clone()), _ => None };
    let ans = lift_answer(r);
    out.count(&format!("lift {} {}", ctx.name(), if ans.starts_with("ERR:") { ans.as_str() } else { answer_class(&ans) }));
    out.line(&format!("C lift {} {}", ctx.name(), w), &ans);
    out.line(&format!("J liftsem {} {} {}", ctx.name(), w, ans), "ok");
    out.line(&format!("J liftrefusal {} {} {}", ctx.name(), w, ans), "ok");
    if !ans.starts_with("ERR:") && ans != "PANIC" {
        out.line(&format!("J nf lift:{}:{} {}", ctx.name(), w, ans), "ok");
    }
    // states of the lifted policy: normalized again, restricted to an age / a lock time - each
    // must still say exactly when the script is spendable (in the worlds it was restricted to)
    if let (true, Some(p)) = (states, lifted) {
        let wire = |r: std::thread::Result<Semantic<Pk>>| match r { Ok(q) => sem_wire(&q), Err(_) => "PANIC".to_string() };
        let q = wire(catch_unwind(AssertUnwindSafe(|| p.clone().normalized())));
        out.line(&format!("J liftstate {} {} norm {}", ctx.name(), w, q), "ok");
        let (mut af, mut ol) = (vec![], vec![]);
        node.locks(&mut af, &mut ol);
        let mut ages: Vec<u32> = vec![];
        for n in &ol { let c = msops::rel_canon(*n); ages.push(c); if c & 0xffff >= 1 { ages.push(c - 1); } }
        // ... and the same values in the OTHER unit (bit 22 flipped), plus both units' extremes: the
        // library's lock types are only partially ordered, an age of the other unit never implies a lock
        let same: Vec<u32> = ages.clone();
        for c in same { ages.push(c ^ 0x0040_0000); ages.push((c ^ 0x0040_0000) | 0xffff); }
        ages.sort(); ages.dedup();
        for a in ages.into_iter().take(12) {
            if let Some(rl) = miniscript::bitcoin::Sequence::from_consensus(a).to_relative_lock_time() {
                let q = wire(catch_unwind(AssertUnwindSafe(|| p.clone().at_age(rl))));
                out.line(&format!("J liftstate {} {} age:{} {}", ctx.name(), w, a, q), "ok");
            }
        }
        let mut lts: Vec<u32> = vec![];
        for n in &af { lts.push(*n); if *n > 1 { lts.push(n - 1); } }
        // the other unit: a block height for a time lock and the reverse
        let same: Vec<u32> = lts.clone();
        for n in same { if n < 500_000_000 { lts.push(500_000_000 + n); lts.push(u32::MAX >> 1); } else { lts.push((n - 500_000_000).max(1)); lts.push(499_999_999); } }
        lts.sort(); lts.dedup();
        for n in lts.into_iter().take(12) {
            let lt = miniscript::bitcoin::absolute::LockTime::from_consensus(n);
            let q = wire(catch_unwind(AssertUnwindSafe(|| p.clone().at_lock_time(lt))));
            out.line(&format!("J liftstate {} {} lock:{} {}", ctx.name(), w, n, q), "ok");
        }
    }
    true
}

fn bx(n: Node) -> Box<Node> { Box::new(n) }

fn corpus(ctx: CtxK, thorough: bool) -> Vec<Node> {
    use Node::*;
    let k = |i: u32| if ctx == CtxK::Tap { 200 + i } else { i };
    let pk = |i: u32| Check(bx(PkK(k(i))));
    let pkh = |i: u32| Check(bx(PkH(k(i))));
    let apk = |i: u32| Alt(bx(pk(i)));
    let spk = |i: u32| Swap(bx(pk(i)));
    let v = |n: Node| Verify(bx(n));
    let multi = |kk: usize, ks: Vec<u32>| {
        let ks: Vec<u32> = ks.into_iter().map(k).collect();
        if ctx == CtxK::Tap { MultiA(kk, ks) } else { Multi(kk, ks) }
    };
    let smulti = |kk: usize, ks: Vec<u32>| {
        let ks: Vec<u32> = ks.into_iter().map(k).collect();
        if ctx == CtxK::Tap { SortedMultiA(kk, ks) } else { SortedMulti(kk, ks) }
    };
    let sha = Hash(HK::Sha256, 0);
    let h160 = Hash(HK::Hash160, 1);
    let mut c = vec![
        // andor: the three arms must not be permuted
        AndOr(bx(pk(0)), bx(pk(1)), bx(pk(2))),
        AndOr(bx(pk(0)), bx(Older(10)), bx(pk(1))),
        AndOr(bx(pk(0)), bx(pk(1)), bx(Older(10))),
        AndOr(bx(pk(0)), bx(sha.clone()), bx(After(100))),
        AndOr(bx(sha.clone()), bx(pk(0)), bx(pk(1))),
        AndOr(bx(pk(0)), bx(pk(1)), bx(False)),
        AndOr(bx(pk(0)), bx(False), bx(pk(1))),
        AndOr(bx(pk(0)), bx(True), bx(pk(1))),
        AndOr(bx(multi(2, vec![0, 1])), bx(Older(10)), bx(AndV(bx(v(pk(2))), bx(After(100))))),
        // or family (all lift to a 1-of-2), and family (2-of-2)
        OrB(bx(pk(0)), bx(apk(1))), OrD(bx(pk(0)), bx(pk(1))), OrI(bx(pk(0)), bx(pk(1))),
        AndV(bx(OrC(bx(pk(0)), bx(v(pk(1))))), bx(pk(2))),
        AndV(bx(OrC(bx(pk(0)), bx(v(Older(10))))), bx(True)),
        AndB(bx(pk(0)), bx(apk(1))), AndV(bx(v(pk(0))), bx(pk(1))),
        OrD(bx(pk(0)), bx(AndV(bx(v(pk(1))), bx(Older(10))))),
        OrD(bx(multi(1, vec![0, 1])), bx(AndV(bx(v(pkh(2))), bx(After(500_000_001))))),
        // constants
        OrI(bx(False), bx(pk(0))), OrI(bx(pk(0)), bx(False)), OrI(bx(False), bx(False)),
        OrI(bx(True), bx(pk(0))), OrI(bx(False), bx(True)),
        AndV(bx(v(pk(0))), bx(True)), AndV(bx(v(pk(0))), bx(False)),
        AndV(bx(v(sha.clone())), bx(True)),
        OrD(bx(False), bx(pk(0))), OrB(bx(False), bx(apk(0))), OrB(bx(pk(0)), bx(Alt(bx(False)))),
        AndB(bx(pk(0)), bx(Alt(bx(False)))), AndB(bx(True), bx(apk(0))),
        True, False,
        // thresholds: every k, constants among the children, nesting
        Thresh(1, vec![pk(0), apk(1)]), Thresh(2, vec![pk(0), apk(1)]),
        Thresh(1, vec![pk(0), apk(1), apk(2)]), Thresh(2, vec![pk(0), apk(1), apk(2)]), Thresh(3, vec![pk(0), apk(1), apk(2)]),
        Thresh(2, vec![pk(0), spk(1), Alt(bx(sha.clone()))]),
        Thresh(1, vec![pk(0), Alt(bx(False))]), Thresh(2, vec![pk(0), Alt(bx(False))]),
        Thresh(1, vec![False, apk(0)]), Thresh(2, vec![False, apk(0), apk(1)]), Thresh(3, vec![False, apk(0), apk(1)]),
        Thresh(1, vec![False, Alt(bx(False))]),
        Thresh(1, vec![pk(0)]), Thresh(1, vec![False]),
        Thresh(2, vec![Thresh(1, vec![pk(0), apk(1)]), apk(2), Alt(bx(Thresh(2, vec![pk(0), Alt(bx(False))])))]),
        Thresh(2, vec![Thresh(2, vec![pk(0), apk(1)]), Alt(bx(Thresh(1, vec![pk(2), apk(3)]))), Alt(bx(h160.clone()))]),
        Thresh(1, vec![OrI(bx(False), bx(pk(0))), Alt(bx(OrI(bx(pk(1)), bx(False))))]),
        Thresh(2, vec![multi(1, vec![0, 1]), Alt(bx(multi(2, vec![2, 3]))), apk(0)]),
        Thresh(2, vec![pk(0), Alt(bx(DupIf(bx(v(Older(10))))))]),
        Thresh(2, vec![pk(0), Alt(bx(DupIf(bx(v(Older(10)))))), Alt(bx(DupIf(bx(v(After(100))))))]),
        // multi: k and key order
        multi(1, vec![0]), multi(1, vec![0, 1, 2]), multi(2, vec![0, 1, 2]), multi(3, vec![0, 1, 2]),
        smulti(2, vec![2, 0, 1]), smulti(1, vec![1, 0]),
        // repeated keys
        AndV(bx(v(pk(0))), bx(pk(0))), OrB(bx(pk(0)), bx(apk(0))), multi(2, vec![0, 0]), multi(2, vec![0, 0, 1]),
        Thresh(2, vec![pk(0), apk(0), apk(1)]), AndOr(bx(pk(0)), bx(pk(0)), bx(pk(1))),
        OrD(bx(pk(0)), bx(AndV(bx(v(pk(0))), bx(pk(1))))),
        // wrappers
        NonZero(bx(pk(0))), ZeroNotEqual(bx(pk(0))), DupIf(bx(v(pk(0)))), AndV(bx(v(NonZero(bx(multi(1, vec![0]))))), bx(True)),
        OrD(bx(NonZero(bx(pk(0)))), bx(pk(1))), OrB(bx(NonZero(bx(pk(0)))), bx(apk(1))),
        OrD(bx(DupIf(bx(v(Older(10))))), bx(pk(0))),
        // locks: same unit (liftable), both units in OR position (liftable), in AND position (refused)
        AndV(bx(v(Older(1))), bx(Older(10))), AndV(bx(v(After(100))), bx(After(101))),
        OrI(bx(Older(1)), bx(Older(4_194_305))), OrI(bx(After(100)), bx(After(500_000_001))),
        AndOr(bx(pk(0)), bx(Older(1)), bx(Older(4_194_305))),
        AndV(bx(v(Older(1))), bx(Older(4_194_305))), AndV(bx(v(After(100))), bx(After(500_000_001))),
        AndB(bx(Older(10)), bx(Alt(bx(Older(4_194_305))))),
        AndV(bx(v(Older(10))), bx(After(500_000_001))), AndV(bx(v(Older(4_194_305))), bx(After(100))),
        OrD(bx(pk(0)), bx(AndV(bx(v(Older(1))), bx(Older(4_194_305))))),
        AndV(bx(v(OrI(bx(Older(1)), bx(Older(4_194_305))))), bx(Older(2))),
        Thresh(2, vec![pk(0), Alt(bx(DupIf(bx(v(Older(10)))))), Alt(bx(DupIf(bx(v(Older(4_194_305))))))]),
        Thresh(1, vec![pk(0), Alt(bx(DupIf(bx(v(Older(10)))))), Alt(bx(DupIf(bx(v(Older(4_194_305))))))]),
        Thresh(2, vec![pk(0), Alt(bx(ZeroNotEqual(bx(DupIf(bx(v(Older(10))))))))]),
        Thresh(2, vec![pk(0), Alt(bx(ZeroNotEqual(bx(DupIf(bx(v(Older(10)))))))), Alt(bx(ZeroNotEqual(bx(DupIf(bx(v(After(100))))))))]),
        Thresh(2, vec![pk(0), Alt(bx(ZeroNotEqual(bx(DupIf(bx(v(Older(10)))))))), Alt(bx(ZeroNotEqual(bx(DupIf(bx(v(Older(4_194_305))))))))]),
        Thresh(1, vec![pk(0), Alt(bx(ZeroNotEqual(bx(DupIf(bx(v(Older(10)))))))), Alt(bx(ZeroNotEqual(bx(DupIf(bx(v(Older(4_194_305))))))))]),
        AndV(bx(v(Older(65_536 + 5))), bx(pk(0))), AndV(bx(v(Older(65_535))), bx(pk(0))),
        AndV(bx(v(After(499_999_999))), bx(pk(0))), AndV(bx(v(After(500_000_000))), bx(pk(0))),
        AndV(bx(v(After(1))), bx(pk(0))), AndV(bx(v(After(2_147_483_647))), bx(pk(0))),
        // raw key hashes
        Check(bx(RawPkH(k(0)))), OrD(bx(pk(0)), bx(Check(bx(RawPkH(k(1)))))),
        AndV(bx(v(Check(bx(RawPkH(k(0)))))), bx(pk(1))),
        Thresh(1, vec![pk(0), Alt(bx(Check(bx(RawPkH(k(1))))))]),
        AndV(bx(v(Check(bx(RawPkH(k(0)))))), bx(AndV(bx(v(Older(1))), bx(Older(4_194_305))))),
        // hashes, all four kinds
        AndV(bx(v(pk(0))), bx(Hash(HK::Sha256, 0))), AndV(bx(v(pk(0))), bx(Hash(HK::Hash256, 1))),
        AndV(bx(v(pk(0))), bx(Hash(HK::Ripemd160, 2))), AndV(bx(v(pk(0))), bx(Hash(HK::Hash160, 3))),
        OrD(bx(Hash(HK::Sha256, 0)), bx(Hash(HK::Sha256, 1))),
        Thresh(2, vec![Hash(HK::Sha256, 0), Alt(bx(Hash(HK::Hash256, 0))), Alt(bx(Hash(HK::Ripemd160, 0)))]),
    ];
    if matches!(ctx, CtxK::Bare | CtxK::Legacy) {
        c.push(Check(bx(PkK(100))));
        c.push(OrD(bx(Check(bx(PkK(100)))), bx(Check(bx(PkH(101))))));
        c.push(Multi(1, vec![100, 0]));
    }
    c.extend(late_constants(ctx));
    c.extend(atom_kinds(ctx, thorough));
    c.extend(repeated_children(ctx));
    c.extend(insane_but_typed(ctx));
    c.extend(sugar_towers(ctx));
    // resource-limit boundaries: wide thresholds (ops, scriptSig size, stack items)
    let wide = |n: usize, kk: usize| {
        let mut xs = vec![pk(0)];
        for i in 1..n { xs.push(apk((i % 4) as u32)); }
        Thresh(kk, xs)
    };
    let ns: Vec<usize> = if thorough { (18..=30).chain(45..=55).chain(64..=70).chain([99, 100, 101]).collect() }
        else { vec![20, 22, 23, 24, 49, 50, 51, 66, 67, 68] };
    for n in ns { c.push(wide(n, n)); c.push(wide(n, 1)); c.push(wide(n, n / 2)); }
    // Tap: max_witness_stack_count + max_exec_stack_count > 1000
    if ctx == CtxK::Tap {
        let ns: Vec<usize> = if thorough { (990..=1003).collect() } else { vec![997, 998, 999, 1000] };
        for n in ns { c.push(wide(n, 2)); c.push(wide(n, n)); }
    }
    // Legacy: scriptSig > 1650 bytes with a redeem script <= 520 bytes needs pk_h children
    let wide_h = |n: usize, kk: usize| {
        let mut xs = vec![pkh(0)];
        for i in 1..n { xs.push(Alt(bx(pkh((i % 4) as u32)))); }
        Thresh(kk, xs)
    };
    for n in 10..=20 { c.push(wide_h(n, n)); c.push(wide_h(n, 1)); c.push(wide_h(n, n - 1)); }
    // exactly 201 / 202 executed opcodes: wide(50, k) has 198, every n: adds one (0NOTEQUAL)
    let nz = |mut x: Node, times: usize| { for _ in 0..times { x = ZeroNotEqual(bx(x)); } x };
    for kk in [1usize, 25, 50] {
        for times in 2..=4 { c.push(nz(wide(50, kk), times)); }
        c.push(nz(wide(49, kk.min(49)), 7)); c.push(nz(wide(49, kk.min(49)), 8));   // 194 + 7 / + 8
    }
    // uncompressed keys at the Legacy / Bare satisfaction-size boundary (32 bytes more per key,
    // in the script and in the scriptSig)
    if matches!(ctx, CtxK::Bare | CtxK::Legacy) {
        let wide_hu = |n: usize, kk: usize, unc_every: usize| {
            let key = |i: usize| if i % unc_every == 0 { 100 + (i % 4) as u32 } else { (i % 4) as u32 };
            let mut xs = vec![Check(bx(PkH(key(0))))];
            for i in 1..n { xs.push(Alt(bx(Check(bx(PkH(key(i))))))); }
            Thresh(kk, xs)
        };
        for n in 8..=16 {
            for every in [1usize, 2, 3] { c.push(wide_hu(n, n, every)); c.push(wide_hu(n, 1, every)); c.push(wide_hu(n, n - 1, every)); }
        }
        // pk_k children: the key is in the script (65 bytes), the scriptSig holds only the signature
        for n in [5usize, 6, 7] {
            let mut xs = vec![Check(bx(PkK(100)))];
            for i in 1..n { xs.push(Alt(bx(Check(bx(PkK(100 + (i % 4) as u32)))))); }
            c.push(Thresh(n, xs.clone())); c.push(Thresh(1, xs));
        }
    }
    if ctx == CtxK::Legacy { c.extend(legacy_scriptsig_boundary()); }
    // Segwitv0: more than 100 witness items within 201 ops needs wide multis
    if ctx != CtxK::Tap {
        let m20 = |kk: usize| Multi(kk, (0..20).map(|i| (i % 4) as u32).collect());
        for last in [1usize, 13, 14, 15, 16, 20] {
            let mut n = m20(20);
            for _ in 0..3 { n = AndB(bx(n), bx(Alt(bx(m20(20))))); }
            c.push(AndB(bx(n), bx(Alt(bx(m20(last))))));
        }
    }
    c
}

/// Fragments that become TRIVIAL / UNSATISFIABLE only once THEY are normalised (`l:1`, `u:1`,
/// `l:0`, `and_v(v:1,1)`, `n:` over them, nested), in every child position of every combinator,
/// thresholds with every k.  (`normalized` must count constant children AFTER normalising them.)
fn late_constants(ctx: CtxK) -> Vec<Node> {
    use Node::*;
    let k = |i: u32| if ctx == CtxK::Tap { 200 + i } else { i };
    let pk = |i: u32| Check(bx(PkK(k(i))));
    let v = |n: Node| Verify(bx(n));
    let l1 = OrI(bx(False), bx(True));           // l:1
    let u1 = OrI(bx(True), bx(False));           // u:1
    let l0 = OrI(bx(False), bx(False));          // l:0
    let tt = AndV(bx(v(True)), bx(True));        // and_v(v:1,1)
    let consts: Vec<Node> = vec![
        l1.clone(), u1.clone(), l0.clone(), tt.clone(),
        ZeroNotEqual(bx(l1.clone())), ZeroNotEqual(bx(u1.clone())), ZeroNotEqual(bx(l0.clone())),
        OrI(bx(False), bx(l1.clone())), OrI(bx(l0.clone()), bx(u1.clone())), OrI(bx(False), bx(tt.clone())),
        AndV(bx(v(l1.clone())), bx(True)), AndV(bx(v(True)), bx(l0.clone())),
        OrD(bx(l0.clone()), bx(True)), OrD(bx(l1.clone()), bx(False)),
        Thresh(1, vec![l1.clone()]), Thresh(1, vec![l0.clone(), Alt(bx(u1.clone()))]), Thresh(2, vec![l1.clone(), Alt(bx(u1.clone()))]),
        NonZero(bx(pk(3))),  // a non-constant control with the same wrappers
    ];
    let mut out = vec![];
    for c in &consts {
        let a = |n: &Node| Alt(bx(n.clone()));
        out.push(c.clone());
        // and / or family, both positions
        out.push(AndB(bx(c.clone()), bx(a(&pk(0))))); out.push(AndB(bx(pk(0)), bx(a(c))));
        out.push(AndV(bx(v(c.clone())), bx(pk(0)))); out.push(AndV(bx(v(pk(0))), bx(c.clone())));
        out.push(OrB(bx(c.clone()), bx(a(&pk(0))))); out.push(OrB(bx(pk(0)), bx(a(c))));
        out.push(OrD(bx(c.clone()), bx(pk(0)))); out.push(OrD(bx(pk(0)), bx(c.clone())));
        out.push(OrI(bx(c.clone()), bx(pk(0)))); out.push(OrI(bx(pk(0)), bx(c.clone())));
        out.push(AndV(bx(OrC(bx(c.clone()), bx(v(pk(0))))), bx(True)));
        out.push(AndV(bx(OrC(bx(pk(0)), bx(v(c.clone())))), bx(pk(1))));
        // andor, the three positions
        out.push(AndOr(bx(c.clone()), bx(pk(0)), bx(pk(1))));
        out.push(AndOr(bx(pk(0)), bx(c.clone()), bx(pk(1))));
        out.push(AndOr(bx(pk(0)), bx(pk(1)), bx(c.clone())));
        // thresholds: every position, every k, 2 and 3 children; also two constants at once
        for n in 2..=3usize {
            for pos in 0..n {
                let mut xs = vec![];
                for i in 0..n {
                    let ch = if i == pos { c.clone() } else { pk(i as u32) };
                    xs.push(if i == 0 { ch } else { a(&ch) });
                }
                for kk in 1..=n { out.push(Thresh(kk, xs.clone())); }
            }
        }
        for c2 in [&l1, &l0, &u1] {
            for kk in 1..=3usize { out.push(Thresh(kk, vec![c.clone(), a(c2), a(&pk(0))])); }
            out.push(AndB(bx(c.clone()), bx(a(c2)))); out.push(OrB(bx(c.clone()), bx(a(c2))));
            out.push(AndOr(bx(c.clone()), bx(c2.clone()), bx(pk(0)))); out.push(AndOr(bx(pk(0)), bx(c.clone()), bx(c2.clone())));
        }
        // one level deeper: the constant appears only after two normalisation steps
        out.push(Thresh(2, vec![pk(0), a(&Thresh(1, vec![c.clone(), a(&pk(1))])), a(&pk(2))]));
        out.push(Thresh(1, vec![AndB(bx(c.clone()), bx(a(&l1))), a(&pk(1))]));
        out.push(AndB(bx(OrB(bx(c.clone()), bx(a(&l0)))), bx(a(&pk(0)))));
    }
    out
}

/// every hash kind, every multi flavour (order-distinguishing), locks of both units including
/// values with non-consensus bits, raw key hashes - each alone and under and / or / thresh
fn atom_kinds(ctx: CtxK, thorough: bool) -> Vec<Node> {
    use Node::*;
    let k = |i: u32| if ctx == CtxK::Tap { 200 + i } else { i };
    let pk = |i: u32| Check(bx(PkK(k(i))));
    let v = |n: Node| Verify(bx(n));
    let ks = |v: &[u32]| -> Vec<u32> { v.iter().map(|i| k(*i)).collect() };
    let mut atoms: Vec<Node> = vec![];
    for kind in HK::ALL { for h in 0..2 { atoms.push(Hash(kind, h)); } }
    if ctx == CtxK::Tap {
        for kk in 1..=3 { atoms.push(MultiA(kk, ks(&[2, 0, 1]))); atoms.push(SortedMultiA(kk, ks(&[2, 0, 1]))); atoms.push(SortedMultiA(kk, ks(&[1, 2, 0]))); }
        atoms.push(MultiA(1, ks(&[3]))); atoms.push(SortedMultiA(1, ks(&[3]))); atoms.push(SortedMultiA(2, ks(&[1, 1, 0])));
    } else {
        for kk in 1..=3 { atoms.push(Multi(kk, ks(&[2, 0, 1]))); atoms.push(SortedMulti(kk, ks(&[2, 0, 1]))); atoms.push(SortedMulti(kk, ks(&[1, 2, 0]))); }
        atoms.push(Multi(1, ks(&[3]))); atoms.push(SortedMulti(1, ks(&[3]))); atoms.push(SortedMulti(2, ks(&[1, 1, 0])));
        if matches!(ctx, CtxK::Bare | CtxK::Legacy) { atoms.push(SortedMulti(1, vec![100, 0])); atoms.push(SortedMulti(2, vec![0, 100, 1])); }
    }
    atoms.push(Check(bx(RawPkH(k(0))))); atoms.push(Check(bx(RawPkH(k(1)))));
    let locks: Vec<Node> = vec![
        // height / blocks
        After(1), After(100), After(499_999_999), Older(1), Older(10), Older(65_535),
        // time
        After(500_000_000), After(500_000_001), After(2_147_483_647), Older(4_194_305), Older(4_194_304 + 65_535),
        // non-consensus bits: 16..21 and 23..30 of an older() value; value bits zero
        Older(65_536 + 5), Older((1 << 20) + 7), Older((1 << 30) + 3), Older(4_194_304 + (1 << 16) + 9), Older(4_194_304 + (1 << 23) + 2),
        Older(65_536), Older(4_194_304),
    ];
    let mut out = vec![];
    for a in &atoms {
        out.push(a.clone());
        let al = Alt(bx(a.clone()));
        out.push(AndB(bx(pk(0)), bx(al.clone()))); out.push(OrB(bx(pk(0)), bx(al.clone())));
        out.push(AndV(bx(v(a.clone())), bx(pk(0)))); out.push(OrD(bx(a.clone()), bx(pk(0)))); out.push(OrI(bx(a.clone()), bx(pk(0))));
        out.push(AndOr(bx(a.clone()), bx(pk(0)), bx(pk(1)))); out.push(AndOr(bx(pk(0)), bx(a.clone()), bx(pk(1))));
        for kk in 1..=3usize { out.push(Thresh(kk, vec![pk(0), al.clone(), Alt(bx(pk(1)))])); out.push(Thresh(kk, vec![a.clone(), Alt(bx(pk(0))), al.clone()])); }
    }
    let l3q: Vec<Node> = vec![Older(10), Older(65_535), Older(4_194_305), Older((1 << 20) + 7), After(100), After(500_000_001), After(1)];
    for l in &locks {
        out.push(l.clone());
        out.push(AndV(bx(v(pk(0))), bx(l.clone()))); out.push(AndV(bx(v(l.clone())), bx(pk(0))));
        out.push(OrI(bx(l.clone()), bx(pk(0)))); out.push(OrD(bx(pk(0)), bx(l.clone())));
        out.push(AndOr(bx(pk(0)), bx(l.clone()), bx(pk(1))));
        // `n:d:v:<lock>` is the B/d/u form a threshold accepts as a child (`d:v:` alone is not `u`)
        let dl = Alt(bx(ZeroNotEqual(bx(DupIf(bx(v(l.clone())))))));
        for kk in 1..=3usize { out.push(Thresh(kk, vec![pk(0), dl.clone(), Alt(bx(pk(1)))])); }
        // pairs of locks: AND (refused when the units of one kind differ) and OR (never refused)
        for l2 in &locks {
            out.push(AndV(bx(v(l.clone())), bx(l2.clone())));
            out.push(OrI(bx(l.clone()), bx(l2.clone())));
            if thorough || l3q.contains(l) && l3q.contains(l2) {
                out.push(Thresh(2, vec![pk(0), dl.clone(), Alt(bx(ZeroNotEqual(bx(DupIf(bx(v(l2.clone())))))))]));
            }
        }
    }
    // three lock children / k = n: `combine_threshold` must compare EVERY pair of children
    let l3: Vec<Node> = if thorough { vec![Older(10), Older(20), Older(4_194_305), Older(4_194_306), After(100), After(101), After(500_000_001)] }
        else { vec![Older(10), Older(20), Older(4_194_305), After(100), After(500_000_001)] };
    let dv = |l: &Node| ZeroNotEqual(bx(DupIf(bx(v(l.clone())))));
    for a in &l3 { for b2 in &l3 { for c3 in &l3 {
        for kk in (if thorough { 1..=3usize } else { 2..=3usize }) {
            out.push(Thresh(kk, vec![dv(a), Alt(bx(dv(b2))), Alt(bx(dv(c3)))]));
        }
        out.push(Thresh(4, vec![pk(0), Alt(bx(dv(a))), Alt(bx(dv(b2))), Alt(bx(dv(c3)))]));
        if thorough { out.push(Thresh(3, vec![pk(0), Alt(bx(dv(a))), Alt(bx(dv(b2))), Alt(bx(dv(c3)))])); }
    } } }
    for a in &l3 { for b2 in &l3 {
        for kk in [1usize, 3] { out.push(Thresh(kk, vec![pk(0), Alt(bx(dv(a))), Alt(bx(dv(b2)))])); }
    } }
    // a mixed path that exists only through a `0` (structural, not satisfiable)
    out.push(AndV(bx(v(Older(1))), bx(AndV(bx(v(Older(4_194_305))), bx(False)))));
    out.push(OrI(bx(pk(0)), bx(AndV(bx(v(Older(1))), bx(AndV(bx(v(Older(4_194_305))), bx(False)))))));
    out.push(AndOr(bx(pk(0)), bx(AndV(bx(v(After(100))), bx(After(500_000_001)))), bx(pk(1))));
    out.push(AndOr(bx(OrI(bx(False), bx(False))), bx(AndV(bx(v(After(100))), bx(After(500_000_001)))), bx(pk(1))));
    out
}

/// Thresholds (and and / or / andor) with REPEATED children - the same key, hash or lock several
/// times - at k = 1, 1 < k < n, k = n, including repeats that would leave fewer than k children if
/// somebody deduplicated them: `normalized()` must keep multiplicities.
fn repeated_children(ctx: CtxK) -> Vec<Node> {
    use Node::*;
    let k = |i: u32| if ctx == CtxK::Tap { 200 + i } else { i };
    let pk = |i: u32| Check(bx(PkK(k(i))));
    let v = |n: Node| Verify(bx(n));
    let lockch = |l: Node| ZeroNotEqual(bx(DupIf(bx(v(l)))));
    let m1 = if ctx == CtxK::Tap { MultiA(1, vec![k(0), k(1)]) } else { Multi(1, vec![k(0), k(1)]) };
    let atoms: Vec<Node> = vec![
        pk(0), Check(bx(PkH(k(0)))), Hash(HK::Sha256, 0), Hash(HK::Hash160, 1), Hash(HK::Ripemd160, 2), Hash(HK::Hash256, 3),
        lockch(Older(10)), lockch(After(100)), lockch(Older(4_194_305)), m1,
    ];
    let mut out = vec![];
    for a in &atoms {
        let w = Alt(bx(a.clone()));
        for n in 2..=4usize {
            // all children equal
            let mut xs = vec![a.clone()];
            for _ in 1..n { xs.push(w.clone()); }
            for kk in 1..=n { out.push(Thresh(kk, xs.clone())); }
            // one different child (a key) first / last: k above the number of DISTINCT children
            let mut ys = vec![pk(1)];
            for _ in 1..n { ys.push(w.clone()); }
            for kk in 1..=n { out.push(Thresh(kk, ys.clone())); }
            let mut zs = vec![a.clone()];
            for _ in 2..n { zs.push(w.clone()); }
            zs.push(Alt(bx(pk(1))));
            for kk in 1..=n { out.push(Thresh(kk, zs.clone())); }
        }
        // two different repeated children: a a b b
        for b in &atoms {
            if a == b { continue; }
            let xs = vec![a.clone(), w.clone(), Alt(bx(b.clone())), Alt(bx(b.clone()))];
            for kk in [1usize, 2, 3, 4] { out.push(Thresh(kk, xs.clone())); }
        }
        // nested: the repeat appears only after the inner threshold is flattened
        out.push(Thresh(2, vec![Thresh(1, vec![a.clone(), w.clone()]), Alt(bx(Thresh(1, vec![a.clone(), w.clone()]))), w.clone()]));
        out.push(Thresh(3, vec![Thresh(2, vec![a.clone(), w.clone()]), Alt(bx(Thresh(2, vec![a.clone(), w.clone()]))), w.clone()]));
        out.push(AndB(bx(a.clone()), bx(w.clone()))); out.push(OrB(bx(a.clone()), bx(w.clone())));
        out.push(AndB(bx(AndB(bx(a.clone()), bx(w.clone()))), bx(w.clone()))); out.push(OrB(bx(OrB(bx(a.clone()), bx(w.clone()))), bx(w.clone())));
        out.push(AndOr(bx(a.clone()), bx(a.clone()), bx(a.clone()))); out.push(OrD(bx(a.clone()), bx(a.clone()))); out.push(OrI(bx(a.clone()), bx(a.clone())));
        out.push(AndV(bx(v(a.clone())), bx(a.clone())));
    }
    out
}

/// Scripts that type-check (so `from_ast` builds them and `lift` answers) but that the sanity
/// rules refuse TODAY for exactly one reason each: one key twice in every pair of occurrence
/// kinds (pk / pkh / multisig member) and every two-path shape; a branch without a signature;
/// a malleable choice.  Liftable, hence judged here; the descriptor constructors refuse them
/// today - the day a rule lets one through it is judged there too.
fn insane_but_typed(ctx: CtxK) -> Vec<Node> {
    use Node::*;
    let k = |i: u32| if ctx == CtxK::Tap { 200 + i } else { i };
    let pk = |i: u32| Check(bx(PkK(k(i))));
    let v = |n: Node| Verify(bx(n));
    let sha = Hash(HK::Sha256, 0);
    let occ = |kind: usize, key: u32| -> Node {
        match kind {
            0 => pk(key),
            1 => Check(bx(PkH(k(key)))),
            _ => if ctx == CtxK::Tap { MultiA(1, vec![k(key)]) } else { Multi(1, vec![k(key)]) },
        }
    };
    let mut c = vec![];
    for kx in 0..3usize { for ky in 0..3usize {
        let (x, y) = (occ(kx, 0), occ(ky, 0));
        c.push(OrD(bx(x.clone()), bx(AndV(bx(v(y.clone())), bx(Older(10))))));
        c.push(OrD(bx(x.clone()), bx(AndV(bx(v(y.clone())), bx(sha.clone())))));
        c.push(AndOr(bx(x.clone()), bx(Older(10)), bx(y.clone())));
        c.push(AndOr(bx(x.clone()), bx(pk(1)), bx(y.clone())));
        c.push(OrB(bx(x.clone()), bx(Alt(bx(y.clone())))));
        c.push(AndB(bx(x.clone()), bx(Alt(bx(y.clone())))));
        c.push(Thresh(1, vec![x.clone(), Alt(bx(y.clone()))]));
        c.push(Thresh(2, vec![x.clone(), Alt(bx(y.clone())), Alt(bx(pk(1)))]));
        c.push(AndV(bx(v(pk(1))), bx(OrD(bx(x.clone()), bx(AndV(bx(v(y.clone())), bx(After(100))))))));
        c.push(OrI(bx(AndV(bx(v(y.clone())), bx(Older(10)))), bx(x.clone())));
        let m2 = if ctx == CtxK::Tap { MultiA(1, vec![k(1), k(0)]) } else { Multi(1, vec![k(1), k(0)]) };
        if kx == 0 { c.push(OrD(bx(y.clone()), bx(AndV(bx(v(m2)), bx(Older(10)))))); }
    } }
    // sigless branches / sigless scripts
    c.push(OrD(bx(pk(0)), bx(sha.clone()))); c.push(OrI(bx(pk(0)), bx(Older(10)))); c.push(OrB(bx(sha.clone()), bx(Alt(bx(pk(0))))));
    c.push(sha.clone()); c.push(AndV(bx(v(sha.clone())), bx(Older(10)))); c.push(Thresh(2, vec![sha.clone(), Alt(bx(pk(0))), Alt(bx(Hash(HK::Hash160, 1)))]));
    c.push(AndOr(bx(sha.clone()), bx(pk(0)), bx(Older(10))));
    // malleable choices
    c.push(OrI(bx(pk(0)), bx(pk(1)))); c.push(OrD(bx(sha.clone()), bx(pk(0)))); c.push(AndOr(bx(sha.clone()), bx(pk(0)), bx(pk(1))));
    c.push(OrB(bx(sha.clone()), bx(Alt(bx(Hash(HK::Sha256, 1))))));
    c
}

/// syntactic sugar and casts under combinators: `t:X` = and_v(X,1), `l:X` = or_i(0,X),
/// `u:X` = or_i(X,0), `and_n(X,Y)` = andor(X,Y,0), towers of them and wrappers over them, in
/// every position of and / or / andor / thresh
fn sugar_towers(ctx: CtxK) -> Vec<Node> {
    use Node::*;
    let k = |i: u32| if ctx == CtxK::Tap { 200 + i } else { i };
    let pk = |i: u32| Check(bx(PkK(k(i))));
    let v = |n: Node| Verify(bx(n));
    let t = |x: Node| AndV(bx(x), bx(True));
    let l = |x: Node| OrI(bx(False), bx(x));
    let u = |x: Node| OrI(bx(x), bx(False));
    let and_n = |x: Node, y: Node| AndOr(bx(x), bx(y), bx(False));
    let m1 = if ctx == CtxK::Tap { MultiA(2, vec![k(2), k(3)]) } else { Multi(2, vec![k(2), k(3)]) };
    let base: Vec<Node> = vec![pk(0), Hash(HK::Sha256, 0), Older(10), After(100), m1];
    let mut casts: Vec<Node> = vec![];
    for x in &base {
        casts.push(t(v(x.clone()))); casts.push(l(x.clone())); casts.push(u(x.clone()));
        casts.push(l(u(x.clone()))); casts.push(u(l(x.clone()))); casts.push(l(l(x.clone()))); casts.push(u(t(v(x.clone()))));
        casts.push(l(t(v(x.clone())))); casts.push(t(v(l(x.clone())))); casts.push(t(v(u(x.clone()))));
        casts.push(ZeroNotEqual(bx(l(x.clone())))); casts.push(ZeroNotEqual(bx(u(x.clone())))); casts.push(DupIf(bx(v(l(x.clone())))));
        casts.push(NonZero(bx(u(x.clone())))); casts.push(l(ZeroNotEqual(bx(x.clone()))));
        for y in base.iter().take(3) {
            casts.push(and_n(x.clone(), y.clone()));
            casts.push(and_n(u(x.clone()), t(v(y.clone()))));
            casts.push(l(and_n(x.clone(), y.clone()))); casts.push(t(v(and_n(x.clone(), y.clone()))));
            casts.push(and_n(and_n(x.clone(), y.clone()), pk(1)));
            casts.push(AndOr(bx(x.clone()), bx(l(y.clone())), bx(u(pk(1)))));
        }
    }
    let mut out = vec![];
    for c in &casts {
        out.push(c.clone());
        let a = Alt(bx(c.clone()));
        out.push(AndV(bx(v(c.clone())), bx(pk(1)))); out.push(AndV(bx(v(pk(1))), bx(c.clone())));
        out.push(AndB(bx(pk(1)), bx(a.clone()))); out.push(OrB(bx(pk(1)), bx(a.clone()))); out.push(OrB(bx(c.clone()), bx(Alt(bx(pk(1))))));
        out.push(OrD(bx(c.clone()), bx(pk(1)))); out.push(OrD(bx(pk(1)), bx(c.clone()))); out.push(OrI(bx(c.clone()), bx(pk(1))));
        out.push(AndOr(bx(c.clone()), bx(pk(1)), bx(pk(2)))); out.push(AndOr(bx(pk(1)), bx(c.clone()), bx(pk(2)))); out.push(AndOr(bx(pk(1)), bx(pk(2)), bx(c.clone())));
        out.push(AndV(bx(OrC(bx(c.clone()), bx(v(pk(1))))), bx(True)));
        out.push(Thresh(2, vec![pk(1), a.clone(), Alt(bx(pk(2)))]));
        for kk in [1usize, 3] { out.push(Thresh(kk, vec![c.clone(), Alt(bx(pk(1))), a.clone()])); }
    }
    out
}

/// Legacy thresholds whose maximal scriptSig (satisfaction pushes + redeem script + its push
/// opcode, as `check_local_policy_validity` counts it) is EXACTLY 1650 (accepted) and 1651 (refused):
/// searched over mixes of pk_h (compressed / uncompressed), pk_k and hash children and `l:`
/// wrappers, using the size the library itself computes (the redeem script must stay <= 520).
fn legacy_scriptsig_boundary() -> Vec<Node> { legacy_scriptsig_boundary_sized().into_iter().map(|(_, n)| n).collect() }
fn legacy_scriptsig_boundary_sized() -> Vec<(usize, Node)> {
    static T: std::sync::OnceLock<Vec<(usize, Node)>> = std::sync::OnceLock::new();
    T.get_or_init(legacy_scriptsig_boundary_search).clone()
}
fn legacy_scriptsig_boundary_search() -> Vec<(usize, Node)> {
    use Node::*;
    let mut found: Vec<(usize, Node)> = vec![];
    let (mut n50, mut n51) = (0, 0);
    'outer: for u in 0..=3usize { for b in 0..=3usize { for h in 0..=3usize { for a in (4..=13usize).rev() { for t in 0..=14usize {
        let mut kids: Vec<Node> = vec![];
        for i in 0..a { kids.push(Check(bx(PkH((i % 4) as u32)))); }
        for i in 0..u { kids.push(Check(bx(PkH(100 + (i % 4) as u32)))); }
        for i in 0..b { kids.push(Check(bx(PkK(4 + (i % 4) as u32)))); }
        for i in 0..h { kids.push(Hash(HK::Hash160, (i % 4) as u32)); }
        if kids.len() < 2 { continue; }
        for i in 0..t.min(kids.len()) { let k = kids[i].clone(); kids[i] = OrI(bx(False), bx(k)); }
        let n = kids.len();
        let xs: Vec<Node> = kids.into_iter().enumerate().map(|(i, k)| if i == 0 { k } else { Alt(bx(k)) }).collect();
        let node = Thresh(n, xs);
        // the size `Legacy::check_local_policy_validity` compares with 1650: satisfaction pushes
        // + redeem script + its push opcode
        let sz = match ast::to_ms::<PublicKey, Legacy>(&node) {
            Ok(ms) => ms.ext.sat_data.map(|d| {
                let ss = ms.script_size();
                d.max_script_sig_size + ss + if ss < 76 { 1 } else if ss < 0x100 { 2 } else { 3 }
            }),
            Err(_) => None,
        };
        match sz {
            Some(1650) if n50 < 3 => { n50 += 1; found.push((1650, node)); }
            Some(1651) if n51 < 3 => { n51 += 1; found.push((1651, node)); }
            _ => {}
        }
        if n50 >= 3 && n51 >= 3 { break 'outer; }
    } } } } }
    found
}

/// what `decode(encode(ms))` is as a tree: `pk_h` becomes a raw key hash, sorted multis become
/// plain ones with the keys in script order
fn decoded_form(n: &Node) -> Node {
    use Node::*;
    let d = |x: &Node| bx(decoded_form(x));
    match n {
        PkH(k) => RawPkH(*k),
        SortedMulti(k, ks) => { let mut v = ks.clone(); v.sort_by_key(|i| ast::bip67_sort(&ast::full_key(*i))); Multi(*k, v) }
        SortedMultiA(k, ks) => { let mut v = ks.clone(); v.sort_by_key(|i| ast::xonly_key(*i).serialize()); MultiA(*k, v) }
        Alt(x) => Alt(d(x)), Swap(x) => Swap(d(x)), Check(x) => Check(d(x)), DupIf(x) => DupIf(d(x)), Verify(x) => Verify(d(x)),
        NonZero(x) => NonZero(d(x)), ZeroNotEqual(x) => ZeroNotEqual(d(x)),
        AndV(a, b) => AndV(d(a), d(b)), AndB(a, b) => AndB(d(a), d(b)), OrB(a, b) => OrB(d(a), d(b)), OrD(a, b) => OrD(d(a), d(b)),
        OrC(a, b) => OrC(d(a), d(b)), OrI(a, b) => OrI(d(a), d(b)), AndOr(a, b, c) => AndOr(d(a), d(b), d(c)),
        Thresh(k, xs) => Thresh(*k, xs.iter().map(decoded_form).collect()),
        x => x.clone(),
    }
}

/// the decoded and the parsed route to the same fragment: their `ext` (what `lift_check` reads)
/// is filled by the leaf constructors of the decoder / parser, not by `from_ast`
macro_rules! other_routes_impl { ($name:ident, $pk:ty, [$($gen:tt)*]) => {
fn $name<$($gen)*>(out: &mut Out, ctx: CtxK, node: &Node) {
    type Pk = $pk;
    let ms: Miniscript<Pk, Ctx> = match ast::to_ms(node) { Ok(m) => m, Err(_) => return };
    // parsed
    match catch_unwind(AssertUnwindSafe(|| Miniscript::<Pk, Ctx>::from_str_with_validation_params(&ms.to_string(), &miniscript::ValidationParams::MAX))) {
        Ok(Ok(parsed)) if parsed == ms => {
            let ans = lift_answer(catch_unwind(AssertUnwindSafe(|| parsed.lift())));
            out.count(&format!("lift-parsed {} {}", ctx.name(), if ans.starts_with("ERR:") { ans.as_str() } else { answer_class(&ans) }));
            out.line(&format!("C lift {} {}", ctx.name(), node.wire()), &ans);
            out.line(&format!("J liftsem {} {} {}", ctx.name(), node.wire(), ans), "ok");
        }
        Ok(Ok(_)) => out.count("route parsed: different tree (not judged here, C10)"),
        Ok(Err(_)) => out.count("route parsed: refused"),
        Err(_) => out.count("route parsed: panic (C11)"),
    }
    // decoded
    let script = ms.encode();
    let expect = decoded_form(node);
    match catch_unwind(AssertUnwindSafe(|| Miniscript::<Pk, Ctx>::decode_with_validation_params(&script, &miniscript::ValidationParams::MAX))) {
        Ok(Ok(dec)) => {
            match ast::to_ms::<Pk, Ctx>(&expect) {
                Ok(e) if e == dec => {
                    let ans = lift_answer(catch_unwind(AssertUnwindSafe(|| dec.lift())));
                    out.count(&format!("lift-decoded {} {}", ctx.name(), if ans.starts_with("ERR:") { ans.as_str() } else { answer_class(&ans) }));
                    out.line(&format!("C lift {} {}", ctx.name(), expect.wire()), &ans);
                    out.line(&format!("J liftsem {} {} {}", ctx.name(), expect.wire(), ans), "ok");
                    out.line(&format!("J liftrefusal {} {} {}", ctx.name(), expect.wire(), ans), "ok");
                }
                _ => out.count("route decoded: different tree (not judged here, C04)"),
            }
        }
        Ok(Err(_)) => out.count("route decoded: refused"),
        Err(_) => out.count("route decoded: panic (C11)"),
    }
}
} }
other_routes_impl!(other_routes_pk, PublicKey, [Ctx: ScriptContext<Key = PublicKey>]);
other_routes_impl!(other_routes_x, XOnlyPublicKey, [Ctx: ScriptContext<Key = XOnlyPublicKey>]);

/* ------------------------------------------------------------------ descriptors */

#[derive(Clone, Debug)]
enum Shape { Leaf, Node(Box<Shape>, Box<Shape>) }

fn rand_shape(rng: &mut Rng, n: usize) -> Shape {
    if n == 1 { return Shape::Leaf; }
    let l = 1 + rng.below(n - 1);
    Shape::Node(Box::new(rand_shape(rng, l)), Box::new(rand_shape(rng, n - l)))
}

fn build_tree(s: &Shape, leaves: &[Miniscript<XOnlyPublicKey, Tap>], next: &mut usize) -> Option<TapTree<XOnlyPublicKey>> {
    match s {
        Shape::Leaf => { let t = TapTree::leaf(leaves[*next].clone()); *next += 1; Some(t) }
        Shape::Node(l, r) => {
            let lt = build_tree(l, leaves, next)?;
            let rt = build_tree(r, leaves, next)?;
            TapTree::combine(lt, rt).ok()
        }
    }
}

fn desc_lines<Pk: HKey>(out: &mut Out, kind: &str, args: &str, d: Result<Descriptor<Pk>, miniscript::Error>) {
    let d = match d { Ok(d) => d, Err(_) => { out.count(&format!("skipped descriptor-constructor-refused {}", kind)); return } };
    let ans = lift_answer(catch_unwind(AssertUnwindSafe(|| d.lift())));
    out.count(&format!("liftdesc {} {}", kind, if ans.starts_with("ERR:") { ans.as_str() } else { answer_class(&ans) }));
    out.line(&format!("C liftdesc {} {}", kind, args), &ans);
    out.line(&format!("J liftdesc-sem {} {} {}", kind, args, ans), "ok");
    // the inner type's own `lift` (Descriptor::lift only dispatches to it)
    let inner = lift_answer(catch_unwind(AssertUnwindSafe(|| match &d {
        Descriptor::Bare(x) => x.lift(), Descriptor::Pkh(x) => x.lift(), Descriptor::Wpkh(x) => x.lift(),
        Descriptor::Wsh(x) => x.lift(), Descriptor::Sh(x) => x.lift(), Descriptor::Tr(x) => x.lift(),
    })));
    out.line(&format!("C liftdesc {} {}", kind, args), &inner);
    // (an answer equal to the fresh one has just been judged; a DIFFERENT one is judged itself)
    if inner != ans { out.line(&format!("J liftdesc-sem {} {} {}", kind, args, inner), "ok"); }
    // a USED object: script pubkey computed (fills the taproot spend-info cache), then cloned
    let used = lift_answer(catch_unwind(AssertUnwindSafe(|| {
        let _ = d.script_pubkey();
        if let Descriptor::Tr(t) = &d { let _ = t.spend_info(); }
        let d2 = d.clone();
        let first = d.lift();
        let second = d2.lift();
        match (&first, &second) { (Ok(a), Ok(b)) if a != b => Err(miniscript::Error::Unexpected("used and cloned object lift differently".into())), _ => first }
    })));
    out.line(&format!("C liftdesc {} {}", kind, args), &used);
    if used != ans { out.line(&format!("J liftdesc-sem {} {} {}", kind, args, used), "ok"); }
}

/// Every descriptor wrapper over the WHOLE designated corpus of its context (whatever the
/// constructor accepts): wsh and sh(wsh) over Segwitv0, sh over Legacy, bare over Bare, and
/// tr / TapTree with the fragment as the only leaf over Tap.
fn wrapper_routes(out: &mut Out, designated: &[(CtxK, Vec<Node>)]) {
    for (ctx, nodes) in designated {
        for n in nodes {
            match ctx {
                CtxK::Segwitv0 => if let Ok(ms) = ast::to_ms::<PublicKey, Segwitv0>(n) {
                    desc_lines(out, "wsh", &n.wire(), Descriptor::new_wsh(ms.clone()));
                    desc_lines(out, "shwsh", &n.wire(), Descriptor::new_sh_wsh(ms));
                },
                CtxK::Legacy => if let Ok(ms) = ast::to_ms::<PublicKey, Legacy>(n) { desc_lines(out, "sh", &n.wire(), Descriptor::new_sh(ms)); },
                CtxK::Bare => if let Ok(ms) = ast::to_ms::<PublicKey, BareCtx>(n) { desc_lines(out, "bare", &n.wire(), Descriptor::new_bare(ms)); },
                CtxK::Tap => if let Ok(ms) = ast::to_ms::<XOnlyPublicKey, Tap>(n) {
                    let tree = TapTree::leaf(ms);
                    tree_lines(out, std::slice::from_ref(n), &tree);
                    desc_lines(out, "tr", &format!("209 {}", n.wire()), Descriptor::<XOnlyPublicKey>::new_tr(ast::xonly_key(209), Some(tree)));
                },
            }
        }
    }
}

/// wire form of a lifted policy over ANY key type, keys named by `kid` (hashes are not used by
/// the callers)
fn sem_wire_keys<Pk: miniscript::MiniscriptKey>(p: &Semantic<Pk>, kid: &dyn Fn(&Pk) -> String) -> String {
    match p {
        Semantic::Unsatisfiable => "UNSATISFIABLE".into(),
        Semantic::Trivial => "TRIVIAL".into(),
        Semantic::Key(k) => format!("pk({})", kid(k)),
        Semantic::After(t) => format!("after({})", t.to_consensus_u32()),
        Semantic::Older(t) => format!("older({})", t.to_consensus_u32()),
        Semantic::Thresh(t) => {
            let mut s = format!("thresh({}", t.k());
            for x in t.iter() { s.push(','); s.push_str(&sem_wire_keys(x, kid)); }
            s.push(')');
            s
        }
        _ => "?hash".into(),
    }
}

fn keyed_answer<Pk: miniscript::MiniscriptKey>(r: std::thread::Result<Result<Semantic<Pk>, miniscript::Error>>, kid: &dyn Fn(&Pk) -> String) -> String {
    match r {
        Err(_) => "PANIC".into(),
        Ok(Ok(p)) => sem_wire_keys(&p, kid),
        Ok(Err(miniscript::Error::LiftError(LiftError::HeightTimelockCombination))) => "ERR:timelock".into(),
        Ok(Err(miniscript::Error::LiftError(LiftError::BranchExceedResourceLimits))) => "ERR:limits".into(),
        Ok(Err(miniscript::Error::LiftError(LiftError::RawDescriptorLift))) => "ERR:rawpkh".into(),
        Ok(Err(_)) => "ERR:other".into(),
    }
}

/// taproot over key types other than x-only keys: full keys (the two encodings 02X / 03X of one
/// x-only key are DIFFERENT `Pk` values) and `DescriptorPublicKey` (parsed, wildcard xpubs).
/// On the wire every key is named by the x-only key / derivation it stands for.
fn tr_other_key_types(out: &mut Out) {
    use miniscript::bitcoin::secp256k1::Secp256k1;
    use miniscript::{DescriptorPublicKey, Terminal};
    use std::str::FromStr;
    use std::sync::Arc;
    let secp = Secp256k1::new();
    let pos = |i: u32| ast::full_key(i);
    let neg = |i: u32| PublicKey::new(ast::full_key(i).inner.negate(&secp));
    let kid = |pk: &PublicKey| msops::key_id_x(&pk.inner.x_only_public_key().0).map(|i| i.to_string()).unwrap_or("?".into());
    let pkms = |k: PublicKey| -> Option<Miniscript<PublicKey, Tap>> {
        Miniscript::from_ast(Terminal::Check(Arc::new(Miniscript::from_ast(Terminal::PkK(k)).ok()?))).ok()
    };
    // (internal key, leaves as (key, x-only id))
    let cases: Vec<(PublicKey, u32, Vec<(PublicKey, u32)>)> = vec![
        (pos(0), 200, vec![(neg(0), 200)]),
        (neg(0), 200, vec![(pos(0), 200)]),
        (pos(0), 200, vec![(pos(0), 200)]),
        (pos(0), 200, vec![(neg(0), 200), (pos(1), 201)]),
        (neg(1), 201, vec![(pos(0), 200), (neg(0), 200), (pos(1), 201)]),
        (pos(2), 202, vec![(neg(0), 200), (pos(0), 200)]),
    ];
    for (ik, ikid, leaves) in cases {
        let mss: Option<Vec<Miniscript<PublicKey, Tap>>> = leaves.iter().map(|(k, _)| pkms(*k)).collect();
        let mss = match mss { Some(v) => v, None => { out.count("skipped tr-fullkey leaf refused"); continue } };
        let mut tree = TapTree::leaf(mss[0].clone());
        let mut ok = true;
        for m in mss.iter().skip(1) { match TapTree::combine(tree.clone(), TapTree::leaf(m.clone())) { Ok(t) => tree = t, Err(_) => { ok = false; break } } }
        if !ok { continue; }
        let args = format!("{} {}", ikid, leaves.iter().map(|(_, i)| format!("c(pk_k({}))", i)).collect::<Vec<_>>().join(" "));
        match Descriptor::<PublicKey>::new_tr(ik, Some(tree)) {
            Err(_) => out.count("skipped descriptor-constructor-refused tr-fullkey"),
            Ok(d) => {
                let ans = keyed_answer(catch_unwind(AssertUnwindSafe(|| d.lift())), &kid);
                out.count(&format!("liftdesc tr-fullkey {}", answer_class(&ans)));
                out.line(&format!("C liftdesc tr {}", args), &ans);
                out.line(&format!("J liftdesc-sem tr {} {}", args, ans), "ok");
            }
        }
    }
    // parsed descriptors over extended keys with wildcards
    const X: &str = "xpub661MyMwAqRbcFW31YEwpkMuc5THy2PSt5bDMsktWQcFF8syAmRUapSCGu8ED9W6oDMSgv6Zz8idoc4a6mr8BDzTJY47LJhkJ8UB7WEGuduB";
    let dkid = |k: &DescriptorPublicKey| {
        let s = k.to_string();
        if s.ends_with("/0/*") { "200".to_string() } else if s.ends_with("/1/*") { "201".into() } else if s.ends_with("/2/*") { "202".into() } else { "?".into() }
    };
    let x = |i: u32| format!("{}/{}/*", X, i);
    let dcases: Vec<(String, String)> = vec![
        (format!("tr({},{{pk({}),pk({})}})", x(0), x(1), x(0)), "200 c(pk_k(201)) c(pk_k(200))".into()),
        (format!("tr({},pk({}))", x(0), x(0)), "200 c(pk_k(200))".into()),
        (format!("tr({})", x(1)), "201".into()),
        (format!("tr({},{{pk({}),{{pk({}),multi_a(2,{},{})}}}})", x(0), x(1), x(0), x(0), x(1)), "200 c(pk_k(201)) c(pk_k(200)) multi_a(2,200,201)".into()),
        (format!("tr({},{{and_v(v:pk({}),older(10)),pk({})}})", x(2), x(2), x(0)), "202 and_v(v(c(pk_k(202))),older(10)) c(pk_k(200))".into()),
    ];
    for (text, args) in dcases {
        match catch_unwind(AssertUnwindSafe(|| Descriptor::<DescriptorPublicKey>::from_str(&text))) {
            Ok(Ok(d)) => {
                let ans = keyed_answer(catch_unwind(AssertUnwindSafe(|| d.lift())), &dkid);
                out.count(&format!("liftdesc tr-xpub {}", answer_class(&ans)));
                out.line(&format!("C liftdesc tr {}", args), &ans);
                out.line(&format!("J liftdesc-sem tr {} {}", args, ans), "ok");
            }
            _ => out.count("skipped tr-xpub descriptor not parsed"),
        }
    }
}

fn descriptors(out: &mut Out, thorough: bool, rng: &mut Rng, pools: &[(CtxK, Vec<Node>)]) {
    let pool = |c: CtxK| -> &Vec<Node> { &pools.iter().find(|(x, _)| *x == c).unwrap().1 };
    tr_other_key_types(out);
    // the sortedmulti constructors
    for (k, ids) in [(2usize, vec![2u32, 0, 1]), (1, vec![1, 0]), (3, vec![1, 2, 0]), (2, vec![100, 0, 1]), (1, vec![0, 100]), (2, vec![3, 3, 1])] {
        let keys: Vec<PublicKey> = ids.iter().map(|i| ast::full_key(*i)).collect();
        let arg = format!("sortedmulti({},{})", k, ids.iter().map(|i| i.to_string()).collect::<Vec<_>>().join(","));
        if let Ok(t) = miniscript::Threshold::new(k, keys.clone()) { desc_lines(out, "wsh", &arg, Descriptor::<PublicKey>::new_wsh_sortedmulti(t)); }
        if let Ok(t) = miniscript::Threshold::new(k, keys.clone()) { desc_lines(out, "sh", &arg, Descriptor::<PublicKey>::new_sh_sortedmulti(t)); }
        if let Ok(t) = miniscript::Threshold::new(k, keys.clone()) { desc_lines(out, "shwsh", &arg, Descriptor::<PublicKey>::new_sh_wsh_sortedmulti(t)); }
    }
    // single-key outputs
    for k in (0u32..10).chain(100..104) {
        desc_lines(out, "pkh", &k.to_string(), Descriptor::<PublicKey>::new_pkh(ast::full_key(k)));
        desc_lines(out, "wpkh", &k.to_string(), Descriptor::<PublicKey>::new_wpkh(ast::full_key(k)));
        desc_lines(out, "shwpkh", &k.to_string(), Descriptor::<PublicKey>::new_sh_wpkh(ast::full_key(k)));
        desc_lines(out, "bare", &format!("c(pk_k({}))", k), Ok(Descriptor::<PublicKey>::new_pk(ast::full_key(k))));
    }
    // script outputs
    let take = if thorough { 400 } else { 120 };
    let pick = |rng: &mut Rng, v: &Vec<Node>, n: usize| -> Vec<Node> {
        if v.len() <= n { v.clone() } else { (0..n).map(|_| v[rng.below(v.len())].clone()).collect() }
    };
    for n in pick(rng, pool(CtxK::Segwitv0), take) {
        if let Ok(ms) = ast::to_ms::<PublicKey, Segwitv0>(&n) {
            desc_lines(out, "wsh", &n.wire(), Descriptor::new_wsh(ms.clone()));
            desc_lines(out, "shwsh", &n.wire(), Descriptor::new_sh_wsh(ms));
        }
    }
    for n in pick(rng, pool(CtxK::Legacy), take) {
        if let Ok(ms) = ast::to_ms::<PublicKey, Legacy>(&n) { desc_lines(out, "sh", &n.wire(), Descriptor::new_sh(ms)); }
    }
    for n in pool(CtxK::Bare).iter() {
        if let Ok(ms) = ast::to_ms::<PublicKey, BareCtx>(n) { desc_lines(out, "bare", &n.wire(), Descriptor::new_bare(ms)); }
    }
    // taproot: no tree, then 1..4 (6) leaves in random shapes
    for k in [200u32, 201] {
        desc_lines(out, "tr", &k.to_string(), Descriptor::<XOnlyPublicKey>::new_tr(ast::xonly_key(k), None));
    }
    let tp = pool(CtxK::Tap);
    // leaves that are easy to get wrong at the tree level: constants, refused leaves, the
    // internal key repeated in a leaf
    use Node::*;
    let special = vec![
        False, True, Check(bx(PkK(200))), Check(bx(PkK(209))),
        AndV(bx(Verify(bx(Older(1)))), bx(Older(4_194_305))),
        Check(bx(RawPkH(200))),
        OrI(bx(False), bx(Check(bx(PkK(201))))),
        MultiA(2, vec![200, 201, 202]),
        AndV(bx(Verify(bx(Check(bx(PkK(201)))))), bx(False)),
    ];
    let max_leaves = if thorough { 6 } else { 4 };
    let rounds = if thorough { 8000 } else { 600 };
    for r in 0..rounds {
        let n = 1 + (r % max_leaves);
        let mut nodes = vec![];
        let mut mss = vec![];
        while nodes.len() < n {
            let cand = if rng.below(4) == 0 { special[rng.below(special.len())].clone() } else { tp[rng.below(tp.len())].clone() };
            if cand.size() > 14 { continue; }
            if let Ok(ms) = ast::to_ms::<XOnlyPublicKey, Tap>(&cand) { nodes.push(cand); mss.push(ms); }
        }
        let shape = rand_shape(rng, n);
        let tree = match build_tree(&shape, &mss, &mut 0) { Some(t) => t, None => continue };
        // internal key: sometimes one that also occurs in a leaf
        let ik = if rng.below(3) == 0 { 200 + rng.below(3) as u32 } else { 209 };
        let args = format!("{} {}", ik, nodes.iter().map(|x| x.wire()).collect::<Vec<_>>().join(" "));
        out.count(&format!("tr leaves={}", n));
        tree_lines(out, &nodes, &tree);
        desc_lines(out, "tr", &args, Descriptor::<XOnlyPublicKey>::new_tr(ast::xonly_key(ik), Some(tree)));
    }
    // designated tree shapes: 3..8 (16) leaves, left / right caterpillars and balanced trees,
    // duplicate leaves, every entry point (TapTree::lift, Tr::lift, Descriptor::lift)
    let small: Vec<Node> = tp.iter().filter(|n| n.size() <= 8).cloned().collect();
    let max_n = if thorough { 16 } else { 8 };
    let reps = if thorough { 12 } else { 3 };
    for n in 3..=max_n {
        for kind in 0..3 {
            for rep in 0..reps {
                let mut nodes: Vec<Node> = vec![];
                let mut mss = vec![];
                while nodes.len() < n {
                    // duplicates: repeat an earlier leaf every third slot (rep 0: all leaves equal)
                    let cand = if !nodes.is_empty() && (rep == 0 || nodes.len() % 3 == 2) { nodes[rng.below(nodes.len())].clone() }
                        else if rng.below(5) == 0 { special[rng.below(special.len())].clone() }
                        else { small[rng.below(small.len())].clone() };
                    if let Ok(ms) = ast::to_ms::<XOnlyPublicKey, Tap>(&cand) { nodes.push(cand); mss.push(ms); }
                }
                let shape = match kind { 0 => caterpillar(n, true), 1 => caterpillar(n, false), _ => balanced(n) };
                let tree = match build_tree(&shape, &mss, &mut 0) { Some(t) => t, None => continue };
                out.count(&format!("tr designated shape={} leaves={}", ["left-comb", "right-comb", "balanced"][kind], n));
                tree_lines(out, &nodes, &tree);
                let ik = if rep % 2 == 0 { 209 } else { 200 };
                let args = format!("{} {}", ik, nodes.iter().map(|x| x.wire()).collect::<Vec<_>>().join(" "));
                // Tr::lift on the struct itself, then through the Descriptor enum
                match Tr::new(ast::xonly_key(ik), Some(tree.clone())) {
                    Ok(tr) => {
                        let ans = lift_answer(catch_unwind(AssertUnwindSafe(|| tr.lift())));
                        out.count(&format!("liftdesc trdirect {}", if ans.starts_with("ERR:") { ans.as_str() } else { answer_class(&ans) }));
                        out.line(&format!("C liftdesc trdirect {}", args), &ans);
                        out.line(&format!("J liftdesc-sem trdirect {} {}", args, ans), "ok");
                    }
                    Err(_) => out.count("skipped descriptor-constructor-refused trdirect"),
                }
                desc_lines(out, "tr", &args, Descriptor::<XOnlyPublicKey>::new_tr(ast::xonly_key(ik), Some(tree)));
            }
        }
    }
}

fn caterpillar(n: usize, left: bool) -> Shape {
    let mut s = Shape::Leaf;
    for _ in 1..n { s = if left { Shape::Node(Box::new(s), Box::new(Shape::Leaf)) } else { Shape::Node(Box::new(Shape::Leaf), Box::new(s)) }; }
    s
}
fn balanced(n: usize) -> Shape {
    if n == 1 { Shape::Leaf } else { Shape::Node(Box::new(balanced(n / 2)), Box::new(balanced(n - n / 2))) }
}

/// `Liftable for TapTree`, called directly (no internal key, no `Tr::new` validation)
fn tree_lines(out: &mut Out, nodes: &[Node], tree: &TapTree<XOnlyPublicKey>) {
    let args = nodes.iter().map(|x| x.wire()).collect::<Vec<_>>().join(" ");
    let ans = lift_answer(catch_unwind(AssertUnwindSafe(|| tree.lift())));
    out.count(&format!("lifttree {}", if ans.starts_with("ERR:") { ans.as_str() } else { answer_class(&ans) }));
    out.line(&format!("C lifttree {}", args), &ans);
    out.line(&format!("J lifttree-sem {} {}", args, ans), "ok");
}

/* ------------------------------------------------------------------ lift(compile(p)) */

fn c18_answer(r: std::thread::Result<Result<Semantic<String>, miniscript::Error>>) -> String {
    match r {
        Err(_) => "PANIC".into(),
        Ok(Ok(p)) => c18::sp_wire(&p),
        Ok(Err(miniscript::Error::LiftError(LiftError::HeightTimelockCombination))) => "ERR:timelock".into(),
        Ok(Err(miniscript::Error::LiftError(LiftError::BranchExceedResourceLimits))) => "ERR:limits".into(),
        Ok(Err(miniscript::Error::LiftError(LiftError::RawDescriptorLift))) => "ERR:rawpkh".into(),
        Ok(Err(_)) => "ERR:other".into(),
    }
}

/// small concrete policies over distinct keys (the compiler refuses repeated keys)
fn rand_cpolicy(rng: &mut Rng, depth: usize, next_key: &mut u32) -> CA {
    let leaf = |rng: &mut Rng, next_key: &mut u32| -> CA {
        CA::Leaf(match rng.below(10) {
            0 => A::Older(10), 1 => A::Older(4_194_305), 2 => A::After(100), 3 => A::After(500_000_001),
            4 => A::Hash(rng.below(4) as u8, rng.below(2) as u32),
            _ => { *next_key += 1; A::Key(*next_key - 1) }
        })
    };
    if depth == 0 || rng.below(10) < 3 { return leaf(rng, next_key); }
    match rng.below(3) {
        0 => CA::And(vec![rand_cpolicy(rng, depth - 1, next_key), rand_cpolicy(rng, depth - 1, next_key)]),
        1 => CA::Or(vec![(1 + rng.below(9), rand_cpolicy(rng, depth - 1, next_key)), (1 + rng.below(9), rand_cpolicy(rng, depth - 1, next_key))]),
        _ => {
            let n = 2 + rng.below(3);
            let k = 1 + rng.below(n);
            CA::Thresh(k, (0..n).map(|_| rand_cpolicy(rng, depth.saturating_sub(2), next_key)).collect())
        }
    }
}

fn compile_lines(out: &mut Out, thorough: bool, rng: &mut Rng) {
    let mut pols: Vec<CA> = vec![];
    let k = |i: u32| CA::Leaf(A::Key(i));
    // designated: the shapes whose compilation uses andor / or_i / thresh / multi
    pols.push(CA::Or(vec![(9, CA::And(vec![k(0), CA::Leaf(A::Older(10))])), (1, k(1))]));
    pols.push(CA::Or(vec![(1, CA::And(vec![k(0), k(1)])), (1, CA::And(vec![k(2), CA::Leaf(A::After(100))]))]));
    pols.push(CA::Thresh(2, vec![k(0), k(1), k(2)]));
    pols.push(CA::Thresh(2, vec![k(0), k(1), CA::Leaf(A::Older(10))]));
    pols.push(CA::Thresh(2, vec![k(0), CA::Leaf(A::Hash(0, 0)), CA::And(vec![k(1), CA::Leaf(A::After(500_000_001))])]));
    pols.push(CA::And(vec![CA::Or(vec![(1, k(0)), (1, k(1))]), CA::Or(vec![(1, k(2)), (3, CA::Leaf(A::Hash(3, 1)))])]));
    for n in 2..=5u32 { for kk in 1..=n as usize { pols.push(CA::Thresh(kk, (0..n).map(k).collect())); } }
    pols.push(CA::And(vec![CA::Thresh(2, vec![k(0), k(1), k(2)]), CA::Leaf(A::Older(10))]));
    pols.push(CA::Or(vec![(1, CA::Thresh(2, vec![k(0), k(1), k(2)])), (1, CA::And(vec![k(3), CA::Leaf(A::After(100))]))]));
    pols.push(CA::Or(vec![(1, k(0)), (1, CA::Leaf(A::Unsat))]));
    pols.push(CA::And(vec![k(0), CA::Leaf(A::Triv)]));
    pols.push(CA::Or(vec![(1, CA::Leaf(A::Older(10))), (1, CA::Leaf(A::Older(4_194_305)))]));
    for _ in 0..(if thorough { 1500 } else { 320 }) {
        let mut nk = 0;
        let p = rand_cpolicy(rng, 3, &mut nk);
        if nk == 0 || nk > 6 { continue; }
        pols.push(p);
    }
    pols.sort(); pols.dedup();
    const UNSP: u32 = 99;
    for c in &pols {
        let pol = match c18::ca_build(c) { Some(p) => p, None => continue };
        let pw = c18::ca_wire(c);
        let mut one = |out: &mut Out, target: &str, r: Option<std::thread::Result<Result<Semantic<String>, miniscript::Error>>>| {
            match r {
                None => out.count(&format!("compile {} refused", target.split(':').next().unwrap())),
                Some(r) => {
                    let ans = c18_answer(r);
                    out.count(&format!("liftcompile {} {}", target.split(':').next().unwrap(), if ans.starts_with("ERR:") { ans.as_str() } else { answer_class(&ans) }));
                    out.line(&format!("J liftcompile {} {} {}", target, pw, ans), "ok");
                }
            }
        };
        // Concrete::lift itself (the policy must mean what it says)
        one(out, "concrete", Some(catch_unwind(AssertUnwindSafe(|| pol.lift()))));
        macro_rules! ms_target { ($ctx:ty, $name:expr) => {{
            let compiled = catch_unwind(AssertUnwindSafe(|| pol.compile::<$ctx>())).ok().and_then(|r| r.ok());
            one(out, $name, compiled.map(|ms| catch_unwind(AssertUnwindSafe(|| ms.lift()))));
        }}; }
        ms_target!(Segwitv0, "segwitv0");
        ms_target!(Legacy, "legacy");
        ms_target!(Tap, "tap");
        ms_target!(BareCtx, "bare");
        // descriptor entry points: wsh / sh / sh(wsh) / tr (with an unspendable internal key)
        for (name, dctx) in [("wsh", DescriptorCtx::Wsh), ("sh", DescriptorCtx::Sh), ("shwsh", DescriptorCtx::ShWsh)] {
            let d = catch_unwind(AssertUnwindSafe(|| pol.compile_to_descriptor::<Segwitv0>(dctx))).ok().and_then(|r| r.ok());
            let _ = name;
            one(out, &format!("desc-{}", name), d.map(|d| catch_unwind(AssertUnwindSafe(|| d.lift()))));
        }
        let unsp = format!("{:04}", UNSP);
        let d = catch_unwind(AssertUnwindSafe(|| pol.compile_tr(Some(unsp.clone())))).ok().and_then(|r| r.ok());
        one(out, &format!("tr:{}", UNSP), d.map(|d| catch_unwind(AssertUnwindSafe(|| d.lift()))));
    }
    out.note("compile_policies", pols.len().to_string());
}

pub fn run(out: &mut Out, thorough: bool, seed: u64) {
    let hook = std::panic::take_hook();
    std::panic::set_hook(Box::new(|_| {}));
    let mut rng = Rng(seed ^ 0xC07);
    ast::emit_defs(out);
    msops::emit_sig_defs(out);
    let mut n_frag = 0u64;
    let mut pools: Vec<(CtxK, Vec<Node>)> = vec![];
    let mut designated_all: Vec<(CtxK, Vec<Node>)> = vec![];
    for ctx in CtxK::ALL {
        let atoms = ast::default_atoms(ctx, !thorough);
        let mut nodes: Vec<Node> = ast::enumerate(ctx, &atoms, if thorough { 4 } else { 3 }, if thorough { 160 } else { 40 }, &mut rng)
            .into_iter().filter(|t| t.base == Base::B).map(|t| t.node).collect();
        // richer alphabet (both lock units, two hashes, three keys) at depth 2
        if !thorough {
            let atoms2 = ast::default_atoms(ctx, false);
            nodes.extend(ast::enumerate(ctx, &atoms2, 3, 15, &mut rng).into_iter().filter(|t| t.base == Base::B).map(|t| t.node));
        }
        for _ in 0..(if thorough { 2000 } else { 150 }) {
            let sz = 10 + rng.below(30);
            if let Some(n) = ast::random_b(ctx, &mut rng, sz) { nodes.push(n); }
        }
        nodes.sort(); nodes.dedup();
        let enumerated = nodes.len();
        let mut corp = corpus(ctx, thorough);
        corp.extend(ast::dimension_corpus(ctx));
        let n_corp = corp.len();
        let route_nodes: Vec<Node> = {
            let mut v: Vec<Node> = corp.iter().filter(|n| n.size() <= 30).cloned().collect();
            v.sort(); v.dedup();
            // thin slice in quick: every 4th corpus fragment plus the whole dimension corpus
            if thorough { v } else {
                let dim = ast::dimension_corpus(ctx);
                v.into_iter().enumerate().filter(|(i, n)| i % 4 == 0 || dim.contains(n)).map(|(_, n)| n).collect()
            }
        };
        let mut designated: Vec<Node> = corp.clone();
        designated.sort(); designated.dedup();
        nodes.extend(corp);
        nodes.sort(); nodes.dedup();
        out.note(&format!("fragments_{}", ctx.name()), format!("{} distinct ({} enumerated+random, {} corpus entries)", nodes.len(), enumerated, n_corp));
        let designated_set: std::collections::BTreeSet<Node> = designated.iter().cloned().collect();
        let mut accepted = vec![];
        for node in nodes {
            let states = designated_set.contains(&node);
            if with_ctx!(ctx, one_ms(out, ctx, &node, states)) {
                n_frag += 1;
                node.count_frags(out);
                if node.size() <= 40 { accepted.push(node); }
            }
        }
        pools.push((ctx, accepted));
        designated_all.push((ctx, designated));
        for node in &route_nodes {
            match ctx {
                CtxK::Bare => other_routes_pk::<BareCtx>(out, ctx, node),
                CtxK::Legacy => other_routes_pk::<Legacy>(out, ctx, node),
                CtxK::Segwitv0 => other_routes_pk::<Segwitv0>(out, ctx, node),
                CtxK::Tap => other_routes_x::<Tap>(out, ctx, node),
            }
        }
    }
    let lb = legacy_scriptsig_boundary_sized();
    out.note("legacy_scriptsig_boundary", format!("{} scripts with max scriptSig exactly 1650, {} with 1651",
        lb.iter().filter(|(s, _)| *s == 1650).count(), lb.iter().filter(|(s, _)| *s == 1651).count()));
    for (s, n) in &lb {
        // the boundary itself, judged through the model: 1650 lifts, 1651 is refused
        if let Ok(ms) = ast::to_ms::<PublicKey, Legacy>(n) {
            let ans = lift_answer(catch_unwind(AssertUnwindSafe(|| ms.lift())));
            out.count(&format!("legacy scriptSig {} -> {}", s, if ans.starts_with("ERR:") { ans.as_str() } else { "lifted" }));
        }
    }
    descriptors(out, thorough, &mut rng, &pools);
    wrapper_routes(out, &designated_all);
    compile_lines(out, thorough, &mut rng);
    out.note("distinct_nontrivial", n_frag.to_string());
    out.note("domain", "B-typed fragments of every context (enumerated depth 3/4 + richer alphabet depth 2, random to ~60 nodes, corpus: andor arms, constants in or_i/and_v/thresh, nested thresholds every k, repeated keys, sorted/unsorted multi, both lock units in AND and OR position, raw pkh, resource-limit boundaries) and descriptors (pkh, wpkh, sh(wpkh), bare, wsh, sh, sh(wsh), tr with 0-4(6) leaves in random tree shapes incl. constant/refused leaves and a repeated internal key); judged over all subsets of <=5 keys and <=3 preimages x (nLockTime,nSequence) on both sides of every lock. ROUTES over the whole designated corpus (hand corpus + dimension corpus incl. wrapper towers + repeated-children / insane-but-typed / sugar-tower corpora): Miniscript::lift; Descriptor::lift through wsh, sh(wsh), sh, bare and tr / TapTree with the fragment as only leaf (whatever the constructor accepts); the inner type's own lift and a USED (script_pubkey + spend_info computed, cloned) object; the lifted policy after normalized() / at_age / at_lock_time (J liftstate); parsed and decoded routes; Concrete::lift and lift(compile(p))".into());
    std::panic::set_hook(hook);
}
